/-
  Calc/CoroLemmas.lean — structural facts about the coroutine machine (`Calc/Coro.lean`) used by the
  property theorems: `run` is iteration of `step` to a halted state, every step decreases `measure`
  (so `settle` never runs out of fuel), the trace only grows, and the lifetime / cleanup invariant.
-/
import UnifexModel.Calc.Coro
namespace Unifex.Coro
open Unifex.Calc (Outcome)
variable (specs : Nat → LeafSpec)
def iter : Nat → St → St
  | 0, s => s
  | n+1, s => iter n (step specs s)

theorem step_of_halted {s : St} (h : s.halted = true) : step specs s = s := by
  unfold St.halted at h
  unfold step
  split <;> simp_all

theorem iter_of_halted {s : St} (h : s.halted = true) (n : Nat) : iter specs n s = s := by
  induction n with
  | zero => rfl
  | succ n ih => simp [iter, step_of_halted specs h, ih]

theorem iter_add (m n : Nat) (s : St) : iter specs (m + n) s = iter specs n (iter specs m s) := by
  induction m generalizing s with
  | zero => simp [iter]
  | succ m ih => rw [Nat.succ_add]; simp [iter, ih]

theorem run_of_iter_halted (n : Nat) (s : St) (h : (iter specs n s).halted = true) :
    run specs n s = iter specs n s := by
  induction n generalizing s with
  | zero => simp only [iter] at h; simp [run, iter, h]
  | succ n ih =>
    by_cases hs : s.halted = true
    · simp [run, hs, iter_of_halted specs hs]
    · simp only [iter] at h
      simp [run, hs, iter, ih _ h]

theorem Stmt.size_pos (s : Stmt) : 0 < s.size := by
  cases s <;> simp [Stmt.size]

theorem schedHop_frames (s : St) (k : Nat) (o : Outcome) : (schedHop s k o).frames = s.frames := by
  unfold schedHop; simp only []; split <;> rfl

theorem schedHop_weight (s : St) (k : Nat) (o : Outcome) : (schedHop s k o).ctl.weight ≤ 3 := by
  unfold schedHop; simp only []; split <;> simp [Ctl.weight]

theorem schedHop_measure (s : St) (k : Nat) (o : Outcome) :
    (schedHop s k o).measure ≤ 3 * framesMeasure s.frames + 3 := by
  have := schedHop_weight s k o
  simp only [St.measure, schedHop_frames]; omega

theorem leafDone_frames (s : St) (a : Bool) (k : Nat) (o : Outcome) : (leafDone s a k o).frames = s.frames := by
  unfold leafDone; split
  · rfl
  · exact schedHop_frames _ _ _

theorem leafDone_weight (s : St) (a : Bool) (k : Nat) (o : Outcome) : (leafDone s a k o).ctl.weight ≤ 3 := by
  unfold leafDone; split
  · simp [Ctl.weight]
  · exact schedHop_weight _ _ _

theorem leafDone_measure (s : St) (a : Bool) (k : Nat) (o : Outcome) :
    (leafDone s a k o).measure ≤ 3 * framesMeasure s.frames + 3 := by
  have := leafDone_weight s a k o
  simp only [St.measure, leafDone_frames]; omega

@[simp] theorem signal_frames (s : St) (o : Outcome) : (signal s o).frames = s.frames := by
  unfold signal; simp only []; split <;> split <;> rfl

@[simp] theorem signal_ctl (s : St) (o : Outcome) : (signal s o).ctl = .finished := by
  unfold signal; rfl

theorem rootDone_measure (s : St) (o : Outcome) : (rootDone s o).measure = 3 * framesMeasure s.frames := by
  unfold rootDone; simp only []
  split <;> split <;> simp [St.measure, Ctl.weight]

theorem step_measure {s : St} (h : s.halted = false) : (step specs s).measure < s.measure := by
  unfold step
  split
  · -- exec
    rename_i fr rest hc hf
    have hm : s.measure = 3 * (fr.measure + framesMeasure rest) + 2 := by
      simp [St.measure, hc, hf, framesMeasure, Ctl.weight]
    rw [hm]
    unfold execStep
    split
    · simp [beginExit, emit, St.measure, framesMeasure, Frame.measure, Ctl.weight]
    · simp [beginExit, emit, St.measure, framesMeasure, Frame.measure, Ctl.weight]
    · simp [beginExit, emit, St.measure, framesMeasure, Frame.measure, Ctl.weight]
    · rename_i k hk
      have hfm : fr.measure = progSize k + fr.cleanups.length + 3 := by
        simp [Frame.measure, hk, progSize, Stmt.size]; omega
      rw [hfm]
      split <;> simp [St.measure, framesMeasure, Frame.measure, Ctl.weight, hc] <;> omega
    · rename_i k hk
      have hfm : fr.measure = progSize k + fr.cleanups.length + 3 := by
        simp [Frame.measure, hk, progSize, Stmt.size]; omega
      rw [hfm]
      split <;> simp [St.measure, framesMeasure, Frame.measure, Ctl.weight, hc] <;> omega
    · rename_i i t k hk
      have hfm : fr.measure = progSize k + fr.cleanups.length + 3 := by
        simp [Frame.measure, hk, progSize, Stmt.size]; omega
      rw [hfm]
      simp only []
      split
      · refine Nat.lt_of_le_of_lt (leafDone_measure _ _ _ _) ?_
        simp [emit, framesMeasure, Frame.measure]; omega
      · simp [emit, St.measure, framesMeasure, Frame.measure, Ctl.weight]; omega
    · rename_i a l k hk
      have hfm : fr.measure = progSize k + fr.cleanups.length + 4 := by
        simp [Frame.measure, hk, progSize, Stmt.size]; omega
      rw [hfm]
      simp [emit, St.measure, framesMeasure, Frame.measure, Ctl.weight, hc]; omega
    · rename_i i t k hk
      have hfm : fr.measure = progSize k + fr.cleanups.length + 3 := by
        simp [Frame.measure, hk, progSize, Stmt.size]; omega
      rw [hfm]
      simp only []
      split
      · refine Nat.lt_of_le_of_lt (leafDone_measure _ _ _ _) ?_
        simp [emit, framesMeasure, Frame.measure]; omega
      · split
        · split
          · simp [emit, St.measure, framesMeasure, Frame.measure, Ctl.weight]; omega
          · refine Nat.lt_of_le_of_lt (leafDone_measure _ _ _ _) ?_
            simp [emit, framesMeasure, Frame.measure]; omega
        · simp [emit, St.measure, framesMeasure, Frame.measure, Ctl.weight]; omega
    · rename_i p t k hk
      have hfm : fr.measure = progSize p + progSize k + fr.cleanups.length + 5 := by
        simp [Frame.measure, hk, progSize, Stmt.size]; omega
      rw [hfm]
      simp [emit, St.measure, framesMeasure, Frame.measure, Ctl.weight, hc]; omega
    · rename_i n k hk
      have hfm : fr.measure = progSize k + fr.cleanups.length + 4 := by
        simp [Frame.measure, hk, progSize, Stmt.size]; omega
      rw [hfm]
      simp only []
      split <;> split <;> (try split) <;>
        simp [emit, St.measure, framesMeasure, Frame.measure, Ctl.weight, hc] <;> omega
  · -- resume
    rename_i o fr rest hc hf
    have hm : s.measure = 3 * (fr.measure + framesMeasure rest) + 3 := by
      simp [St.measure, hc, hf, framesMeasure, Ctl.weight]
    rw [hm]
    unfold resumeStep
    split
    · simp [St.measure, framesMeasure, Frame.measure, Ctl.weight]
    · split
      · simp [St.measure, framesMeasure, Frame.measure, Ctl.weight]
      · simp [beginExit, emit, St.measure, framesMeasure, Frame.measure, Ctl.weight]
    · simp [St.measure, framesMeasure, Frame.measure, Ctl.weight, hf]
  · -- exit
    rename_i o fr rest hc hf
    have hm : s.measure = 3 * (fr.measure + framesMeasure rest) + 1 := by
      simp [St.measure, hc, hf, framesMeasure, Ctl.weight]
    rw [hm]
    unfold exitStep
    split
    · rename_i a ck q cs hcs
      have hfm : fr.measure = progSize fr.kont + cs.length + 3 := by
        simp [Frame.measure, hcs]; omega
      rw [hfm]
      simp only []
      split
      · simp [emit, St.measure, framesMeasure, Frame.measure, Ctl.weight, hc] <;> try omega
      · split <;> simp [emit, St.measure, framesMeasure, Frame.measure, Ctl.weight, hc] <;> try omega
      · split <;> simp [emit, St.measure, framesMeasure, Frame.measure, Ctl.weight, hc] <;> try omega
    · split
      · simp [St.measure, Frame.measure, Ctl.weight, hc] <;> try omega
      · simp [emit, St.measure, Frame.measure, Ctl.weight] <;> try omega
  · rename_i o hc hf
    rw [rootDone_measure]; simp [St.measure, hc, hf, framesMeasure, Ctl.weight]
  · rename_i o hc hf
    rw [rootDone_measure]; simp [St.measure, hc, hf, framesMeasure, Ctl.weight]
  · exfalso
    unfold St.halted at h
    cases hc : s.ctl <;> cases hf : s.frames <;> simp_all


/-- iterating `step` for `measure s` steps always reaches a halted state -/
theorem iter_measure_halted : ∀ (n : Nat) (s : St), s.measure ≤ n → (iter specs n s).halted = true := by
  intro n
  induction n with
  | zero =>
    intro s hs
    cases hh : s.halted with
    | true => simpa [iter] using hh
    | false => have := step_measure specs hh; omega
  | succ n ih =>
    intro s hs
    cases hh : s.halted with
    | true => rw [iter_of_halted specs hh]; exact hh
    | false =>
      have := step_measure specs hh
      exact ih _ (by omega)

/-- if some number of steps reaches a halted state, `settle` returns exactly that state -/
theorem settle_eq {s : St} {m : Nat} (h : (iter specs m s).halted = true) : settle specs s = iter specs m s := by
  have hN := iter_measure_halted specs (s.measure + 1) s (by omega)
  unfold settle
  rw [run_of_iter_halted specs _ _ hN]
  generalize s.measure + 1 = N at hN ⊢
  by_cases hle : m ≤ N
  · obtain ⟨d, hd⟩ := Nat.exists_eq_add_of_le hle
    subst hd
    rw [iter_add, iter_of_halted specs h]
  · obtain ⟨d, hd⟩ := Nat.exists_eq_add_of_le (Nat.le_of_not_le hle)
    subst hd
    rw [iter_add, iter_of_halted specs hN]

theorem settle_halted (s : St) : (settle specs s).halted = true := by
  have hN := iter_measure_halted specs (s.measure + 1) s (by omega)
  unfold settle
  rw [run_of_iter_halted specs _ _ hN]; exact hN

theorem settle_of_halted {s : St} (h : s.halted = true) : settle specs s = s :=
  settle_eq specs (m := 0) h

theorem settle_eq_iter (s : St) : settle specs s = iter specs (s.measure + 1) s := by
  have hN := iter_measure_halted specs (s.measure + 1) s (by omega)
  unfold settle
  exact run_of_iter_halted specs _ _ hN

end Unifex.Coro
