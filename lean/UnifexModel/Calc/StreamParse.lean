/-
  Calc/StreamParse.lean — line protocol of the stream correspondence (driver side): parse a case line
  into (consumer, stream expression, source scripts, events), run it through `Stream.rootStep`, render
  the canonical observation exactly like harness/evt/stream.cpp does.

    <id> | <consumer> | <stream> | <source specs> | <events>
-/
import UnifexModel.Calc.Parse
import UnifexModel.Calc.Stream

namespace Unifex.Stream
open Unifex.Calc (Outcome Fn SExp tokenize parseS parseFn words sortStr)

def parsePred (s : String) : Option Pred :=
  match s.splitOn ":" with
  | ["even"] => some .even
  | ["ne", c] => c.toNat?.map Pred.ne
  | ["lt", c] => c.toNat?.map Pred.lt
  | ["tie", c, e] => do let c ← c.toNat?; let e ← e.toNat?; pure (.throwIfEq c e)
  | _ => none

def parseCAd (s : String) : Option CAd :=
  match s.splitOn ":" with
  | ["sw"] => some .swallow
  | ["mk", t] => t.toNat?.map CAd.mark
  | _ => none

partial def toSExpr : SExp → Option SExpr
  | .list [.atom "range", .atom a, .atom b] => do let a ← a.toNat?; let b ← b.toNat?; pure (.range a b)
  | .list [.atom "single", .atom v] => v.toNat?.map SExpr.single
  | .list [.atom "never"] => some .neverS
  | .list [.atom "src", .atom i] => i.toNat?.map SExpr.src
  | .list [.atom "tf", .atom f, x] => do let f ← parseFn f; let x ← toSExpr x; pure (.transform f x)
  | .list [.atom "na", .atom f, x] => do let f ← parseFn f; let x ← toSExpr x; pure (.nextAdapt f x)
  | .list [.atom "fi", .atom p, x] => do let p ← parsePred p; let x ← toSExpr x; pure (.filter p x)
  | .list [.atom "si", x] => do let x ← toSExpr x; pure (.stopImmediately x)
  | .list [.atom "te", x] => do let x ← toSExpr x; pure (.typeErase x)
  | .list [.atom "ca", .atom c, x] => do let c ← parseCAd c; let x ← toSExpr x; pure (.cleanupAdapt c x)
  | .list [.atom "ad", .atom f, .atom c, x] => do
    let f ← parseFn f; let c ← parseCAd c; let x ← toSExpr x
    pure (.nextAdapt f (.cleanupAdapt c x))
  | .list [.atom "tu", x, t] => do let x ← toSExpr x; let t ← toSExpr t; pure (.takeUntil x t)
  | .list [.atom "situ", x, t] => do let x ← toSExpr x; let t ← toSExpr t; pure (.takeUntil (.stopImmediately x) t)
  | .list [.atom "tffi", .atom f, .atom p, x] => do
    let f ← parseFn f; let p ← parsePred p; let x ← toSExpr x
    pure (.transform f (.filter p x))
  | _ => none

def parseOut (cs : List Char) : Option Outcome :=
  match cs with
  | 'v' :: r => (String.ofList r).toNat?.map Outcome.value
  | 'e' :: r => (String.ofList r).toNat?.map Outcome.error
  | ['d'] => some .done
  | _ => none

def parseEntry (s : String) : Option NextSpec :=
  match s.toList with
  | 'i' :: r => (parseOut r).map NextSpec.inl
  | 'p' :: r => (parseOut r).map (fun o => .pend o .ignore)
  | 'q' :: r => (parseOut r).map (fun o => .pend o .completeDone)
  | _ => none

def parseCErr (cs : List Char) : Option (Option Nat) :=
  match cs with
  | ['d'] => some none
  | 'e' :: r => (String.ofList r).toNat?.map some
  | _ => none

def parseClean (s : String) : Option CleanSpec :=
  match s.toList with
  | 'i' :: r => (parseCErr r).map CleanSpec.inl
  | 'p' :: r => (parseCErr r).map CleanSpec.pend
  | _ => none

/-- `I=e1,e2,.../clean` -/
def parseSrc (s : String) : Option (Nat × SrcSpec) :=
  match s.splitOn "=" with
  | [i, v] => do
    let i ← i.toNat?
    match v.splitOn "/" with
    | [es, c] => do
      let c ← parseClean c
      let es ← ((es.splitOn ",").filter (fun x => x ≠ "")).mapM parseEntry
      pure (i, ⟨es, c⟩)
    | _ => none
  | _ => none

def specsOf (l : List (Nat × SrcSpec)) (i : Nat) : SrcSpec :=
  match l.lookup i with
  | some s => s
  | none => ⟨[], .inl none⟩

def parseCons (s : String) : Option Consumer :=
  match s.splitOn ":" with
  | ["red", i, m] => do let i ← i.toNat?; let m ← m.toNat?; pure ⟨.reduce, i, m, none⟩
  | ["red", i, m, c, e] => do
    let i ← i.toNat?; let m ← m.toNat?; let c ← c.toNat?; let e ← e.toNat?
    pure ⟨.reduce, i, m, some (c, e)⟩
  | ["fe"] => some ⟨.forEach, 0, 0, none⟩
  | ["fe", c, e] => do let c ← c.toNat?; let e ← e.toNat?; pure ⟨.forEach, 0, 0, some (c, e)⟩
  | ["man"] => some ⟨.manual, 0, 0, none⟩
  | _ => none

def parseREv (s : String) : Option REv :=
  if s = "start" then some .start
  else if s = "stop" then some .stop
  else if s = "next" then some .next
  else if s = "cleanup" then some .cleanup
  else match s.toList with
    | 'n' :: r => (String.ofList r).toNat?.map REv.compNext
    | 'k' :: r => (String.ofList r).toNat?.map REv.compClean
    | _ => none

def renderOutcome (p : String) : Outcome → String
  | .value v => s!"{p}v{v}"
  | .error e => s!"{p}e{e}"
  | .done => s!"{p}d"

def renderOut (forEach : Bool) : Out → String
  | .nextStart i st => s!"ns{i}:{if st then 1 else 0}"
  | .nextStop i => s!"np{i}"
  | .nextDone i => s!"nd{i}"
  | .cleanStart i => s!"ks{i}"
  | .cleanDone i => s!"kd{i}"
  | .mark t => s!"m{t}"
  | .elem v => s!"e{v}"
  | .result o => (match o, forEach with | .value _, true => "R=u" | o, _ => renderOutcome "R=" o)
  | .manNext o => renderOutcome "N=" o
  | .manClean none => "C=d"
  | .manClean (some e) => s!"C=e{e}"
  | .fuelOut => "!!fuel"

def renderEvent (forEach : Bool) (outs : List Out) : String :=
  if outs.isEmpty then "-" else ",".intercalate (sortStr (outs.map (renderOut forEach)))

def minOf (l : List Nat) : Option Nat :=
  l.foldl (fun (m : Option Nat) i => match m with | none => some i | some j => some (min i j)) none

/-- what the drain does next (same rule as the harness) -/
def drainEvent (rt : Root) : Option REv :=
  match minOf rt.op.pendN, minOf rt.op.pendK with
  | some n, some k => some (if n ≤ k then .compNext n else .compClean k)
  | some n, none => some (.compNext n)
  | none, some k => some (.compClean k)
  | none, none =>
    if rt.ph = .finished then none
    else if rt.cons.kind = .manual then
      (if rt.ph = .idle then some .cleanup
       else if rt.ph = .nexting && !rt.stopped then some .stop
       else none)
    else
      (if !rt.started then some .start
       else if !rt.stopped then some .stop
       else none)

def drain (specs : Nat → SrcSpec) (fe : Bool) : Nat → Root → List String → List String
  | 0, _, acc => acc.reverse
  | f+1, rt, acc =>
    match drainEvent rt with
    | some ev =>
      let p := rootStep specs rt ev
      drain specs fe f p.1 (renderEvent fe p.2 :: acc)
    | none => (if rt.ph = .finished then acc else "stuck" :: acc).reverse

def runScript (specs : Nat → SrcSpec) (fe : Bool) : Root → List REv → List String → Root × List String
  | rt, [], acc => (rt, acc.reverse)
  | rt, ev :: evs, acc =>
    if evOk rt ev then
      let p := rootStep specs rt ev
      runScript specs fe p.1 evs (renderEvent fe p.2 :: acc)
    else runScript specs fe rt evs ("bad" :: acc)

def runCase (line : String) : String :=
  match line.splitOn "|" with
  | [id, c, e, sp, evs] =>
    let toks := tokenize e
    match parseS (toks.length + 1) toks, parseCons c.trimAscii.toString with
    | some (sx, _), some cons =>
      match toSExpr sx with
      | some ex =>
        match (words sp).mapM parseSrc, (words evs).mapM parseREv with
        | some specL, some evl =>
          let specs := specsOf specL
          let fe := cons.kind == .forEach
          let (rt, res) := runScript specs fe (Root.init cons ex) evl []
          let dr := drain specs fe 400 rt []
          s!"{id.trimAscii} | {" | ".intercalate (res ++ dr)}"
        | _, _ => "bad-case specs/events"
      | none => "bad-case expr"
    | _, _ => "bad-case parse"
  | _ => "bad-case"

end Unifex.Stream
