/-
  Calc/CtxParse.lean — line protocol of the C11 correspondence (driver side): parse a case line into
  (Expr, leaf specs, external events), run it through `Ctx.step`, render the canonical observation
  exactly like harness/evt/ctx.cpp; evaluate the trait functions for the typed corpus.

    expr  := (just N) (jerr N) (jdone) (leaf N) (sleaf N) (never) (sched S J) (scur J)
             (then FN E) (uns E) (wq S E) (era E) (md E) (dao N E)
             (lv A B) (seq A B) (fin A B) (wa A B) (sw A B)
             (via S J E) (tvia S J E) (on S J E) (wsa S J E)
    S     := i (inline_scheduler) | K (manual scheduler of context K)
    event := s@K (start) | x@K (stop) | cI:vN@K cI:eN@K cI:d@K (complete leaf I) | r@K | R@K (run, min / max tag)
-/
import UnifexModel.Calc.Ctx
import UnifexModel.Calc.Parse

namespace Unifex.Ctx
open Unifex.Calc (SExp tokenize parseS words sortStr)

def parseFn (s : String) : Option Fn :=
  match s.splitOn ":" with
  | ["add", k] => k.toNat?.map Fn.add
  | ["thr", e] => e.toNat?.map Fn.throwAlways
  | ["tie", c, e, k] => do
    let c ← c.toNat?; let e ← e.toNat?; let k ← k.toNat?
    pure (Fn.throwIfEq c e k)
  | _ => none

def parseSched (s : String) : Option Sched :=
  if s = "i" then some .inl else s.toNat?.map Sched.man

/-- `erased`: the harness wraps every node in any_sender_of<int>; the model gets the matching
    explicit `erase` nodes -/
partial def toExpr (erased : Bool) (sx : SExp) : Option Expr :=
  let wrap (e : Expr) : Expr := if erased then .un .erase e else e
  let sub := toExpr erased
  match sx with
  | .list [.atom "just", .atom n] => n.toNat?.map (fun v => wrap (.const (.just v)))
  | .list [.atom "jerr", .atom n] => n.toNat?.map (fun v => wrap (.const (.justError v)))
  | .list [.atom "jdone"] => some (wrap (.const .justDone))
  | .list [.atom "leaf", .atom n] => n.toNat?.map (fun i => wrap (.leaf i))
  | .list [.atom "sleaf", .atom n] => n.toNat?.map (fun i => wrap (.sleaf i))
  | .list [.atom "never"] => some (wrap .never)
  | .list [.atom "sched", .atom s, .atom j] => do let s ← parseSched s; let j ← j.toNat?; pure (wrap (.sched s j))
  | .list [.atom "scur", .atom j] => j.toNat?.map (fun j => wrap (.schedCur j))
  | .list [.atom "then", .atom f, c] => do let f ← parseFn f; let c ← sub c; pure (wrap (.un (.thenF f) c))
  | .list [.atom "uns", c] => do let c ← sub c; pure (wrap (.un .unstoppable c))
  | .list [.atom "wq", .atom s, c] => do let s ← parseSched s; let c ← sub c; pure (wrap (.un (.withSched s) c))
  | .list [.atom "era", c] => do let c ← sub c; pure (wrap (.un .erase c))
  | .list [.atom "md", c] => do let c ← sub c; pure (wrap (.un .matDemat c))
  | .list [.atom "dao", .atom n, c] => do let d ← n.toNat?; let c ← sub c; pure (wrap (.un (.doneAsOpt d) c))
  | .list [.atom "via", .atom s, .atom j, c] => do
    let s ← parseSched s; let j ← j.toNat?; let c ← sub c; pure (wrap (via s j c))
  | .list [.atom "tvia", .atom s, .atom j, c] => do
    let s ← parseSched s; let j ← j.toNat?; let c ← sub c; pure (wrap (typedVia s j c))
  | .list [.atom "on", .atom s, .atom j, c] => do
    let s ← parseSched s; let j ← j.toNat?; let c ← sub c; pure (wrap (on s j c))
  | .list [.atom "wsa", .atom s, .atom j, c] => do
    let s ← parseSched s; let j ← j.toNat?; let c ← sub c; pure (wrap (withAffinity s j c))
  | .list [.atom k, a, b] => do
    let a ← sub a; let b ← sub b
    let kind ← match k with
      | "lv" => some BinKind.letValue | "seq" => some .seq | "fin" => some .fin
      | "wa" => some .whenAll | "sw" => some .stopWhen
      | _ => none
    pure (wrap (.bin kind a b))
  | _ => none

def parseOutcome (s : String) : Option Outcome :=
  match s.toList with
  | 'v' :: r => (String.ofList r).toNat?.map Outcome.value
  | 'e' :: r => (String.ofList r).toNat?.map Outcome.error
  | ['d'] => some .done
  | _ => none

def parseSpec (s : String) : Option (Nat × LeafSpec) :=
  match s.splitOn "=" with
  | [i, v] => do
    let i ← i.toNat?
    match v.splitOn ":" with
    | ["i", o] => do let o ← parseOutcome o; pure (i, .inline o)
    | ["p", "ign"] => pure (i, .pending .ignore)
    | ["p", "done"] => pure (i, .pending .completeDone)
    | _ => none
  | _ => none

def parseXEv (s : String) : Option XEv :=
  match s.splitOn "@" with
  | [e, k] => do
    let k ← k.toNat?
    if e = "s" then pure (.start k)
    else if e = "x" then pure (.stop k)
    else if e = "r" then pure (.run k false)
    else if e = "R" then pure (.run k true)
    else match e.toList with
      | 'c' :: r =>
        match (String.ofList r).splitOn ":" with
        | [i, o] => do let i ← i.toNat?; let o ← parseOutcome o; pure (.complete i o k)
        | _ => none
      | _ => none
  | _ => none

def specsOf (l : List (Nat × LeafSpec)) (i : Nat) : LeafSpec :=
  match l.lookup i with
  | some s => s
  | none => .inline (.value 0)

def renderOut (c : Nat) : Out → String
  | .leafStart i st => s!"ls{i}:{if st then 1 else 0}@{c}"
  | .leafStop i => s!"lp{i}@{c}"
  | .enq k j => s!"q{k}:{j}@{c}"
  | .fuelOut => "!!fuel"

def renderOutcome : Outcome → String
  | .value v => s!"R=v{v}"
  | .error e => s!"R=e{e}"
  | .done => "R=d"

def renderObs (o : Obs) : String :=
  if o.bad then "!!bad-op"
  else
    let items := o.outs.map (renderOut o.ctx) ++
      (match o.sig with | some r => [s!"{renderOutcome r}@{o.ctx}"] | none => [])
    if items.isEmpty then "-" else ",".intercalate (sortStr items)

def minNat (l : List Nat) : Option Nat :=
  l.foldl (fun (m : Option Nat) i => match m with | none => some i | some j => some (min i j)) none

/-- what the harness does after the scripted events: run the lowest non-empty context, else
    complete the lowest pending leaf with done on context 9, else (root still not completed and
    stop not yet requested) request stop on context 0 -/
def drainEv (st : St) (rootDone : Bool) : Option XEv :=
  match minNat (st.q.map (·.1)) with
  | some k => some (.run k false)
  | none =>
    match minNat st.op.pending with
    | some i => some (.complete i .done 9)
    | none => if st.started && !rootDone && !st.stopped then some (.stop 0) else none

def runAll (specs : Nat → LeafSpec) : Nat → St → Bool → List XEv → List String → List String
  | 0, _, _, _, acc => acc.reverse
  | f+1, st, rootDone, x :: xs, acc =>
    let r := step specs st x
    runAll specs f r.1 (rootDone || r.2.sig.isSome) xs (renderObs r.2 :: acc)
  | f+1, st, rootDone, [], acc =>
    match drainEv st rootDone with
    | none => acc.reverse
    | some x =>
      let r := step specs st x
      runAll specs f r.1 (rootDone || r.2.sig.isSome) [] (renderObs r.2 :: acc)

def parseExprStr (erased : Bool) (e : String) : Option Expr :=
  let toks := tokenize e
  match parseS (toks.length + 1) toks with
  | some (sx, _) => toExpr erased sx
  | none => none

/-- `ask ctx run | <id> | <expr> | <specs> | <events>`; the root receiver's scheduler is manual 0 -/
def runCase (erased : Bool) (line : String) : String :=
  match line.splitOn "|" with
  | [id, e, sp, evs] =>
    match parseExprStr erased e with
    | some ex =>
      let specs := specsOf ((words sp).filterMap parseSpec)
      match (words evs).mapM parseXEv with
      | some evl =>
        let res := runAll specs (evl.length + 400) (initSt (.man 0) ex) false evl []
        s!"{id.trimAscii} | {" | ".intercalate res}"
      | none => "bad-op events"
    | none => "bad-op expr"
  | _ => "bad-op"

def renderBlocking : BlockingKind → String
  | .alwaysInline => "always_inline" | .always => "always" | .maybe => "maybe" | .never => "never"

/-- `ask ctx traits | <expr>` (typed corpus: no erasure) -/
def traitsCase (line : String) : String :=
  match parseExprStr false line with
  | some e => s!"b={renderBlocking (blocking e)} a={if affine e then 1 else 0} d={if sendsDone e then 1 else 0}"
  | none => "bad-op expr"

end Unifex.Ctx
