/-
  Calc/StreamSafetyTake3.lean — take_until: the next() and cleanup() clauses, the node's contract
  (`takeUntil_post`) and the contract of the whole evaluator (`deliver_ok`).
-/
import UnifexModel.Calc.StreamSafetyTake2

namespace Unifex.Stream
open Unifex.Calc (Outcome Fn)

theorem take_next_post (rec : Rec) (hrec : RecOK rec) (stopped : Bool) (a t : Op) (st : TakeSt)
    (hg : Good (.takeUntil a t st)) (hl : Legal (.next stopped) (.takeUntil a t st)) :
    Post (.next stopped) (.takeUntil a t st) (takeStep rec (.next stopped) a t st) := by
  obtain ⟨hga, hgt, hi⟩ := hg
  have hph : st.ph = .idle := hl.1
  have hai := hi.t2 hph
  have hsr : st.srcRunning = false := by
    cases h : st.srcRunning
    · rfl
    · have := (hi.t12 h).1; simp_all
  have e : takeStep rec (.next stopped) a t st = (takeNext rec stopped ⟨a, t, st, [], none⟩).res := by
    simp [takeStep, hph]
  rw [e]
  obtain ⟨h2, hf2, hq2⟩ := take_trigStart_ok rec hrec a t st hga hgt hi hph
  simp only [takeNext]
  generalize takeTrigStart rec ⟨a, t, { st with ph := .nexting }, [], none⟩ = x2 at *
  -- x3
  have h3 : TUOK .nexting (if stopped = true then tuRequestStop rec x2 else x2) ∧
      Frame x2 (if stopped = true then tuRequestStop rec x2 else x2) ∧
      Quiet x2 (if stopped = true then tuRequestStop rec x2 else x2) := by
    cases stopped with
    | false => exact ⟨h2, Frame.refl _, ⟨rfl, rfl⟩⟩
    | true =>
      have hs2 : x2.st.srcRunning = false := by rw [hf2.2]; exact hsr
      have hph2 : x2.st.ph = .nexting := hq2.2
      have hc : x2.st.ready = false ∨ x2.st.trigRunning = false := by
        cases hr : x2.st.ready
        · exact Or.inl rfl
        · exact Or.inr (h2.inv.t14 (Or.inr hph2) hr)
      exact ⟨tuRequestStop_ok rec hrec .nexting x2 h2, frame_requestStop rec x2 hs2, quiet_requestStop rec x2 hs2 hc⟩
  generalize (if stopped = true then tuRequestStop rec x2 else x2) = x3 at *
  obtain ⟨h3a, h3f, h3q⟩ := h3
  have hs3 : x3.s = a := by rw [h3f.1, hf2.1]
  have hsr3 : x3.st.srcRunning = false := by rw [h3f.2, hf2.2]; exact hsr
  have hsig3 : x3.sig = none := by rw [h3q.1, hq2.1]
  have hph3 : x3.st.ph = .nexting := by rw [h3q.2, hq2.2]
  refine post_of_tuok (.next stopped) a t st _ .nexting
    (take_srcStart_ok rec hrec x3 h3a hsig3 hph3 (by rw [hs3]; exact hai) hsr3)
    (fun _ => Or.inr ⟨stopped, rfl⟩) (by simp) (Or.inr (Or.inl ⟨⟨stopped, rfl⟩, rfl⟩)) (by simp [Call.isEvent])


/-- the tail of cleanup() once the stop source has been requested -/
def cleanupTail2 (rec : Rec) (x : TU) : TU :=
  if (tuStopTrig rec x).st.ready = true then tuStartTrigCleanup rec (tuStopTrig rec x)
  else { tuStopTrig rec x with st := { (tuStopTrig rec x).st with ready := true } }

theorem cleanupTail2_ok (rec : Rec) (hrec : RecOK rec) (a t : Op) (st0 : TakeSt) (outs : List Out)
    (hga : Good a) (hgt : Good t) (hi0 : TUInv a t st0) (hph0 : st0.ph = .cleaning)
    (hrd0 : st0.ready = false) :
    TUOK .cleaning (cleanupTail2 rec ⟨a, t, st0, outs, none⟩) := by
  unfold cleanupTail2
  by_cases htr : st0.trigRunning = true
  · have hts : st0.trigStarted = true := by
      cases h : st0.trigStarted
      · have := (hi0.t4 h).2.2.1; simp_all
      · rfl
    have ht11 := hi0.t11 htr
    obtain ⟨g, f1, f2, f3, ms, fr⟩ := hrec .stop t hgt trivial
    have e1 : tuStopTrig rec ⟨a, t, st0, outs, none⟩ =
        (match (rec .stop t).2.2 with
         | some (.next _) => ⟨a, (rec .stop t).1, { st0 with trigRunning := false, ready := true }, outs ++ (rec .stop t).2.1, none⟩
         | _ => ⟨a, (rec .stop t).1, st0, outs ++ (rec .stop t).2.1, none⟩) := by
      simp only [tuStopTrig, htr, if_true]
      split <;> simp_all
    rw [e1]
    generalize hr : rec .stop t = r at *
    obtain ⟨t', outs', sg⟩ := r
    simp only at g f1 f2 f3 ms fr
    cases sg with
    | none =>
      have h3' : t'.ph = t.ph ∨ (t.ph = .nexting ∧ t'.ph = .idle) := by
        rcases f3 rfl with h | ⟨⟨s, h⟩, _⟩ | ⟨h, _⟩ | h
        · exact Or.inl h
        · simp at h
        · simp at h
        · exact Or.inr h
      simp only [hrd0, Bool.false_eq_true, if_false]
      refine ⟨hga, g, ?_, by simp [Track, hph0]⟩
      tu_facts hi0
      constructor <;> rcases h3' with h3' | ⟨h3', h3''⟩ <;> rcases ht11 with ht11 | ht11 <;> simp_all
    | some y =>
      cases y with
      | clean e =>
        have := (f2 e rfl).2
        rcases ht11 with h | h <;> simp [h] at this
      | next o =>
        have h1 := (f1 o rfl).1
        simp only [if_true]
        refine tuStartTrigCleanup_ok rec hrec _ ⟨hga, g, ?_, by simp [Track, hph0]⟩ rfl hph0 h1 hts rfl
        tu_facts hi0
        constructor <;> rcases ht11 with ht11 | ht11 <;> simp_all
  · have htr' : st0.trigRunning = false := by simpa using htr
    rw [tframe_stopTrig rec _ htr']
    simp only [hrd0, Bool.false_eq_true, if_false]
    refine ⟨hga, hgt, ?_, by simp [Track, hph0]⟩
    tu_facts hi0
    constructor <;> simp_all

theorem take_cleanupTail_ok (rec : Rec) (hrec : RecOK rec) (a t : Op) (st : TakeSt) (outs : List Out)
    (hga : Good a) (hgt : Good t) (hi : TUInv a t st) (hph : st.ph = .cleaning) (hsr : st.srcRunning = false)
    (hrdy : st.ready = true → t.ph = .idle ∧ st.trigStarted = true ∧ st.trigRunning = false) :
    TUOK .cleaning (takeCleanupTail rec ⟨a, t, st, outs, none⟩) := by
  have hx2 : TUOK .cleaning ⟨a, t, st, outs, none⟩ := ⟨hga, hgt, hi, by simp [Track, hph]⟩
  by_cases hrd : st.ready = true
  · obtain ⟨h1, h2, h3⟩ := hrdy hrd
    have e : takeCleanupTail rec ⟨a, t, st, outs, none⟩ = tuStartTrigCleanup rec ⟨a, t, st, outs, none⟩ := by
      simp [takeCleanupTail, hrd]
    rw [e]
    exact tuStartTrigCleanup_ok rec hrec _ hx2 rfl hph h1 h2 h3
  · have hrd' : st.ready = false := by simpa using hrd
    by_cases hsrc : st.src = true
    · have e : takeCleanupTail rec ⟨a, t, st, outs, none⟩ = ⟨a, t, { st with ready := true }, outs, none⟩ := by
        simp [takeCleanupTail, tuRequestStop, hrd', hsrc]
      rw [e]
      refine ⟨hga, hgt, ?_, by simp [Track, hph]⟩
      tu_facts hi
      constructor <;> simp_all
    · have hsrc' : st.src = false := by simpa using hsrc
      have e : takeCleanupTail rec ⟨a, t, st, outs, none⟩ = cleanupTail2 rec ⟨a, t, { st with src := true }, outs, none⟩ := by
        simp [takeCleanupTail, tuRequestStop, cleanupTail2, hrd', hsrc', hsr]
      rw [e]
      have hi1 : TUInv a t { st with src := true } :=
        ⟨fun _ => rfl, hi.t2, hi.t3, hi.t4, hi.t5, hi.t6, hi.t7, hi.t8, hi.t9, hi.t11, hi.t12, hi.t13, hi.t14, hi.t16⟩
      exact cleanupTail2_ok rec hrec a t _ outs hga hgt hi1 hph hrd'


theorem take_cleanup_post (rec : Rec) (hrec : RecOK rec) (a t : Op) (st : TakeSt)
    (hg : Good (.takeUntil a t st)) (hl : Legal .cleanup (.takeUntil a t st)) :
    Post .cleanup (.takeUntil a t st) (takeStep rec .cleanup a t st) := by
  obtain ⟨hga, hgt, hi⟩ := hg
  have hph : st.ph = .idle := hl
  have hai := hi.t2 hph
  have hsr : st.srcRunning = false := by
    cases h : st.srcRunning
    · rfl
    · have := (hi.t12 h).1; simp_all
  have htn : ¬ (t.ph = .cleaning ∨ t.ph = .cleaned) := fun h => by
    rcases hi.t7 h with h' | h' <;> simp_all
  have hj : st.joined = false := by
    cases h : st.joined
    · rfl
    · have := ((hi.t8 (by simp [hph])).1.1 h); simp_all
  have hrdy : st.ready = true → t.ph = .idle ∧ st.trigStarted = true ∧ st.trigRunning = false := fun hr => by
    refine ⟨hi.t3 (Or.inl hph) hr, ?_, hi.t14 (Or.inl hph) hr⟩
    cases h : st.trigStarted
    · have := (hi.t4 h).2.2.2 hph; simp_all
    · rfl
  have e : takeStep rec .cleanup a t st = (takeCleanup rec ⟨a, t, st, [], none⟩).res := by
    simp [takeStep, hph]
  rw [e]
  obtain ⟨g, f1, f2, f3, ms, fr⟩ := hrec .cleanup a hga hai
  have hi1 : TUInv a t { st with ph := .cleaning, srcOpCtor := st.srcOpCtor + 1 } := by
    tu_facts hi
    constructor <;> simp_all
  simp only [takeCleanup]
  generalize hr : rec .cleanup a = r at *
  obtain ⟨a', outs, sg⟩ := r
  simp only at g f1 f2 f3 ms fr
  have hm : a'.mustStop = true → st.src = true := fun h => by
    rcases ms h with h1 | h1
    · exact hi.t1 h1
    · simp at h1
  refine post_of_tuok .cleanup a t st _ .cleaning ?_ (by simp) (fun _ => Or.inr rfl)
    (Or.inr (Or.inr ⟨rfl, rfl⟩)) (by simp [Call.isEvent])
  cases sg with
  | none =>
    have h3' : a'.ph = .idle ∨ a'.ph = .cleaning := by
      rcases f3 rfl with h | ⟨⟨s, h⟩, _⟩ | ⟨_, h⟩ | ⟨h, _⟩
      · left; rw [h, hai]
      · simp at h
      · exact Or.inr h
      · simp [hai] at h
    dsimp only
    refine take_cleanupTail_ok rec hrec a' t _ _ g hgt ?_ rfl hsr hrdy
    tu_facts hi
    constructor <;> rcases h3' with h3' | h3' <;> simp_all
  | some y =>
    cases y with
    | next o =>
      have := (f1 o rfl).2
      simp [hai] at this
    | clean e =>
      have h2 := (f2 e rfl).1
      have hok := tuJoinSrc_ok a a' t _ ([] ++ outs) e hi1 g hgt rfl (by simp [hai]) (Or.inr hai) h2 hm
      have e2 : tuJoinSrc ⟨a', t, { st with ph := .cleaning, srcOpCtor := st.srcOpCtor + 1 }, [] ++ outs, none⟩ e =
          ⟨a', t, { st with ph := .cleaning, srcOpCtor := st.srcOpCtor + 1, srcOpDtor := st.srcOpDtor + 1,
                            srcErr := firstErr e st.srcErr, joined := true }, [] ++ outs, none⟩ := by
        simp [tuJoinSrc, tuJoin, hj]
      dsimp only
      rw [e2] at hok ⊢
      exact take_cleanupTail_ok rec hrec a' t _ _ hok.ga hok.gt hok.inv rfl hsr hrdy

theorem takeUntil_post (rec : Rec) (hrec : RecOK rec) (c : Call) (a t : Op) (st : TakeSt)
    (hg : Good (.takeUntil a t st)) (hl : Legal c (.takeUntil a t st)) :
    Post c (.takeUntil a t st) (takeStep rec c a t st) := by
  cases c with
  | next s => exact take_next_post rec hrec s a t st hg hl
  | cleanup => exact take_cleanup_post rec hrec a t st hg hl
  | stop => exact take_stop_post rec hrec a t st hg
  | compNext j => exact take_event_post rec hrec (.compNext j) trivial (by simp) a t st hg rfl
  | compClean j => exact take_event_post rec hrec (.compClean j) trivial (by simp) a t st hg rfl

variable (specs : Nat → SrcSpec)

/-- **The protocol contract holds for the evaluator at every fuel**: for every stream expression state
    satisfying the invariant and every call that respects the stream protocol, the node keeps the
    invariant and signals only in the right phase. -/
theorem deliver_ok : ∀ fuel, RecOK (deliver specs fuel) := by
  intro fuel
  induction fuel with
  | zero =>
    intro c op hg hl
    exact ⟨hg, by simp [deliver], by simp [deliver], fun _ => Or.inl rfl, fun h => Or.inl h,
      fun hf _ => ⟨hf, rfl⟩⟩
  | succ n ih =>
    intro c op hg hl
    cases op with
    | leaf k st => simpa [deliver] using leaf_post specs c k st hg hl
    | un k ch => simpa [deliver] using un_post _ ih c k ch hg hl
    | filter p ch s => simpa [deliver] using filter_post _ ih c p ch s hg hl
    | stopImm ch st => simpa [deliver] using stopImm_post _ ih c ch st hg hl
    | takeUntil a t st => simpa [deliver] using takeUntil_post _ ih c a t st hg hl

end Unifex.Stream
