/-
  Calc/Erase.lean — phase bookkeeping facts about `Calc.deliver` needed for the transparency of the
  `erase` node (any_sender_of) — Props/C18.lean.  With at least one unit of fuel:

    * `start_phase`     an idle operation that is started is `finished` if it signalled, else `running`
    * `running_phase`   a running operation that processes an event without signalling stays `running`
    * `running_ignores_start`  a running operation ignores a second `start`
    * `finished_silent` a finished operation produces nothing at all (no outputs either)
-/
import UnifexModel.Calc.StopInv

namespace Unifex.Calc

variable (specs : Nat → LeafSpec)

attribute [local simp] markSrc_ph setRa_ph setRb_ph waRec_ph waAfterChild_ph swAfterChild_ph

/-- the phase a result leaves the operation in agrees with whether it signalled -/
def PhaseOk (r : Res) : Prop := r.1.phase = (if r.2.2.isSome then Phase.finished else Phase.running)

theorem waFinish_phaseOk (k : BinKind) (a b : Op) (st : BinSt) (outs : List Out) (h : st.ph = .running) :
    PhaseOk (waFinish k a b st outs) := by
  unfold waFinish PhaseOk
  split <;> simp [Op.phase, h]

theorem swFinish_phaseOk (a b : Op) (st : BinSt) (outs : List Out) (h : st.ph = .running) :
    PhaseOk (swFinish a b st outs) := by
  unfold swFinish PhaseOk
  split
  · rename_i hc
    simp only [Bool.and_eq_true] at hc
    simp [Op.phase, hc.1]
  · rename_i hc
    cases hra : st.ra <;> simp_all [Op.phase]

theorem unWrap_phaseOk (k : UnKind) (env : Env) (r : Res) : PhaseOk (unWrap k env r) := by
  unfold unWrap PhaseOk
  split <;> simp [Op.phase]

theorem seqAfterFirst_phaseOk (rec : Rec) (k : BinKind) (b : Op) (st : BinSt) (env : Env) (ra : Res) :
    PhaseOk (seqAfterFirst rec k b st env ra) := by
  unfold seqAfterFirst PhaseOk
  cases hra : ra.2.2 with
  | none => simp [Op.phase]
  | some o1 =>
    simp only
    by_cases ht : k.takes o1 = true
    · simp only [ht, if_true]
      cases hrb : (rec (Ev.start (k.succEnv env o1)) b).2.2 <;> simp [Op.phase]
    · simp [ht, Op.phase]

theorem seqSecond_phaseOk (k : BinKind) (a : Op) (st : BinSt) (env : Env) (rb : Res) (h : st.ph = .running) :
    PhaseOk (seqSecond k a st env rb) := by
  unfold seqSecond PhaseOk
  split <;> simp_all [Op.phase]

/-- an idle operation that is started ends up `finished` iff it signalled, else `running` -/
theorem start_phase (fuel : Nat) (env : Env) (op : Op) (h : op.phase = .idle) :
    PhaseOk (deliver specs (fuel + 1) (.start env) op) := by
  cases op with
  | const k ph =>
    simp only [Op.phase] at h; subst h
    simp [deliver, constStep, PhaseOk, Op.phase]
  | leaf i ph nt =>
    simp only [Op.phase] at h; subst h
    cases hsp : specs i with
    | inline o => simp [deliver, leafStep, PhaseOk, hsp, Op.phase]
    | pending r =>
      by_cases hs : env.stopped = true
      · cases r <;> simp [deliver, leafStep, PhaseOk, hsp, hs, Op.phase]
      · simp [deliver, leafStep, PhaseOk, hsp, hs, Op.phase]
  | un k c ph e0 =>
    simp only [Op.phase] at h; subst h
    simp only [deliver, unStep]
    exact unWrap_phaseOk _ _ _
  | bin k a b st =>
    simp only [Op.phase] at h
    cases k <;> simp only [deliver, binStep, waStep, swStep, seqStep, h]
    case whenAll => exact waFinish_phaseOk _ _ _ _ _ (by simp [waStart, BinSt.init])
    case whenAny => exact waFinish_phaseOk _ _ _ _ _ (by simp [waStart, BinSt.init])
    case stopWhen => exact swFinish_phaseOk _ _ _ _ (by simp [swStart, BinSt.init])
    all_goals exact seqAfterFirst_phaseOk _ _ _ _ _ _

/-- a running operation that processes an event: `finished` iff it signalled, else still `running` -/
theorem running_phase (n : Nat) (ev : Ev) (op : Op) (h : op.phase = .running) :
    PhaseOk (deliver specs (n + 1) ev op) := by
  cases n with
  | zero =>
    -- one unit of fuel: composite nodes give their children no fuel, but the phase of the result is
    -- still determined by whether the node signalled
    cases op with
    | const k ph =>
      simp only [Op.phase] at h; subst h
      cases ev <;> simp [deliver, constStep, PhaseOk, Op.phase]
    | leaf i ph nt =>
      simp only [Op.phase] at h; subst h
      cases ev with
      | start env => simp [deliver, leafStep, PhaseOk, Op.phase]
      | stop =>
        cases hsp : specs i with
        | inline o => simp [deliver, leafStep, PhaseOk, hsp, Op.phase]
        | pending r => cases r <;> simp [deliver, leafStep, PhaseOk, hsp, Op.phase]
      | complete j o =>
        simp only [deliver, leafStep, PhaseOk]
        by_cases hij : i = j <;> simp [hij, Op.phase]
    | un k c ph e0 =>
      simp only [Op.phase] at h; subst h
      cases ev with
      | start env => simp [deliver, unStep, PhaseOk, Op.phase]
      | stop =>
        simp only [deliver, unStep]
        split
        · exact unWrap_phaseOk _ _ _
        · simp [PhaseOk, Op.phase]
      | complete j o =>
        simp only [deliver, unStep]
        exact unWrap_phaseOk _ _ _
    | bin k a b st =>
      simp only [Op.phase] at h
      cases k <;> cases ev <;> simp only [deliver, binStep, waStep, swStep, seqStep, h]
      case whenAll.start | whenAny.start | stopWhen.start => simp [PhaseOk, Op.phase, h]
      case whenAll.stop | whenAny.stop =>
        unfold waStop
        split
        · simp [PhaseOk, Op.phase, h]
        · exact waFinish_phaseOk _ _ _ _ _ (by simp [h])
      case whenAll.complete | whenAny.complete => exact waFinish_phaseOk _ _ _ _ _ (by simp [waComplete, h])
      case stopWhen.stop =>
        unfold swStop
        split
        · simp [PhaseOk, Op.phase, h]
        · exact swFinish_phaseOk _ _ _ _ (by simp [h])
      case stopWhen.complete => exact swFinish_phaseOk _ _ _ _ (by simp [swComplete, h])
      all_goals
        first
        | (simp [PhaseOk, Op.phase, h]; done)
        | (cases hs : st.second
           · first
             | exact seqAfterFirst_phaseOk _ _ _ _ _ _
             | simp [PhaseOk, Op.phase, h]
           · first
             | exact seqSecond_phaseOk _ _ _ _ _ h
             | simp [PhaseOk, Op.phase, h])
  | succ n =>
    cases op with
    | const k ph =>
      simp only [Op.phase] at h; subst h
      cases ev <;> simp [deliver, constStep, PhaseOk, Op.phase]
    | leaf i ph nt =>
      simp only [Op.phase] at h; subst h
      cases ev with
      | start env => simp [deliver, leafStep, PhaseOk, Op.phase]
      | stop =>
        cases hsp : specs i with
        | inline o => simp [deliver, leafStep, PhaseOk, hsp, Op.phase]
        | pending r => cases r <;> simp [deliver, leafStep, PhaseOk, hsp, Op.phase]
      | complete j o =>
        simp only [deliver, leafStep, PhaseOk]
        by_cases hij : i = j <;> simp [hij, Op.phase]
    | un k c ph e0 =>
      simp only [Op.phase] at h; subst h
      cases ev with
      | start env => simp [deliver, unStep, PhaseOk, Op.phase]
      | stop =>
        simp only [deliver, unStep]
        split
        · exact unWrap_phaseOk _ _ _
        · simp [PhaseOk, Op.phase]
      | complete j o =>
        simp only [deliver, unStep]
        exact unWrap_phaseOk _ _ _
    | bin k a b st =>
      simp only [Op.phase] at h
      cases k <;> cases ev <;> simp only [deliver, binStep, waStep, swStep, seqStep, h]
      case whenAll.start | whenAny.start | stopWhen.start => simp [PhaseOk, Op.phase, h]
      case whenAll.stop | whenAny.stop =>
        unfold waStop
        split
        · simp [PhaseOk, Op.phase, h]
        · exact waFinish_phaseOk _ _ _ _ _ (by simp [h])
      case whenAll.complete | whenAny.complete => exact waFinish_phaseOk _ _ _ _ _ (by simp [waComplete, h])
      case stopWhen.stop =>
        unfold swStop
        split
        · simp [PhaseOk, Op.phase, h]
        · exact swFinish_phaseOk _ _ _ _ (by simp [h])
      case stopWhen.complete => exact swFinish_phaseOk _ _ _ _ (by simp [swComplete, h])
      all_goals
        first
        | (simp [PhaseOk, Op.phase, h]; done)
        | (cases hs : st.second
           · first
             | exact seqAfterFirst_phaseOk _ _ _ _ _ _
             | simp [PhaseOk, Op.phase, h]
           · first
             | exact seqSecond_phaseOk _ _ _ _ _ h
             | simp [PhaseOk, Op.phase, h])

/-- a running operation ignores `start` completely -/
theorem running_ignores_start (fuel : Nat) (env : Env) (op : Op) (h : op.phase = .running) :
    deliver specs (fuel + 1) (.start env) op = (op, [], none) := by
  cases op with
  | const k ph => simp only [Op.phase] at h; subst h; simp [deliver, constStep]
  | leaf i ph nt => simp only [Op.phase] at h; subst h; simp [deliver, leafStep]
  | un k c ph e0 => simp only [Op.phase] at h; subst h; simp [deliver, unStep]
  | bin k a b st =>
    simp only [Op.phase] at h
    cases k <;> simp [deliver, binStep, waStep, swStep, seqStep, h]

/-- a finished operation produces nothing at all -/
theorem finished_silent (fuel : Nat) (ev : Ev) (op : Op) (h : op.phase = .finished) :
    deliver specs (fuel + 1) ev op = (op, [], none) := by
  cases op with
  | const k ph => simp only [Op.phase] at h; subst h; cases ev <;> simp [deliver, constStep]
  | leaf i ph nt => simp only [Op.phase] at h; subst h; cases ev <;> simp [deliver, leafStep]
  | un k c ph e0 => simp only [Op.phase] at h; subst h; cases ev <;> simp [deliver, unStep]
  | bin k a b st =>
    simp only [Op.phase] at h
    cases k <;> cases ev <;> simp [deliver, binStep, waStep, swStep, seqStep, h]

theorem connect_idle (e : Expr) : (connect e).phase = .idle := by
  cases e <;> simp [connect, Op.phase, BinSt.init]

end Unifex.Calc
