/-
  Proto/Cancellable.lean — atomic-step model of `cancellable<Sender, StopsEarly>` / `try_complete`
  (include/unifex/cancellable.hpp, `_op<NestedOp>::stop_type`, `::type`, `stop_callback`).

  Shared word: `state_` with the bits `stopped = 1`, `started = 2`, `completed = 4` (the
  `non_stop = 8` variant has no stop callback and no start-side logic: `try_complete` is a bare
  `fetch_or(completed)`; it is the sub-protocol `tc` below with `started` irrelevant).
  One step = one atomic operation on `state_` (the three `fetch_or`s, the `StopsEarly` load), on the
  stack-local `sync_complete` flag (load / store / spin), one critical section of the receiver's
  `inplace_stop_source` (registration, deregistration, taking the callback in `request_stop`; the
  source itself is property C03's model, here its lock-protected regions are atomic), or one
  externally visible call (nested `start()`, the `stop()` hook, the receiver's completion).

  Parties (threads of a configuration, in this order):
    `starter`   connects and calls `start()`;  at the very end destroys the op if the receiver
                did not (configurations with `destroy = false`)
    `completer` the nested operation's own completion source ("thread A"): waits until the nested
                op was launched, claims it, calls `try_complete`, completes the receiver with value
    `stopper`   calls `request_stop()` on the receiver's stop source ("thread B")

  The nested operation is the harness' `LeafOp` (harness/rt/scn_c19.cpp), written like the real
  nested ops (v2::async_mutex lock op, v2::async_manual_reset_event wait op): `start()` launches,
  `stop()` claims the op back (`pending.exchange(false)` — the queue removal of the real ones) and
  then `try_complete`s; with `arb = false` both sides rely on `try_complete` alone.

  The receiver DESTROYS the operation state when it is completed (`destroy = true`): `freed`.
  Every access to op memory goes through `touch`, which records `bad := 1` if the op is freed.
-/
import UnifexModel.Core.Reflect

namespace Unifex.Proto.Cancellable
open Unifex.Core

inductive Role | starter | completer | stopper
  deriving DecidableEq, Repr

structure Config where
  early : Bool      -- StopsEarly
  sync : Bool       -- the nested op completes synchronously inside its start()
  arb : Bool        -- the nested op arbitrates completion vs stop() itself
  destroy : Bool    -- the receiver destroys the op state on completion
  roles : List Role

/-- frame kinds: 0 start(), 1 try_complete, 2 stop() hook, 3 stop_callback::operator(),
    5 completer main, 6 request_stop() -/
structure Frame where
  kind : Nat
  pc : Nat
  deriving DecidableEq, Repr

structure Thr where
  ip : Nat             -- 0 = main frame not yet pushed, 1 = pushed, 2 = epilogue done
  ret : Nat            -- return value of the last try_complete on this thread
  stack : List Frame
  deriving DecidableEq, Repr

structure St where
  -- state_ bits
  stopped : Bool
  started : Bool
  completed : Bool
  -- stop_type members / start()'s stack local
  syncPtr : Bool       -- sync_complete_ != nullptr
  syncFlag : Bool      -- the stack-local std::atomic<bool> sync_complete
  localDead : Bool     -- stop_type::start() has returned (the local is out of scope)
  cleanupSet : Bool    -- cleanup_ points to the real lambda (callback constructed)
  -- receiver's stop source and the registered stop_callback_t
  srcStop : Bool
  cbSt : Nat           -- 0 not constructed, 1 in the list, 2 taken by the notifier, 3 callbackCompleted_,
                       -- 4 executed inline at registration (source_ == nullptr), 5 destructed
  cbRunner : Nat       -- notifying thread + 1
  -- the nested op and its completion source
  pending : Bool
  aGo : Nat            -- 0 not launched, 1 launched, 2 op finished without launch
  startedPlain : Bool  -- LeafOp::started_
  freed : Bool         -- history: the op state has been destroyed
  -- history
  completions : Nat
  doneWins : Nat       -- completions through the stop path
  hookRuns : Nat
  nestedStarts : Nat
  tcTrue : Nat         -- try_complete calls that returned true
  startAfterHook : Bool  -- history: the nested start() was called although the stop() hook had run
  hookLate : Bool      -- history: a call of the stop() hook was decided on a state_ value with `completed` set
  bad : Nat            -- 0 ok; 1 op memory touched after destruction; 2 stop() hook entered / running on a
                       -- destroyed op; 3 stop() hook entered after the receiver was completed; 4 store to the
                       -- dead stack local; 6 callback destructed twice /
                       -- unconstructed; 8 receiver completed after destruction
  thrs : List Thr
  deriving DecidableEq, Repr

def init (cfg : Config) : St :=
  { stopped := false, started := false, completed := false, syncPtr := false, syncFlag := false,
    localDead := false, cleanupSet := false, srcStop := false, cbSt := 0, cbRunner := 0,
    pending := false, aGo := 0, startedPlain := false, freed := false, completions := 0, doneWins := 0,
    hookRuns := 0, nestedStarts := 0, tcTrue := 0, startAfterHook := false, hookLate := false, bad := 0,
    thrs := cfg.roles.map (fun _ => ⟨0, 0, []⟩) }

def getThr (s : St) (t : Nat) : Thr := s.thrs.getD t ⟨0, 0, []⟩
def setThr (s : St) (t : Nat) (x : Thr) : St := { s with thrs := s.thrs.set t x }

def goto (s : St) (t : Nat) (pc : Nat) : St :=
  let th := getThr s t
  match th.stack with
  | [] => s
  | f :: fs => setThr s t { th with stack := { f with pc := pc } :: fs }
def push (s : St) (t : Nat) (f : Frame) : St :=
  let th := getThr s t
  setThr s t { th with stack := f :: th.stack }
def pop (s : St) (t : Nat) : St :=
  let th := getThr s t
  setThr s t { th with stack := th.stack.tail }
def setRet (s : St) (t : Nat) (r : Nat) : St :=
  let th := getThr s t
  setThr s t { th with ret := r }

def flag (s : St) (n : Nat) : St := if s.bad = 0 then { s with bad := n } else s

/-- an access to the memory of the operation state -/
def touch (s : St) : St := if s.freed then flag s 1 else s

abbrev Lbl := Nat × Option String
def ev (t : Nat) (txt : String) : Lbl := (t, some txt)
def tau (t : Nat) : Lbl := (t, none)

def othersDone (s : St) (t : Nat) : Bool :=
  (List.range s.thrs.length).all (fun u => u = t || ((getThr s u).stack.isEmpty && (getThr s u).ip ≥ 1))

/-- `~inplace_stop_callback` run by thread `t` (the body of `cleanup_`); `none` = spinning until the
    notifier has finished executing the callback. -/
def dereg (s : St) (t : Nat) : Option St :=
  let s1 := touch s
  match s.cbSt with
  | 1 => some { s1 with cbSt := 5 }                    -- still in the list: unlinked
  | 2 => if s.cbRunner = t + 1 then some { s1 with cbSt := 5 }   -- destructed from inside the callback
         else none                                     -- spin on callbackCompleted_
  | 3 => some { s1 with cbSt := 5 }
  | 4 => some { s1 with cbSt := 5 }
  | _ => some (flag s1 6)

/-- the receiver is completed (`how` 0 = set_value, 1 = set_done); observable -/
def rcv (s : St) (t : Nat) (how : Nat) (pc : Nat) : Lbl × St :=
  let s0 := if s.freed then flag s 8 else s
  let s1 := { s0 with completions := s.completions + 1, doneWins := s.doneWins + how }
  (ev t (if how = 0 then "rcv.value" else "rcv.done"), goto s1 t pc)

/-- the receiver destroys the op (`~stop_type` loads `state_`: `completed` is set, no cleanup) and
    releases the completion source -/
def destroyOp (cfg : Config) (s : St) : St :=
  let s1 := if cfg.destroy && s.completions = 1 then { s with freed := true } else s
  { s1 with aGo := if s.aGo = 0 then 2 else s.aGo }

/-- `nested_op().stop()` is called: push the hook frame (continuing at `pc` afterwards); records whether
    the state_ value the caller has just observed (`s`, the pre-state of the deciding atomic operation)
    already had the `completed` bit -/
def callHook (s s1 : St) (t pc : Nat) : St :=
  push (goto { s1 with hookLate := s1.hookLate || s.completed } t pc) t ⟨2, 0⟩

/-- One step of thread `t`; `none` = disabled (spinning, blocked or finished). -/
def stepThr (cfg : Config) (s : St) (t : Nat) : Option (Lbl × St) :=
  let th := getThr s t
  match th.stack with
  | [] =>
    match cfg.roles.getD t .starter, th.ip with
    | .starter, 0 => some (ev t "start.begin", push (setThr s t { th with ip := 1 }) t ⟨0, 1⟩)
    | .starter, 1 =>
      -- start() has returned; wait for the other threads, then destroy the op if nobody did
      if othersDone s t then
        let s1 := setThr s t { th with ip := 2 }
        some (tau t, if cfg.destroy then s1 else { s1 with freed := true })
      else none
    | .completer, 0 =>
      -- while (a_go == 0) {}  then claim the op (aGo never returns to 0, so the spin exit and the
      -- claim are one step)
      if s.aGo ≠ 0 then
        let took := if cfg.arb then s.pending else decide (s.aGo = 1)
        let s1 := setThr (if cfg.arb then { s with pending := false } else s) t { th with ip := 1 }
        if took then some (ev t "A.take 1", push (push s1 t ⟨5, 2⟩) t ⟨1, 0⟩)
        else some (ev t "A.take 0", s1)
      else none
    | .stopper, 0 => some (ev t "stop.begin", push (setThr s t { th with ip := 1 }) t ⟨6, 1⟩)
    | _, _ => none
  | f :: _ =>
    match f.kind, f.pc with
    -- ---------------- type::start() / stop_type::start()
    | 0, 1 =>  -- construct stop_callback_t (try_add_callback); then cleanup_ = … (plain memory)
      let nxt := if cfg.early then 2 else 3
      if s.srcStop then
        some (tau t, push (goto { (touch s) with cbSt := 4, cleanupSet := true } t nxt) t ⟨3, 0⟩)   -- inline execution
      else some (tau t, goto { (touch s) with cbSt := 1, cleanupSet := true } t nxt)
    | 0, 2 =>  -- StopsEarly: state_.load() & stopped
      if s.stopped then some (tau t, callHook s (touch s) t 9)
      else some (tau t, goto (touch s) t 3)
    | 0, 3 =>  -- sync_complete_ = &sync_complete; unifex::start(nested_op())
      let s1 := { (touch s) with syncPtr := true, startedPlain := true, nestedStarts := s.nestedStarts + 1 }
      let s2 := if s.hookRuns > 0 then { s1 with startAfterHook := true } else s1
      if cfg.sync then some (ev t "nested.start", push (goto s2 t 4) t ⟨1, 0⟩)
      else some (ev t "nested.start", goto { s2 with pending := true, aGo := 1 } t 5)
    | 0, 4 =>  -- (sync) back in LeafOp::start(): if (try_complete) set_value
      if th.ret = 1 then some (rcv s t 0 10) else some (tau t, goto s t 5)
    | 0, 10 => some (tau t, goto (destroyOp cfg s) t 5)
    | 0, 5 =>  -- if (sync_complete.load()) return      [stack local: no access to the op]
      if s.syncFlag then some (tau t, goto s t 9) else some (tau t, goto s t 6)
    | 0, 6 =>  -- state_.fetch_or(started)
      let s1 := { (touch s) with started := true }
      if s.stopped && !s.completed && !s.started then some (tau t, callHook s s1 t 9)   -- nested_op().stop()
      else if s.completed then some (tau t, goto s1 t 8)
      else some (tau t, goto s1 t 9)
    | 0, 8 => if s.syncFlag then some (tau t, goto s t 9) else none   -- spin on the local flag
    | 0, 9 => some (ev t "start.end", pop { s with localDead := s.syncPtr } t)
    -- ---------------- try_complete(self)
    | 1, 0 =>  -- state_.fetch_or(completed)
      let s1 := touch s
      if s.completed then some (tau t, pop (setRet s1 t 0) t)
      else
        let s2 := { s1 with completed := true }
        some (tau t, goto s2 t (if s.started then 2 else 1))
    | 1, 1 =>  -- !(state & started): if (auto* flag = sync_complete_) flag->store(true)
      let s1 := touch s
      if s.syncPtr then
        let s2 := if s.localDead then flag s1 4 else s1
        some (tau t, goto { s2 with syncFlag := true } t 2)
      else some (tau t, goto s1 t 2)
    | 1, 2 =>  -- (*cleanup_)(this); return true
      if s.cleanupSet then
        match dereg s t with
        | some s1 => some (tau t, pop (setRet { s1 with tcTrue := s.tcTrue + 1 } t 1) t)
        | none => none
      else some (tau t, pop (setRet { (touch s) with tcTrue := s.tcTrue + 1 } t 1) t)
    -- ---------------- LeafOp::stop()   (the user's stop hook)
    | 2, 0 =>
      if s.freed then some (ev t "hook.stop", pop (flag s 2) t)
      else
        let s1 := if s.completions > 0 then flag s 3 else s
        some (ev t "hook.stop", goto { s1 with hookRuns := s.hookRuns + 1 } t 1)
    | 2, 1 =>  -- after the user code of the hook
      if s.freed then some (tau t, pop (flag s 2) t)
      else if !s.startedPlain then some (tau t, push (goto s t 2) t ⟨1, 0⟩)   -- StopsEarly: never launched
      else if cfg.arb then
        if s.pending then some (tau t, push (goto { s with pending := false } t 2) t ⟨1, 0⟩)
        else some (tau t, pop s t)
      else some (tau t, push (goto s t 2) t ⟨1, 0⟩)
    | 2, 2 => if th.ret = 1 then some (rcv s t 1 3) else some (tau t, pop s t)
    | 2, 3 => some (tau t, pop (destroyOp cfg s) t)
    -- ---------------- stop_callback::operator()
    | 3, 0 =>  -- state_.fetch_or(stopped)
      let s1 := { (touch s) with stopped := true }
      if s.started && !s.stopped && !s.completed then some (tau t, callHook s s1 t 1)
      else some (tau t, goto s1 t 1)
    | 3, 1 => some (tau t, pop s t)
    -- ---------------- completer main
    | 5, 2 => if th.ret = 1 then some (rcv s t 0 3) else some (tau t, pop s t)
    | 5, 3 => some (tau t, pop (destroyOp cfg s) t)
    -- ---------------- inplace_stop_source::request_stop()
    | 6, 1 =>
      if s.srcStop then some (tau t, goto s t 4)
      else if s.cbSt = 1 then
        some (tau t, push (goto { s with srcStop := true, cbSt := 2, cbRunner := t + 1 } t 2) t ⟨3, 0⟩)
      else some (tau t, goto { s with srcStop := true } t 4)
    | 6, 2 =>  -- if (!removedDuringCallback) callbackCompleted_.store(true)
      if s.cbSt = 2 then some (tau t, goto { (touch s) with cbSt := 3, cbRunner := 0 } t 4)
      else some (tau t, goto { s with cbRunner := 0 } t 4)
    | 6, 4 => some (ev t "stop.end", pop s t)
    | _, _ => none

def sys (cfg : Config) : LSys St Lbl where
  init := init cfg
  next s := (List.range s.thrs.length).filterMap (fun t => stepThr cfg s t)

def obsOf (l : Lbl) : Option String := l.2.map (fun txt => s!"T{l.1} {txt}")

def final (cfg : Config) (s : St) : Bool :=
  (List.range s.thrs.length).all (fun u =>
    (getThr s u).stack.isEmpty &&
      (getThr s u).ip ≥ (if cfg.roles.getD u .starter == .starter then 2 else 1))

/-- Everything C19 asks of `cancellable` except memory safety of the op state:
    * the receiver is completed at most once, `try_complete` returns true at most once;
    * the stop() hook runs at most once, the nested start() at most once, and start() is never called
      after the hook (skip-start mode: the hook runs INSTEAD of start());
    * every call of the hook is decided on a `state_` value without the `completed` bit: the hook is
      never called for an operation whose completion try_complete() has already claimed;
    * the receiver is completed with done only through the hook;
    * no deadlock: a state without enabled step is final (covers the spin on the stack-local flag and
      the wait for a running stop callback inside `cleanup_`);
    * at the end: completed exactly once, and the op state destroyed. -/
def core (cfg : Config) (s : St) : Bool :=
  s.completions ≤ 1 && s.tcTrue ≤ 1 && s.hookRuns ≤ 1 && s.nestedStarts ≤ 1 &&
  !s.startAfterHook && !s.hookLate &&
  (s.doneWins = 0 || s.hookRuns = 1) &&
  ((sys cfg).next s |>.isEmpty |> fun dead => !dead || final cfg s) &&
  (!final cfg s || (s.completions = 1 && s.freed))

/-- `core` plus: nothing touches the op state after the winner has completed the receiver (which
    destroys it), the hook is entered only for a live op whose receiver is not completed, no store
    to the dead stack local, no double destruction of the stop callback. -/
def safe (cfg : Config) (s : St) : Bool := s.bad = 0 && core cfg s

/-! ### coding -/

def b2n (b : Bool) : Nat := if b then 1 else 0
def encFrame (f : Frame) : List Nat := [f.kind, f.pc]
def encThr (t : Thr) : List Nat := t.ip :: t.ret :: t.stack.length :: t.stack.flatMap encFrame

def encSt (s : St) : List Nat :=
  [b2n s.stopped, b2n s.started, b2n s.completed, b2n s.syncPtr, b2n s.syncFlag, b2n s.localDead,
   b2n s.cleanupSet, b2n s.srcStop, s.cbSt, s.cbRunner, b2n s.pending, s.aGo, b2n s.startedPlain,
   b2n s.freed, s.completions, s.doneWins, s.hookRuns, s.nestedStarts, s.tcTrue, b2n s.startAfterHook, b2n s.hookLate, s.bad, s.thrs.length] ++
  s.thrs.flatMap encThr

def decFrames : Nat → List Nat → List Frame × List Nat
  | 0, r => ([], r)
  | n+1, k :: p :: r => let (fs, r') := decFrames n r; (⟨k, p⟩ :: fs, r')
  | _, r => ([], r)

def decThrs : Nat → List Nat → List Thr × List Nat
  | 0, r => ([], r)
  | n+1, ip :: rt :: len :: r =>
    let (fs, r1) := decFrames len r
    let (ts, r2) := decThrs n r1
    (⟨ip, rt, fs⟩ :: ts, r2)
  | _, r => ([], r)

def decSt (l : List Nat) : St :=
  match l with
  | a0 :: a1 :: a2 :: a3 :: a4 :: a5 :: a6 :: a7 :: a8 :: a9 :: a10 :: a11 :: a12 :: a13 :: a14 :: a15 ::
      a16 :: a17 :: a18 :: a19 :: hl :: a20 :: n :: r =>
    let (ths, _) := decThrs n r
    ⟨a0 == 1, a1 == 1, a2 == 1, a3 == 1, a4 == 1, a5 == 1, a6 == 1, a7 == 1, a8, a9, a10 == 1, a11,
     a12 == 1, a13 == 1, a14, a15, a16, a17, a18, a19 == 1, hl == 1, a20, ths⟩
  | _ => { init ⟨false, false, false, false, []⟩ with bad := 99 }

def coded : Coded St :=
  { enc := fun s => packNats 16 (encSt s), dec := fun n => decSt (unpackNats 16 200 n), M := 16381, W := 300 }

/-! ### the scenario configurations (mirrored one-to-one by harness/rt/scn_c19.cpp, c_*) -/

/-- all three parties, the receiver destroys the op on completion -/
def cfgRace : Config := ⟨false, false, true, true, [.starter, .completer, .stopper]⟩
/-- the same with StopsEarly -/
def cfgEarly : Config := ⟨true, false, true, true, [.starter, .completer, .stopper]⟩
/-- no arbitration in the nested op: `try_complete` alone elects the winner; op destroyed at the end -/
def cfgNoArb : Config := ⟨false, false, false, false, [.starter, .completer, .stopper]⟩
/-- synchronous completion inside start() versus a stop request -/
def cfgSync : Config := ⟨false, true, true, true, [.starter, .stopper]⟩
def cfgSyncEarly : Config := ⟨true, true, true, true, [.starter, .stopper]⟩
/-- no stop request at all: completion from thread A races with the rest of start() only -/
def cfgCompleteDuringStart : Config := ⟨false, false, true, true, [.starter, .completer]⟩

def configs : List (String × Config) :=
  [("c_race", cfgRace), ("c_early", cfgEarly), ("c_noarb", cfgNoArb), ("c_sync", cfgSync), ("c_sync_early", cfgSyncEarly),
   ("c_complete_during_start", cfgCompleteDuringStart)]

end Unifex.Proto.Cancellable
