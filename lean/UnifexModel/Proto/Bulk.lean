/-
  Proto/Bulk.lean — `bulk_schedule`'s default `_schedule_receiver::set_value`
  (include/unifex/bulk_schedule.hpp) as an event-emitting program, assembled from the GENERATED
  loop pieces (Generated/BulkLoop.lean) in exactly the statement structure that the translator
  checks literally against the source on every run:

      if (stop_possible) {
        for (chunk_start = outer_init; outer_cond; chunk_start = outer_step) {
          if (stop_requested()) { set_done; return; }
          chunk_end = …;
          if constexpr (unsequenced policies) for (i = inner_u_init; inner_u_cond; i = inner_u_step) set_next(inner_u_arg)
          else                                 for (i = inner_s_init; inner_s_cond; i = inner_s_step) set_next(inner_s_arg)
        }
      } else { the same two loops with the plain_* pieces }
      set_value;

  The stop flag is a parameter: `stopAt = some t` means `stop_requested()` answers true from the
  moment `t` set_next calls have been started... precisely: a check made when `v` set_next calls
  have returned sees `true` iff `t ≤ v` (so `t = 0`: requested before start; `t = k+1`: requested
  from inside / right after the (k+1)-th call, as find_if does); `none` = never requested.
  Loops run on fuel; running out of fuel is the distinct event `Ev.fuelOut`, never silence.
-/
import UnifexModel.Generated.BulkLoop

namespace Unifex.Proto.Bulk
open Unifex.Generated.BulkLoop

inductive Ev
  | next (i : Nat)
  | value
  | done
  | fuelOut
  deriving DecidableEq, Repr

/-- `u` = the receiver's policy is unsequenced_policy or parallel_unsequenced_policy (`if constexpr`). -/
def innerInit (u : Bool) (n cs : Nat) : Nat := if u then inner_u_init n cs else inner_s_init n cs
def innerCond (u : Bool) (n cs i : Nat) : Bool := if u then inner_u_cond n cs i else inner_s_cond n cs i
def innerStep (u : Bool) (n cs i : Nat) : Nat := if u then inner_u_step n cs i else inner_s_step n cs i
def innerArg (u : Bool) (n cs i : Nat) : Nat := if u then inner_u_arg n cs i else inner_s_arg n cs i
def plainInit (u : Bool) (n : Nat) : Nat := if u then plain_u_init n else plain_s_init n
def plainCond (u : Bool) (n i : Nat) : Bool := if u then plain_u_cond n i else plain_s_cond n i
def plainStep (u : Bool) (n i : Nat) : Nat := if u then plain_u_step n i else plain_s_step n i
def plainArg (u : Bool) (n i : Nat) : Nat := if u then plain_u_arg n i else plain_s_arg n i

/-- the inner index loop of one chunk -/
def innerLoop (u : Bool) (n cs : Nat) : Nat → Nat → List Ev
  | 0, _ => [Ev.fuelOut]
  | f+1, i =>
    if innerCond u n cs i then Ev.next (innerArg u n cs i) :: innerLoop u n cs f (innerStep u n cs i) else []

/-- the unchunked loop (stop impossible) -/
def plainLoop (u : Bool) (n : Nat) : Nat → Nat → List Ev
  | 0, _ => [Ev.fuelOut]
  | f+1, i =>
    if plainCond u n i then Ev.next (plainArg u n i) :: plainLoop u n f (plainStep u n i) else []

def stopSeen (stopAt : Option Nat) (visited : Nat) : Bool :=
  match stopAt with
  | none => false
  | some t => decide (t ≤ visited)

theorem stopSeen_none (v : Nat) : stopSeen none v = false := rfl
theorem stopSeen_some (t v : Nat) : stopSeen (some t) v = decide (t ≤ v) := rfl

/-- the outer chunk loop; `visited` = number of set_next calls that have returned -/
def outerLoop (u : Bool) (stopAt : Option Nat) (n ifuel : Nat) : Nat → Nat → Nat → List Ev
  | 0, _, _ => [Ev.fuelOut]
  | f+1, cs, visited =>
    if outer_cond n cs then
      if stopSeen stopAt visited then [Ev.done]
      else
        let body := innerLoop u n cs ifuel (innerInit u n cs)
        body ++ outerLoop u stopAt n ifuel f (outer_step n cs) (visited + body.length)
    else [Ev.value]

/-- `set_value()` of the schedule receiver for `bulk_schedule(sched, n)`.
    `stoppable` = `stop_possible` (the receiver's stop token can ever be requested). -/
def run (u stoppable : Bool) (stopAt : Option Nat) (n : Nat) : List Ev :=
  if stoppable then outerLoop u stopAt n (n + bulk_cancellation_chunk_size + 2) (n + 2) (outer_init n) 0
  else plainLoop u n (n + 2) (plainInit u n) ++ [Ev.value]

/-- the indices passed to set_next, in call order -/
def indices : List Ev → List Nat
  | [] => []
  | Ev.next i :: r => i :: indices r
  | _ :: r => indices r

/-- the terminal signal ("value" / "done" / "fuelOut" / "none") -/
def terminal (l : List Ev) : String :=
  match l.getLast? with
  | some Ev.value => "value"
  | some Ev.done => "done"
  | some Ev.fuelOut => "fuelOut"
  | _ => "none"

/-- number of set_next events that come after the first terminal event (must be 0) -/
def nextsAfterTerminal : List Ev → Nat
  | [] => 0
  | Ev.next _ :: r => nextsAfterTerminal r
  | _ :: r => (indices r).length

/-- `bulk_cancellation_chunk_size` rounded-up multiple: the first chunk boundary at or after `t` -/
def boundaryAfter (t : Nat) : Nat :=
  (t + bulk_cancellation_chunk_size - 1) / bulk_cancellation_chunk_size * bulk_cancellation_chunk_size

end Unifex.Proto.Bulk
