/-
  Proto/PolicyLattice.lean — the four execution policies of include/unifex/execution_policy.hpp as a
  lattice.  A policy is two permissions: may the operations run concurrently on different threads
  (`allowsPar`), may they be interleaved on one thread (`allowsUnseq`):

      seq = (no, no)   unseq = (no, yes)   par = (yes, no)   par_unseq = (yes, yes)

  `le a b` = `a` permits nothing that `b` forbids; `meet` = the permissions both grant.
  Hand-written; the code that COMPUTES policies (bulk_transform's get_execution_policy customisation,
  bulk_join's constant, the default of get_execution_policy, bulk_schedule's choice of the vectorised
  loop) is translated into Generated/BulkPolicy.lean, which is stated against these definitions.
-/
namespace Unifex.Proto.PolicyLattice

inductive Policy
  | seq | unseq | par | par_unseq
  deriving DecidableEq, Repr

def Policy.allowsPar : Policy → Bool
  | .par | .par_unseq => true
  | _ => false

def Policy.allowsUnseq : Policy → Bool
  | .unseq | .par_unseq => true
  | _ => false

def Policy.ofFlags (par unseq : Bool) : Policy :=
  match par, unseq with
  | false, false => .seq
  | false, true => .unseq
  | true, false => .par
  | true, true => .par_unseq

/-- `a` permits nothing that `b` forbids -/
def Policy.le (a b : Policy) : Bool :=
  (!a.allowsPar || b.allowsPar) && (!a.allowsUnseq || b.allowsUnseq)

/-- the permissions granted by both -/
def meet (a b : Policy) : Policy := Policy.ofFlags (a.allowsPar && b.allowsPar) (a.allowsUnseq && b.allowsUnseq)

theorem meet_allowsPar (a b : Policy) : (meet a b).allowsPar = (a.allowsPar && b.allowsPar) := by
  cases a <;> cases b <;> rfl
theorem meet_allowsUnseq (a b : Policy) : (meet a b).allowsUnseq = (a.allowsUnseq && b.allowsUnseq) := by
  cases a <;> cases b <;> rfl

/-- C++ `is_one_of_v<P, A, B, …>` -/
def isOneOf (p : Policy) (l : List Policy) : Bool := l.contains p

def Policy.name : Policy → String
  | .seq => "seq" | .unseq => "unseq" | .par => "par" | .par_unseq => "par_unseq"

def Policy.parse : String → Option Policy
  | "seq" => some .seq | "unseq" => some .unseq | "par" => some .par | "par_unseq" => some .par_unseq
  | _ => none

def Policy.all : List Policy := [.seq, .unseq, .par, .par_unseq]

end Unifex.Proto.PolicyLattice
