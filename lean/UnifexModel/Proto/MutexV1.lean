/-
  Proto/MutexV1.lean — atomic-step model of `unifex::v1::async_mutex`
  (include/unifex/v1/async_mutex.hpp, source/async_mutex_v1.cpp,
  include/unifex/detail/atomic_intrusive_queue.hpp).

  Shared state: `atomicQueue_.head_` — abstracted to `q : Option (List Nat)`:
      none          = the "inactive" sentinel  == mutex UNLOCKED
      some []       = nullptr (active, empty)  == locked, nobody queued
      some (i :: l) = LIFO chain of waiters, most recently enqueued first
  and `pendingQueue_ : List Nat` (plain memory, touched only by the current holder inside
  unlock(); FIFO batch).

  One step = one atomic operation on `head_` plus the plain-memory work up to the next one:
    pc 1  enqueue_or_mark_active: the successful CAS of the retry loop (failed attempts and the
          initial relaxed load have no effect and are not modelled)
    pc 4  unlock(): `pendingQueue_.empty()`, and if not empty pop_front + resume_
    pc 5  try_mark_inactive: `head_.load()`
    pc 6  try_mark_inactive: `compare_exchange_strong(nullptr → inactive)`
    pc 7  try_mark_inactive_or_dequeue_all: `head_.exchange(nullptr)`, make_reversed,
          `pendingQueue_ = …`, pop_front + resume_
  `resume_` calls the receiver's set_value inline on the unlocking thread; the receivers of the
  scenarios run the critical section (pc 3 = inside it) and then call unlock() themselves, so the
  hand-off chain runs on one stack; every call in it is a tail call, hence no explicit stack.

  Observable labels are the strings the C++ scenario prints (harness/rt/scn_c15.cpp, `v1_*`).
-/
import UnifexModel.Core.Reflect

namespace Unifex.Proto.MutexV1
open Unifex.Core

inductive Op
  | lock (i : Nat)     -- connect + start async_lock() with waiter i (its receiver: critical section, unlock)
  | tryCs (k : Nat)    -- try_lock(); on success critical section, unlock()
  | waitAll            -- wait until every other thread has finished
  deriving DecidableEq, Repr

structure Config where
  scripts : List (List Op)
  nw : Nat             -- waiter ids are 0 .. nw-1

structure Thr where
  ip : Nat
  pc : Nat             -- 0 = between two script operations
  arg : Nat            -- the party (waiter id / try id) the thread is currently working for
  isTry : Bool         -- that party is a try_lock caller (event prefix "t") rather than a waiter ("w")
  sawNull : Bool       -- try_mark_inactive: the relaxed load returned nullptr
  deriving DecidableEq, Repr

structure St where
  q : Option (List Nat)
  pending : List Nat
  thrs : List Thr
  comps : List Nat        -- history: completions delivered per waiter
  holders : Nat           -- history: parties between acquisition and their call of unlock()
  arrivals : List Nat     -- history: order of the successful enqueue_or_mark_active CASes
  grants : List Nat       -- history: order of the set_value completions
  bad : Nat               -- history: 0 ok, 4/5 an assertion of atomic_intrusive_queue would fail
  deriving DecidableEq, Repr

def Thr.idle (ip : Nat) : Thr := ⟨ip, 0, 0, false, false⟩

def init (cfg : Config) : St :=
  { q := none, pending := [], thrs := cfg.scripts.map (fun _ => Thr.idle 0),
    comps := List.replicate cfg.nw 0, holders := 0, arrivals := [], grants := [], bad := 0 }

def getThr (s : St) (t : Nat) : Thr := s.thrs.getD t (Thr.idle 0)
def setThr (s : St) (t : Nat) (x : Thr) : St := { s with thrs := s.thrs.set t x }

def thrDone (cfg : Config) (s : St) (u : Nat) : Bool :=
  (getThr s u).pc = 0 && (getThr s u).ip ≥ (cfg.scripts.getD u []).length

def allOthersDone (cfg : Config) (s : St) (t : Nat) : Bool :=
  (List.range s.thrs.length).all (fun u => u = t || thrDone cfg s u)

abbrev Lbl := Nat × Option String
def ev (t : Nat) (txt : String) : Lbl := (t, some txt)
def tau (t : Nat) : Lbl := (t, none)

/-- the receiver of waiter `j` gets set_value on thread `t`: it is now inside the critical section -/
def complete (s : St) (t : Nat) (th : Thr) (j : Nat) : Lbl × St :=
  (ev t s!"w{j}.value",
   setThr { s with comps := s.comps.set j (s.comps.getD j 0 + 1), holders := s.holders + 1,
                   grants := s.grants ++ [j] } t
     { th with pc := 3, arg := j, isTry := false })

/-- One step of thread `t`; `none` = disabled (blocked or finished). -/
def stepThr (cfg : Config) (s : St) (t : Nat) : Option (Lbl × St) :=
  let th := getThr s t
  match th.pc with
  | 0 =>
    match (cfg.scripts.getD t [])[th.ip]? with
    | none => none
    | some (.lock i) => some (ev t s!"lock{i}", setThr s t { th with ip := th.ip + 1, pc := 1, arg := i })
    | some (.tryCs k) =>     -- try_mark_active: CAS(inactive → nullptr)
      match s.q with
      | none =>
        some (ev t s!"t{k}.value",
              setThr { s with q := some [], holders := s.holders + 1 } t
                { th with ip := th.ip + 1, pc := 3, arg := k, isTry := true })
      | some _ => some (ev t s!"t{k}.fail", setThr s t { th with ip := th.ip + 1 })
    | some .waitAll =>
      if allOthersDone cfg s t then some (tau t, setThr s t { th with ip := th.ip + 1 }) else none
  | 1 =>   -- enqueue_or_mark_active(waiter): the successful CAS
    match s.q with
    | none =>
      -- was inactive: mark active, nothing enqueued; start() completes the receiver inline
      some (complete { s with q := some [], arrivals := s.arrivals ++ [th.arg] } t th th.arg)
    | some l =>
      some (tau t, setThr { s with q := some (th.arg :: l), arrivals := s.arrivals ++ [th.arg] } t { th with pc := 0 })
  | 3 =>   -- leave the critical section and call unlock()
    some (ev t (if th.isTry then s!"t{th.arg}.unlock" else s!"w{th.arg}.unlock"),
          setThr { s with holders := s.holders - 1 } t { th with pc := 4 })
  | 4 =>   -- unlock(): if (pendingQueue_.empty()) … else pop_front + resume_
    match s.pending with
    | j :: rest => some (complete { s with pending := rest } t th j)
    | [] => some (tau t, setThr s t { th with pc := 5 })
  | 5 =>   -- try_mark_inactive(): head_.load(relaxed)
    match s.q with
    | none => some (tau t, setThr { s with bad := 4 } t { th with pc := 0 })   -- unlock of an unlocked mutex
    | some [] => some (tau t, setThr s t { th with pc := 6, sawNull := true })
    | some (_ :: _) => some (tau t, setThr s t { th with pc := 7, sawNull := false })
  | 6 =>   -- compare_exchange_strong(nullptr → inactive)
    match s.q with
    | some [] => some (tau t, setThr { s with q := none } t { th with pc := 0 })   -- unlocked; unlock() returns
    | _ => some (tau t, setThr s t { th with pc := 7 })
  | 7 =>   -- head_.exchange(nullptr); make_reversed; pendingQueue_ = …; pop_front; resume_
    match s.q with
    | some l =>
      match l.reverse with
      | j :: rest => some (complete { s with q := some [], pending := rest } t th j)
      | [] => some (tau t, setThr { s with bad := 5 } t { th with pc := 0 })   -- UNIFEX_ASSERT(oldValue != nullptr)
    | none => some (tau t, setThr { s with bad := 5 } t { th with pc := 0 })
  | _ => none

def sys (cfg : Config) : LSys St Lbl where
  init := init cfg
  next s := (List.range s.thrs.length).filterMap (fun t => stepThr cfg s t)

def obsOf (l : Lbl) : Option String := l.2.map (fun txt => s!"T{l.1} {txt}")

def final (cfg : Config) (s : St) : Bool :=
  (List.range s.thrs.length).all (fun u => thrDone cfg s u)

def isPrefix : List Nat → List Nat → Bool
  | [], _ => true
  | _ :: _, [] => false
  | a :: as, b :: bs => a == b && isPrefix as bs

/-- The property as a state predicate:
    * no assertion of the queue fails (`bad = 0`);
    * mutual exclusion: at most one party between acquisition and unlock (`holders ≤ 1`);
    * every waiter completes at most once;
    * no lost waiter: unlocked (`q = none`) ⇒ the pending batch is empty and everybody who arrived
      has been granted the lock;
    * FIFO: the grants are a prefix of the arrivals (order of the enqueue CASes);
    * no deadlock;
    * at the end the mutex is unlocked and every started async_lock completed exactly once. -/
def safe (cfg : Config) (s : St) : Bool :=
  s.bad = 0 &&
  decide (s.holders ≤ 1) &&
  s.comps.all (fun c => decide (c ≤ 1)) &&
  (s.q.isSome || (s.pending.isEmpty && s.grants == s.arrivals && s.holders = 0)) &&
  isPrefix s.grants s.arrivals &&
  ((sys cfg).next s |>.isEmpty |> fun dead => !dead || final cfg s) &&
  (!final cfg s ||
    (s.q.isNone && s.grants == s.arrivals &&
     (List.range cfg.nw).all (fun i =>
        s.comps.getD i 0 = (if cfg.scripts.any (fun sc => sc.contains (.lock i)) then 1 else 0))))

/-! ### coding (untrusted; checked on the fly by `checkClosed`) -/

def b2n (b : Bool) : Nat := if b then 1 else 0
def encList (l : List Nat) : List Nat := l.length :: l
def encThr (t : Thr) : List Nat := [t.ip, t.pc, t.arg, b2n t.isTry, b2n t.sawNull]

def encSt (s : St) : List Nat :=
  (match s.q with | none => [0] | some l => (l.length + 1) :: l) ++ encList s.pending ++ encList s.comps ++
  [s.holders, s.bad] ++ encList s.arrivals ++ encList s.grants ++ [s.thrs.length] ++ s.thrs.flatMap encThr

def decList (l : List Nat) : List Nat × List Nat :=
  match l with
  | n :: r => (r.take n, r.drop n)
  | [] => ([], [])

def decThrs : Nat → List Nat → List Thr
  | n+1, a :: b :: c :: d :: e :: r => ⟨a, b, c, d == 1, e == 1⟩ :: decThrs n r
  | _, _ => []

def decSt (l : List Nat) : St :=
  match l with
  | 0 :: r =>
    let (pe, r1) := decList r
    let (co, r2) := decList r1
    match r2 with
    | ho :: bd :: r3 =>
      let (ar, r4) := decList r3
      let (gr, r5) := decList r4
      match r5 with
      | nt :: r6 => ⟨none, pe, decThrs nt r6, co, ho, ar, gr, bd⟩
      | _ => ⟨none, [], [], [], 0, [], [], 99⟩
    | _ => ⟨none, [], [], [], 0, [], [], 99⟩
  | (n+1) :: r0 =>
    let ql := r0.take n
    let r := r0.drop n
    let (pe, r1) := decList r
    let (co, r2) := decList r1
    match r2 with
    | ho :: bd :: r3 =>
      let (ar, r4) := decList r3
      let (gr, r5) := decList r4
      match r5 with
      | nt :: r6 => ⟨some ql, pe, decThrs nt r6, co, ho, ar, gr, bd⟩
      | _ => ⟨none, [], [], [], 0, [], [], 99⟩
    | _ => ⟨none, [], [], [], 0, [], [], 99⟩
  | [] => ⟨none, [], [], [], 0, [], [], 99⟩

def coded : Coded St :=
  { enc := fun s => packNats 16 (encSt s), dec := fun n => decSt (unpackNats 16 200 n), M := 4093, W := 256 }

/-! ### the scenario configurations (mirrored one-to-one by harness/rt/scn_c15.cpp, `v1_*`) -/

/-- two lockers race on a free mutex. -/
def cfgTwo : Config := ⟨[[.waitAll, .tryCs 9], [.lock 0], [.lock 1]], 2⟩
/-- async_lock races with try_lock and a later unlock. -/
def cfgTry : Config := ⟨[[.waitAll, .tryCs 9], [.lock 0], [.tryCs 2]], 1⟩
/-- T0 is inside the critical section while T1 queues two waiters: one batch of two or two
    batches of one; FIFO in arrival order. -/
def cfgBatch : Config := ⟨[[.tryCs 8, .waitAll, .tryCs 9], [.lock 0, .lock 1]], 2⟩
/-- three lockers on three threads. -/
def cfgThree : Config := ⟨[[.waitAll, .tryCs 9], [.lock 0], [.lock 1], [.lock 2]], 3⟩

def configs : List (String × Config) :=
  [("v1_two", cfgTwo), ("v1_try", cfgTry), ("v1_batch", cfgBatch), ("v1_three", cfgThree)]

end Unifex.Proto.MutexV1
