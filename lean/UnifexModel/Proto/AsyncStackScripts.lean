/-
  Proto/AsyncStackScripts.lean — executable side of the async-stack model (driver, tie):

    * a text syntax for operation scripts (the same one harness/evt/evt_cfg.cpp `ops` understands) and
      the canonical dump of the object graph after every operation (`runOps`) — differential against
      the real functions of tracing/async_stack.hpp;
    * `discOf`: is a script accepted by the discipline automaton, is it balanced;
    * `gen`: seeded generator of scripts (free mode: mostly enabled operations of `step`, sometimes an
      arbitrary one; disciplined mode: only operations `gstep` accepts);
    * the operation sequences the library emits for a few fixed UN-ERASED sender expressions
      (`scenarios`), written with two combinators that transcribe inject_async_stack.hpp:
        `startOp`  = _op_wrapper::start   (_root_and_frame_ref:  root; setParent; activate … ensureFrameDeactivated; ~root)
        `complete` = _rcvr_wrapper::set_* (_root_and_frame: frame; root; copy parent; activate … deactivate; ~root)
      with observation points; harness/evt/chain_cfg.cpp prints the same observations from the real code.
-/
import UnifexModel.Proto.AsyncStack

namespace Unifex.Proto.AsyncStack

/-! ### text syntax -/

def optStr : Option Nat → String
  | some n => toString n
  | none => "-"

def Op.render : Op → String
  | .newFrame => "nf"
  | .setParent f p => s!"sp {f} {p}"
  | .copyParent g f => s!"cp {g} {f}"
  | .rootCtor => "rc"
  | .rootDtor r => s!"rd {r}"
  | .activate r f => s!"act {r} {f}"
  | .deactivate f => s!"deact {f}"
  | .ensureDeactivated r f => s!"ens {r} {f}"
  | .pushCallee a b => s!"push {a} {b}"
  | .popCallee b => s!"pop {b}"
  | .popFromCaller a => s!"popc {a}"
  | .exchangeRoot r => s!"xr {optStr r}"

def renderScript (ops : List Op) : String := ";".intercalate (ops.map Op.render)

def parseOp (s : String) : Option Op :=
  match (s.splitOn " ").filter (fun x => x ≠ "") with
  | ["nf"] => some .newFrame
  | ["sp", f, p] => do pure (.setParent (← f.toNat?) (← p.toNat?))
  | ["cp", g, f] => do pure (.copyParent (← g.toNat?) (← f.toNat?))
  | ["rc"] => some .rootCtor
  | ["rd", r] => do pure (.rootDtor (← r.toNat?))
  | ["act", r, f] => do pure (.activate (← r.toNat?) (← f.toNat?))
  | ["deact", f] => do pure (.deactivate (← f.toNat?))
  | ["ens", r, f] => do pure (.ensureDeactivated (← r.toNat?) (← f.toNat?))
  | ["push", a, b] => do pure (.pushCallee (← a.toNat?) (← b.toNat?))
  | ["pop", b] => do pure (.popCallee (← b.toNat?))
  | ["popc", a] => do pure (.popFromCaller (← a.toNat?))
  | ["xr", "-"] => some (.exchangeRoot none)
  | ["xr", r] => do pure (.exchangeRoot (some (← r.toNat?)))
  | _ => none

def parseScript (s : String) : Option (List Op) :=
  ((s.splitOn ";").filter (fun x => x.trimAscii.toString ≠ "")).mapM parseOp

/-- `c=<cur>;R0=<top>/<next>;…;F0=<parent>/<stackRoot>;…` — exactly what the harness prints -/
def dump (s : St) : String :=
  let rs := (List.range s.nRoots).map (fun i => s!";R{i}={optStr (s.roots i).top}/{optStr (s.roots i).next}")
  let fs := (List.range s.nFrames).map (fun i => s!";F{i}={optStr (s.frames i).parent}/{optStr (s.frames i).root}")
  s!"c={optStr s.cur}" ++ String.join rs ++ String.join fs

/-- run a script on the model, dumping after every operation; `assert` where the real code asserts -/
def runOps : St → List Op → List String → List String
  | _, [], acc => acc.reverse
  | s, o :: os, acc =>
    match step s o with
    | some s' => runOps s' os (dump s' :: acc)
    | none => ("assert" :: acc).reverse

/-- discipline verdict of a script from the empty thread: `accepted <n> balanced=<0|1>` / `rejected@<i>` -/
def discOf (ops : List Op) : String :=
  let rec go (g : G) (i : Nat) : List Op → String
    | [] => s!"accepted {i} balanced={if g.stack.isEmpty then 1 else 0}"
    | o :: os => match gstep g o with
      | some g' => go g' (i + 1) os
      | none => s!"rejected@{i}"
  go G.init 0 ops

/-- accepted by the discipline from the empty thread AND balanced (root stack empty again) -/
def acceptedBalanced (ops : List Op) : Bool :=
  match grun G.init ops with
  | some g => g.stack.isEmpty
  | none => false

/-! ### generator -/

def lcg (x : Nat) : Nat := (x * 6364136223846793005 + 1442695040888963407) % 18446744073709551616
def pick {α : Type} (x : Nat) (l : List α) : Option α := l[(x / 8589934592) % l.length]?

/-- candidate operations by kind; only existing frames and live roots are mentioned (the harness owns
    no other objects) -/
def candidates (s : St) : List (List Op) :=
  let fs := List.range s.nFrames
  let rs := (List.range s.nRoots).filter (fun r => (s.roots r).live)
  [ (if s.nFrames < 6 then [Op.newFrame] else []),
    (if s.nRoots < 5 then [Op.rootCtor] else []),
    fs.flatMap (fun f => fs.map (fun p => Op.setParent f p)),
    fs.flatMap (fun f => fs.map (fun p => Op.copyParent f p)),
    rs.map Op.rootDtor,
    rs.flatMap (fun r => fs.map (fun f => Op.activate r f)),
    fs.map Op.deactivate,
    rs.flatMap (fun r => fs.map (fun f => Op.ensureDeactivated r f)),
    fs.flatMap (fun a => fs.map (fun b => Op.pushCallee a b)),
    fs.map Op.popCallee,
    fs.map Op.popFromCaller,
    (none :: rs.map some).map Op.exchangeRoot ]

/-- one script: `mode = 0` free (7 of 8 picks among the operations `step` enables, 1 of 8 arbitrary —
    a failing operation ends the script), `mode = 1` disciplined (only operations `gstep` accepts) -/
def gen (mode : Nat) : Nat → Nat → St → G → List Op → List Op
  | 0, _, _, _, acc => acc.reverse
  | n+1, x, s, g, acc =>
    let x1 := lcg x
    let x2 := lcg x1
    let x3 := lcg x2
    let cands := candidates s
    let wild := mode = 0 ∧ (x1 / 8589934592) % 8 = 0
    let ok (o : Op) : Bool := if mode = 0 then (step s o).isSome else (gstep g o).isSome
    let kinds := if wild then cands.filter (fun k => !k.isEmpty)
                 else (cands.map (fun k => k.filter ok)).filter (fun k => !k.isEmpty)
    match pick x2 kinds with
    | none => acc.reverse
    | some k =>
      match pick x3 k with
      | none => acc.reverse
      | some o =>
        match step s o with
        | none => (o :: acc).reverse
        | some s' => gen mode n x3 s' ((gstep g o).getD g) (o :: acc)

def genScript (mode seed len : Nat) : List Op := gen mode len (lcg (seed + 1)) St.init G.init []

/-! ### scenarios: what the library emits for fixed expressions -/

inductive Item
  | op (o : Op)
  | obs (label : String)
  deriving Repr

def opsOf : List Item → List Op
  | [] => []
  | .op o :: r => o :: opsOf r
  | .obs _ :: r => opsOf r

/-- the observation of harness/evt/chain_cfg.cpp `as_probe`: number of roots on the thread, length of
    the parent chain from the current root's top frame -/
def observe (s : St) (label : String) : String :=
  let top := match s.cur with | some r => (s.roots r).top | none => none
  s!"as:{label}:roots={rootDepth s (s.nRoots + 1) s.cur}:chain={(trace s (s.nFrames + 1) top).length}"

def runItems : St → Nat → List Item → List String → List String
  | s, _, [], acc => (s!"end:cur={optStr s.cur}" :: acc).reverse
  | s, i, .obs l :: r, acc => runItems s i r (observe s l :: acc)
  | s, i, .op o :: r, acc =>
    match step s o with
    | some s' => runItems s' (i + 1) r acc
    | none => (s!"assert@{i}:{o.render}" :: acc).reverse

/-- the numbers of `runItems` without the rendering: (roots, chain) at every observation point;
    `none` if an assertion fires -/
def obsNums : St → List Item → List (Nat × Nat) → Option (List (Nat × Nat))
  | _, [], acc => some acc.reverse
  | s, .obs _ :: r, acc =>
    let top := match s.cur with | some r => (s.roots r).top | none => none
    obsNums s r ((rootDepth s (s.nRoots + 1) s.cur, (trace s (s.nFrames + 1) top).length) :: acc)
  | s, .op o :: r, acc =>
    match step s o with
    | some s' => obsNums s' r acc
    | none => none

structure B where
  nf : Nat := 0
  nr : Nat := 0
  items : List Item := []     -- reversed

abbrev M := StateM B

def emit (i : Item) : M Unit := modify (fun b => { b with items := i :: b.items })
def obs (l : String) : M Unit := emit (.obs l)
/-- construction of an object that owns an AsyncStackFrame (op_wrapper at connect time, …) -/
def mkFrame : M Nat := do
  let b ← get
  set { b with nf := b.nf + 1, items := .op .newFrame :: b.items }
  pure b.nf
def mkRoot : M Nat := do
  let b ← get
  set { b with nr := b.nr + 1, items := .op .rootCtor :: b.items }
  pure b.nr

/-- `_inject::_op_wrapper::start()`: `_root_and_frame_ref rf{frame_, get_async_stack_frame(receiver_)}; start(op_);` -/
def startOp {α : Type} (f : Nat) (recvFrame : Option Nat) (inner : M α) : M α := do
  let r ← mkRoot
  if let some p := recvFrame then emit (.op (.setParent f p))
  emit (.op (.activate r f))
  let a ← inner
  emit (.op (.ensureDeactivated r f))
  emit (.op (.rootDtor r))
  pure a

/-- `_inject::_rcvr_wrapper::set_value/set_error/set_done`:
    `_root_and_frame rf(get_async_stack_frame(receiver())); set_xxx(std::move(receiver()), …);` -/
def complete {α : Type} (recvFrame : Option Nat) (inner : M α) : M α := do
  let g ← mkFrame
  let r ← mkRoot
  if let some p := recvFrame then emit (.op (.copyParent g p))
  emit (.op (.activate r g))
  let a ← inner
  emit (.op (.deactivate g))
  emit (.op (.rootDtor r))
  pure a

def build (m : M Unit) : List Item := (m.run {}).2.items.reverse

/-- then^n(leaf): connect allocates the frames outermost first; returns them innermost last -/
def connectChain : Nat → M (List Nat)
  | 0 => pure []
  | n+1 => do let f ← mkFrame; let rest ← connectChain n; pure (f :: rest)

/-- nested `start()` calls of a chain of operations whose frames are `fs` (outermost first) -/
def startChain (recv : Option Nat) : List Nat → M Unit → M Unit
  | [], inner => inner
  | f :: fs, inner => startOp f recv (startChain (some f) fs inner)

/-- a completion travelling outwards through the receiver wrappers of the operations `fs`
    (given INNERMOST first): the wrapper of operation `f` looks at the frame of the next outer one -/
def completeChain : List Nat → M Unit → M Unit
  | [], inner => inner
  | [_], inner => complete none inner
  | _ :: g :: fs, inner => complete (some g) (completeChain (g :: fs) inner)

def thenPending (n : Nat) : List Item := build do
  let fs ← connectChain (n + 1)
  startChain none fs (obs "leaf1")
  completeChain fs.reverse (obs "root")

def thenInline (n : Nat) : List Item := build do
  let fs ← connectChain (n + 1)
  startChain none fs (do obs "leaf1"; completeChain fs.reverse (obs "root"))

def scenarios : List (String × List Item) :=
  [ ("then3_pending", thenPending 3),
    ("then3_inline", thenInline 3),
    ("then1_done", thenPending 1),
    -- let_value(just(1), f → leaf): the successor is connected and started inside the predecessor's completion
    ("let_inline", build do
        let f0 ← mkFrame; let f1 ← mkFrame
        startOp f0 none (startOp f1 (some f0) (complete (some f0) do
          let f2 ← mkFrame
          startOp f2 (some f0) (obs "leaf1")))
        complete (some f0) (complete none (obs "root"))),
    -- let_value(leaf1, f → then(leaf2))
    ("let_pending", build do
        let f0 ← mkFrame; let f1 ← mkFrame
        startOp f0 none (startOp f1 (some f0) (obs "leaf1"))
        let f2 ← complete (some f0) do
          let f2 ← mkFrame; let f3 ← mkFrame
          startOp f2 (some f0) (startOp f3 (some f2) (obs "leaf2"))
          pure f2
        complete (some f2) (complete (some f0) (complete none (obs "root")))),
    -- then(when_all(leaf1, then(leaf2)), f)
    ("when_all2", build do
        let f0 ← mkFrame; let f1 ← mkFrame; let f2 ← mkFrame; let f3 ← mkFrame; let f4 ← mkFrame
        startOp f0 none (startOp f1 (some f0) do
          startOp f2 (some f1) (obs "leaf1")
          startOp f3 (some f1) (startOp f4 (some f3) (obs "leaf2")))
        complete (some f1) (pure ())
        complete (some f3) (complete (some f1) (complete (some f0) (complete none (obs "root"))))),
    -- then(any_sender_of<int>{then(leaf)}, f): the type-erased receiver does not forward get_async_stack_frame
    ("erased", build do
        let f0 ← mkFrame; let f1 ← mkFrame; let f2 ← mkFrame; let f3 ← mkFrame
        startOp f0 none (startOp f1 (some f0) (startOp f2 none (startOp f3 (some f2) (obs "leaf1"))))
        complete (some f2) (complete none (complete (some f0) (complete none (obs "root"))))),
    -- sync_wait(then(then(leaf))), leaf completes inline: initial_stack_root { frame; root; activate } … deactivate; ~root
    ("sync_wait", build do
        let fi ← mkFrame
        let r ← mkRoot
        emit (.op (.activate r fi))
        let f0 ← mkFrame; let f1 ← mkFrame; let f2 ← mkFrame
        startOp f0 (some fi) (startOp f1 (some f0) (startOp f2 (some f1) do
          obs "leaf1"
          complete (some f1) (complete (some f0) (complete (some fi) (pure ())))))
        emit (.op (.deactivate fi))
        emit (.op (.rootDtor r))),
    -- the same in a build WITHOUT async stacks: sync_wait.hpp installs initial_stack_root unconditionally,
    -- connect/start/completion emit nothing
    ("sync_wait_nostacks", build do
        let fi ← mkFrame
        let r ← mkRoot
        emit (.op (.activate r fi))
        obs "leaf1"
        emit (.op (.deactivate fi))
        emit (.op (.rootDtor r))) ]

/-! ### then^n(leaf) as plain recursive lists (for the induction in Proto/AsyncStackFamily.lean) -/

/-- `if (parentFrame) frame_->setParentFrame(*parentFrame);` -/
def setParentOps (f : Nat) : Option Nat → List Op
  | some p => [Op.setParent f p]
  | none => []

/-- nested `_op_wrapper::start()` of `k` operations with frames `f, f+1, …` (outermost first) on fresh roots `r, r+1, …` -/
def startNest (recv : Option Nat) (f r : Nat) : Nat → List Op
  | 0 => []
  | k+1 => Op.rootCtor :: (setParentOps f recv ++
            (Op.activate r f :: (startNest (some f) (f+1) (r+1) k ++ [Op.ensureDeactivated r f, Op.rootDtor r])))

/-- a completion travelling outwards through `k` receiver wrappers; the wrapper at depth `k` (counting
    from the outside, 1-based) copies the parent of frame `base + k - 2`, the outermost one has no receiver frame -/
def completeNest (base : Nat) : Nat → Nat → Nat → List Op
  | _, _, 0 => []
  | nf, r, k+1 => Op.newFrame :: Op.rootCtor :: ((if k = 0 then [] else [Op.copyParent nf (base + k - 1)]) ++
      (Op.activate r nf :: (completeNest base (nf + 1) (r + 1) k ++ [Op.deactivate nf, Op.rootDtor r])))

/-- then^n(leaf), leaf pending: connect (n+1 frames, outermost first), start, completion -/
def thenOps (n : Nat) : List Op :=
  List.replicate (n + 1) Op.newFrame ++ startNest none 0 0 (n + 1) ++ completeNest 0 (n + 1) (n + 1) (n + 1)

/-- the answer to `ask asyncstack <scenario> |` -/
def scenarioAnswer (items : List Item) : String :=
  " | ".intercalate (runItems St.init 0 items []) ++ " | disc " ++ discOf (opsOf items)

end Unifex.Proto.AsyncStack
