/-
  Proto/AnyObjectLemmas.lean — the ownership invariant of the any_object / any_unique model and its
  preservation by every primitive action, hence by every operation (used by Props/C18.lean).

  `Inv s`: the payloads referenced by the wrapper variables 0..2 and by the caller's temporary
  (pseudo-variable 3) are pairwise distinct, have been constructed (`id < next`) and never destroyed;
  every other constructed payload has been destroyed exactly once; ids not yet handed out were never
  destroyed; per allocator, allocations = deallocations + heap states currently owned by a wrapper;
  no copy was ever made.
-/
import UnifexModel.Proto.AnyObject

namespace Unifex.Proto.AnyObject

/-- the payload a wrapper owns -/
def Slot.ref : Slot → Option Nat
  | .inl id => some id
  | .heap id _ => some id
  | _ => Option.none

/-- 1 if the wrapper owns a heap state allocated through allocator `a` -/
def Slot.hcA (a : Nat) : Slot → Nat
  | .heap _ b => if b = a then 1 else 0
  | _ => 0

structure Inv (s : St) : Prop where
  own_lt : ∀ i id, i < 4 → (s.slot i).ref = some id → id < s.next
  uniq : ∀ i j id, i < 4 → j < 4 → (s.slot i).ref = some id → (s.slot j).ref = some id → i = j
  live : ∀ i id, i < 4 → (s.slot i).ref = some id → s.dcnt id = 0
  dead : ∀ id, id < s.next → (∀ i, i < 4 → (s.slot i).ref ≠ some id) → s.dcnt id = 1
  fresh : ∀ id, s.next ≤ id → s.dcnt id = 0
  bal : ∀ a, s.allocs a = s.deallocs a +
          ((s.slot 0).hcA a + (s.slot 1).hcA a + (s.slot 2).hcA a + (s.slot 3).hcA a)
  nocopy : s.copies = 0
  out : ∀ i, 4 ≤ i → s.slot i = .none

theorem init_inv : Inv St.init := by
  constructor <;> simp [St.init, Slot.ref, Slot.hcA]

theorem vacant_iff (s : St) (i : Nat) : vacant s i = true ↔ i < 3 ∧ s.slot i = .none := by
  simp [vacant]

theorem engaged_iff (s : St) (i : Nat) : engaged s i = true ↔ i < 3 ∧ s.slot i ≠ .none := by
  simp [engaged]

theorem hollow_ref {x : Slot} (h : x.hollow = true) : x.ref = Option.none := by
  cases x <;> simp_all [Slot.hollow, Slot.ref]

theorem hollow_hcA {x : Slot} (h : x.hollow = true) (a : Nat) : x.hcA a = 0 := by
  cases x <;> simp_all [Slot.hollow, Slot.hcA]

open Lean.Parser.Tactic in
syntax "inv_auto" "[" simpLemma,* "]" : tactic
macro_rules
  | `(tactic| inv_auto [$ts,*]) =>
    `(tactic| (constructor <;>
        (simp [St.apply, St.bad, destroyEvs, St.record, upd, Cfg.place, tmp, $ts,*] <;>
          try grind [Slot.ref, Slot.hcA])))

theorem bad_inv (s : St) (h : Inv s) : Inv (s.apply s.bad).1 := by
  obtain ⟨h1, h2, h3, h4, h5, h6, h7, h8⟩ := h
  inv_auto []

theorem arm_inv (s : St) (h : Inv s) : Inv (s.apply ⟨[], s.slot, .ok, true⟩).1 := by
  obtain ⟨h1, h2, h3, h4, h5, h6, h7, h8⟩ := h
  inv_auto []

theorem threw_inv (s : St) (h : Inv s) : Inv (s.apply ⟨[], s.slot, .threw, false⟩).1 := by
  obtain ⟨h1, h2, h3, h4, h5, h6, h7, h8⟩ := h
  inv_auto []

theorem invoke_inv (s : St) (i : Nat) (thr : Bool) (h : Inv s) : Inv (s.apply (invokeEff s i thr)).1 := by
  unfold invokeEff
  split
  · obtain ⟨h1, h2, h3, h4, h5, h6, h7, h8⟩ := h; inv_auto []
  · obtain ⟨h1, h2, h3, h4, h5, h6, h7, h8⟩ := h; inv_auto []
  · exact bad_inv s h

theorem mkTemp_inv (s : St) (c : Cls) (v : Nat) (hs : s.slot 3 = .none) (h : Inv s) :
    Inv (s.apply ⟨[.ctor s.next c v], upd s.slot 3 (.inl s.next), .ok, s.armed⟩).1 := by
  obtain ⟨h1, h2, h3, h4, h5, h6, h7, h8⟩ := h
  inv_auto [hs]

theorem clear_inv (s : St) (i : Nat) (x : Slot) (hi : i < 4) (hr : x.ref = Option.none)
    (hc : ∀ a, x.hcA a = 0) (h : Inv s) :
    Inv (s.apply ⟨destroyEvs (s.slot i), upd s.slot i x, .ok, s.armed⟩).1 := by
  obtain ⟨h1, h2, h3, h4, h5, h6, h7, h8⟩ := h
  cases hs : s.slot i <;> inv_auto [hs]

theorem emplaceIn_inv (cfg : Cfg) (s : St) (j : Nat) (c : Cls) (v a : Nat) (hj : j < 3)
    (hr : (s.slot j).ref = Option.none) (hc : ∀ a, (s.slot j).hcA a = 0) (h : Inv s) :
    Inv (s.apply ⟨(if cfg.inplace c then [] else [.al a]) ++ [.ctor s.next c v],
      upd s.slot j (cfg.place c s.next a), .ok, s.armed⟩).1 := by
  obtain ⟨h1, h2, h3, h4, h5, h6, h7, h8⟩ := h
  cases hin : cfg.inplace c <;> inv_auto [hin]

theorem emplaceFromTemp_inv (cfg : Cfg) (s : St) (j t a : Nat) (c : Cls) (hj : j < 3)
    (ht : s.slot 3 = .inl t)
    (hr : (s.slot j).ref = Option.none) (hc : ∀ a, (s.slot j).hcA a = 0) (h : Inv s) :
    Inv (s.apply ⟨(if cfg.inplace c then [] else [.al a]) ++ [.move s.next t],
      upd s.slot j (cfg.place c s.next a), .ok, s.armed⟩).1 := by
  obtain ⟨h1, h2, h3, h4, h5, h6, h7, h8⟩ := h
  cases hin : cfg.inplace c <;> inv_auto [hin]

theorem emplaceThrow_inv (cfg : Cfg) (s : St) (a : Nat) (c : Cls) (h : Inv s) :
    Inv (s.apply ⟨(if cfg.inplace c then [] else [.al a, .de a]), s.slot, .threw, false⟩).1 := by
  obtain ⟨h1, h2, h3, h4, h5, h6, h7, h8⟩ := h
  cases hin : cfg.inplace c <;> inv_auto [hin]

theorem moveInto_inv (s : St) (j i : Nat) (hj : j < 3) (hi : i < 3) (hij : i ≠ j)
    (hr : (s.slot j).ref = Option.none) (hc : ∀ a, (s.slot j).hcA a = 0) (h : Inv s) :
    Inv (s.apply (match moveFrom s (s.slot i) with
      | .threw => ⟨[], s.slot, .threw, false⟩
      | .done evs d sa => ⟨evs, upd (upd s.slot i sa) j d, .ok, s.armed⟩)).1 := by
  unfold moveFrom
  cases hsi : s.slot i with
  | inl id =>
    cases ht : (decide (s.cls id = Cls.st) && s.armed)
    · obtain ⟨h1, h2, h3, h4, h5, h6, h7, h8⟩ := h
      simp only [ht]
      inv_auto [hsi]
    · simp only [ht, if_true]; exact threw_inv s h
  | _ =>
    obtain ⟨h1, h2, h3, h4, h5, h6, h7, h8⟩ := h
    inv_auto [hsi]

theorem swap_inv (s : St) (i j : Nat) (hi : i < 3) (hj : j < 3) (h : Inv s) :
    Inv (s.apply ⟨[], upd (upd s.slot i (s.slot j)) j (s.slot i), .ok, s.armed⟩).1 := by
  obtain ⟨h1, h2, h3, h4, h5, h6, h7, h8⟩ := h
  inv_auto []

/-- every primitive preserves the invariant, whatever the state it is applied in -/
theorem prim_inv (cfg : Cfg) (s : St) (p : Prim) (h : Inv s) : Inv (s.apply (primEff cfg s p)).1 := by
  cases p with
  | mkTemp c v =>
    simp only [primEff]
    by_cases hs : s.slot tmp = Slot.none
    · rw [if_pos hs]; exact mkTemp_inv s c v hs h
    · rw [if_neg hs]; exact bad_inv s h
  | clear i inv =>
    simp only [primEff]
    by_cases hi : i < 4
    · rw [if_pos hi]
      exact clear_inv s i _ hi (by cases inv <;> simp [Slot.ref]) (by cases inv <;> simp [Slot.hcA]) h
    · rw [if_neg hi]; exact bad_inv s h
  | emplaceIn j c v a =>
    simp only [primEff]
    by_cases hg : (decide (j < 3) && (s.slot j).hollow) = true
    · rw [if_pos hg]
      simp only [Bool.and_eq_true, decide_eq_true_eq] at hg
      exact emplaceIn_inv cfg s j c v a hg.1 (hollow_ref hg.2) (hollow_hcA hg.2) h
    · rw [if_neg hg]; exact bad_inv s h
  | emplaceFromTemp j a =>
    simp only [primEff]
    cases ht : s.slot tmp with
    | inl t =>
      simp only
      by_cases hg : (decide (j < 3) && (s.slot j).hollow) = true
      · rw [if_pos hg]
        simp only [Bool.and_eq_true, decide_eq_true_eq] at hg
        by_cases hth : (decide (s.cls t = Cls.st) && s.armed) = true
        · rw [if_pos hth]; exact emplaceThrow_inv cfg s a _ h
        · rw [if_neg hth]
          exact emplaceFromTemp_inv cfg s j t a _ hg.1 ht (hollow_ref hg.2) (hollow_hcA hg.2) h
      · rw [if_neg hg]; exact bad_inv s h
    | _ => exact bad_inv s h
  | moveInto j i =>
    simp only [primEff]
    by_cases hg : (decide (j < 3) && decide (i < 3) && decide (i ≠ j) && (s.slot j).hollow) = true
    · rw [if_pos hg]
      simp only [Bool.and_eq_true, decide_eq_true_eq] at hg
      exact moveInto_inv s j i hg.1.1.1 hg.1.1.2 hg.1.2 (hollow_ref hg.2) (hollow_hcA hg.2) h
    · rw [if_neg hg]; exact bad_inv s h
  | swap i j =>
    simp only [primEff]
    by_cases hg : (decide (i < 3) && decide (j < 3)) = true
    · rw [if_pos hg]
      simp only [Bool.and_eq_true, decide_eq_true_eq] at hg
      exact swap_inv s i j hg.1 hg.2 h
    · rw [if_neg hg]; exact bad_inv s h
  | arm => simp only [primEff]; exact arm_inv s h

theorem runPrims_inv (cfg : Cfg) (s : St) (ps : List Prim) (h : Inv s) : Inv (runPrims cfg s ps).1 := by
  induction ps generalizing s with
  | nil => simpa [runPrims] using h
  | cons p ps ih =>
    simp only [runPrims]
    exact ih _ (prim_inv cfg s p h)

theorem step_inv (cfg : Cfg) (s : St) (op : Op) (h : Inv s) : Inv (step cfg s op).1 := by
  unfold step
  split
  · split
    · exact invoke_inv s _ false h
    · exact bad_inv s h
  · split
    · exact invoke_inv s _ true h
    · exact bad_inv s h
  · split
    · exact bad_inv s h
    · exact runPrims_inv cfg s _ h

theorem run_inv (cfg : Cfg) (s : St) (ops : List Op) (h : Inv s) : Inv (run cfg s ops).1 := by
  induction ops generalizing s with
  | nil => simpa [run] using h
  | cons op ops ih =>
    simp only [run]
    exact ih _ (step_inv cfg s op h)

/-! ### the state's counters are counts of observable events -/

/-- a counter of the state together with the events it counts -/
structure Counter where
  get : St → Nat
  hit : Event → Bool
  record : ∀ s e, get (s.record e) = get s + (if hit e then 1 else 0)
  frame : ∀ (s : St) (sl : Nat → Slot) (ar : Bool), get { s with slot := sl, armed := ar } = get s

def dtorC (id : Nat) : Counter where
  get s := s.dcnt id
  hit e := e == .dtor id
  record s e := by
    cases e <;> simp [St.record, upd]
    rename_i id'
    by_cases h : id = id' <;> simp [h]
    intro h'; exact absurd h'.symm h
  frame _ _ _ := rfl

def allocC (a : Nat) : Counter where
  get s := s.allocs a
  hit e := e == .al a
  record s e := by
    cases e <;> simp [St.record, upd]
    rename_i a'
    by_cases h : a = a' <;> simp [h]
    intro h'; exact absurd h'.symm h
  frame _ _ _ := rfl

def deallocC (a : Nat) : Counter where
  get s := s.deallocs a
  hit e := e == .de a
  record s e := by
    cases e <;> simp [St.record, upd]
    rename_i a'
    by_cases h : a = a' <;> simp [h]
    intro h'; exact absurd h'.symm h
  frame _ _ _ := rfl

def Event.isCopy : Event → Bool
  | .copy _ _ => true
  | _ => false

def Event.isBirth : Event → Bool
  | .ctor _ _ _ => true
  | .move _ _ => true
  | .copy _ _ => true
  | _ => false

def copyC : Counter where
  get s := s.copies
  hit e := e.isCopy
  record s e := by cases e <;> simp [St.record, Event.isCopy]
  frame _ _ _ := rfl

def birthC : Counter where
  get s := s.next
  hit e := e.isBirth
  record s e := by cases e <;> simp [St.record, Event.isBirth]
  frame _ _ _ := rfl

theorem Counter.foldl (c : Counter) (evs : List Event) (s : St) :
    c.get (evs.foldl St.record s) = c.get s + evs.countP c.hit := by
  induction evs generalizing s with
  | nil => simp
  | cons e evs ih =>
    simp only [List.foldl_cons, ih, c.record, List.countP_cons]
    omega

theorem Counter.apply (c : Counter) (s : St) (e : Eff) :
    c.get (s.apply e).1 = c.get s + (s.apply e).2.events.countP c.hit := by
  simp only [St.apply, c.frame, c.foldl]

theorem Counter.runPrims (c : Counter) (cfg : Cfg) (s : St) (ps : List Prim) :
    c.get (runPrims cfg s ps).1 = c.get s + (runPrims cfg s ps).2.1.countP c.hit := by
  induction ps generalizing s with
  | nil => simp [AnyObject.runPrims]
  | cons p ps ih =>
    simp only [AnyObject.runPrims, ih, c.apply, List.countP_append]
    omega

theorem Counter.step (c : Counter) (cfg : Cfg) (s : St) (op : Op) :
    c.get (step cfg s op).1 = c.get s + (step cfg s op).2.events.countP c.hit := by
  unfold AnyObject.step
  split
  · exact c.apply _ _
  · exact c.apply _ _
  · split
    · exact c.apply _ _
    · exact c.runPrims _ _ _

theorem Counter.run (c : Counter) (cfg : Cfg) (s : St) (ops : List Op) :
    c.get (run cfg s ops).1 = c.get s + (trace (run cfg s ops).2).countP c.hit := by
  induction ops generalizing s with
  | nil => simp [AnyObject.run, trace]
  | cons op ops ih =>
    simp only [AnyObject.run, ih, c.step, trace, List.flatMap_cons, List.countP_append]
    omega

theorem run_append (cfg : Cfg) (s : St) (ops1 ops2 : List Op) :
    run cfg s (ops1 ++ ops2) =
      ((run cfg (run cfg s ops1).1 ops2).1, (run cfg s ops1).2 ++ (run cfg (run cfg s ops1).1 ops2).2) := by
  induction ops1 generalizing s with
  | nil => simp [run]
  | cons op ops ih => simp [run, ih]

theorem count_dtor (l : List Event) (id : Nat) : l.count (.dtor id) = l.countP (dtorC id).hit := by
  simp [List.count, dtorC]

theorem count_al (l : List Event) (a : Nat) : l.count (.al a) = l.countP (allocC a).hit := by
  simp [List.count, allocC]

theorem count_de (l : List Event) (a : Nat) : l.count (.de a) = l.countP (deallocC a).hit := by
  simp [List.count, deallocC]

theorem dcnt_le_one {s : St} (h : Inv s) (id : Nat) : s.dcnt id ≤ 1 := by
  by_cases hlt : id < s.next
  · by_cases ho : ∀ i, i < 4 → (s.slot i).ref ≠ some id
    · rw [h.dead id hlt ho]; exact Nat.le_refl 1
    · have : ∃ i, i < 4 ∧ (s.slot i).ref = some id := by
        apply Classical.byContradiction; intro hn; apply ho; intro i hi hr; exact hn ⟨i, hi, hr⟩
      obtain ⟨i, hi, hr⟩ := this
      rw [h.live i id hi hr]; omega
  · rw [h.fresh id (by omega)]; omega

end Unifex.Proto.AnyObject
