/-
  Proto/InlineSched.lean — sequential model of `inline_scheduler`
  (include/unifex/inline_scheduler.hpp).

    operation::start():  get_stop_token(receiver_).stop_requested() ? set_done(receiver_)
                                                                    : set_value(receiver_)

  i.e. the item completes *inside* its own `start()`, on the caller's stack.  Client programs are
  the nesting trees of Proto/Trampoline (the completion of `node id stopHere kids` first requests
  stop on the shared stop source if `stopHere`, then starts a schedule operation for every kid in
  order); the observable log has the same alphabet (`run id nest done`; a `defer id` event would
  mean "start() returned without having run the item" and never occurs).

  There is no work list: the model is the C++ call stack itself, a structural recursion over the
  tree that threads the state of the stop source through.
-/
import UnifexModel.Proto.Trampoline

namespace Unifex.Proto.InlineSched
open Unifex.Proto.Trampoline (Tree Ev runsOf idsL showEv parseTree)

mutual
/-- `start()` of a schedule operation whose receiver's completion is `t`, called while `nest`
    completions are on the call stack and the stop source is in state `stopped`;
    returns the events logged until `start()` returns, and the state of the stop source then -/
def runTree (nest : Nat) (stopped : Bool) : Tree → List Ev × Bool
  | .node i sh ks =>
    let r := runKids (nest + 1) (stopped || sh) ks
    (Ev.run i nest stopped :: r.1, r.2)
def runKids (nest : Nat) (stopped : Bool) : List Tree → List Ev × Bool
  | [] => ([], stopped)
  | t :: ts =>
    let r1 := runTree nest stopped t
    let r2 := runKids nest r1.2 ts
    (r1.1 ++ r2.1, r2.2)
end

/-! ### the specification: the preorder list of (id, depth, stopHere), scanned left to right -/

mutual
def flat (depth : Nat) : Tree → List (Nat × Nat × Bool)
  | .node i sh ks => (i, depth, sh) :: flatL (depth + 1) ks
def flatL (depth : Nat) : List Tree → List (Nat × Nat × Bool)
  | [] => []
  | t :: ts => flat depth t ++ flatL depth ts
end

/-- item `i` at depth `k` completes with done iff stop was requested initially or by an item
    that completed before it -/
def scan (stopped : Bool) : List (Nat × Nat × Bool) → List Ev
  | [] => []
  | (i, k, sh) :: r => Ev.run i k stopped :: scan (stopped || sh) r

def scanEnd (stopped : Bool) : List (Nat × Nat × Bool) → Bool
  | [] => stopped
  | (_, _, sh) :: r => scanEnd (stopped || sh) r

theorem scan_append (s : Bool) (a b : List (Nat × Nat × Bool)) :
    scan s (a ++ b) = scan s a ++ scan (scanEnd s a) b := by
  induction a generalizing s with
  | nil => simp [scan, scanEnd]
  | cons x r ih => obtain ⟨i, k, sh⟩ := x; simp [scan, scanEnd, ih]

theorem scanEnd_append (s : Bool) (a b : List (Nat × Nat × Bool)) :
    scanEnd s (a ++ b) = scanEnd (scanEnd s a) b := by
  induction a generalizing s with
  | nil => simp [scanEnd]
  | cons x r ih => obtain ⟨i, k, sh⟩ := x; simp [scanEnd, ih]

mutual
theorem runTree_eq (n : Nat) (s : Bool) : (t : Tree) →
    runTree n s t = (scan s (flat n t), scanEnd s (flat n t))
  | .node i sh ks => by
    simp only [runTree, flat, scan, scanEnd, runKids_eq (n + 1) (s || sh) ks]
theorem runKids_eq (n : Nat) (s : Bool) : (ts : List Tree) →
    runKids n s ts = (scan s (flatL n ts), scanEnd s (flatL n ts))
  | [] => by simp [runKids, flatL, scan, scanEnd]
  | t :: ts => by
    simp only [runKids, flatL, runTree_eq n s t, runKids_eq n _ ts, scan_append, scanEnd_append]
end

mutual
theorem flat_ids (n : Nat) : (t : Tree) → (flat n t).map (·.1) = t.ids
  | .node i sh ks => by simp [flat, Trampoline.Tree.ids, flatL_ids (n + 1) ks]
theorem flatL_ids (n : Nat) : (ts : List Tree) → (flatL n ts).map (·.1) = idsL ts
  | [] => by simp [flatL, Trampoline.idsL]
  | t :: ts => by simp [flatL, Trampoline.idsL, flat_ids n t, flatL_ids n ts]
end

theorem runsOf_scan (s : Bool) (l : List (Nat × Nat × Bool)) : runsOf (scan s l) = l.map (·.1) := by
  induction l generalizing s with
  | nil => simp [scan, runsOf]
  | cons x r ih => obtain ⟨i, k, sh⟩ := x; simp [scan, runsOf, ih]

theorem scan_no_defer (s : Bool) (l : List (Nat × Nat × Bool)) (i : Nat) : Ev.defer i ∉ scan s l := by
  induction l generalizing s with
  | nil => simp [scan]
  | cons x r ih => obtain ⟨j, k, sh⟩ := x; simp [scan, ih]

/-- the log of the outermost `start()` -/
def exec (t : Tree) : List Ev := (runTree 0 false t).1

/-! ### text interface for the differential tie (same tree syntax and event format as the trampoline) -/
def answer (q : String) : String :=
  match parseTree q with
  | some tree => " ".intercalate ((exec tree).map showEv)
  | none => "bad-op"

end Unifex.Proto.InlineSched
