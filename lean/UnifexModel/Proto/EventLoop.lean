/-
  Proto/EventLoop.lean — monitor-style model of `manual_event_loop`
  (include/unifex/manual_event_loop.hpp, source/manual_event_loop.cpp) and of
  `single_thread_context` (a manual_event_loop whose `run()` is called by a thread the context
  creates; the destructor calls `stop()` and joins that thread).

  Every region protected by `mutex_` is ONE step (the regions only touch `head_/tail_/stop_` and
  the condition variable, all protected by that mutex).  The condition variable is the pair
  (`phase = waiting`, `sig`): `notify_*` sets `sig` only if the worker is inside `cv_.wait` at that
  moment — a notify with nobody waiting is LOST, exactly as with a real condition variable, so a
  lost wake-up shows up as a deadlock (the worker's step is disabled while `waiting ∧ ¬sig`).
  No spurious wake-ups (the controlled runtime produces none; they would only add behaviours of
  the same worker loop, which re-checks its condition).

  Worker (`run()`):   ready --lock; head_ != null--> exec1 i --read stop token--> exec2 i d
                      --set_value/set_done--> ready;   ready --empty ∧ stop_--> retd --> exited;
                      ready --empty ∧ ¬stop_--> waiting --notified--> ready.
  Clients run scripts: `enq i` (start() of a schedule operation = `enqueue`), `stop` (loop.stop()),
  `tokStop` (request_stop on the stop source whose token the receivers expose), `waitAll` (join the
  other clients), `waitRan i` (block until item i has completed — like sync_wait), `dtor` (~single_thread_context).  Every call is three steps: observable begin,
  the critical section, observable end — so the model admits exactly the real-time orders the
  real code can produce.

  History variables: `enq` (acceptance order), `ran` (completion order), `accAtStop` (how many items
  had been accepted when stop() took the lock), `tokEnded`, `bad`.
-/
import UnifexModel.Core.Reflect

namespace Unifex.Proto.EventLoop
open Unifex.Core

inductive Op
  | enq (i : Nat) | stop | tokStop | waitAll | waitRan (i : Nat) | dtor
  deriving DecidableEq, Repr

structure Config where
  /-- thread id of the thread that executes `run()` -/
  wtid : Nat
  /-- the scenario itself calls `run()` and prints `run.ret` when it returns -/
  wret : Bool
  /-- client scripts by thread id (the worker's entry is `[]`) -/
  scripts : List (List Op)
  /-- declared expectation: every `enq` of the configuration happens-before the stop, so every
      item must have run at the end -/
  allRun : Bool

inductive WPhase
  | ready | waiting | exec1 (i : Nat) | exec2 (i : Nat) (done : Bool) | retd | exited
  deriving DecidableEq, Repr

structure Thr where
  ip : Nat
  pc : Nat
  deriving DecidableEq, Repr

structure St where
  queue : List Nat      -- head_ … tail_
  stop : Bool           -- stop_
  tok : Bool            -- the receivers' stop source: stop requested
  phase : WPhase
  sig : Bool            -- the waiting worker has been notified
  thrs : List Thr
  enq : List Nat        -- history: items in the order their enqueue took the lock
  ran : List Nat        -- history: items in the order they completed
  accAtStop : Nat       -- history: `enq.length` when the first stop() took the lock
  tokEnded : Bool       -- history: request_stop() on the token has returned
  bad : Nat             -- history: 2 = an item completed with set_value although request_stop()
                        --   had returned before the item's stop-token check
  deriving DecidableEq, Repr

def init (cfg : Config) : St :=
  { queue := [], stop := false, tok := false, phase := .ready, sig := false,
    thrs := cfg.scripts.map (fun _ => ⟨0, 0⟩),
    enq := [], ran := [], accAtStop := 0, tokEnded := false, bad := 0 }

def getThr (s : St) (t : Nat) : Thr := s.thrs.getD t ⟨0, 0⟩
def setThr (s : St) (t : Nat) (x : Thr) : St := { s with thrs := s.thrs.set t x }

/-- the item the worker has dequeued and not yet completed -/
def cur : WPhase → List Nat
  | .exec1 i => [i]
  | .exec2 i _ => [i]
  | _ => []

/-! ### the lock-protected regions as state transformers (they never touch `thrs`) -/

/-- `enqueue(task)`: append; `notify_one` iff the queue was empty. -/
def critEnq (i : Nat) (s : St) : St :=
  { s with queue := s.queue ++ [i], enq := s.enq ++ [i],
           sig := if s.queue.isEmpty && s.phase == .waiting then true else s.sig }

/-- `stop()`: set the flag; `notify_all`. -/
def critStop (s : St) : St :=
  { s with stop := true, accAtStop := if s.stop then s.accAtStop else s.enq.length,
           sig := if s.phase == .waiting then true else s.sig }

def critTok (s : St) : St := { s with tok := true }
def endTok (s : St) : St := { s with tokEnded := true }

/-- the worker's lock-protected loop head: `while (head_ == nullptr) { if (stop_) return; wait }` -/
def critRun (s : St) : St :=
  match s.queue with
  | i :: rest => { s with queue := rest, phase := .exec1 i }
  | [] => if s.stop then { s with phase := .retd } else { s with phase := .waiting, sig := false }

/-- `execute_impl`: read the stop token -/
def readTok (i : Nat) (s : St) : St :=
  { s with phase := .exec2 i s.tok, bad := if s.tokEnded && !s.tok && s.bad = 0 then 2 else s.bad }

def complete (i : Nat) (s : St) : St := { s with ran := s.ran ++ [i], phase := .ready }

abbrev Lbl := Nat × Option String
def ev (t : Nat) (txt : String) : Lbl := (t, some txt)
def tau (t : Nat) : Lbl := (t, none)

def workerStep (cfg : Config) (s : St) : Option (Lbl × St) :=
  let w := cfg.wtid
  match s.phase with
  | .ready => some (tau w, critRun s)
  | .waiting => if s.sig then some (tau w, { s with phase := .ready, sig := false }) else none
  | .exec1 i => some (tau w, readTok i s)
  | .exec2 i d => some (ev w (if d then s!"item{i}.done" else s!"item{i}.value"), complete i s)
  | .retd => some (if cfg.wret then ev w "run.ret" else tau w, { s with phase := .exited })
  | .exited => none

def thrDone (cfg : Config) (s : St) (u : Nat) : Bool :=
  (getThr s u).ip ≥ (cfg.scripts.getD u []).length

def othersDone (cfg : Config) (s : St) (t : Nat) : Bool :=
  (List.range s.thrs.length).all (fun u => u = t || u = cfg.wtid || thrDone cfg s u)

def clientStep (cfg : Config) (s : St) (t : Nat) : Option (Lbl × St) :=
  let th := getThr s t
  match (cfg.scripts.getD t [])[th.ip]? with
  | none => none
  | some op =>
    let goto (s : St) (pc : Nat) : St := setThr s t { th with pc := pc }
    let fin (s : St) : St := setThr s t ⟨th.ip + 1, 0⟩
    match op, th.pc with
    | .enq i, 0 => some (ev t s!"enq{i}.begin", goto s 1)
    | .enq i, 1 => some (tau t, goto (critEnq i s) 2)
    | .enq i, _ => some (ev t s!"enq{i}.end", fin s)
    | .stop, 0 => some (ev t "stop.begin", goto s 1)
    | .stop, 1 => some (tau t, goto (critStop s) 2)
    | .stop, _ => some (ev t "stop.end", fin s)
    | .tokStop, 0 => some (ev t "tokstop.begin", goto s 1)
    | .tokStop, 1 => some (tau t, goto (critTok s) 2)
    | .tokStop, _ => some (ev t "tokstop.end", fin (endTok s))
    | .waitAll, _ => if othersDone cfg s t then some (tau t, fin s) else none
    | .waitRan i, _ => if s.ran.contains i then some (tau t, fin s) else none
    | .dtor, 0 => some (ev t "dtor.begin", goto s 1)
    | .dtor, 1 => some (tau t, goto (critStop s) 2)
    | .dtor, _ => if s.phase == .exited then some (ev t "dtor.end", fin s) else none

def stepThr (cfg : Config) (s : St) (t : Nat) : Option (Lbl × St) :=
  if t = cfg.wtid then workerStep cfg s else clientStep cfg s t

def sys (cfg : Config) : LSys St Lbl where
  init := init cfg
  next s := (List.range s.thrs.length).filterMap (fun t => stepThr cfg s t)

def obsOf (l : Lbl) : Option String := l.2.map (fun txt => s!"T{l.1} {txt}")

def final (cfg : Config) (s : St) : Bool :=
  s.phase == .exited &&
  (List.range s.thrs.length).all (fun u => u = cfg.wtid || thrDone cfg s u)

def nEnq (cfg : Config) : Nat :=
  (cfg.scripts.flatMap id).countP (fun o => match o with | .enq _ => true | _ => false)

/-- The property as a state predicate (see `Props/C06.lean: loop_safe_spelled`). -/
def safe (cfg : Config) (s : St) : Bool :=
  s.bad = 0 &&
  decide (s.ran ++ cur s.phase ++ s.queue = s.enq) &&
  s.ran.Nodup &&
  (!(s.phase == .waiting && !s.sig) || (s.queue.isEmpty && !s.stop)) &&
  (!(s.phase == .retd || s.phase == .exited) || (s.stop && decide (s.accAtStop ≤ s.ran.length))) &&
  ((sys cfg).next s |>.isEmpty |> fun dead => !dead || final cfg s) &&
  (!final cfg s || !cfg.allRun || decide (s.ran.length = nEnq cfg))

/-! ### coding for the reflection instances (untrusted) -/

def b2n (b : Bool) : Nat := if b then 1 else 0

def encPhase : WPhase → List Nat
  | .ready => [0, 0, 0] | .waiting => [1, 0, 0] | .exec1 i => [2, i, 0]
  | .exec2 i d => [3, i, b2n d] | .retd => [4, 0, 0] | .exited => [5, 0, 0]

def decPhase (k i d : Nat) : WPhase :=
  match k with
  | 0 => .ready | 1 => .waiting | 2 => .exec1 i | 3 => .exec2 i (d == 1) | 4 => .retd | _ => .exited

def encSt (s : St) : List Nat :=
  [b2n s.stop, b2n s.tok, b2n s.sig, s.accAtStop, b2n s.tokEnded, s.bad] ++ encPhase s.phase ++
  [s.queue.length] ++ s.queue ++ [s.enq.length] ++ s.enq ++ [s.ran.length] ++ s.ran ++
  [s.thrs.length] ++ s.thrs.flatMap (fun t => [t.ip, t.pc])

def decThrs : Nat → List Nat → List Thr
  | 0, _ => []
  | n+1, a :: b :: r => ⟨a, b⟩ :: decThrs n r
  | _, _ => []

def decSt (l : List Nat) : St :=
  let bad : St := ⟨[], false, false, .ready, false, [], [], [], 0, false, 99⟩
  match l with
  | st :: tk :: sg :: acc :: te :: bd :: pk :: pi :: pd :: ql :: r =>
    let q := r.take ql
    match r.drop ql with
    | el :: r1 =>
      let e := r1.take el
      match r1.drop el with
      | rl :: r2 =>
        let rn := r2.take rl
        match r2.drop rl with
        | tl :: r3 =>
          ⟨q, st == 1, tk == 1, decPhase pk pi pd, sg == 1, decThrs tl r3, e, rn, acc, te == 1, bd⟩
        | _ => bad
      | _ => bad
    | _ => bad
  | _ => bad

def coded : Coded St :=
  { enc := fun s => packNats 16 (encSt s), dec := fun n => decSt (unpackNats 16 120 n), M := 2039, W := 400 }

/-! ### configurations (mirrored one-to-one by harness/rt/scn_c06.cpp, same names) -/

/-- manual_event_loop: T0 runs `run()`; producers T1..; the last thread joins the producers and
    then calls stop(). -/
def cfgLoop1x2 : Config := ⟨0, true, [[], [.enq 0, .enq 1], [.waitAll, .stop]], true⟩
def cfgLoop2x1 : Config := ⟨0, true, [[], [.enq 0], [.enq 1], [.waitAll, .stop]], true⟩
def cfgLoop2x2 : Config := ⟨0, true, [[], [.enq 0, .enq 1], [.enq 2, .enq 3], [.waitAll, .stop]], true⟩
def cfgLoop3x1 : Config := ⟨0, true, [[], [.enq 0], [.enq 1], [.enq 2], [.waitAll, .stop]], true⟩
def cfgLoop1x3 : Config := ⟨0, true, [[], [.enq 0, .enq 1, .enq 2], [.waitAll, .stop]], true⟩
/-- stop() races with the producers: items accepted after the stop may stay in the queue. -/
def cfgLoopStopRace : Config := ⟨0, true, [[], [.enq 0, .enq 1], [.stop]], false⟩
def cfgLoopStopRace2 : Config := ⟨0, true, [[], [.enq 0], [.enq 1], [.stop]], false⟩
/-- the receivers' stop token is triggered concurrently: done instead of value. -/
def cfgLoopTok : Config := ⟨0, true, [[], [.enq 0, .enq 1], [.tokStop], [.waitAll, .stop]], true⟩
/-- single_thread_context: T0 constructs the context (worker = T1), enqueues one item itself,
    joins the producers and destroys the context. -/
def cfgStc : Config := ⟨1, false, [[.enq 0, .waitAll, .dtor], [], [.enq 1, .enq 2]], true⟩
def cfgStc2 : Config := ⟨1, false, [[.waitAll, .dtor], [], [.enq 0], [.enq 1]], true⟩

/-- the client waits for each item's completion before it goes on (a lost wake-up is a deadlock) -/
def cfgLoopWait : Config := ⟨0, true, [[], [.enq 0, .waitRan 0, .enq 1, .waitRan 1, .stop]], true⟩
def cfgLoopWait2 : Config := ⟨0, true, [[], [.enq 0, .waitRan 0], [.enq 1, .waitRan 1], [.waitAll, .stop]], true⟩
def cfgStcWait : Config := ⟨1, false, [[.enq 0, .waitRan 0, .enq 1, .waitRan 1, .dtor], []], true⟩

def configs : List (String × Config) :=
  [("loop_wait", cfgLoopWait), ("loop_wait2", cfgLoopWait2), ("stc_wait", cfgStcWait), ("loop_1x2", cfgLoop1x2), ("loop_2x1", cfgLoop2x1), ("loop_2x2", cfgLoop2x2), ("loop_3x1", cfgLoop3x1),
   ("loop_1x3", cfgLoop1x3), ("loop_stop_race", cfgLoopStopRace), ("loop_stop_race2", cfgLoopStopRace2),
   ("loop_tok", cfgLoopTok), ("stc", cfgStc), ("stc2", cfgStc2)]

end Unifex.Proto.EventLoop
