/-
  Proto/Code16.lean — state codings for the C16 models that the KERNEL can evaluate quickly.

  `Core/Reflect.checkClosed` evaluates `dec (enc t) = t` for every successor it meets.  Decoders that
  thread "the rest of the input" through pair-valued recursive calls are evaluated lazily by the
  kernel and get re-evaluated over and over (measured: > 1 s per state).  The codings here use a
  FIXED LAYOUT instead: a state is flattened to hexadecimal digits at known offsets, packed with
  strict `Nat` arithmetic, and decoded by random access (`dig n k`), so decoding costs a handful of
  GMP operations per field.  Nothing here is trusted: a wrong coding makes `checkClosed` fail.
-/
namespace Unifex.Proto.Code16

/-- little-endian hexadecimal digits, terminated by a 1 -/
def packD : List Nat → Nat
  | [] => 1
  | x :: xs => x % 16 + 16 * packD xs

/-- digit `k` of a code -/
def dig (n k : Nat) : Nat := (n >>> (4 * k)) % 16

/-- `len` digits starting at offset `o` -/
def digs (n o len : Nat) : List Nat := (List.range len).map (fun i => dig n (o + i))

/-- a list of at most `cap` small naturals as `cap+1` digits: length, then the elements, zero padded -/
def encL (cap : Nat) (l : List Nat) : List Nat :=
  l.length :: (List.range cap).map (fun i => l.getD i 0)

def decL (n o : Nat) : List Nat := digs n (o + 1) (dig n o)

def b2n (b : Bool) : Nat := if b then 1 else 0

/-! arithmetic encoders (no intermediate lists: a few GMP operations per field) -/

/-- elements of a list as consecutive digits (lowest first) -/
def packL : List Nat → Nat
  | [] => 0
  | x :: xs => x % 16 + 16 * packL xs

/-- a list of at most `cap` small naturals in `cap+1` digits: length, then the elements -/
def encLN (l : List Nat) : Nat := l.length % 16 + 16 * packL l

/-- records of `width` digits each, consecutively -/
def packW {α : Type} (width : Nat) (f : α → Nat) : List α → Nat
  | [] => 0
  | x :: xs => f x + 16 ^ width * packW width f xs

/-- digit cons: `d ::: rest` puts digit `d` below `rest` -/
def dcons (d rest : Nat) : Nat := d % 16 + 16 * rest

end Unifex.Proto.Code16
