/-
  Proto/AnyObjectFrame.lean — frame facts about the any_object / any_unique model (used by
  Props/C18.lean): the caller's temporary (pseudo-variable 3) never survives an operation,
  destroying the three variables leaves all of them unconstructed, moves / swaps / destructions never
  allocate or copy, and an operation that does not name a variable leaves that variable and the value
  of the payload it owns untouched.
-/
import UnifexModel.Proto.AnyObjectLemmas
namespace Unifex.Proto.AnyObject

@[simp] theorem apply_slot (s : St) (e : Eff) : (s.apply e).1.slot = e.slots := rfl

def Prim.tmpSafe : Prim → Bool
  | .mkTemp _ _ => false
  | .clear i _ => i != 3
  | _ => true

theorem primEff_tmp (cfg : Cfg) (s : St) (p : Prim) (hp : p.tmpSafe = true) :
    (primEff cfg s p).slots 3 = s.slot 3 := by
  cases p with
  | mkTemp c v => simp [Prim.tmpSafe] at hp
  | clear i b =>
    simp [Prim.tmpSafe] at hp
    simp only [primEff]; split <;> simp [upd, St.bad, Ne.symm hp]
  | emplaceIn j c v a =>
    simp only [primEff]; split
    · rename_i hg; simp at hg
      have h3 : (3 : Nat) ≠ j := by omega
      simp [upd, h3]
    · simp [St.bad]
  | emplaceFromTemp j a =>
    simp only [primEff]; split
    · split
      · rename_i hg; simp at hg
        have h3 : (3 : Nat) ≠ j := by omega
        split <;> simp [upd, h3]
      · simp [St.bad]
    · simp [St.bad]
  | moveInto j i =>
    simp only [primEff]; split
    · rename_i hg; simp at hg
      have h3 : (3 : Nat) ≠ j := by omega
      have h3' : (3 : Nat) ≠ i := by omega
      split <;> simp [upd, h3, h3']
    · simp [St.bad]
  | swap i j =>
    simp only [primEff]; split
    · rename_i hg; simp at hg
      have h3 : (3 : Nat) ≠ j := by omega
      have h3' : (3 : Nat) ≠ i := by omega
      simp [upd, h3, h3']
    · simp [St.bad]
  | arm => simp [primEff]

theorem runPrims_tmp_frame (cfg : Cfg) (s : St) (ps : List Prim) (h : ∀ p ∈ ps, p.tmpSafe = true) :
    (runPrims cfg s ps).1.slot 3 = s.slot 3 := by
  induction ps generalizing s with
  | nil => simp [runPrims]
  | cons p ps ih =>
    simp only [runPrims]
    rw [ih _ (fun q hq => h q (List.mem_cons_of_mem _ hq))]
    simp [primEff_tmp cfg s p (h p List.mem_cons_self)]

theorem runPrims_ends_clear (cfg : Cfg) (s : St) (ps : List Prim) :
    (runPrims cfg s (ps ++ [.clear tmp false])).1.slot 3 = .none := by
  induction ps generalizing s with
  | nil => simp [runPrims, primEff, upd]
  | cons p ps ih => simp only [List.cons_append, runPrims]; exact ih _

theorem compile_shape (cfg : Cfg) (s : St) (op : Op) (ps : List Prim) (h : compile cfg s op = some ps) :
    (∀ p ∈ ps, p.tmpSafe = true) ∨ ∃ qs, ps = qs ++ [.clear tmp false] := by
  cases op with
  | ctor j c v m =>
    simp only [compile] at h
    split at h
    · rename_i hv; simp only [vacant, Bool.and_eq_true, decide_eq_true_eq] at hv
      simp only [Option.some.injEq] at h
      subst h
      split
      · right; exact ⟨[.mkTemp c v, .emplaceFromTemp j (m.alloc cfg)], rfl⟩
      · left; simp [Prim.tmpSafe]
    · simp at h
  | moveCtor j i =>
    simp only [compile] at h
    split at h
    · simp only [Option.some.injEq] at h; subst h; left; simp [Prim.tmpSafe]
    · simp at h
  | moveAssign i j =>
    simp only [compile] at h
    split at h
    · rename_i hv; simp only [engaged, Bool.and_eq_true, decide_eq_true_eq] at hv
      simp only [Option.some.injEq] at h; subst h; left
      split <;> simp [Prim.tmpSafe]
      omega
    · simp at h
  | assignValue i c v =>
    simp only [compile] at h
    split at h
    · simp only [Option.some.injEq] at h; subst h
      right; exact ⟨[.mkTemp c v, .clear i true, .emplaceFromTemp i cfg.dflt], rfl⟩
    · simp at h
  | swap i j =>
    simp only [compile] at h
    split at h
    · simp only [Option.some.injEq] at h; subst h; left; simp [Prim.tmpSafe]
    · simp at h
  | destroy i =>
    simp only [compile] at h
    split at h
    · rename_i hv; simp only [engaged, Bool.and_eq_true, decide_eq_true_eq] at hv
      simp only [Option.some.injEq] at h; subst h; left; simp [Prim.tmpSafe]; omega
    · simp at h
  | arm => simp only [compile, Option.some.injEq] at h; subst h; left; simp [Prim.tmpSafe]
  | invoke i => simp [compile] at h
  | invokeThrow i => simp [compile] at h

theorem invokeEff_slots (s : St) (i : Nat) (t : Bool) : (invokeEff s i t).slots = s.slot := by
  unfold invokeEff; split <;> simp [St.bad]

theorem step_tmp (cfg : Cfg) (s : St) (op : Op) (h : s.slot 3 = .none) : (step cfg s op).1.slot 3 = .none := by
  unfold step
  split
  · split <;> simp [invokeEff_slots, St.bad, h]
  · split <;> simp [invokeEff_slots, St.bad, h]
  · split
    · simp [St.bad, h]
    · rename_i ps hc
      rcases compile_shape cfg s _ ps hc with hs | ⟨qs, rfl⟩
      · simp only; rw [runPrims_tmp_frame cfg s ps hs]; exact h
      · exact runPrims_ends_clear cfg s qs

theorem run_tmp (cfg : Cfg) (s : St) (ops : List Op) (h : s.slot 3 = .none) : (run cfg s ops).1.slot 3 = .none := by
  induction ops generalizing s with
  | nil => simpa [run] using h
  | cons op ops ih => simp only [run]; exact ih _ (step_tmp cfg s op h)

/-- destroying variable i leaves it unconstructed; the other variables are untouched -/
theorem destroy_slot (cfg : Cfg) (s : St) (i k : Nat) (hi : i < 3) :
    (step cfg s (.destroy i)).1.slot k = if k = i then .none else s.slot k := by
  simp only [step, compile]
  by_cases he : engaged s i = true
  · have : i < 4 := by omega
    simp [he, runPrims, primEff, this]
    rfl
  · simp only [he]
    simp [St.bad]
    intro hk; subst hk
    simp [engaged, hi] at he
    exact he

theorem cleanup_none (cfg : Cfg) (s : St) (i : Nat) (hi : i < 3) : (run cfg s cleanup).1.slot i = .none := by
  simp only [cleanup, run]
  rw [destroy_slot cfg _ 2 i (by omega), destroy_slot cfg _ 1 i (by omega), destroy_slot cfg _ 0 i (by omega)]
  have : i = 0 ∨ i = 1 ∨ i = 2 := by omega
  rcases this with rfl | rfl | rfl <;> simp

/-- primitives that only destroy, transfer or exchange -/
def Prim.noAlloc : Prim → Bool
  | .clear _ _ => true
  | .moveInto _ _ => true
  | .swap _ _ => true
  | .arm => true
  | _ => false

theorem primEff_noalloc (cfg : Cfg) (s : St) (p : Prim) (hp : p.noAlloc = true) (e : Event)
    (he : e ∈ (primEff cfg s p).evs) : (∀ a, e ≠ .al a) ∧ e.isCopy = false := by
  cases p with
  | clear i b =>
    simp only [primEff] at he
    split at he
    · cases hs : s.slot i <;> simp [hs, destroyEvs] at he
      · subst he; simp [Event.isCopy]
      · rcases he with rfl | rfl <;> simp [Event.isCopy]
    · simp [St.bad] at he
  | moveInto j i =>
    simp only [primEff] at he
    split at he
    · unfold moveFrom at he
      cases hs : s.slot i with
      | inl id =>
        simp only [hs] at he
        by_cases hth : (decide (s.cls id = Cls.st) && s.armed) = true
        · simp [hth] at he
        · simp [hth] at he; subst he; simp [Event.isCopy]
      | _ => simp [hs] at he
    · simp [St.bad] at he
  | swap i j => simp only [primEff] at he; split at he <;> simp_all [St.bad]
  | arm => simp [primEff] at he
  | mkTemp c v => simp [Prim.noAlloc] at hp
  | emplaceIn j c v a => simp [Prim.noAlloc] at hp
  | emplaceFromTemp j a => simp [Prim.noAlloc] at hp

theorem runPrims_noalloc (cfg : Cfg) (s : St) (ps : List Prim) (h : ∀ p ∈ ps, p.noAlloc = true) (e : Event)
    (he : e ∈ (runPrims cfg s ps).2.1) : (∀ a, e ≠ .al a) ∧ e.isCopy = false := by
  induction ps generalizing s with
  | nil => simp [runPrims] at he
  | cons p ps ih =>
    simp only [runPrims, List.mem_append] at he
    rcases he with he | he
    · exact primEff_noalloc cfg s p (h p List.mem_cons_self) e he
    · exact ih _ (fun q hq => h q (List.mem_cons_of_mem _ hq)) he

/-! ### operations on other variables do not disturb a wrapper -/

/-- the wrapper variables a primitive may modify -/
def Prim.touches (k : Nat) : Prim → Bool
  | .mkTemp _ _ => k == tmp
  | .clear i _ => k == i
  | .emplaceIn j _ _ _ => k == j
  | .emplaceFromTemp j _ => k == j || k == tmp
  | .moveInto j i => k == j || k == i
  | .swap i j => k == i || k == j
  | .arm => false

@[simp] theorem apply_val (s : St) (e : Eff) : (s.apply e).1.val = (e.evs.foldl St.record s).val := rfl

theorem bad_frame (s : St) : (s.apply s.bad).1.slot = s.slot ∧ (s.apply s.bad).1.val = s.val := by
  simp [St.apply, St.bad]

/-- a primitive that does not touch variable k leaves it and the value of the payload it owns alone -/
theorem prim_frame (cfg : Cfg) (s : St) (p : Prim) (k id : Nat) (hinv : Inv s) (hk : k < 4)
    (href : (s.slot k).ref = some id) (hp : p.touches k = false) :
    (s.apply (primEff cfg s p)).1.slot k = s.slot k ∧ (s.apply (primEff cfg s p)).1.val id = s.val id := by
  have hlt : id < s.next := hinv.own_lt k id hk href
  have hne : id ≠ s.next := by omega
  cases p with
  | mkTemp c v =>
    simp [Prim.touches] at hp
    simp only [primEff]
    split <;> simp [St.bad, St.record, upd, hp, hne]
  | clear i b =>
    simp [Prim.touches] at hp
    simp only [primEff]
    split
    · cases hs : s.slot i <;> simp [destroyEvs, St.record, upd, hp]
    · simp [St.bad]
  | emplaceIn j c v a =>
    simp [Prim.touches] at hp
    simp only [primEff]
    split
    · cases hin : cfg.inplace c <;> simp [St.record, upd, hp, hne]
    · simp [St.bad]
  | emplaceFromTemp j a =>
    simp [Prim.touches] at hp
    simp only [primEff]
    split
    · rename_i t ht
      have htk : t ≠ id := by
        intro h; subst h
        have := hinv.uniq tmp k t (by simp [tmp]) hk (by simp [ht, Slot.ref]) href
        exact hp.2 this.symm
      split
      · split
        · cases hin : cfg.inplace (s.cls t) <;> simp [St.record, upd]
        · cases hin : cfg.inplace (s.cls t) <;> simp [St.record, upd, hp.1, hne, htk, Ne.symm htk]
      · simp [St.bad]
    · simp [St.bad]
  | moveInto j i =>
    simp [Prim.touches] at hp
    simp only [primEff]
    split
    · rename_i hg
      simp only [Bool.and_eq_true, decide_eq_true_eq] at hg
      unfold moveFrom
      cases hs : s.slot i with
      | inl id' =>
        have hik : id' ≠ id := by
          intro h; subst h
          have := hinv.uniq i k id' (by omega) hk (by simp [hs, Slot.ref]) href
          exact hp.2 this.symm
        by_cases hth : (decide (s.cls id' = Cls.st) && s.armed) = true
        · simp [hth]
        · simp [hth, St.record, upd, hp.1, hp.2, hne, hik, Ne.symm hik]
      | _ => simp [upd, hp.1, hp.2]
    · simp [St.bad]
  | swap i j =>
    simp [Prim.touches] at hp
    simp only [primEff]
    split <;> simp [St.bad, upd, hp.1, hp.2]
  | arm => simp [primEff]

theorem runPrims_frame (cfg : Cfg) (s : St) (ps : List Prim) (k id : Nat) (hinv : Inv s) (hk : k < 4)
    (href : (s.slot k).ref = some id) (hp : ∀ p ∈ ps, p.touches k = false) :
    (runPrims cfg s ps).1.slot k = s.slot k ∧ (runPrims cfg s ps).1.val id = s.val id := by
  induction ps generalizing s with
  | nil => simp [runPrims]
  | cons p ps ih =>
    have h1 := prim_frame cfg s p k id hinv hk href (hp p List.mem_cons_self)
    have h2 := ih (s.apply (primEff cfg s p)).1 (prim_inv cfg s p hinv) (by rw [h1.1]; exact href)
      (fun q hq => hp q (List.mem_cons_of_mem _ hq))
    simp only [runPrims]
    exact ⟨h2.1.trans h1.1, h2.2.trans h1.2⟩

/-- the wrapper variables an operation names -/
def Op.mentions (k : Nat) : Op → Bool
  | .ctor j _ _ _ => k == j
  | .moveCtor j i => k == j || k == i
  | .moveAssign i j => k == i || k == j
  | .assignValue i _ _ => k == i
  | .swap i j => k == i || k == j
  | .destroy i => k == i
  | .invoke _ => false
  | .invokeThrow _ => false
  | .arm => false

theorem compile_touches (cfg : Cfg) (s : St) (op : Op) (ps : List Prim) (k : Nat) (hk : k < 3)
    (hc : compile cfg s op = some ps) (hm : op.mentions k = false) : ∀ p ∈ ps, p.touches k = false := by
  have hk3 : k ≠ tmp := by simp [tmp]; omega
  cases op with
  | ctor j c v m =>
    simp [Op.mentions] at hm
    simp only [compile] at hc
    split at hc
    · simp only [Option.some.injEq] at hc; subst hc
      split <;> simp [Prim.touches, hm, hk3]
    · simp at hc
  | moveCtor j i =>
    simp [Op.mentions] at hm
    simp only [compile] at hc
    split at hc
    · simp only [Option.some.injEq] at hc; subst hc; simp [Prim.touches, hm]
    · simp at hc
  | moveAssign i j =>
    simp [Op.mentions] at hm
    simp only [compile] at hc
    split at hc
    · simp only [Option.some.injEq] at hc; subst hc
      split <;> simp [Prim.touches, hm]
    · simp at hc
  | assignValue i c v =>
    simp [Op.mentions] at hm
    simp only [compile] at hc
    split at hc
    · simp only [Option.some.injEq] at hc; subst hc; simp [Prim.touches, hm, hk3]
    · simp at hc
  | swap i j =>
    simp [Op.mentions] at hm
    simp only [compile] at hc
    split at hc
    · simp only [Option.some.injEq] at hc; subst hc; simp [Prim.touches, hm]
    · simp at hc
  | destroy i =>
    simp [Op.mentions] at hm
    simp only [compile] at hc
    split at hc
    · simp only [Option.some.injEq] at hc; subst hc; simp [Prim.touches, hm]
    · simp at hc
  | arm => simp only [compile, Option.some.injEq] at hc; subst hc; simp [Prim.touches]
  | invoke i => simp [compile] at hc
  | invokeThrow i => simp [compile] at hc

theorem invokeEff_frame (s : St) (i : Nat) (t : Bool) :
    (s.apply (invokeEff s i t)).1.slot = s.slot ∧ (s.apply (invokeEff s i t)).1.val = s.val := by
  unfold invokeEff; split <;> simp [St.bad, St.apply]

theorem step_frame (cfg : Cfg) (s : St) (op : Op) (k id : Nat) (hinv : Inv s) (hk : k < 3)
    (href : (s.slot k).ref = some id) (hm : op.mentions k = false) :
    (step cfg s op).1.slot k = s.slot k ∧ (step cfg s op).1.val id = s.val id := by
  unfold step
  split
  · rename_i i
    split
    · have := invokeEff_frame s i false; exact ⟨congrFun this.1 k, congrFun this.2 id⟩
    · have := bad_frame s; exact ⟨congrFun this.1 k, congrFun this.2 id⟩
  · rename_i i
    split
    · have := invokeEff_frame s i true; exact ⟨congrFun this.1 k, congrFun this.2 id⟩
    · have := bad_frame s; exact ⟨congrFun this.1 k, congrFun this.2 id⟩
  · split
    · have := bad_frame s; exact ⟨congrFun this.1 k, congrFun this.2 id⟩
    · rename_i ps hc
      exact runPrims_frame cfg s ps k id hinv (by omega) href (compile_touches cfg s _ ps k hk hc hm)

end Unifex.Proto.AnyObject
