/-
  Proto/AsyncStack.lean — the per-thread async-stack bookkeeping of libunifex
  (include/unifex/tracing/async_stack.hpp, async_stack-inl.hpp, source/async_stack.cpp,
  tracing/inject_async_stack.hpp) as a SEQUENTIAL state machine, plus the discipline under which the
  library uses it.

  1. `St` / `step : St → Op → Option St`
     One thread's view: the thread-local `currentThreadAsyncStackRoot` (`cur`), every
     `AsyncStackRoot` ever constructed by a `ScopedAsyncStackRoot` (`topFrame`, `nextRoot`), every
     `AsyncStackFrame` (`parentFrame`, `stackRoot`).  One `Op` = one call of a library function;
     `step` performs the member writes IN THE ORDER OF THE C++ BODY (so aliasing behaves as in the
     code) and returns `none` exactly where the C++ would fail an `assert`.  Objects are identified
     by allocation number; a destroyed root never gets its identity back (the real code compares raw
     pointers, so the model is the stricter of the two where a stack address is reused).
     `acts`/`deacts` are history counters (how often a frame became / ceased to be a root's top).

  2. `G` / `gstep : G → Op → Option G` — the DISCIPLINE: a pushdown automaton over the same
     alphabet that accepts the well-bracketed sequences the library emits:
       * roots are opened and closed LIFO (`rootCtor … rootDtor`), closed only with no active frame;
       * a frame is activated only on the innermost open root, only while that root has no active
         frame, and only if the frame is *fresh* (never used) or *idle* (deactivated before);
       * the active frame is given up before its root closes: `deactivate`, `ensureDeactivated`
         (op_wrapper::start, connect_awaitable::start) or by popping the callee chain;
       * parent links are written only into *fresh* frames (setParent / copyParent / pushCallee's
         callee) and only point at frames already in use — this is what keeps traces acyclic;
       * `popCallee` re-activates a parent only if that parent is *parked* (suspended by
         pushCallee) or *idle* (a coroutine that deactivated itself before suspending);
       * `exchangeCurrentAsyncStackRoot` (fiber switching) is not part of the discipline.
     The automaton does not look at `St`; `Agree g s` is the simulation relation, and
     `sim_step` / `sim_run` show that an accepted sequence never hits an assertion and keeps `Agree`.

  Property theorems are in Props/C20.lean.
-/
namespace Unifex.Proto.AsyncStack

/-! ## function update -/

def upd {α : Type} (f : Nat → α) (i : Nat) (v : α) : Nat → α := fun j => if j = i then v else f j

@[simp] theorem upd_same {α : Type} (f : Nat → α) (i : Nat) (v : α) : upd f i v i = v := by simp [upd]
@[simp] theorem upd_other {α : Type} (f : Nat → α) (i j : Nat) (v : α) (h : j ≠ i) : upd f i v j = f j := by
  simp [upd, h]
theorem upd_apply {α : Type} (f : Nat → α) (i j : Nat) (v : α) : upd f i v j = if j = i then v else f j := rfl

/-! ## the state machine (the code as it is) -/

structure Frame where
  parent : Option Nat := none      -- AsyncStackFrame::parentFrame
  root   : Option Nat := none      -- AsyncStackFrame::stackRoot (a cache; may dangle)
  acts   : Nat := 0                -- history: number of times this frame became a root's topFrame
  deacts : Nat := 0                -- history: number of times it ceased to be a root's topFrame
  deriving DecidableEq, Repr

structure Root where
  top  : Option Nat := none        -- AsyncStackRoot::topFrame
  next : Option Nat := none        -- AsyncStackRoot::nextRoot
  live : Bool := false             -- the owning ScopedAsyncStackRoot has not been destroyed
  deriving DecidableEq, Repr

structure St where
  cur : Option Nat                 -- currentThreadAsyncStackRoot (thread local)
  nRoots : Nat
  nFrames : Nat
  roots : Nat → Root
  frames : Nat → Frame

def St.init : St := ⟨none, 0, 0, fun _ => {}, fun _ => {}⟩

inductive Op
  | newFrame                            -- AsyncStackFrame{} (gets number nFrames)
  | setParent (f p : Nat)               -- f.setParentFrame(p)
  | copyParent (g f : Nat)              -- _root_and_frame: if (auto* p = f.getParentFrame()) g.setParentFrame(*p)
  | rootCtor                            -- ScopedAsyncStackRoot::ScopedAsyncStackRoot (gets number nRoots)
  | rootDtor (r : Nat)                  -- ScopedAsyncStackRoot::~ScopedAsyncStackRoot
  | activate (r f : Nat)                -- activateAsyncStackFrame(root, frame) / ScopedAsyncStackRoot::activateFrame
  | deactivate (f : Nat)                -- deactivateAsyncStackFrame(frame)
  | ensureDeactivated (r f : Nat)       -- ScopedAsyncStackRoot::ensureFrameDeactivated(possiblyDeadFrame)
  | pushCallee (caller callee : Nat)    -- pushAsyncStackFrameCallerCallee(caller, callee)
  | popCallee (callee : Nat)            -- popAsyncStackFrameCallee(callee)
  | popFromCaller (caller : Nat)        -- popAsyncStackFrameFromCaller(caller)
  | exchangeRoot (r : Option Nat)       -- exchangeCurrentAsyncStackRoot(newRoot)
  deriving DecidableEq, Repr

/-- checkAsyncStackFrameIsActive(frame): the three assertions; returns the frame's root -/
def checkActive (s : St) (f : Nat) : Option Nat :=
  if f < s.nFrames then
    match (s.frames f).root with
    | some r => if s.cur = some r ∧ r < s.nRoots ∧ (s.roots r).top = some f then some r else none
    | none => none
  else none

/-- popAsyncStackFrameCallee -/
def popCalleeStep (s : St) (b : Nat) : Option St :=
  match checkActive s b with
  | none => none
  | some r =>
    let caller := (s.frames b).parent
    let fr1 := match caller with
      | some a => upd s.frames a { s.frames a with root := some r, acts := (s.frames a).acts + 1 }
      | none => s.frames
    let fr2 := upd fr1 b { fr1 b with root := none, deacts := (fr1 b).deacts + 1 }
    some { s with roots := upd s.roots r { s.roots r with top := caller }, frames := fr2 }

def step (s : St) : Op → Option St
  | .newFrame => some { s with nFrames := s.nFrames + 1, frames := upd s.frames s.nFrames {} }
  | .setParent f p =>
    if f < s.nFrames ∧ p < s.nFrames then
      some { s with frames := upd s.frames f { s.frames f with parent := some p } }
    else none
  | .copyParent g f =>
    if g < s.nFrames ∧ f < s.nFrames then
      match (s.frames f).parent with
      | some p => some { s with frames := upd s.frames g { s.frames g with parent := some p } }
      | none => some s
    else none
  | .rootCtor =>
    some { s with nRoots := s.nRoots + 1, cur := some s.nRoots,
                  roots := upd s.roots s.nRoots { top := none, next := s.cur, live := true } }
  | .rootDtor r =>
    -- assert(current == &root_); assert(root_.topFrame == nullptr)
    if r < s.nRoots ∧ (s.roots r).live = true ∧ s.cur = some r ∧ (s.roots r).top = none then
      some { s with cur := (s.roots r).next, roots := upd s.roots r { s.roots r with live := false } }
    else none
  | .activate r f =>
    -- assert(current == &root); setTopFrame: assert(topFrame == nullptr); assert(frame.stackRoot == nullptr)
    if r < s.nRoots ∧ f < s.nFrames ∧ s.cur = some r ∧ (s.roots r).top = none ∧ (s.frames f).root = none then
      some { s with roots := upd s.roots r { s.roots r with top := some f },
                    frames := upd s.frames f { s.frames f with root := some r, acts := (s.frames f).acts + 1 } }
    else none
  | .deactivate f =>
    match checkActive s f with
    | none => none
    | some r =>
      some { s with roots := upd s.roots r { s.roots r with top := none },
                    frames := upd s.frames f { s.frames f with root := none, deacts := (s.frames f).deacts + 1 } }
  | .ensureDeactivated r f =>
    -- assert(current == &root_); t = topFrame.exchange(nullptr); assert(t == nullptr || t == possiblyDeadFrame)
    -- (the frame's own stackRoot is NOT cleared: it may be dead)
    if r < s.nRoots ∧ s.cur = some r then
      match (s.roots r).top with
      | none => some s
      | some t =>
        if t = f then
          some { s with roots := upd s.roots r { s.roots r with top := none },
                        frames := upd s.frames t { s.frames t with deacts := (s.frames t).deacts + 1 } }
        else none
    else none
  | .pushCallee a b =>
    match checkActive s a with
    | none => none
    | some r =>
      if b < s.nFrames then
        let fr1 := upd s.frames b { s.frames b with root := (s.frames a).root, parent := some a, acts := (s.frames b).acts + 1 }
        let fr2 := upd fr1 a { fr1 a with root := none, deacts := (fr1 a).deacts + 1 }
        some { s with roots := upd s.roots r { s.roots r with top := some b }, frames := fr2 }
      else none
  | .popCallee b => popCalleeStep s b
  | .popFromCaller a =>
    -- root = current (assert non-null); top = root->getTopFrame() (assert non-null); assert(top->parent == &caller)
    match s.cur with
    | none => none
    | some r =>
      if r < s.nRoots then
        match (s.roots r).top with
        | none => none
        | some t => if t < s.nFrames ∧ (s.frames t).parent = some a then popCalleeStep s t else none
      else none
  | .exchangeRoot r => some { s with cur := r }

def run : St → List Op → Option St
  | s, [] => some s
  | s, o :: os => match step s o with
    | some s' => run s' os
    | none => none

theorem run_append (s : St) (a b : List Op) :
    run s (a ++ b) = (run s a).bind (fun s' => run s' b) := by
  induction a generalizing s with
  | nil => simp [run]
  | cons o os ih =>
    simp only [List.cons_append, run]
    cases step s o with
    | none => simp
    | some s' => simpa using ih s'

/-! ### what a debugger / `getAsyncStackTraceFromInitialFrame` sees -/

/-- frames visited by the loop `for (f = initial; f != nullptr && n < max; f = f->getParentFrame())` -/
def trace (s : St) : Nat → Option Nat → List Nat
  | 0, _ => []
  | _, none => []
  | n+1, some f => f :: trace s n (s.frames f).parent

/-- number of roots on the thread's root stack (`cur`, `cur->nextRoot`, …), bounded walk -/
def rootDepth (s : St) : Nat → Option Nat → Nat
  | 0, _ => 0
  | _, none => 0
  | n+1, some r => rootDepth s n (s.roots r).next + 1

/-- the parent chain of `f` written out: `l = [f, parent f, …, last]`, `last` has no parent -/
inductive Chain (s : St) : Nat → List Nat → Prop
  | last (f : Nat) : (s.frames f).parent = none → Chain s f [f]
  | link (f p : Nat) (l : List Nat) : (s.frames f).parent = some p → Chain s p l → Chain s f (f :: l)

/-! ## the discipline (ghost pushdown automaton) -/

inductive FSt | fresh | idle | active | parked | stale
  deriving DecidableEq, Repr

structure G where
  nf : Nat
  nr : Nat
  stack : List (Nat × Option Nat)    -- open roots of this thread, innermost first, with their active frame
  status : Nat → FSt
  par : Nat → Option Nat
  rank : Nat → Nat                   -- ghost: strictly decreasing along parent links

def G.init : G := ⟨0, 0, [], fun _ => .fresh, fun _ => none, fun _ => 0⟩

/-- popCallee under the discipline -/
def gpop (g : G) (b : Nat) : Option G :=
  match g.stack with
  | (r, some b') :: rest =>
    if b' = b then
      match g.par b with
      | none => some { g with stack := (r, none) :: rest, status := upd g.status b .stale }
      | some a =>
        if g.status a = .parked ∨ g.status a = .idle then
          some { g with stack := (r, some a) :: rest, status := upd (upd g.status b .stale) a .active }
        else none
    else none
  | _ => none

def gstep (g : G) : Op → Option G
  | .newFrame =>
    some { g with nf := g.nf + 1, status := upd g.status g.nf .fresh, par := upd g.par g.nf none,
                  rank := upd g.rank g.nf 0 }
  | .setParent f p =>
    if f < g.nf ∧ p < g.nf ∧ g.status f = .fresh ∧ g.status p ≠ .fresh then
      some { g with par := upd g.par f (some p), rank := upd g.rank f (g.rank p + 1) }
    else none
  | .copyParent c f =>
    if c < g.nf ∧ f < g.nf ∧ g.status c = .fresh then
      match g.par f with
      | some p => some { g with par := upd g.par c (some p), rank := upd g.rank c (g.rank p + 1) }
      | none => some g
    else none
  | .rootCtor => some { g with nr := g.nr + 1, stack := (g.nr, none) :: g.stack }
  | .rootDtor r =>
    match g.stack with
    | (r', none) :: rest => if r' = r then some { g with stack := rest } else none
    | _ => none
  | .activate r f =>
    match g.stack with
    | (r', none) :: rest =>
      if r' = r ∧ f < g.nf ∧ (g.status f = .fresh ∨ g.status f = .idle) then
        some { g with stack := (r, some f) :: rest, status := upd g.status f .active }
      else none
    | _ => none
  | .deactivate f =>
    match g.stack with
    | (r, some f') :: rest =>
      if f' = f then some { g with stack := (r, none) :: rest, status := upd g.status f .idle } else none
    | _ => none
  | .ensureDeactivated r f =>
    match g.stack with
    | (r', none) :: _ => if r' = r then some g else none
    | (r', some f') :: rest =>
      if r' = r ∧ f' = f then some { g with stack := (r, none) :: rest, status := upd g.status f .stale } else none
    | _ => none
  | .pushCallee a b =>
    match g.stack with
    | (r, some a') :: rest =>
      if a' = a ∧ b < g.nf ∧ g.status b = .fresh then
        some { g with stack := (r, some b) :: rest, status := upd (upd g.status a .parked) b .active,
                      par := upd g.par b (some a), rank := upd g.rank b (g.rank a + 1) }
      else none
    | _ => none
  | .popCallee b => gpop g b
  | .popFromCaller a =>
    match g.stack with
    | (_, some b) :: _ => if g.par b = some a then gpop g b else none
    | _ => none
  | .exchangeRoot _ => none

def grun : G → List Op → Option G
  | g, [] => some g
  | g, o :: os => match gstep g o with
    | some g' => grun g' os
    | none => none

theorem grun_append (g : G) (a b : List Op) :
    grun g (a ++ b) = (grun g a).bind (fun g' => grun g' b) := by
  induction a generalizing g with
  | nil => simp [grun]
  | cons o os ih =>
    simp only [List.cons_append, grun]
    cases gstep g o with
    | none => simp
    | some g' => simpa using ih g'

/-! ## the simulation relation -/

/-- the ghost stack describes the thread's chain of roots: `cur`, `cur->nextRoot`, … -/
def StackOK (s : St) : Option Nat → List (Nat × Option Nat) → Prop
  | c, [] => c = none
  | c, (r, t) :: rest =>
    c = some r ∧ (s.roots r).live = true ∧ (s.roots r).top = t ∧ (∀ x ∈ rest, x.1 < r) ∧
      StackOK s (s.roots r).next rest

theorem StackOK.congr {s s' : St} : ∀ {c : Option Nat} {l : List (Nat × Option Nat)},
    (∀ x ∈ l, s'.roots x.1 = s.roots x.1) → StackOK s c l → StackOK s' c l
  | _, [], _, h => h
  | _, (r, t) :: rest, hr, h => by
    obtain ⟨h1, h2, h3, h4, h5⟩ := h
    have e : s'.roots r = s.roots r := hr (r, t) List.mem_cons_self
    refine ⟨h1, by rw [e]; exact h2, by rw [e]; exact h3, h4, ?_⟩
    rw [e]
    exact StackOK.congr (fun x hx => hr x (List.mem_cons_of_mem _ hx)) h5

structure Agree (g : G) (s : St) : Prop where
  nf_eq : s.nFrames = g.nf
  nr_eq : s.nRoots = g.nr
  stackOK : StackOK s s.cur g.stack
  stack_lt : ∀ x ∈ g.stack, x.1 < g.nr
  dead : ∀ r, r < g.nr → (∀ x ∈ g.stack, x.1 ≠ r) → (s.roots r).live = false ∧ (s.roots r).top = none
  tops : ∀ r f, (r, some f) ∈ g.stack → f < g.nf ∧ g.status f = .active ∧ (s.frames f).root = some r
  act : ∀ f, f < g.nf → g.status f = .active → ∃ r, (r, some f) ∈ g.stack
  noroot : ∀ f, f < g.nf → (g.status f = .fresh ∨ g.status f = .idle ∨ g.status f = .parked) →
    (s.frames f).root = none
  par_eq : ∀ f, f < g.nf → (s.frames f).parent = g.par f
  par_ok : ∀ f p, f < g.nf → g.par f = some p → p < g.nf ∧ g.status p ≠ .fresh ∧ g.rank p < g.rank f
  count : ∀ f, f < g.nf → (s.frames f).acts = (s.frames f).deacts + (if g.status f = .active then 1 else 0)

theorem agree_init : Agree G.init St.init := by
  constructor <;> simp [G.init, St.init, StackOK]

end Unifex.Proto.AsyncStack
