/-
  Proto/EventV2.lean — atomic-step model of the v2 `async_manual_reset_event`
  (include/unifex/v2/async_manual_reset_event.hpp, source/async_manual_reset_event_v2.cpp) with its
  `cancellable<>` wrapper (include/unifex/cancellable.hpp).

  The waiter list `waiters_` is an `atomic_intrusive_list<_, /*Latch=*/true>`; its operations
  (push_front_unless_latched, latch_and_drain, pop_front, try_remove, unlatch, is_latched) are
  taken as ATOMIC operations of an abstract list (`latched`, `main`, one `loc` list per running
  set()) — their linearizability is a separate obligation (DESIGN §3.3), here it is ASSUMED.
  `try_remove` works on a node whichever list it is in (the event's or a set()'s stack-local one).

    set()    latch_and_drain(local);  while (w = local.pop_front()) w->resume_(w)
             resume_ = if (try_complete(op)) op->reschedule()
    reset()  unlatch;          ready()  is_latched
    start()  (cancellable:) register the stop callback;  nested start: push_front_unless_latched,
             if latched: if (try_complete) reschedule();   then, unless completed synchronously,
             state_.fetch_or(started): if it was exactly `stopped` → nested stop()
    stop()   (from the stop callback, if state_ was exactly `started`, or from start()):
             if (try_remove(this)) if (try_complete(this)) { cancelled_ = true; reschedule(); }
    try_complete = state_.fetch_or(completed) wins iff it was not yet set; the winner tells a
             start() that has not yet set `started` (sync_complete), destroys the stop callback
    reschedule() = schedule() on the receiver's scheduler with an UNSTOPPABLE token; when that runs:
             cancelled_ ? set_done(receiver) : set_value(receiver)
             (the model follows the repaired code, tools/checks/c16_repair.patch: before the repair
             stop() called set_done(receiver) INLINE on the thread that requested stop, although the
             sender advertises `is_always_scheduler_affine`)

  Steps: one per atomic operation / list operation / completion; the store to `sync_complete` is
  merged with the fetch_or that precedes it (the only reader spins on it), destroying the stop
  callback is merged with the step that follows it (enqueue on the waiter's scheduler).
  Destroying a stop callback blocks while that callback runs on another thread.

  The receivers use a deferred scheduler driven by the waiter's own thread, so every completion —
  `value<k>` and the `done<k>` of a cancelled wait — runs on thread T(k+1) (`offThread` stays false).
  The completion may destroy the operation state: every later access to it is flagged (`bad = 6`).

  Threads: controller 0 = T0, waiter k = T(k+1), controller j>0 = T(nW+j).
-/
import UnifexModel.Core.Reflect
import UnifexModel.Proto.Code16

namespace Unifex.Proto.EventV2
open Unifex.Core

inductive VOp
  | set | reset | ready | stop (k : Nat) | joinCtl
  deriving DecidableEq, Repr

structure Config where
  stoppable : List Bool          -- per waiter: does its receiver have a (real) stop token
  scripts : List (List VOp)      -- controller scripts; controller 0 is T0
  startLatched : Bool := false   -- constructor argument `startSignalled` (the constructor calls set())

/-- waiter pcs: 0 call, 1 register cb, 2 push, 3 fast-path try_complete, 4 fast-path reschedule,
    5 load sync_complete, 6 fetch_or(started), 7 stop(): try_remove, 8 stop(): try_complete,
    9 stop(): cancelled_ = true; reschedule, 10 return from start, 11 drive own scheduler, 12 finished -/
structure Wt where
  pc : Nat
  stopped : Bool      -- cancellable state bits
  started : Bool
  completed : Bool
  sync : Bool         -- the stack-local sync_complete flag of start()
  sched : Bool        -- reschedule operation enqueued on this waiter's scheduler
  stopReq : Bool      -- the receiver's stop source
  cbReg : Bool
  cbRun : Nat         -- 0 / thread id + 1 running the stop callback
  cancelled : Bool    -- cancelled_
  removed : Bool      -- history: a stop() took this waiter off the list (it won the cancel race)
  covered : Bool      -- history: the event was latched while this waiter was (being) enqueued
  outcome : Nat       -- history: 0 none, 1 value, 2 done
  count : Nat         -- history: completions delivered
  deriving DecidableEq, Repr

/-- controller pcs: 0 idle; set: 1 latch_and_drain, 2 pop_front, 3 try_complete, 4 reschedule;
    5 reset (unlatch), 14 reset return; 6 ready load, 7 ready return; stop: 8 request, 9 callback fetch_or(stopped),
    10 try_remove, 11 try_complete, 12 cancelled_ = true; reschedule, 13 callback returns -/
structure Ct where
  ip : Nat
  pc : Nat
  loc : List Nat     -- set(): the stack-local drained list
  cur : Nat          -- waiter being resumed / stopped
  r : Bool
  sure : Bool        -- history, ready(): when the call began a set() had returned and no reset() had begun
  deriving DecidableEq, Repr

structure St where
  latched : Bool
  main : List Nat
  ws : List Wt
  cs : List Ct
  offThread : Bool   -- history: a completion ran on a thread other than the waiter's own
  setDone : Bool     -- history: a set() call has returned (or the event was constructed signalled)
  resetBegun : Bool  -- history: a reset() call has begun
  bad : Nat          -- history: 1 completed twice, 2 value without a set, 3 done without a stop request,
                     -- 4 value although a stop() had removed the waiter, 5 done although no stop() removed it,
                     -- 6 operation state accessed after its completion was delivered,
                     -- 7 ready() answered false although a set() had returned before the call began and no
                     --   reset() began before it returned
  deriving DecidableEq, Repr

def Wt.init : Wt := ⟨0, false, false, false, false, false, false, false, 0, false, false, false, 0, 0⟩
def Ct.init : Ct := ⟨0, 0, [], 0, false, false⟩

def init (cfg : Config) : St :=
  { latched := cfg.startLatched, main := [], ws := cfg.stoppable.map (fun _ => Wt.init),
    cs := cfg.scripts.map (fun _ => Ct.init), offThread := false, setDone := cfg.startLatched,
    resetBegun := false, bad := 0 }

abbrev Lbl := Nat × Option String
def ev (t : Nat) (txt : String) : Lbl := (t, some txt)
def tau (t : Nat) : Lbl := (t, none)

def getW (s : St) (k : Nat) : Wt := s.ws.getD k Wt.init
def setW (s : St) (k : Nat) (w : Wt) : St := { s with ws := s.ws.set k w }
def getT (s : St) (j : Nat) : Ct := s.cs.getD j Ct.init
def setT (s : St) (j : Nat) (c : Ct) : St := { s with cs := s.cs.set j c }

def ctlTid (s : St) (j : Nat) : Nat := if j = 0 then 0 else s.ws.length + j

def flag (s : St) (b : Nat) : St := if s.bad = 0 then { s with bad := b } else s

/-- deliver a completion of waiter `k` on thread `t` (`out` = 1 value, 2 done) -/
def complete (s : St) (k t out : Nat) : St :=
  let w := getW s k
  let s1 := if w.count ≥ 1 then flag s 1 else s
  let s2 := if out = 1 && !w.covered then flag s1 2 else s1
  let s3 := if out = 2 && !w.stopReq then flag s2 3 else s2
  let s3 := if out = 1 && w.removed then flag s3 4 else s3
  let s3 := if out = 2 && !w.removed then flag s3 5 else s3
  let s4 := if t ≠ k + 1 then { s3 with offThread := true } else s3
  setW s4 k { getW s4 k with outcome := out, count := w.count + 1 }

/-- an access to the operation state of waiter `k` (its cancellable state, list node, cancelled_,
    reschedule_op_): flagged if the completion has already been delivered (the receiver may have
    destroyed the operation) -/
def touch (s : St) (k : Nat) : St := if (getW s k).count ≥ 1 then flag s 6 else s

/-- try_remove(k): from the event's list or from the local list of a running set() -/
def inAnyList (s : St) (k : Nat) : Bool := s.main.contains k || s.cs.any (fun c => c.loc.contains k)
def removeAny (s : St) (k : Nat) : St :=
  { s with main := s.main.erase k, cs := s.cs.map (fun c => { c with loc := c.loc.erase k }) }

def othersDone (cfg : Config) (s : St) (j : Nat) : Bool :=
  (List.range s.cs.length).all (fun u =>
    u = j || ((getT s u).pc == 0 && decide ((cfg.scripts.getD u []).length ≤ (getT s u).ip)))

/-- the stop callback of waiter `k` can be destroyed by thread `t` now (not running elsewhere) -/
def canDestroyCb (w : Wt) (t : Nat) : Bool := w.cbRun = 0 || w.cbRun = t + 1

/-- One step of waiter thread `k`. -/
def stepW (cfg : Config) (s : St) (k : Nat) : Option (Lbl × St) :=
  let w := getW s k
  let t := k + 1
  let stp := cfg.stoppable.getD k false
  match w.pc with
  | 0 => some (ev t s!"wait{k}.begin", setW s k { w with pc := if stp then 1 else 2 })
  | 1 =>  -- stop callback constructor (runs the callback inline if stop was already requested:
          -- state_.fetch_or(stopped) finds 0, nothing else happens)
    if w.stopReq then some (tau t, setW s k { w with pc := 2, stopped := true })
    else some (tau t, setW s k { w with pc := 2, cbReg := true })
  | 2 =>  -- push_front_unless_latched
    if s.latched then some (tau t, setW s k { w with pc := 3, covered := true })
    else some (tau t, setW { s with main := k :: s.main } k { w with pc := if stp then 5 else 10 })
  | 3 =>  -- fast path: try_complete
    if w.completed then some (tau t, setW s k { w with pc := 10 })
    else some (tau t, setW s k { w with pc := 4, completed := true, sync := true })
  | 4 =>  -- (destroy the stop callback;) reschedule()
    if canDestroyCb w t then some (tau t, setW s k { w with pc := 10, cbReg := false, sched := true })
    else none
  | 5 => some (tau t, setW s k { w with pc := if w.sync then 10 else 6 })
  | 6 =>  -- state_.fetch_or(started)
    if w.stopped && !w.completed then some (tau t, setW s k { w with pc := 7, started := true })
    else some (tau t, setW s k { w with pc := 10, started := true })   -- (sync is set with `completed`)
  | 7 =>  -- nested stop(): try_remove
    if inAnyList s k then some (tau t, setW (removeAny s k) k { w with pc := 8, removed := true })
    else some (tau t, setW s k { w with pc := 10 })
  | 8 =>
    if w.completed then some (tau t, setW s k { w with pc := 10 })
    else some (tau t, setW s k { w with pc := 9, completed := true })
  | 9 =>  -- (destroy the stop callback;) cancelled_ = true; reschedule()
    if canDestroyCb w t then some (tau t, setW s k { w with pc := 10, cbReg := false, cancelled := true, sched := true })
    else none
  | 10 => some (ev t s!"wait{k}.end", setW s k { w with pc := 11 })
  | 11 =>
    if w.sched then
      -- the reschedule operation runs on the waiter's scheduler: cancelled_ ? set_done : set_value
      let s1 := complete (setW s k { w with sched := false }) k t (if w.cancelled then 2 else 1)
      some (ev t (if w.cancelled then s!"done{k}" else s!"value{k}"), setW s1 k { getW s1 k with pc := 12 })
    else none
  | _ => none

/-- One step of controller `j`. -/
def stepC (cfg : Config) (s : St) (j : Nat) : Option (Lbl × St) :=
  let c := getT s j
  let t := ctlTid s j
  match c.pc with
  | 0 =>
    match (cfg.scripts.getD j [])[c.ip]? with
    | none => none
    | some .set => some (ev t "set.begin", setT s j { c with pc := 1 })
    | some .reset => some (ev t "reset.begin", setT { s with resetBegun := true } j { c with pc := 5 })
    | some .ready => some (ev t "ready.begin", setT s j { c with pc := 6, sure := s.setDone && !s.resetBegun })
    | some (.stop k) => some (ev t s!"stop{k}.begin", setT s j { c with pc := 8, cur := k })
    | some .joinCtl => if othersDone cfg s j then some (tau t, setT s j { c with ip := c.ip + 1 }) else none
  | 1 =>  -- latch_and_drain(local)
    if s.latched then some (tau t, setT s j { c with pc := 2, loc := [] })
    else
      let ws' := s.ws.zipIdx.map (fun (w, i) => if s.main.contains i then { w with covered := true } else w)
      some (tau t, setT { s with latched := true, main := [], ws := ws' } j { c with pc := 2, loc := s.main })
  | 2 =>  -- local.pop_front()
    match c.loc with
    | [] => some (ev t "set.end", setT { s with setDone := true } j { c with pc := 0, ip := c.ip + 1 })
    | i :: rest => some (tau t, setT s j { c with pc := 3, loc := rest, cur := i })
  | 3 =>  -- resume_: try_complete
    let s := touch s c.cur
    let w := getW s c.cur
    if w.completed then some (tau t, setT s j { c with pc := 2 })
    else
      let w' := { w with completed := true, sync := w.sync || !w.started }
      some (tau t, setT (setW s c.cur w') j { c with pc := 4 })
  | 4 =>  -- (destroy the stop callback;) reschedule(): enqueue on the waiter's scheduler
    let w := getW s c.cur
    if canDestroyCb w t then
      let s := touch s c.cur
      some (tau t, setT (setW s c.cur { w with cbReg := false, sched := true }) j { c with pc := 2 })
    else none
  | 5 => some (tau t, setT { s with latched := false } j { c with pc := 14 })   -- unlatch
  | 14 => some (ev t "reset.end", setT s j { c with pc := 0, ip := c.ip + 1 })
  | 6 => some (tau t, setT s j { c with pc := 7, r := s.latched })
  | 7 =>
    let s1 := if c.sure && !s.resetBegun && !c.r then flag s 7 else s
    some (ev t (if c.r then "ready.end 1" else "ready.end 0"), setT s1 j { c with pc := 0, ip := c.ip + 1 })
  | 8 =>  -- request_stop()
    let w := getW s c.cur
    if w.cbReg then some (tau t, setT (setW s c.cur { w with stopReq := true, cbRun := t + 1 }) j { c with pc := 9 })
    else some (tau t, setT (setW s c.cur { w with stopReq := true }) j { c with pc := 13 })
  | 9 =>  -- stop callback: state_.fetch_or(stopped) == started ?
    let s := touch s c.cur
    let w := getW s c.cur
    let s1 := setW s c.cur { w with stopped := true }
    if w.started && !w.stopped && !w.completed then some (tau t, setT s1 j { c with pc := 10 })
    else some (tau t, setT s1 j { c with pc := 13 })
  | 10 =>
    let s := touch s c.cur
    if inAnyList s c.cur then
      let s1 := removeAny s c.cur
      some (tau t, setT (setW s1 c.cur { getW s1 c.cur with removed := true }) j { (getT s1 j) with pc := 11 })
    else some (tau t, setT s j { c with pc := 13 })
  | 11 =>
    let s := touch s c.cur
    let w := getW s c.cur
    if w.completed then some (tau t, setT s j { c with pc := 13 })
    else some (tau t, setT (setW s c.cur { w with completed := true }) j { c with pc := 12 })
  | 12 =>  -- destroy the callback from inside itself; cancelled_ = true; reschedule(): the set_done
           -- is delivered by the waiter's scheduler, not here
    let s := touch s c.cur
    let w := getW s c.cur
    some (tau t, setT (setW s c.cur { w with cbReg := false, cancelled := true, sched := true }) j { c with pc := 13 })
  | 13 =>
    let w := getW s c.cur
    some (ev t s!"stop{c.cur}.end", setT (setW s c.cur { w with cbRun := 0 }) j { c with pc := 0, ip := c.ip + 1 })
  | _ => none

def sys (cfg : Config) : LSys St Lbl where
  init := init cfg
  next s := (List.range s.ws.length).filterMap (stepW cfg s) ++
            (List.range s.cs.length).filterMap (stepC cfg s)

def obsOf (l : Lbl) : Option String := l.2.map (fun txt => s!"T{l.1} {txt}")

def final (cfg : Config) (s : St) : Bool :=
  s.ws.all (fun w => w.pc == 12) &&
  (List.range s.cs.length).all (fun j => (getT s j).pc == 0 && decide ((cfg.scripts.getD j []).length ≤ (getT s j).ip))

/-- The property as a state predicate (scheduler affinity is `affine`):
    * no waiter completes twice, none with value without a set(), none with done without a stop
      request, none with value after a stop() removed it from the list (it won the cancel race),
      none with done unless a stop() removed it, and the operation state is never accessed after
      its completion was delivered; ready() never answers false when a set() had returned before
      the call began and no reset() began before it returned (`bad = 0`);
    * no deadlock;
    * at the end every waiter has completed exactly once (all configurations end with a set()). -/
def safe (cfg : Config) (s : St) : Bool :=
  s.bad == 0 &&
  s.ws.all (fun w => decide (w.count ≤ 1)) &&
  (!((sys cfg).next s).isEmpty || final cfg s) &&
  (!final cfg s || s.ws.all (fun w => w.count == 1))

/-- every completion ran on the waiter's own scheduler thread -/
def affine (s : St) : Bool := !s.offThread

/-! ### coding (fixed layout, see Proto/Code16.lean) -/
open Code16

/-- 14 digits -/
def encWt (w : Wt) : Nat :=
  dcons w.pc (dcons (b2n w.stopped) (dcons (b2n w.started) (dcons (b2n w.completed) (dcons (b2n w.sync)
    (dcons (b2n w.sched) (dcons (b2n w.stopReq) (dcons (b2n w.cbReg) (dcons w.cbRun (dcons (b2n w.covered)
      (dcons w.outcome (dcons w.count (dcons (b2n w.cancelled) (dcons (b2n w.removed) 0)))))))))))))
def decWt (n o : Nat) : Wt :=
  ⟨dig n o, dig n (o+1) == 1, dig n (o+2) == 1, dig n (o+3) == 1, dig n (o+4) == 1, dig n (o+5) == 1,
   dig n (o+6) == 1, dig n (o+7) == 1, dig n (o+8), dig n (o+12) == 1, dig n (o+13) == 1, dig n (o+9) == 1,
   dig n (o+10), dig n (o+11)⟩

/-- 10 digits -/
def encCt (c : Ct) : Nat := dcons c.ip (dcons c.pc (dcons c.cur (dcons (b2n c.r) (dcons (b2n c.sure) (encLN c.loc)))))
def decCt (n o : Nat) : Ct := ⟨dig n o, dig n (o+1), decL n (o+5), dig n (o+2), dig n (o+3) == 1, dig n (o+4) == 1⟩

/-- layout: nW, nC, latched, offThread, bad, setDone, resetBegun, main (5), waiters (14 each),
    controllers (10 each), terminator -/
def encSt (s : St) : Nat :=
  dcons s.ws.length (dcons s.cs.length (dcons (b2n s.latched) (dcons (b2n s.offThread) (dcons s.bad
    (dcons (b2n s.setDone) (dcons (b2n s.resetBegun)
      (encLN s.main + 16 ^ 5 * (packW 14 encWt s.ws + 16 ^ (14 * s.ws.length) *
        (packW 10 encCt s.cs + 16 ^ (10 * s.cs.length))))))))))

def decSt (n : Nat) : St :=
  { latched := dig n 2 == 1, main := decL n 7,
    ws := (List.range (dig n 0)).map (fun i => decWt n (12 + 14 * i)),
    cs := (List.range (dig n 1)).map (fun j => decCt n (12 + 14 * dig n 0 + 10 * j)),
    offThread := dig n 3 == 1, setDone := dig n 5 == 1, resetBegun := dig n 6 == 1, bad := dig n 4 }

def coded : Coded St := { enc := encSt, dec := decSt, M := 1021, W := 256 }

/-! ### scenario configurations (mirrored by harness/rt/scn_c16.cpp, same names) -/

/-- two plain waiters race with one set() -/
def cfgTwoWaiters : Config := { stoppable := [false, false], scripts := [[], [.set]] }
/-- set/reset and a ready() probe race with one waiter; T0 releases it at the end -/
def cfgSetReset : Config := { stoppable := [false], scripts := [[.joinCtl, .set], [.set, .reset], [.ready]] }
/-- one cancellable waiter: a stop request races with its start; T0 sets at the end -/
def cfgCancel : Config := { stoppable := [true], scripts := [[.joinCtl, .set], [.stop 0]] }
/-- one cancellable waiter: stop request vs set() -/
def cfgCancelVsSet : Config := { stoppable := [true], scripts := [[], [.stop 0], [.set]] }

/-- the event is constructed signalled and never reset: ready() probes race with a late wait (whose
    push_front_unless_latched takes the head link's lock) and a redundant set() -/
def cfgReadyBusy : Config := { stoppable := [false], scripts := [[], [.ready, .ready], [.set]], startLatched := true }

def configs : List (String × Config) :=
  [("v2_two_waiters", cfgTwoWaiters), ("v2_set_reset", cfgSetReset), ("v2_cancel", cfgCancel),
   ("v2_cancel_vs_set", cfgCancelVsSet), ("v2_ready_busy", cfgReadyBusy)]

end Unifex.Proto.EventV2
