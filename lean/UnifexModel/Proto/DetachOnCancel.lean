/-
  Proto/DetachOnCancel.lean — atomic-step model of `detach_on_cancel`
  (include/unifex/detach_on_cancel.hpp: `operation_state::type`, `detached_state`, `_receiver`).

  Shared word: `detached_state::parentOp_` — the parent op pointer with a 2-bit count in the low
  bits (`ptrSet`, `cnt`; initially pointer | 1).  The child op and its stop source live in the
  heap-allocated `detached_state` owned by the parent's `unique_ptr` (`owned`) until one side
  releases / resets it.
    request_stop()   load; CAS(ptr|1 → 0|2); stopSource_.request_stop(); fetch_sub(1);
                     callback_.destruct(); old count 1 → state_.reset() (free) else state_.release();
                     set_done(receiver)
    try_get_op()     fetch_sub(1): old count 2 → lost, nothing; old count 1 with pointer → destruct
                     the callback, complete the receiver; old count 1 without pointer → delete this
  One step = one atomic operation on `parentOp_`, one critical section of a stop source, or one
  externally visible call (child start, receiver completion, deallocation).

  Parties: `starter` (connect + start()), `completer` (thread A: completes the child by hand, after
  it was started; in `waitRcv` configurations only after the receiver has been completed),
  `stopper` (thread B: request_stop() on the receiver's stop source).
  The receiver destroys the parent op when it is completed (`parentFreed`; frees the detached state
  if the unique_ptr still owns it).  `touchP` / `touchS` record accesses to freed memory.
-/
import UnifexModel.Core.Reflect

namespace Unifex.Proto.DetachOnCancel
open Unifex.Core

inductive Role | starter | completer | stopper
  deriving DecidableEq, Repr

structure Config where
  sync : Bool       -- the child completes inside its start()
  waitRcv : Bool    -- thread A waits for the receiver's completion before it finishes the child
  roles : List Role

/-- frame kinds: 0 start(op), 1 detached_state::request_stop(), 2 child completion (_receiver::set_value
    → try_get_op), 5 completer main, 6 inplace_stop_source::request_stop() of the receiver's source -/
structure Frame where
  kind : Nat
  pc : Nat
  deriving DecidableEq, Repr

structure Thr where
  ip : Nat
  stack : List Frame
  deriving DecidableEq, Repr

structure St where
  ptrSet : Bool        -- pointer bits of parentOp_
  cnt : Nat            -- count bits of parentOp_
  owned : Bool         -- parent's unique_ptr<detached_state> is non-null
  srcStop : Bool       -- receiver's stop source
  cbSt : Nat           -- the parent's callback_: 0 not constructed, 1 in the list, 2 taken by the notifier,
                       -- 3 callbackCompleted_, 4 executed inline at registration, 5 destructed
  cbRunner : Nat
  childStop : Bool     -- detached_state::stopSource_ stop requested
  aGo : Nat            -- 1 = child launched
  parentFreed : Bool
  frees : Nat          -- history: deallocations of the detached state
  completions : Nat
  doneWins : Nat
  childStarts : Nat
  childDone : Nat      -- history: child completions delivered to _receiver
  bad : Nat            -- 1 parent op touched after destruction, 2 detached state touched after free,
                       -- 6 callback destructed twice/unconstructed, 8 receiver completed after destruction
  thrs : List Thr
  deriving DecidableEq, Repr

def init (cfg : Config) : St :=
  { ptrSet := true, cnt := 1, owned := true, srcStop := false, cbSt := 0, cbRunner := 0, childStop := false,
    aGo := 0, parentFreed := false, frees := 0, completions := 0, doneWins := 0, childStarts := 0,
    childDone := 0, bad := 0, thrs := cfg.roles.map (fun _ => ⟨0, []⟩) }

def getThr (s : St) (t : Nat) : Thr := s.thrs.getD t ⟨0, []⟩
def setThr (s : St) (t : Nat) (x : Thr) : St := { s with thrs := s.thrs.set t x }
def goto (s : St) (t : Nat) (pc : Nat) : St :=
  let th := getThr s t
  match th.stack with
  | [] => s
  | f :: fs => setThr s t { th with stack := { f with pc := pc } :: fs }
def push (s : St) (t : Nat) (f : Frame) : St :=
  let th := getThr s t
  setThr s t { th with stack := f :: th.stack }
def pop (s : St) (t : Nat) : St :=
  let th := getThr s t
  setThr s t { th with stack := th.stack.tail }

def flag (s : St) (n : Nat) : St := if s.bad = 0 then { s with bad := n } else s
def touchP (s : St) : St := if s.parentFreed then flag s 1 else s
def touchS (s : St) : St := if s.frees > 0 then flag s 2 else s

abbrev Lbl := Nat × Option String
def ev (t : Nat) (txt : String) : Lbl := (t, some txt)
def tau (t : Nat) : Lbl := (t, none)

def othersDone (s : St) (t : Nat) : Bool :=
  (List.range s.thrs.length).all (fun u => u = t || ((getThr s u).stack.isEmpty && (getThr s u).ip ≥ 1))

/-- `callback_.destruct()` by thread `t`; `none` = spinning until the notifier finished the callback -/
def dereg (s : St) (t : Nat) : Option St :=
  let s1 := touchP s
  match s.cbSt with
  | 1 => some { s1 with cbSt := 5 }
  | 2 => if s.cbRunner = t + 1 then some { s1 with cbSt := 5 } else none
  | 3 => some { s1 with cbSt := 5 }
  | 4 => some { s1 with cbSt := 5 }
  | _ => some (flag s1 6)

/-- deallocation of the detached state (observable: the harness' operator delete prints it) -/
def freeState (s : St) : St := { s with frees := s.frees + 1 }

def rcv (s : St) (t : Nat) (how : Nat) (pc : Nat) : Lbl × St :=
  let s0 := if s.parentFreed then flag s 8 else s
  let s1 := { s0 with completions := s.completions + 1, doneWins := s.doneWins + how }
  (ev t (if how = 0 then "rcv.value" else "rcv.done"), goto s1 t pc)

/-- the receiver destroys the parent op; `~unique_ptr` frees the detached state if still owned -/
def destroyParent (s : St) (t : Nat) (k : St → St) : Lbl × St :=
  if s.completions = 1 then
    let s1 := { s with parentFreed := true }
    if s.owned then (ev t "state.freed", k (freeState { s1 with owned := false })) else (tau t, k s1)
  else (tau t, k s)

def stepThr (cfg : Config) (s : St) (t : Nat) : Option (Lbl × St) :=
  let th := getThr s t
  match th.stack with
  | [] =>
    match cfg.roles.getD t .starter, th.ip with
    | .starter, 0 => some (ev t "start.begin", push (setThr s t { th with ip := 1 }) t ⟨0, 1⟩)
    | .starter, 1 => if othersDone s t then some (tau t, setThr s t { th with ip := 2 }) else none
    | .completer, 0 =>
      if s.aGo = 1 && (!cfg.waitRcv || s.parentFreed) then
        some (ev t "A.complete", push (setThr s t { th with ip := 1 }) t ⟨2, 0⟩)
      else none
    | .stopper, 0 => some (ev t "stop.begin", push (setThr s t { th with ip := 1 }) t ⟨6, 1⟩)
    | _, _ => none
  | f :: _ =>
    match f.kind, f.pc with
    -- ---------------- tag_invoke(start, op)
    | 0, 1 =>  -- childOp = op.state_->childOp_; callback_.construct(token, cancel_callback{state})
      if s.srcStop then some (tau t, push (goto { (touchP s) with cbSt := 4 } t 2) t ⟨1, 0⟩)
      else some (tau t, goto { (touchP s) with cbSt := 1 } t 2)
    | 0, 2 =>  -- unifex::start(childOp)       [childOp is a reference into the heap state]
      let s1 := { (touchS s) with childStarts := s.childStarts + 1 }
      if cfg.sync then some (ev t "child.start", push (goto s1 t 3) t ⟨2, 0⟩)
      else some (ev t "child.start", goto { s1 with aGo := 1 } t 3)
    | 0, 3 => some (ev t "start.end", pop s t)
    -- ---------------- detached_state::request_stop()
    | 1, 0 =>  -- parentOp_.load(): ref_count == 0 → return
      if s.cnt = 0 then some (tau t, pop (touchS s) t) else some (tau t, goto (touchS s) t 1)
    | 1, 1 =>  -- compare_exchange_strong(expected = ptr|1, 2)
      if s.ptrSet && s.cnt = 1 then some (tau t, goto { (touchS s) with ptrSet := false, cnt := 2 } t 2)
      else some (tau t, pop (touchS s) t)
    | 1, 2 => some (tau t, goto { (touchS s) with childStop := true } t 3)   -- stopSource_.request_stop()
    | 1, 3 =>  -- fetch_sub(1)
      some (tau t, goto { (touchS s) with cnt := s.cnt - 1 } t (if s.cnt = 1 then 4 else 5))
    | 1, 4 =>  -- op->callback_.destruct(); op->state_.reset()
      match dereg s t with
      | some s1 => some (ev t "state.freed", goto (freeState { s1 with owned := false }) t 6)
      | none => none
    | 1, 5 =>  -- op->callback_.destruct(); op->state_.release()
      match dereg s t with
      | some s1 => some (tau t, goto { s1 with owned := false } t 6)
      | none => none
    | 1, 6 => some (rcv (touchP s) t 1 7)                                   -- set_done(op->receiver_)
    | 1, 7 => some (destroyParent s t (fun s1 => pop s1 t))
    -- ---------------- _receiver::set_value → try_get_op()
    | 2, 0 =>  -- parentOp_.fetch_sub(1)
      let s1 := { (touchS s) with cnt := s.cnt - 1, childDone := s.childDone + 1 }
      if s.cnt ≠ 1 then some (tau t, pop s1 t)            -- lost the race with the stop callback
      else if s.ptrSet then some (tau t, goto s1 t 1)
      else some (tau t, goto s1 t 4)
    | 2, 1 =>  -- ptr->callback_.destruct()
      match dereg s t with
      | some s1 => some (tau t, goto s1 t 2)
      | none => none
    | 2, 2 => some (rcv (touchP s) t 0 3)
    | 2, 3 => some (destroyParent s t (fun s1 => pop s1 t))
    | 2, 4 => some (ev t "state.freed", pop (freeState (touchS s)) t)      -- delete this
    -- ---------------- inplace_stop_source::request_stop() (receiver's source)
    | 6, 1 =>
      if s.srcStop then some (tau t, goto s t 4)
      else if s.cbSt = 1 then
        some (tau t, push (goto { s with srcStop := true, cbSt := 2, cbRunner := t + 1 } t 2) t ⟨1, 0⟩)
      else some (tau t, goto { s with srcStop := true } t 4)
    | 6, 2 =>
      if s.cbSt = 2 then some (tau t, goto { (touchP s) with cbSt := 3, cbRunner := 0 } t 4)
      else some (tau t, goto { s with cbRunner := 0 } t 4)
    | 6, 4 => some (ev t "stop.end", pop s t)
    | _, _ => none

def sys (cfg : Config) : LSys St Lbl where
  init := init cfg
  next s := (List.range s.thrs.length).filterMap (fun t => stepThr cfg s t)

def obsOf (l : Lbl) : Option String := l.2.map (fun txt => s!"T{l.1} {txt}")

def final (cfg : Config) (s : St) : Bool :=
  (List.range s.thrs.length).all (fun u =>
    (getThr s u).stack.isEmpty &&
      (getThr s u).ip ≥ (if cfg.roles.getD u .starter == .starter then 2 else 1))

/-- C19 for detach_on_cancel:
    * no access to the parent op after the receiver destroyed it, none to the detached state after it
      was freed, no double destruction of the stop callback (`bad = 0`);
    * the receiver is completed at most once; with done only after stop was forwarded to the child;
    * the detached state is freed at most once, and never while the started child has not finished;
    * no deadlock — in particular (`waitRcv` configurations) the stop path completes the receiver
      without waiting for the child;
    * at the end: receiver completed exactly once, parent destroyed, child state freed exactly once,
      child finished exactly once. -/
def safe (cfg : Config) (s : St) : Bool :=
  s.bad = 0 && s.completions ≤ 1 && s.frees ≤ 1 && s.childStarts ≤ 1 &&
  (s.doneWins = 0 || s.childStop) &&
  (s.frees = 0 || s.childStarts = 0 || s.childDone = 1) &&
  ((sys cfg).next s |>.isEmpty |> fun dead => !dead || final cfg s) &&
  (!final cfg s || (s.completions = 1 && s.parentFreed && s.frees = 1 && s.childDone = 1 && !s.owned))

/-! ### coding -/
def b2n (b : Bool) : Nat := if b then 1 else 0
def encFrame (f : Frame) : List Nat := [f.kind, f.pc]
def encThr (t : Thr) : List Nat := t.ip :: t.stack.length :: t.stack.flatMap encFrame
def encSt (s : St) : List Nat :=
  [b2n s.ptrSet, s.cnt, b2n s.owned, b2n s.srcStop, s.cbSt, s.cbRunner, b2n s.childStop, s.aGo,
   b2n s.parentFreed, s.frees, s.completions, s.doneWins, s.childStarts, s.childDone, s.bad, s.thrs.length] ++
  s.thrs.flatMap encThr

def decFrames : Nat → List Nat → List Frame × List Nat
  | 0, r => ([], r)
  | n+1, k :: p :: r => let (fs, r') := decFrames n r; (⟨k, p⟩ :: fs, r')
  | _, r => ([], r)

def decThrs : Nat → List Nat → List Thr × List Nat
  | 0, r => ([], r)
  | n+1, ip :: len :: r =>
    let (fs, r1) := decFrames len r
    let (ts, r2) := decThrs n r1
    (⟨ip, fs⟩ :: ts, r2)
  | _, r => ([], r)

def decSt (l : List Nat) : St :=
  match l with
  | a0 :: a1 :: a2 :: a3 :: a4 :: a5 :: a6 :: a7 :: a8 :: a9 :: a10 :: a11 :: a12 :: a13 :: a14 :: n :: r =>
    let (ths, _) := decThrs n r
    ⟨a0 == 1, a1, a2 == 1, a3 == 1, a4, a5, a6 == 1, a7, a8 == 1, a9, a10, a11, a12, a13, a14, ths⟩
  | _ => { init ⟨false, false, []⟩ with bad := 99 }

def coded : Coded St :=
  { enc := fun s => packNats 16 (encSt s), dec := fun n => decSt (unpackNats 16 200 n), M := 16381, W := 200 }

/-! ### the scenario configurations (harness/rt/scn_c19.cpp, d_*) -/
def cfgRace : Config := ⟨false, false, [.starter, .completer, .stopper]⟩
/-- the child is finished only after the receiver was completed: the stop path must not wait for it -/
def cfgDetach : Config := ⟨false, true, [.starter, .completer, .stopper]⟩
def cfgSync : Config := ⟨true, false, [.starter, .stopper]⟩

def configs : List (String × Config) := [("d_race", cfgRace), ("d_detach", cfgDetach), ("d_sync", cfgSync)]

end Unifex.Proto.DetachOnCancel
