/-
  Proto/TimerOp.lean — monitor-step model of `timed_single_thread_context`
  (include/unifex/timed_single_thread_context.hpp, source/timed_single_thread_context.cpp).

  One step = one critical section of `mutex_` (lock; the work done while holding it; unlock — or,
  for the timer thread, the atomic release-and-wait of `cv_.wait / wait_until`), or one
  interaction with the receiver's stop source (callback construction = registration or inline
  execution, `request_stop()`, callback destruction which BLOCKS while the callback runs on
  another thread, the `stop_requested()` test), or one externally visible call/return.
  Critical sections are atomic steps because everything they touch (`head_` list, `dueTime_`,
  `prevNextPtr_`, `stop_`) is only touched under the one mutex, nothing blocks inside one, and no
  observable event happens inside one (Lipton reduction: the acquisition moves right, the release
  moves left); a thread waiting for the mutex is therefore never the only enabled thread and is
  not a separate state.  The protocol inside inplace_stop_source is C03's subject and atomic here.

  The clock is an ENVIRONMENT step (`tick`, thread id 9): time may advance by one unit at any
  moment up to `cfg.maxT`; `clock_t::now()` is read inside the step that uses it.  The timer
  thread's wait is enabled again when signalled or when its deadline has been reached (no spurious
  wake-ups: a wait that relies on one is a deadlock / lost wake-up).

  The queue is a `TimerQueue.Queue` and is only ever changed through `TimerQueue.insertStable`,
  `TimerQueue.remove` and `TimerQueue.pop` — the definitions the real enqueue walks are compared
  against.

  Client behaviour is the configuration: per thread a script of `start i` / `stop i` /
  `waitDone` / `shutdown`; thread 1 is the context's own thread (`runLoop`).  History variables
  (`completions`, `stopRet`, `bad`) carry what the property talks about.
  Observable labels are the strings harness/rt/scn_c07.cpp prints.
-/
import UnifexModel.Core.Reflect
import UnifexModel.Proto.TimerQueue

namespace Unifex.Proto.TimerOp
open Unifex.Core
open Unifex.Proto

inductive Op
  | start (i : Nat) | stop (i : Nat) | waitDone | shutdown | runLoop
  deriving DecidableEq, Repr

structure Config where
  scripts : List (List Op)
  dues : List Nat          -- due time of item i (schedule_at; model time units)
  maxT : Nat               -- the clock stops ticking here (≥ every due time)

/-- frame kinds: 0 = start(i), 1 = the timer thread's run(), 2 = request_stop(i),
    3 = cancel_callback body for item i, 5 = ~timed_single_thread_context -/
structure Frame where
  kind : Nat
  arg : Nat
  pc : Nat
  deriving DecidableEq, Repr

structure Item where
  due : Nat            -- dueTime_
  queued : Bool        -- prevNextPtr_ != nullptr
  cb : Nat             -- cancelCallback_: 0 not constructed, 1 registered, 2 running, 3 has run, 4 destroyed
  stopReq : Bool       -- the receiver's stop source: stop requested
  completions : Nat    -- history: receiver completions
  stopRet : Bool       -- history: request_stop() has returned
  deriving DecidableEq, Repr

structure Thr where
  ip : Nat
  stack : List Frame
  deriving DecidableEq, Repr

structure St where
  now : Nat
  queue : TimerQueue.Queue       -- head_ list (ids = item indices)
  stopFlag : Bool                -- stop_
  waiting : Bool                 -- timer thread inside cv_.wait / wait_until
  timed : Bool
  deadline : Nat
  signalled : Bool
  items : List Item
  thrs : List Thr
  bad : Nat   -- history: 0 ok, 1 set_value before the due time, 2 dequeued item was not a minimum of
              -- the queue, 3 callback destroyed before it was constructed, 4 completion delivered
              -- while the context still references the item, 5 set_value although request_stop()
              -- had already returned
  deriving DecidableEq, Repr

def Item.init (d : Nat) : Item := ⟨d, false, 0, false, 0, false⟩

def init (cfg : Config) : St :=
  { now := 0, queue := [], stopFlag := false, waiting := false, timed := false,
    deadline := 0, signalled := false,
    items := cfg.dues.map Item.init, thrs := cfg.scripts.map (fun _ => ⟨0, []⟩), bad := 0 }

def getIt (s : St) (i : Nat) : Item := s.items.getD i (Item.init 0)
def setIt (s : St) (i : Nat) (c : Item) : St := { s with items := s.items.set i c }
def getThr (s : St) (t : Nat) : Thr := s.thrs.getD t ⟨0, []⟩
def setThr (s : St) (t : Nat) (x : Thr) : St := { s with thrs := s.thrs.set t x }

/-- replace the top frame's pc (and argument) -/
def gotoA (s : St) (t : Nat) (pc : Nat) (arg : Nat) : St :=
  let th := getThr s t
  match th.stack with
  | [] => s
  | f :: fs => setThr s t { th with stack := { f with pc := pc, arg := arg } :: fs }
def goto (s : St) (t : Nat) (pc : Nat) : St :=
  let th := getThr s t
  match th.stack with
  | [] => s
  | f :: fs => setThr s t { th with stack := { f with pc := pc } :: fs }
def push (s : St) (t : Nat) (f : Frame) : St :=
  let th := getThr s t
  setThr s t { th with stack := f :: th.stack }
def pop (s : St) (t : Nat) : St :=
  let th := getThr s t
  setThr s t { th with stack := th.stack.tail }

def setBad (s : St) (b : Nat) : St := if s.bad = 0 then { s with bad := b } else s

abbrev Lbl := Nat × Option String
def ev (t : Nat) (txt : String) : Lbl := (t, some txt)
def tau (t : Nat) : Lbl := (t, none)

def threadDone (cfg : Config) (s : St) (u : Nat) : Bool :=
  (getThr s u).stack.isEmpty && (getThr s u).ip ≥ (cfg.scripts.getD u []).length

/-- `enqueue(task)`: lock; sorted insertion; `notify_one` if it became the head; unlock. -/
def enqueue (s : St) (i : Nat) : St :=
  let it := getIt s i
  let newHead := match s.queue with
    | [] => true
    | h :: _ => decide ((it.due : Int) < h.due)
  let q := TimerQueue.insertStable ⟨it.due, i⟩ s.queue
  let s1 := setIt { s with queue := q } i { it with queued := true }
  if newHead && s1.waiting then { s1 with signalled := true } else s1

/-- one evaluation of the `while (!stop_)` loop of run() with the mutex held: exit, dequeue the
    head if it is due (then unlock and go execute it), or release-and-wait -/
def loopIter (s : St) (t : Nat) : Lbl × St :=
  let s := { s with waiting := false, signalled := false }
  if s.stopFlag then (tau t, pop s t)
  else
    match TimerQueue.pop s.queue with
    | none => (tau t, goto { s with waiting := true, timed := false } t 2)
    | some (h, rest) =>
      if h.due ≤ (s.now : Int) then
        let ch := getIt s h.id
        let s0 := if rest.all (fun y => decide (h.due ≤ y.due)) then s else setBad s 2
        (tau t, gotoA (setIt { s0 with queue := rest } h.id { ch with queued := false }) t 3 h.id)
      else
        (tau t, goto { s with waiting := true, timed := true, deadline := h.due.toNat } t 2)

/-- One step of thread `t`; `none` = disabled (in a wait, blocked in a callback destructor,
    finished). -/
def stepThr (cfg : Config) (s : St) (t : Nat) : Option (Lbl × St) :=
  let th := getThr s t
  match th.stack with
  | [] =>
    match (cfg.scripts.getD t [])[th.ip]? with
    | none => none
    | some op =>
      let s1 := setThr s t { th with ip := th.ip + 1 }
      match op with
      | .start i =>
        -- at_operation::start(): construct the stop callback (registration, or inline execution
        -- when stop has already been requested); the enqueue follows
        let c := getIt s1 i
        if c.stopReq then some (tau t, push (push (setIt s1 i { c with cb := 2 }) t ⟨0, i, 3⟩) t ⟨3, i, 1⟩)
        else some (tau t, push (setIt s1 i { c with cb := 1 }) t ⟨0, i, 3⟩)
      | .stop i =>
        -- request_stop(): set the flag and take the registered callback, if any
        let c := getIt s1 i
        if c.cb = 1 then
          some (tau t, push (push (setIt s1 i { c with stopReq := true, cb := 2 }) t ⟨2, i, 1⟩) t ⟨3, i, 1⟩)
        else some (tau t, push (setIt s1 i { c with stopReq := true }) t ⟨2, i, 1⟩)
      | .runLoop => some (tau t, push s1 t ⟨1, 0, 1⟩)
      | .shutdown => some (ev t "shutdown.begin", push s1 t ⟨5, 0, 1⟩)
      | .waitDone =>
        if s.items.all (fun c => decide (c.completions ≥ 1)) then some (tau t, s1) else none
  | f :: _ =>
    let i := f.arg
    let c := getIt s i
    match f.kind, f.pc with
    -- ---------------- at_operation::start(), second half: enqueue
    | 0, 3 => some (tau t, pop (enqueue s i) t)
    -- ---------------- request_stop() on the receiver's stop source
    | 2, 1 => some (ev t s!"stop{i}.end", pop (setIt s i { c with stopRet := true }) t)
    -- ---------------- cancel_callback::operator()
    | 3, 1 =>  -- lock; now = clock::now(); … unlock
      if s.now < c.due then
        if c.queued then
          -- dueTime_ = now; unlink; prevNextPtr_ = nullptr; unlock; (re-enqueue follows)
          some (tau t, goto (setIt { s with queue := TimerQueue.remove i s.queue } i
                               { c with due := s.now, queued := false }) t 3)
        else some (tau t, goto (setIt s i { c with due := s.now }) t 9)
      else some (tau t, goto s t 9)
    | 3, 3 => some (tau t, goto (enqueue s i) t 9)
    | 3, 9 => some (tau t, pop (setIt s i { c with cb := 3 }) t)
    -- ---------------- timed_single_thread_context::run()
    | 1, 1 => some (loopIter s t)          -- lock (first time / after execute) and evaluate
    | 1, 2 =>                               -- inside cv_.wait / cv_.wait_until
      if s.signalled || (s.timed && s.deadline ≤ s.now) then some (loopIter s t) else none
    | 1, 3 =>  -- execute_impl: cancelCallback_.destruct() — blocks while the callback runs elsewhere
      if c.cb = 2 then none
      else
        let s0 := if c.cb = 0 then setBad s 3 else s
        some (tau t, goto (setIt s0 i { c with cb := 4 }) t 4)
    | 1, 4 =>  -- stop_requested() ? set_done : set_value     (the receiver runs here)
      let s0 := if !c.stopReq && s.now < (cfg.dues.getD i 0) then setBad s 1 else s
      let s1 := if c.queued || s.queue.any (fun y => y.id == i) then setBad s0 4 else s0
      let s2 := if !c.stopReq && c.stopRet then setBad s1 5 else s1
      let txt := if c.stopReq then s!"done{i}@{s.now}" else s!"value{i}@{s.now}"
      some (ev t txt, goto (setIt s2 i { c with completions := c.completions + 1 }) t 1)
    -- ---------------- ~timed_single_thread_context
    | 5, 1 =>  -- lock; stop_ = true; notify_one; unlock
      let s1 := { s with stopFlag := true }
      some (tau t, goto (if s1.waiting then { s1 with signalled := true } else s1) t 2)
    | 5, 2 => if threadDone cfg s 1 then some (ev t "shutdown.end", pop s t) else none
    | _, _ => none

def threadSteps (cfg : Config) (s : St) : List (Lbl × St) :=
  (List.range s.thrs.length).filterMap (fun t => stepThr cfg s t)

/-- the clock: an environment step -/
def tickStep (cfg : Config) (s : St) : List (Lbl × St) :=
  if s.now < cfg.maxT then [((9, none), { s with now := s.now + 1 })] else []

def sys (cfg : Config) : LSys St Lbl where
  init := init cfg
  next s := threadSteps cfg s ++ tickStep cfg s

def obsOf (l : Lbl) : Option String := l.2.map (fun txt => s!"T{l.1} {txt}")

def final (cfg : Config) (s : St) : Bool :=
  (List.range s.thrs.length).all (fun u => threadDone cfg s u)

def sortedB : TimerQueue.Queue → Bool
  | [] => true
  | x :: xs => xs.all (fun y => decide (x.due ≤ y.due)) && sortedB xs

def inCallback (s : St) (i : Nat) : Bool :=
  s.thrs.any (fun th => th.stack.any (fun f => f.kind == 3 && f.arg == i))

/-- The property as a state predicate (see `Props/C07.safe_spelled`). -/
def safe (cfg : Config) (s : St) : Bool :=
  -- never early, dequeued item minimal, callback life cycle, no reference at completion,
  -- no set_value after request_stop() returned
  s.bad = 0 &&
  s.items.all (fun c => decide (c.completions ≤ 1)) &&
  sortedB s.queue &&
  -- list integrity: an item is linked iff it is in the list, exactly once
  (List.range s.items.length).all (fun i =>
     decide ((s.queue.filter (fun y => y.id == i)).length = (if (getIt s i).queued then 1 else 0))) &&
  -- after the completion nothing refers to the item any more
  (List.range s.items.length).all (fun i =>
     let c := getIt s i
     c.completions = 0 || (!c.queued && c.cb == 4 && !inCallback s i)) &&
  -- promptness / no lost wake-up: while an item that is due (in particular a cancelled one, whose
  -- due time was rewritten to `now`) is queued, or a cancelled item is not yet completed, progress
  -- never depends on the clock: some thread can move
  ((!(s.queue.any (fun y => decide (y.due ≤ (s.now : Int)))) &&
    !(s.items.any (fun c => c.stopRet && c.completions == 0)))
   || !(threadSteps cfg s).isEmpty) &&
  -- no deadlock
  (!((sys cfg).next s).isEmpty || final cfg s) &&
  -- at the end: everything completed exactly once, nothing left in the queue
  (!final cfg s || (s.items.all (fun c => decide (c.completions = 1)) && s.queue.isEmpty))

/-! ### coding (untrusted; re-checked by `checkClosed`) -/

def b2n (b : Bool) : Nat := if b then 1 else 0

def encFrame (f : Frame) : List Nat := [f.kind, f.arg, f.pc]
def encItem (c : Item) : List Nat :=
  [c.due, b2n c.queued, c.cb, b2n c.stopReq, c.completions, b2n c.stopRet]
def encThr (t : Thr) : List Nat := t.ip :: t.stack.length :: t.stack.flatMap encFrame
def encQ (q : TimerQueue.Queue) : List Nat := q.length :: q.flatMap (fun y => [y.due.toNat, y.id])

def encSt (s : St) : List Nat :=
  [s.now, b2n s.stopFlag, b2n s.waiting, b2n s.timed, s.deadline, b2n s.signalled, s.bad] ++
  encQ s.queue ++ [s.items.length] ++ s.items.flatMap encItem ++ [s.thrs.length] ++ s.thrs.flatMap encThr

def decFrames : Nat → List Nat → List Frame × List Nat
  | 0, r => ([], r)
  | n+1, k :: a :: p :: r => let (fs, r') := decFrames n r; (⟨k, a, p⟩ :: fs, r')
  | _, r => ([], r)

def decItems : Nat → List Nat → List Item × List Nat
  | 0, r => ([], r)
  | n+1, a :: b :: c :: d :: e :: f :: r =>
    let (cs, r') := decItems n r
    (⟨a, b == 1, c, d == 1, e, f == 1⟩ :: cs, r')
  | _, r => ([], r)

def decThrs : Nat → List Nat → List Thr × List Nat
  | 0, r => ([], r)
  | n+1, ip :: len :: r =>
    let (fs, r1) := decFrames len r
    let (ts, r2) := decThrs n r1
    (⟨ip, fs⟩ :: ts, r2)
  | _, r => ([], r)

def decQ : Nat → List Nat → TimerQueue.Queue × List Nat
  | 0, r => ([], r)
  | n+1, d :: i :: r => let (q, r') := decQ n r; (⟨(d : Int), i⟩ :: q, r')
  | _, r => ([], r)

def badSt : St := ⟨0, [], false, false, false, 0, false, [], [], 99⟩

def decSt (l : List Nat) : St :=
  match l with
  | nw :: sf :: wt :: tm :: dl :: sg :: bd :: ql :: r =>
    let (q, r1) := decQ ql r
    match r1 with
    | ni :: r2 =>
      let (its, r3) := decItems ni r2
      match r3 with
      | nt :: r4 =>
        let (ths, _) := decThrs nt r4
        ⟨nw, q, sf == 1, wt == 1, tm == 1, dl, sg == 1, its, ths, bd⟩
      | _ => badSt
    | _ => badSt
  | _ => badSt

def coded : Coded St :=
  { enc := fun s => packNats 16 (encSt s), dec := fun n => decSt (unpackNats 16 200 n), M := 4093, W := 400 }

/-! ### the scenario configurations (mirrored one-to-one by harness/rt/scn_c07.cpp) -/

/-- one timer due at 1, a remote stop request racing start, the timer thread and the clock -/
def cfgOneCancel : Config :=
  ⟨[[.start 0, .waitDone, .shutdown], [.runLoop], [.stop 0]], [1], 1⟩
/-- two timers started in the "wrong" order (the second becomes the new head): order + wake-up -/
def cfgTwoOrder : Config :=
  ⟨[[.start 0, .start 1, .waitDone, .shutdown], [.runLoop]], [2, 1], 2⟩
/-- two timers with equal due time: ties first-in first-out -/
def cfgTwoEqual : Config :=
  ⟨[[.start 0, .start 1, .waitDone, .shutdown], [.runLoop]], [1, 1], 1⟩
/-- stop requested before start(): the callback runs inline in the constructor -/
def cfgStopBeforeStart : Config :=
  ⟨[[.stop 0, .start 0, .waitDone, .shutdown], [.runLoop]], [1], 1⟩
/-- two timers with equal due time, the second one is cancelled remotely and overtakes the first
    (unless the clock has reached the due time: then the tie stays first-in first-out) -/
def cfgTwoCancel : Config :=
  ⟨[[.start 0, .start 1, .waitDone, .shutdown], [.runLoop], [.stop 1]], [1, 1], 1⟩

def configs : List (String × Config) :=
  [("one_cancel", cfgOneCancel), ("two_order", cfgTwoOrder), ("two_equal", cfgTwoEqual),
   ("stop_before_start", cfgStopBeforeStart), ("two_cancel", cfgTwoCancel)]

end Unifex.Proto.TimerOp
