/-
  Proto/EventV1.lean — atomic-step model of the v1 `async_manual_reset_event`
  (include/unifex/v1/async_manual_reset_event.hpp, source/async_manual_reset_event_v1.cpp).

  The event is one atomic word `state_`:  nullptr (not set, nobody waiting) | `this` (set) |
  pointer to the top of a Treiber stack of waiting operations (linked through `next_`).

    set()            top = state_.exchange(this);  if top != this: pop every op of the captured
                     stack and call its set_value()  (`std::exchange(op, op->next_)->set_value()`)
    reset()          state_.compare_exchange_strong(this -> nullptr)
    ready()          state_.load() == this
    start_or_wait()  top = load;  loop { if top == this { op.set_value(); return; }
                                        op.next_ = top;  } while (!CAS(top -> &op))   (a failed CAS
                     reloads `top`)

  One step = one atomic operation on `state_` (plus the plain work up to the next one), or one
  `set_value()` call of a popped operation, or one externally visible call/return.  Nothing ever
  blocks or spins on somebody else here (a failed CAS is a step that re-reads), so a disabled
  thread is a finished thread.

  The stack is kept as the list of waiter ids (head = top); the CAS compares POINTERS, i.e. only
  the heads (`ptrEq`), and on success publishes `k :: <what the waiter read>` — exactly what
  `op.next_ = top; CAS(top, &op)` does.  That the read list is the current list whenever the heads
  agree (no ABA) is an invariant that is PROVED (`Inv`, clause `seenOk`), not assumed.

  Threads: waiter `k` (thread `T(k+1)`) performs one `async_wait` start on its own operation;
  controller `j` (thread `T(nW+1+j)`) runs a script of set / reset / ready calls.  `T0` is the
  scenario body, it only spawns and joins.  The waiter's receiver uses an inline scheduler, so the
  `set_value()` of the operation (which starts `schedule()` on the receiver's scheduler) IS the
  completion `done<k>`, observed on the thread that ran it.

  History variables: `resumed` (how many times the operation's set_value ran), `pushed` (its CAS
  succeeded), `covered` (a set() exchange happened while it was pushed, or its start saw the event
  set) — `covered` is assigned from the waiters' program counters / flags, not from the stack, so
  "covered ⇒ resumed exactly once" is a real statement about the stack protocol.
-/
import UnifexModel.Core.Reflect
import UnifexModel.Proto.Code16

namespace Unifex.Proto.EventV1
open Unifex.Core

inductive Word
  | set
  | list (l : List Nat)
  deriving DecidableEq, Repr

/-- the waiter stack encoded in the word (empty when the event is set) -/
def Word.lst : Word → List Nat
  | .set => []
  | .list l => l

/-- pointer equality of two values of `state_`: `this == this`, or same top-of-stack pointer -/
def ptrEq : Word → Word → Bool
  | .set, .set => true
  | .list a, .list b => a.head? == b.head?
  | _, _ => false

inductive COp | set | reset | ready
  deriving DecidableEq, Repr

structure Config where
  nW : Nat                      -- number of waiter threads
  scripts : List (List COp)     -- one script per controller thread
  startSet : Bool := false      -- constructor argument `startSignalled`

structure Wt where
  pc : Nat          -- 0 not called, 1 before the load, 2 in the CAS loop, 3 returning, 4 finished
  seen : Word       -- the local `top`
  pushed : Bool     -- history: the CAS succeeded
  resumed : Nat     -- history: number of set_value() calls on this operation
  covered : Bool    -- history: a set() happened after the push / the start saw `set`
  deriving DecidableEq, Repr

structure Ct where
  ip : Nat          -- next call of the script
  pc : Nat          -- 0 between calls; 1 set: exchange, 2 set: pop loop; 3 reset: CAS, 4 reset: return;
                    -- 5 ready: load, 6 ready: return
  cap : List Nat    -- set(): the captured stack still to be resumed
  r : Bool          -- ready(): the loaded answer
  deriving DecidableEq, Repr

structure St where
  word : Word
  ws : List Wt
  cs : List Ct
  deriving DecidableEq, Repr

def Wt.init : Wt := ⟨0, .list [], false, 0, false⟩
def Ct.init : Ct := ⟨0, 0, [], false⟩

def init (cfg : Config) : St :=
  { word := if cfg.startSet then .set else .list [],
    ws := List.replicate cfg.nW Wt.init,
    cs := cfg.scripts.map (fun _ => Ct.init) }

abbrev Lbl := Nat × Option String
def ev (t : Nat) (txt : String) : Lbl := (t, some txt)
def tau (t : Nat) : Lbl := (t, none)

/-- what the exchange in set() means for the history: every operation already pushed is covered -/
def markCovered (ws : List Wt) : List Wt :=
  ws.map (fun w => if w.pushed then { w with covered := true } else w)

/-- one more set_value() on operation `i` -/
def resume (ws : List Wt) (i : Nat) : List Wt :=
  match ws[i]? with
  | some w => ws.set i { w with resumed := w.resumed + 1 }
  | none => ws

/-- One step of waiter thread `k`. -/
def stepW (s : St) (k : Nat) : Option (Lbl × St) :=
  match s.ws[k]? with
  | none => none
  | some w =>
    match w.pc with
    | 0 => some (ev (k+1) s!"wait{k}.begin", { s with ws := s.ws.set k { w with pc := 1 } })
    | 1 => some (tau (k+1), { s with ws := s.ws.set k { w with pc := 2, seen := s.word } })   -- load
    | 2 =>
      if w.seen = .set then
        -- already signalled: op.set_value() inline, return
        some (ev (k+1) s!"done{k}",
              { s with ws := s.ws.set k { w with pc := 3, resumed := w.resumed + 1, covered := true } })
      else if ptrEq w.seen s.word then
        -- op.next_ = top; CAS(top -> &op) succeeds
        some (tau (k+1), { s with word := .list (k :: w.seen.lst),
                                  ws := s.ws.set k { w with pc := 3, pushed := true } })
      else
        -- CAS failed: `top` is reloaded, go round the loop
        some (tau (k+1), { s with ws := s.ws.set k { w with seen := s.word } })
    | 3 => some (ev (k+1) s!"wait{k}.end", { s with ws := s.ws.set k { w with pc := 4 } })
    | _ => none

/-- One step of controller thread `j`. -/
def stepC (cfg : Config) (s : St) (j : Nat) : Option (Lbl × St) :=
  let t := s.ws.length + 1 + j
  match s.cs[j]? with
  | none => none
  | some c =>
    match c.pc with
    | 0 =>
      match (cfg.scripts.getD j [])[c.ip]? with
      | none => none
      | some .set => some (ev t "set.begin", { s with cs := s.cs.set j { c with pc := 1 } })
      | some .reset => some (ev t "reset.begin", { s with cs := s.cs.set j { c with pc := 3 } })
      | some .ready => some (ev t "ready.begin", { s with cs := s.cs.set j { c with pc := 5 } })
    | 1 =>  -- top = state_.exchange(this)
      some (tau t, { s with word := .set, ws := markCovered s.ws,
                            cs := s.cs.set j { c with pc := 2, cap := s.word.lst } })
    | 2 =>
      match c.cap with
      | [] => some (ev t "set.end", { s with cs := s.cs.set j { c with pc := 0, ip := c.ip + 1 } })
      | i :: rest =>
        some (ev t s!"done{i}", { s with ws := resume s.ws i, cs := s.cs.set j { c with cap := rest } })
    | 3 =>  -- compare_exchange_strong(this -> nullptr)
      some (tau t, { s with word := (if s.word = .set then .list [] else s.word),
                            cs := s.cs.set j { c with pc := 4 } })
    | 4 => some (ev t "reset.end", { s with cs := s.cs.set j { c with pc := 0, ip := c.ip + 1 } })
    | 5 => some (tau t, { s with cs := s.cs.set j { c with pc := 6, r := decide (s.word = .set) } })
    | 6 => some (ev t (if c.r then "ready.end 1" else "ready.end 0"),
                 { s with cs := s.cs.set j { c with pc := 0, ip := c.ip + 1 } })
    | _ => none

def sys (cfg : Config) : LSys St Lbl where
  init := init cfg
  next s := (List.range s.ws.length).filterMap (stepW s) ++
            (List.range s.cs.length).filterMap (stepC cfg s)

def obsOf (l : Lbl) : Option String := l.2.map (fun txt => s!"T{l.1} {txt}")

def ctDone (cfg : Config) (s : St) (j : Nat) : Bool :=
  match s.cs[j]? with
  | some c => c.pc == 0 && decide ((cfg.scripts.getD j []).length ≤ c.ip)
  | none => true

/-- every thread ran to the end -/
def final (cfg : Config) (s : St) : Bool :=
  s.ws.all (fun w => w.pc == 4) && (List.range s.cs.length).all (ctDone cfg s)

/-- The property as a state predicate:
    * every operation is resumed at most once, and never without a set() covering it;
    * no deadlock;
    * at the end every operation that was pushed before a set() exchange, or whose start saw the
      event set, has been resumed (exactly once, by the first clause): no stranded waiter. -/
def safe (cfg : Config) (s : St) : Bool :=
  s.ws.all (fun w => decide (w.resumed ≤ 1) && (w.resumed == 0 || w.covered)) &&
  (!((sys cfg).next s).isEmpty || final cfg s) &&
  (!final cfg s || s.ws.all (fun w => !w.covered || w.resumed == 1))

/-! ### coding for the reflection instances (untrusted; fixed layout, see Proto/Code16.lean) -/

open Code16

/-- a word in 5 digits: 0 = set, otherwise `len+1` followed by at most 4 elements -/
def encWord (w : Word) : Nat :=
  match w with
  | .set => 0
  | .list l => dcons (l.length + 1) (packL l)

def decWord (n o : Nat) : Word :=
  match dig n o with
  | 0 => .set
  | len+1 => .list (digs n (o + 1) len)

/-- 9 digits -/
def encWt (w : Wt) : Nat :=
  dcons w.pc (dcons (b2n w.pushed) (dcons w.resumed (dcons (b2n w.covered) (encWord w.seen))))
def decWt (n o : Nat) : Wt :=
  ⟨dig n o, decWord n (o + 4), dig n (o + 1) == 1, dig n (o + 2), dig n (o + 3) == 1⟩

/-- 8 digits -/
def encCt (c : Ct) : Nat := dcons c.ip (dcons c.pc (dcons (b2n c.r) (encLN c.cap)))
def decCt (n o : Nat) : Ct := ⟨dig n o, dig n (o + 1), decL n (o + 3), dig n (o + 2) == 1⟩

/-- layout: nW, nC, word (5), waiters (9 each), controllers (8 each), terminator -/
def encSt (s : St) : Nat :=
  dcons s.ws.length (dcons s.cs.length
    (encWord s.word + 16 ^ 5 * (packW 9 encWt s.ws + 16 ^ (9 * s.ws.length) * (packW 8 encCt s.cs + 16 ^ (8 * s.cs.length)))))

def decSt (n : Nat) : St :=
  ⟨decWord n 2, (List.range (dig n 0)).map (fun i => decWt n (7 + 9 * i)),
   (List.range (dig n 1)).map (fun j => decCt n (7 + 9 * dig n 0 + 8 * j))⟩

def coded : Coded St := { enc := encSt, dec := decSt, M := 1021, W := 400 }

/-! ### scenario configurations (mirrored by harness/rt/scn_c16.cpp, same names) -/

/-- two waiters race with one set() -/
def cfgTwoWaiters : Config := { nW := 2, scripts := [[.set]] }
/-- one waiter, two concurrent set() calls -/
def cfgTwoSetters : Config := { nW := 1, scripts := [[.set], [.set]] }
/-- set, reset and a ready() probe race with one waiter -/
def cfgSetReset : Config := { nW := 1, scripts := [[.set, .reset], [.ready]] }
/-- the event starts signalled; a reset races with the waiter; a final set() releases it -/
def cfgStartSet : Config := { nW := 1, scripts := [[.reset, .set]], startSet := true }
/-- reset() while a waiter may be queued (a no-op then), followed by the set() that releases it -/
def cfgResetNoop : Config := { nW := 1, scripts := [[.reset, .set]] }
/-- three waiters, one set() (thorough tier only; covered by the parametric theorems) -/
def cfgThreeWaiters : Config := { nW := 3, scripts := [[.set]] }

def configs : List (String × Config) :=
  [("v1_two_waiters", cfgTwoWaiters), ("v1_two_setters", cfgTwoSetters), ("v1_set_reset", cfgSetReset),
   ("v1_start_set", cfgStartSet), ("v1_reset_noop", cfgResetNoop), ("v1_three_waiters", cfgThreeWaiters)]

end Unifex.Proto.EventV1
