/-
  Proto/Canary.lean — atomic-step model of `canary` / `canary::watcher` / `canary::guard`
  (include/unifex/canary.hpp).

  Shared words: `canary::watcher_` (`cw`: 0 = nullptr, 1 = the watcher, 2 = the watcher | lock bit),
  `watcher::canary_` (`wc`: 0 = nullptr, 1 = the canary, 2 = canary | lock bit), `watcher::state_`
  (`st`: 0 alive, 1 guarded, 2 dead, 3 done).  One step = one atomic operation (load, CAS, exchange,
  store); a spin loop whose exit condition is false is a disabled step.

  Parties: thread 0 constructed canary and watcher and only waits; thread 1 owns the watcher (calls
  `alive()` once in `useAlive` configurations, works on the canary's owner while the guard is held,
  releases the guard — in `moveGuard` configurations after moving it into a second guard object and
  destroying the moved-from one —, runs `~watcher`, then its memory is gone); thread 2 destroys the canary (and the
  object that contains it: `canaryFreed`).  `touchC` / `touchW` record accesses to freed memory.
-/
import UnifexModel.Core.Reflect

namespace Unifex.Proto.Canary
open Unifex.Core

structure Config where
  useAlive : Bool
  /-- the guard returned by `alive()` is moved into a longer-lived object (`guard(guard&&)`); the
      moved-from guard is destroyed first, the moved-to guard is released after the guarded work -/
  moveGuard : Bool := false

structure St where
  cw : Nat
  wc : Nat
  st : Nat
  guardHeld : Bool
  g1 : Bool             -- `state_ != nullptr` in the guard object returned by alive()
  g2 : Bool             -- `state_ != nullptr` in the guard object it was moved into
  aliveRes : Nat        -- history: 0 alive() not called, 1 returned a truthy guard, 2 a falsy one
  deadAtAlive : Bool    -- history: the canary destructor had begun when alive() returned
  canaryFreed : Bool
  watcherFreed : Bool
  bad : Nat             -- 1 canary (owner) touched after destruction, 2 watcher touched after destruction,
                        -- 3 ~canary returned while a guard was held
  pw : Nat              -- pc of the watcher thread (T1)
  pcn : Nat             -- pc of the canary thread (T2)
  deriving DecidableEq, Repr

def init (cfg : Config) : St :=
  { cw := 1, wc := 1, st := 0, guardHeld := false, g1 := false, g2 := false, aliveRes := 0, deadAtAlive := false, canaryFreed := false,
    watcherFreed := false, bad := 0, pw := if cfg.useAlive then 0 else 3, pcn := 0 }

def flag (s : St) (n : Nat) : St := if s.bad = 0 then { s with bad := n } else s
def touchC (s : St) : St := if s.canaryFreed then flag s 1 else s
def touchW (s : St) : St := if s.watcherFreed then flag s 2 else s

abbrev Lbl := Nat × Option String
def ev (t : Nat) (txt : String) : Lbl := (t, some txt)
def tau (t : Nat) : Lbl := (t, none)

/-- the watcher's thread: alive(), guarded work, ~guard, ~watcher -/
def stepW (cfg : Config) (s : St) : Option (Lbl × St) :=
  match s.pw with
  | 0 =>  -- alive(): state_.compare_exchange_strong(alive, guarded); guard{&state_} / guard{nullptr}
    if s.st = 0 then
      some (ev 1 "alive 1", { (touchC s) with st := 1, guardHeld := true, g1 := true, aliveRes := 1,
                                               pw := if cfg.moveGuard then 11 else 1 })
    else some (ev 1 "alive 0", { s with aliveRes := 2, deadAtAlive := decide (s.pcn ≥ 1), pw := 3 })
  | 1 => some (tau 1, { (touchC s) with pw := 2 })            -- work on the canary's owner under the guard
  | 2 =>  -- ~guard: if (state_) state_->store(done)
    some (ev 1 "guard.release", { s with st := if s.g1 then 3 else s.st, g1 := false, guardHeld := false, pw := 3 })
  -- moveGuard: guard(guard&& other) : state_(std::exchange(other.state_, nullptr)); then ~guard of the
  -- moved-from object (plain memory and, were its state_ still set, the store of `done`)
  | 11 =>
    let g2' := s.g1
    let g1' := false
    some (ev 1 "guard.moved", { s with g1 := false, g2 := g2', st := if g1' then 3 else s.st, pw := 12 })
  | 12 => some (tau 1, { (touchC s) with pw := 13 })          -- work on the canary's owner under the moved-to guard
  | 13 =>  -- ~guard of the moved-to object
    some (ev 1 "guard.release", { s with st := if s.g2 then 3 else s.st, g2 := false, guardHeld := false, pw := 3 })
  -- ~watcher
  | 3 => some (tau 1, { s with pw := if s.wc = 0 then 9 else if s.wc = 2 then 8 else 4 })   -- canary_.load()
  | 4 => if s.wc = 1 then some (tau 1, { s with wc := 2, pw := 5 }) else some (tau 1, { s with pw := 8 })
  | 5 =>  -- c->watcher_.compare_exchange_weak(this, nullptr), retried while the canary holds its lock
    if s.cw = 2 then none
    else some (tau 1, { (touchC s) with cw := 0, pw := 7 })
  | 7 => some (tau 1, { s with wc := 0, pw := 9 })             -- canary_.store(nullptr)
  | 8 => if s.wc = 0 then some (tau 1, { s with pw := 9 }) else none     -- spin until the canary cleared it
  | 9 => some (ev 1 "wdtor.end", { s with watcherFreed := true, pw := 10 })
  | _ => none

/-- the canary's thread: ~canary, then the owner's memory is gone -/
def stepC (s : St) : Option (Lbl × St) :=
  match s.pcn with
  | 0 => some (ev 2 "cdtor.begin", { s with pcn := 1 })
  | 1 => some (tau 2, { s with pcn := if s.cw = 0 then 9 else 2 })        -- watcher_.load()
  | 2 => if s.cw = 1 then some (tau 2, { s with cw := 2, pcn := 3 }) else some (tau 2, { s with pcn := 9 })
  | 3 =>  -- w->canary_.compare_exchange_strong(this, this|1)
    if s.wc = 1 then some (tau 2, { (touchW s) with wc := 2, pcn := 5 })
    else some (tau 2, { (touchW s) with pcn := 4 })
  | 4 => some (tau 2, { s with cw := 1, pcn := 41 })            -- deadlock: yield, unlock watcher_
  | 41 => if s.cw = 0 then some (tau 2, { s with pcn := 9 }) else none   -- spin until the watcher cleared it
  | 5 => some (tau 2, { (touchW s) with st := 2, pcn := if s.st = 1 then 6 else 7 })   -- state_.exchange(dead)
  | 6 => if s.st ≠ 2 then some (tau 2, { (touchW s) with pcn := 7 }) else none          -- spin while dead
  | 7 => some (tau 2, { (touchW s) with wc := 0, pcn := 8 })
  | 8 => some (tau 2, { s with cw := 0, pcn := 9 })
  | 9 =>
    let s1 := if s.guardHeld then flag s 3 else s
    some (ev 2 "cdtor.end", { s1 with canaryFreed := true, pcn := 10 })
  | _ => none

def sys (cfg : Config) : LSys St Lbl where
  init := init cfg
  next s := (stepW cfg s).toList ++ (stepC s).toList

def obsOf (l : Lbl) : Option String := l.2.map (fun txt => s!"T{l.1} {txt}")

def final (_cfg : Config) (s : St) : Bool := s.pw = 10 && s.pcn = 10

/-- C19 for the canary:
    * neither destructor (nor guarded work) touches the other object after it is gone (`bad ≠ 1, 2`);
    * `~canary` does not return while a guard is held (`bad ≠ 3`; equivalently `guardHeld → ¬canaryFreed`),
      also when the guard was moved and the moved-from object has already been destroyed;
    * at most one guard object refers to the watcher's state, and only while the guard is held;
    * `alive()` is falsy only if the canary's destructor has begun;
    * no deadlock (both lock orders, the guard spin) and both destructors terminate. -/
def safe (cfg : Config) (s : St) : Bool :=
  s.bad = 0 &&
  (!s.guardHeld || !s.canaryFreed) &&
  (!(s.g1 && s.g2)) && (!(s.g1 || s.g2) || s.guardHeld) &&
  (s.aliveRes ≠ 2 || s.deadAtAlive) &&
  ((sys cfg).next s |>.isEmpty |> fun dead => !dead || final cfg s) &&
  (!final cfg s || (s.canaryFreed && s.watcherFreed && !s.guardHeld))

def b2n (b : Bool) : Nat := if b then 1 else 0
def encSt (s : St) : List Nat :=
  [s.cw, s.wc, s.st, b2n s.guardHeld, b2n s.g1, b2n s.g2, s.aliveRes, b2n s.deadAtAlive, b2n s.canaryFreed,
   b2n s.watcherFreed, s.bad, s.pw, s.pcn]
def decSt (l : List Nat) : St :=
  match l with
  | [a0, a1, a2, a3, g1, g2, a4, a5, a6, a7, a8, a9, a10] =>
    ⟨a0, a1, a2, a3 == 1, g1 == 1, g2 == 1, a4, a5 == 1, a6 == 1, a7 == 1, a8, a9, a10⟩
  | _ => { init ⟨false, false⟩ with bad := 99 }

def coded : Coded St :=
  { enc := fun s => packNats 64 (encSt s), dec := fun n => decSt (unpackNats 64 40 n), M := 1021, W := 100 }

/-- alive() + guarded work + ~watcher on T1 versus ~canary on T2 -/
def cfgGuard : Config := ⟨true, false⟩
/-- the two destructors only -/
def cfgDtors : Config := ⟨false, false⟩
/-- like k_guard, but the guard is moved into a longer-lived object and the moved-from guard is
    destroyed before the guarded work -/
def cfgMove : Config := ⟨true, true⟩

def configs : List (String × Config) := [("k_guard", cfgGuard), ("k_dtors", cfgDtors), ("k_move", cfgMove)]

end Unifex.Proto.Canary
