/-
  Proto/EpollTimer.lean — atomic-step model of the timers of `io_epoll_context`
  (include/unifex/linux/io_epoll_context.hpp: schedule_at_sender::operation — start_local,
  start_remote, maybe_complete_with_value, complete_with_done,
  remove_timer_from_queue_and_complete_with_done, request_stop_local, request_stop_remote;
  source/linux/io_epoll_context.cpp: run_impl, execute_pending_local, update_timers, remove_timer,
  schedule_at_impl, acquire_completion_queue_items).

  The subject is the ELECTION on `schedule_at_operation::state_`: the I/O thread's `update_timers`
  does `fetch_add(timer_elapsed_flag)` when it pops an elapsed timer, a remote canceller does
  `fetch_add(cancel_pending_flag)` in `request_stop_remote`; whoever comes FIRST puts the operation
  on a queue of the context (ready queue / remote queue), the second must not.

  Threads: T0 client (starts timers from a foreign thread = `start_remote`, waits, stops the loop),
  T1 the thread inside run(), T2 the remote canceller; the clock is an environment step (thread 9).

  One step = one atomic RMW on `state_`, one interaction with the operation's stop source
  (`stop_requested()`, callback construction = registration or inline execution, callback
  destruction which BLOCKS while the callback runs on another thread, `request_stop()` taking the
  callback, the completion of the callback), one enqueue on the remote queue (with the eventfd
  write it may cause), one dequeue-all of the remote queue, one syscall (`timerfd_settime`,
  `epoll_wait` with the reads that clear the descriptors it reported), one receiver completion;
  the I/O thread's private work between two such actions (pop of the batch, `--enqueued_`,
  `exchange(execute_, nullptr)`, `timers_` insert/pop/remove, `timersAreDirty_`) belongs to the
  step of the action that follows it.

  Abstractions: the remote queue is a FIFO list with the "inactive ⇒ the enqueuer writes the
  eventfd" protocol as ONE step (the protocol itself is Proto/RemoteQueue.lean, C14); the stop
  source is the atomic register/take/complete abstraction justified by C03; `timers_` is a
  `TimerQueue.Queue` changed only through `insertStable` / `remove` / `pop` (the definitions
  intrusive_heap is differentially compared against).
  Kernel (ASSUMED semantics): a timerfd armed with an absolute time is reported readable by
  epoll_wait once the clock has reached that time, until it is read or re-armed; the eventfd is
  reported until read; epoll_wait blocks while nothing is readable.

  History variables: `completions`, `freed`, `stopRet`, `bad`.
  Observable labels are the strings harness/rt/scn_c07_epoll.cpp prints.
-/
import UnifexModel.Core.Reflect
import UnifexModel.Proto.TimerQueue

namespace Unifex.Proto.EpollTimer
open Unifex.Core
open Unifex.Proto

inductive Op
  | start (i : Nat)        -- unifex::start(op i) from this (foreign) thread: start_remote
  | stop (i : Nat)         -- request_stop() on op i's stop source from this thread
  | kick (i : Nat)         -- schedule() an item that requests stop on op i FROM the I/O thread
  | sleepUntil (t : Nat)   -- nanosleep until the clock shows t
  | waitDone | shutdown
  deriving DecidableEq, Repr

structure Config where
  scripts : List (List Op)   -- index = thread id; entry 1 (the I/O thread) is unused
  dues : List Nat
  maxT : Nat
  /-- `true` = the code as it is: update_timers tests `oldState & cancel_pending_flag`.  `false`
      models the slip "tests the wrong bit" (the branch is dead): used ONLY by the negative theorem
      `Props.C07_EpollRace.election_test_needed`, which shows that `safe` notices two winners. -/
  testsCancelBit : Bool := true

structure OpSt where
  elapsed : Bool     -- state_ & timer_elapsed_flag
  cancelP : Bool     -- state_ & cancel_pending_flag
  inTimers : Bool    -- linked into timers_
  /-- execute_: 0 nullptr, 1 on_schedule_complete, 2 maybe_complete_with_value,
      3 complete_with_done, 4 remove_timer_from_queue_and_complete_with_done -/
  exec : Nat
  enq : Nat          -- enqueued_
  /-- stopCallback_: 0 not constructed, 1 registered, 2 running on a remote thread,
      3 has run (callbackCompleted_), 4 destructed -/
  cb : Nat
  stopReq : Bool
  completions : Nat  -- history
  freed : Bool       -- history: the receiver has destroyed the operation state
  stopRet : Bool     -- history: request_stop() has returned
  deriving DecidableEq, Repr

structure Thr where
  ip : Nat
  pc : Nat     -- 0 = between two calls
  arg : Nat
  deriving DecidableEq, Repr

/-- queue items: i < 4 timer operation i; 4 + i the item that requests stop on timer i;
    8 the loop's stop_operation -/
abbrev Item := Nat

structure St where
  now : Nat
  ops : List OpSt
  thrs : List Thr
  -- the context
  lq : List Item                 -- localQueue_
  rq : List Item                 -- remoteQueue_ (oldest first)
  batch : List Item              -- `pending` inside execute_pending_local
  timers : TimerQueue.Queue      -- timers_
  dirty : Bool                   -- timersAreDirty_
  curDue : Nat                   -- currentDueTime_: 0 none, d+1
  rs : Bool                      -- remoteQueueReadSubmitted_ (remote queue marked inactive)
  shouldStop : Bool
  lpc : Nat                      -- where the I/O thread is (see `stepLoop`)
  cur : Item                     -- the item being executed
  unow : Nat                     -- `now` read at the start of update_timers
  -- the kernel
  karm : Nat                     -- timerfd: 0 disarmed, d+1 armed for d
  efd : Bool                     -- eventfd readable
  /-- history: 0 ok; 1 set_value before the due time; 2 an operation was put on a queue while it
      was already enqueued (enqueued_ != 0) — two winners of the election; 3 an item of a completed
      (destroyed) operation was executed, or an item whose execute_ is nullptr; 4 completion
      delivered while the context still references the operation (timers_, a queue, a live stop
      callback); 5 set_value although request_stop() had returned; 6 set_done without stop request -/
  bad : Nat
  deriving DecidableEq, Repr

def OpSt.init : OpSt := ⟨false, false, false, 0, 0, 0, false, 0, false, false⟩

def init (cfg : Config) : St :=
  { now := 0, ops := cfg.dues.map (fun _ => OpSt.init), thrs := cfg.scripts.map (fun _ => ⟨0, 0, 0⟩),
    lq := [], rq := [], batch := [], timers := [], dirty := false, curDue := 0, rs := false,
    shouldStop := false, lpc := 0, cur := 0, unow := 0, karm := 0, efd := false, bad := 0 }

def getOp (s : St) (i : Nat) : OpSt := s.ops.getD i OpSt.init
def setOp (s : St) (i : Nat) (o : OpSt) : St := { s with ops := s.ops.set i o }
def getThr (s : St) (t : Nat) : Thr := s.thrs.getD t ⟨0, 0, 0⟩
def setThr (s : St) (t : Nat) (x : Thr) : St := { s with thrs := s.thrs.set t x }
def setBad (s : St) (b : Nat) : St := if s.bad = 0 then { s with bad := b } else s
def dueOf (cfg : Config) (i : Nat) : Nat := cfg.dues.getD i 0

abbrev Lbl := Nat × Option String
def ev (t : Nat) (txt : String) : Lbl := (t, some txt)
def tau (t : Nat) : Lbl := (t, none)

/-- schedule_remote(item): `++enqueued_`, enqueue, and if the I/O thread had marked the queue
    inactive, write the eventfd -/
def schedRemote (s : St) (it : Item) : St :=
  let s1 := if it < 4 then
      let o := getOp s it
      setOp (if o.enq ≠ 0 then setBad s 2 else s) it { o with enq := o.enq + 1 }
    else s
  let s2 := { s1 with rq := s1.rq ++ [it] }
  if s2.rs then { s2 with efd := true } else s2

/-- schedule_local(op i) -/
def schedLocal (s : St) (i : Nat) : St :=
  let o := getOp s i
  let s1 := setOp (if o.enq ≠ 0 then setBad s 2 else s) i { o with enq := o.enq + 1 }
  { s1 with lq := s1.lq ++ [i] }

/-- remove_timer(op i): `timersAreDirty_ = true` if it is the top -/
def removeTimer (s : St) (i : Nat) : St :=
  let top := match s.timers with | h :: _ => h.id == i | [] => false
  setOp { s with timers := TimerQueue.remove i s.timers, dirty := s.dirty || top } i
    { getOp s i with inTimers := false }

/-- request_stop_local(op i) on the I/O thread: destruct the callback, execute_ =
    complete_with_done, and unless the timer has elapsed: remove it and enqueue the completion -/
def stopLocal (s : St) (i : Nat) : St :=
  let o := getOp s i
  let s1 := setOp s i { o with cb := 4, exec := 3 }
  if o.elapsed then s1 else schedLocal (removeTimer s1 i) i

/-- the receiver's completion (chan 1 = set_value, 2 = set_done): the history checks -/
def complete (cfg : Config) (s : St) (i : Nat) (chan : Nat) : St :=
  let o := getOp s i
  let s1 := if chan = 1 && s.now < dueOf cfg i then setBad s 1 else s
  let s2 := if o.enq ≠ 0 || o.inTimers || !(o.cb == 0 || o.cb == 4) ||
               s.lq.contains i || s.rq.contains i || s.batch.contains i then setBad s1 4 else s1
  let s3 := if chan = 1 && o.stopRet then setBad s2 5 else s2
  let s4 := if chan = 2 && !o.stopReq then setBad s3 6 else s3
  setOp s4 i { o with completions := o.completions + 1, freed := true }

def chanTxt (s : St) (i : Nat) (chan : Nat) : String :=
  if chan = 1 then s!"value{i}@{s.now}" else s!"done{i}@{s.now}"

/-- loop positions: 0 top of the loop / execute_pending_local, 1 inside the batch, 2 after the
    batch (shouldStop? timersAreDirty_?), 3 update_timers reaping, 4 update_timers re-arming,
    5 remote queue, 6 epoll_wait, 15 run() has returned;
    inside an item: 8 stopCallback_.construct of start_local, 10 the completion of
    maybe_complete_with_value, 13 the completion of remove_timer_from_queue_and_complete_with_done,
    14 the item that requested stop has returned -/
def stepLoop (cfg : Config) (s : St) : Option (Lbl × St) :=
  let t := 1
  match s.lpc with
  | 0 => some (tau t, { s with batch := s.lq, lq := [], lpc := 1 })
  | 1 =>
    match s.batch with
    | [] => some (tau t, { s with lpc := 2 })
    | it :: rest =>
      let s0 := { s with batch := rest, cur := it }
      if it = 8 then some (tau t, { s0 with shouldStop := true })
      else if it ≥ 4 then
        -- the item of `kick i`: request_stop() on the I/O thread -> request_stop_local
        let i := it - 4
        let o := getOp s0 i
        let s1 := setOp s0 i { o with stopReq := true }
        some (tau t, { (if o.cb = 1 then stopLocal s1 i else s1) with lpc := 14 })
      else
        let o := getOp s0 it
        if o.freed || o.exec = 0 then some (tau t, setBad s0 3)
        else
          let s1 := setOp s0 it { o with enq := o.enq - 1, exec := 0 }
          match o.exec with
          | 1 =>  -- start_local: stop_requested() ?
            if o.stopReq then some (tau t, schedLocal (setOp s1 it { getOp s1 it with exec := 3 }) it)
            else
              let newTop := match s1.timers with | h :: _ => decide ((dueOf cfg it : Int) < h.due) | [] => true
              let s2 := setOp { s1 with timers := TimerQueue.insertStable ⟨dueOf cfg it, it⟩ s1.timers,
                                        dirty := s1.dirty || newTop } it { getOp s1 it with exec := 2, inTimers := true }
              some (tau t, { s2 with lpc := 8 })
          | 2 =>  -- maybe_complete_with_value: stopCallback_.destruct() blocks while it runs elsewhere
            if o.cb = 2 then none
            else some (tau t, { setOp s1 it { getOp s1 it with cb := 4 } with lpc := 10 })
          | 3 => some (ev t (chanTxt s1 it 2), complete cfg s1 it 2)
          | _ =>  -- remove_timer_from_queue_and_complete_with_done: destruct first
            if o.cb = 2 then none
            else some (tau t, { setOp s1 it { getOp s1 it with cb := 4 } with lpc := 13 })
  | 8 =>  -- stopCallback_.construct(...): registration, or inline execution = request_stop_local
    let o := getOp s s.cur
    if o.stopReq then some (tau t, { stopLocal s s.cur with lpc := 1 })
    else some (tau t, { setOp s s.cur { o with cb := 1 } with lpc := 1 })
  | 10 =>  -- stop_requested() ? set_done : set_value
    let chan := if (getOp s s.cur).stopReq then 2 else 1
    some (ev t (chanTxt s s.cur chan), { complete cfg s s.cur chan with lpc := 1 })
  | 13 =>
    let s1 := if (getOp s s.cur).elapsed then s else removeTimer s s.cur
    some (ev t (chanTxt s1 s.cur 2), { complete cfg s1 s.cur 2 with lpc := 1 })
  | 14 =>
    let i := s.cur - 4
    some (ev t s!"stop{i}.end", { setOp s i { getOp s i with stopRet := true } with lpc := 1 })
  | 2 =>
    if s.shouldStop then some (tau t, { s with lpc := 15 })
    else if s.dirty then some (tau t, { s with lpc := 3, unow := s.now })
    else some (tau t, { s with lpc := 5 })
  | 3 =>
    match TimerQueue.pop s.timers with
    | some (h, rest) =>
      if h.due ≤ (s.unow : Int) then
        -- pop; fetch_add(timer_elapsed_flag); unless a remote canceller was first: schedule_local
        let o := getOp s h.id
        let s1 := setOp { s with timers := rest } h.id { o with inTimers := false, elapsed := true }
        some (tau t, if o.cancelP && cfg.testsCancelBit then s1 else schedLocal s1 h.id)
      else some (tau t, { s with lpc := 4 })
    | none => some (tau t, { s with lpc := 4 })
  | 4 =>  -- cancel / (re-)submit the OS timer
    match s.timers with
    | [] =>
      if s.curDue ≠ 0 then some (tau t, { s with curDue := 0, karm := 0, dirty := false, lpc := 5 })
      else some (tau t, { s with lpc := 5 })
    | h :: _ =>
      let e := h.due.toNat
      if s.curDue ≠ 0 ∧ ¬ (e + 1 < s.curDue) then some (tau t, { s with dirty := false, lpc := 5 })
      else some (tau t, { s with curDue := e + 1, karm := e + 1, dirty := false, lpc := 5 })
  | 5 =>
    if s.rs then some (tau t, { s with lpc := 6 })
    else
      match s.rq with
      | [] => some (tau t, { s with rs := true, lpc := 6 })
      | _ => some (tau t, { s with lq := s.lq ++ s.rq, rq := [], lpc := 0 })
  | 6 =>  -- epoll_wait(timeout = local queue empty ? -1 : 0) + the reads that clear what it reported
    if !s.rs then some (tau t, { s with lpc := 0 })
    else
      let fired := s.karm ≠ 0 && s.karm ≤ s.now + 1
      if !fired && !s.efd && s.lq.isEmpty then none
      else
        let s1 := if fired then { s with karm := 0, curDue := 0, dirty := true } else s
        let s2 := if s.efd then { s1 with efd := false, rs := false } else s1
        some (tau t, { s2 with lpc := 0 })
  | _ => none

/-- client threads (T0, T2) -/
def stepThr (cfg : Config) (s : St) (t : Nat) : Option (Lbl × St) :=
  let th := getThr s t
  let i := th.arg
  let o := getOp s i
  match th.pc with
  | 0 =>
    match (cfg.scripts.getD t [])[th.ip]? with
    | none => none
    | some op =>
      let nxt : Thr := ⟨th.ip + 1, 0, 0⟩
      match op with
      | .start j =>   -- start_remote: execute_ = on_schedule_complete; schedule_remote(this)
        some (tau t, setThr (schedRemote (setOp s j { getOp s j with exec := 1 }) j) t nxt)
      | .kick j => some (tau t, setThr (schedRemote s (4 + j)) t nxt)
      | .stop j =>    -- request_stop(): set the flag, take the registered callback
        let oj := getOp s j
        if oj.cb = 1 then some (tau t, setThr (setOp s j { oj with stopReq := true, cb := 2 }) t ⟨th.ip + 1, 2, j⟩)
        else some (tau t, setThr (setOp s j { oj with stopReq := true }) t ⟨th.ip + 1, 9, j⟩)
      | .sleepUntil d => if d ≤ s.now then some (tau t, setThr s t nxt) else none
      | .waitDone => if s.ops.all (fun c => decide (c.completions ≥ 1)) then some (tau t, setThr s t nxt) else none
      | .shutdown =>  -- the stop callback of run(): schedule_impl(&stopOp) from a foreign thread
        some (ev t "shutdown.begin", setThr (schedRemote s 8) t ⟨th.ip + 1, 12, 0⟩)
  | 2 =>  -- request_stop_remote: fetch_add(cancel_pending_flag)
    let s1 := setOp s i { o with cancelP := true }
    some (tau t, setThr s1 t { th with pc := if o.elapsed then 8 else 3 })
  | 3 =>  -- we are responsible: execute_ = remove_timer_…; schedule_remote(this)
    some (tau t, setThr (schedRemote (setOp s i { o with exec := 4 }) i) t { th with pc := 8 })
  | 8 =>  -- the callback has returned
    some (tau t, setThr (setOp s i { o with cb := 3 }) t { th with pc := 9 })
  | 9 => some (ev t s!"stop{i}.end", setThr (setOp s i { o with stopRet := true }) t { th with pc := 0 })
  | 12 => if s.lpc = 15 then some (ev t "shutdown.end", setThr s t { th with pc := 0 }) else none
  | _ => none

def threadSteps (cfg : Config) (s : St) : List (Lbl × St) :=
  (List.range s.thrs.length).filterMap (fun t => if t = 1 then stepLoop cfg s else stepThr cfg s t)

def tickStep (cfg : Config) (s : St) : List (Lbl × St) :=
  if s.now < cfg.maxT then [((9, none), { s with now := s.now + 1 })] else []

def sys (cfg : Config) : LSys St Lbl where
  init := init cfg
  next s := threadSteps cfg s ++ tickStep cfg s

def obsOf (l : Lbl) : Option String := l.2.map (fun txt => s!"T{l.1} {txt}")

def threadDone (cfg : Config) (s : St) (u : Nat) : Bool :=
  if u = 1 then s.lpc == 15
  else (getThr s u).pc == 0 && (getThr s u).ip ≥ (cfg.scripts.getD u []).length

def final (cfg : Config) (s : St) : Bool :=
  (List.range s.thrs.length).all (fun u => threadDone cfg s u)

def sortedB : TimerQueue.Queue → Bool
  | [] => true
  | x :: xs => xs.all (fun y => decide (x.due ≤ y.due)) && sortedB xs

/-- the I/O thread is inside an item of operation i -/
def inItem (s : St) (i : Nat) : Bool :=
  (s.lpc == 8 || s.lpc == 10 || s.lpc == 13) && s.cur == i

/-- The property as a state predicate (spelled out in Props/C07_Epoll.safe_spelled). -/
def safe (cfg : Config) (s : St) : Bool :=
  s.bad = 0 &&
  s.ops.all (fun c => decide (c.completions ≤ 1) && decide (c.enq ≤ 1)) &&
  sortedB s.timers &&
  (List.range s.ops.length).all (fun i =>
     let c := getOp s i
     -- link integrity: in timers_ iff flagged, on a queue iff enqueued_ = 1
     decide ((s.timers.filter (fun y => y.id == i)).length = (if c.inTimers then 1 else 0)) &&
     decide ((s.lq.filter (· == i)).length + (s.rq.filter (· == i)).length + (s.batch.filter (· == i)).length = c.enq) &&
     -- after the completion nothing refers to the operation
     (c.completions = 0 || (!c.inTimers && c.enq == 0 && (c.cb == 0 || c.cb == 4) && !inItem s i))) &&
  -- cancel promptly / no lost wake-up: while an elapsed timer is in timers_, or request_stop() has
  -- returned for an operation that has not completed, some THREAD can move
  ((!(s.timers.any (fun y => decide (y.due ≤ (s.now : Int)))) &&
    !(s.ops.any (fun c => c.stopRet && c.completions == 0)))
   || !(threadSteps cfg s).isEmpty) &&
  (!((sys cfg).next s).isEmpty || final cfg s) &&
  (!final cfg s || (s.ops.all (fun c => decide (c.completions = 1)) && s.timers.isEmpty && s.lq.isEmpty && s.rq.isEmpty))

/-! ### coding (untrusted; re-checked by `checkClosed`) -/

def b2n (b : Bool) : Nat := if b then 1 else 0

def encOp (c : OpSt) : List Nat :=
  [b2n c.elapsed, b2n c.cancelP, b2n c.inTimers, c.exec, c.enq, c.cb, b2n c.stopReq, c.completions, b2n c.freed, b2n c.stopRet]
def encThr (t : Thr) : List Nat := [t.ip, t.pc, t.arg]
def encL (l : List Nat) : List Nat := l.length :: l
def encQ (q : TimerQueue.Queue) : List Nat := q.length :: q.flatMap (fun y => [y.due.toNat, y.id])

def encSt (s : St) : List Nat :=
  [s.now, b2n s.dirty, s.curDue, b2n s.rs, b2n s.shouldStop, s.lpc, s.cur, s.unow, s.karm, b2n s.efd, s.bad] ++
  encL s.lq ++ encL s.rq ++ encL s.batch ++ encQ s.timers ++
  [s.ops.length] ++ s.ops.flatMap encOp ++ [s.thrs.length] ++ s.thrs.flatMap encThr

def decOps : Nat → List Nat → List OpSt × List Nat
  | 0, r => ([], r)
  | n+1, a :: b :: c :: d :: e :: f :: g :: h :: i :: j :: r =>
    let (cs, r') := decOps n r
    (⟨a == 1, b == 1, c == 1, d, e, f, g == 1, h, i == 1, j == 1⟩ :: cs, r')
  | _, r => ([], r)

def decThrs : Nat → List Nat → List Thr × List Nat
  | 0, r => ([], r)
  | n+1, a :: b :: c :: r => let (ts, r') := decThrs n r; (⟨a, b, c⟩ :: ts, r')
  | _, r => ([], r)

def decQ : Nat → List Nat → TimerQueue.Queue × List Nat
  | 0, r => ([], r)
  | n+1, d :: i :: r => let (q, r') := decQ n r; (⟨(d : Int), i⟩ :: q, r')
  | _, r => ([], r)

def takeL (r : List Nat) : List Nat × List Nat :=
  match r with
  | n :: r' => (r'.take n, r'.drop n)
  | [] => ([], [])

def badSt : St := ⟨0, [], [], [], [], [], [], false, 0, false, false, 0, 0, 0, 0, false, 99⟩

def decSt (l : List Nat) : St :=
  match l with
  | nw :: di :: cd :: rs :: ss :: lp :: cu :: un :: ka :: ef :: bd :: r =>
    let (lq, r1) := takeL r
    let (rq, r2) := takeL r1
    let (bt, r3) := takeL r2
    match r3 with
    | ql :: r4 =>
      let (q, r5) := decQ ql r4
      match r5 with
      | no :: r6 =>
        let (ops, r7) := decOps no r6
        match r7 with
        | nt :: r8 =>
          let (ths, _) := decThrs nt r8
          ⟨nw, ops, ths, lq, rq, bt, q, di == 1, cd, rs == 1, ss == 1, lp, cu, un, ka, ef == 1, bd⟩
        | _ => badSt
      | _ => badSt
    | _ => badSt
  | _ => badSt

def coded : Coded St :=
  { enc := fun s => packNats 16 (encSt s), dec := fun n => decSt (unpackNats 16 200 n), M := 4093, W := 400 }

/-! ### the scenario configurations (mirrored one-to-one by harness/rt/scn_c07_epoll.cpp) -/

/-- the election, focused: the canceller sleeps until the due time, so the expiry and the remote
    stop request become possible at the same instant -/
def cfgCancelAtDue : Config :=
  ⟨[[.start 0, .waitDone, .shutdown], [], [.sleepUntil 1, .stop 0]], [1], 1, true⟩
/-- the election, general: remote stop request at any time relative to start, expiry and the clock -/
def cfgRemoteCancel : Config :=
  ⟨[[.start 0, .waitDone, .shutdown], [], [.stop 0]], [1], 1, true⟩
/-- stop requested from an item running on the I/O thread: request_stop_local -/
def cfgLocalCancel : Config :=
  ⟨[[.start 0, .kick 0, .waitDone, .shutdown], []], [1], 1, true⟩
/-- two timers in descending due-time order: the second becomes the earliest, the OS timer is re-armed -/
def cfgTwoOrder : Config :=
  ⟨[[.start 0, .start 1, .waitDone, .shutdown], []], [2, 1], 2, true⟩
/-- stop requested before start() -/
def cfgStopBeforeStart : Config :=
  ⟨[[.stop 0, .start 0, .waitDone, .shutdown], []], [1], 1, true⟩

/-- NOT the code: the election test of update_timers removed (see `Config.testsCancelBit`) -/
def cfgCancelAtDueSlip : Config := { cfgCancelAtDue with testsCancelBit := false }

def configs : List (String × Config) :=
  [("ep_cancel_at_due", cfgCancelAtDue), ("ep_remote_cancel", cfgRemoteCancel), ("ep_local_cancel", cfgLocalCancel),
   ("ep_two_order", cfgTwoOrder), ("ep_stop_before_start", cfgStopBeforeStart)]

end Unifex.Proto.EpollTimer
