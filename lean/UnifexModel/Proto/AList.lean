/-
  Proto/AList.lean — the sequential specification of `unifex::atomic_intrusive_list` (the
  operations async_mutex v2 uses: push_back / pop_front / try_remove / empty) and an executable
  linearizability test for observed concurrent histories.

  Proto/MutexV2.lean treats the waiter list as an atomic object with exactly these operations
  (`queue ++ [i]`, head/tail, `contains`/`erase`, `isEmpty`).  That assumption is tied to the real
  list by the linearizability part of the C15 check: systematically scheduled real executions of
  the list (harness/rt/scn_c15_list.cpp), each history checked by `linearizable` below
  (`umdriver ask alist lin | history`).  The test is part of the trusted tie (like Core/Admit).
-/
namespace Unifex.Proto.AList

inductive Op
  | push (i : Nat) | pop | rm (i : Nat) | empty
  deriving DecidableEq, Repr

/-- results: `none` = void / nullptr, `some n` = node id or 0/1 for a Boolean -/
abbrev Res := Option Nat

/-- the sequential list: one operation, new state and result (`none` state = precondition violated:
    push of a node that is already in the list) -/
def apply (l : List Nat) : Op → Option (List Nat × Res)
  | .push i => if l.contains i then none else some (l ++ [i], none)
  | .pop => match l with
    | [] => some ([], none)
    | j :: rest => some (rest, some j)
  | .rm i => if l.contains i then some (l.erase i, some 1) else some (l, some 0)
  | .empty => some (l, some (if l.isEmpty then 1 else 0))

inductive Ev
  | call (t : Nat) (op : Op)
  | ret (t : Nat) (r : Res)
  deriving DecidableEq, Repr

/-- a pending operation of thread `t`; `res` is set once it has been linearized -/
structure Pend where
  t : Nat
  op : Op
  res : Option Res
  deriving DecidableEq, Repr

/-- `empty()` is a relaxed load of the head link.  The linearizability part of the check found that it
    is NOT linearizable as an exact emptiness test: while a pop_front/try_remove that has already
    taken the last node is still in flight (its effect is visible to other operations — e.g. a
    try_remove of the popped node already reports `false` — but it has not yet stored the new head)
    `empty()` still reports "not empty" (harmless for async_mutex: a spurious re-acquire).
    It also errs in the other direction: while a push_back onto the EMPTY list is in flight (it
    holds the lock bit of `head_`, whose value is still the sentinel) a second push_back can link
    its node behind the first one and RETURN, and `empty()` still reports "empty" — after a
    completed push_back.  (For async_mutex this is not a lost wake-up: the in-flight pusher performs
    its own `locked_.exchange` after its push completes and then drains the list.)
    Accordingly the specification used by the tie gives `empty()` this slack and nothing else:
    `empty() = false` is also allowed when a removal by another thread is linearized but has not
    returned yet (`removalInFlight`); `empty() = true` is also allowed while a push_back by another
    thread has been called and has not returned (`pushInFlight`).  `linearizableStrict` is the
    exact specification; the check reports how many explored histories need the slack. -/
def removalInFlight (pend : List Pend) (me : Nat) : Bool :=
  pend.any (fun q => q.t ≠ me &&
    (match q.op, q.res with
     | .pop, some (some _) => true
     | .rm _, some (some 1) => true
     | _, _ => false))

def pushInFlight (pend : List Pend) (me : Nat) : Bool :=
  pend.any (fun q => q.t ≠ me && (match q.op with | .push _ => true | _ => false))

/-- Wing–Gong search: at every point either consume the next event of the history (a call makes the
    operation pending; a return requires that the operation has been linearized with exactly that
    result) or linearize one pending operation now. -/
def search (slack : Bool) : Nat → List Ev → List Nat → List Pend → Bool
  | 0, _, _, _ => false
  | _ + 1, [], _, _ => true
  | fuel + 1, e :: rest, st, pend =>
    (match e with
     | .call t op => search slack fuel rest st (⟨t, op, none⟩ :: pend)
     | .ret t r =>
       match pend.find? (fun p => p.t = t) with
       | some p => p.res = some r && search slack fuel rest st (pend.filter (fun p => p.t ≠ t))
       | none => false)
    ||
    pend.any (fun p =>
      p.res.isNone &&
      ((match apply st p.op with
        | some (st', r) => search slack fuel (e :: rest) st' (pend.map (fun q => if q.t = p.t then { q with res := some r } else q))
        | none => false)
       ||
       -- the one-sided slack of empty(), see `removalInFlight`
       (slack && p.op = .empty && st.isEmpty && removalInFlight pend p.t &&
        search slack fuel (e :: rest) st (pend.map (fun q => if q.t = p.t then { q with res := some (some 0) } else q)))
       ||
       (slack && p.op = .empty && !st.isEmpty && pushInFlight pend p.t &&
        search slack fuel (e :: rest) st (pend.map (fun q => if q.t = p.t then { q with res := some (some 1) } else q)))))

/-- linearizable w.r.t. the specification with the one-sided slack of `empty()` -/
def linearizable (init : List Nat) (h : List Ev) : Bool := search true (3 * h.length + 3) h init []
/-- linearizable w.r.t. the exact sequential list -/
def linearizableStrict (init : List Nat) (h : List Ev) : Bool := search false (3 * h.length + 3) h init []

/-! ### parsing the observable history printed by the C++ scenario -/

def parseEv (s : String) : Option Ev :=
  match (s.splitOn " ").filter (· ≠ "") with
  | [t, "push", i] => (i.toNat?).bind (fun i => (t.drop 1).toNat?.map (fun t => Ev.call t (.push i)))
  | [t, "pop"] => (t.drop 1).toNat?.map (fun t => Ev.call t .pop)
  | [t, "rm", i] => (i.toNat?).bind (fun i => (t.drop 1).toNat?.map (fun t => Ev.call t (.rm i)))
  | [t, "empty"] => (t.drop 1).toNat?.map (fun t => Ev.call t .empty)
  | [t, "ok"] => (t.drop 1).toNat?.map (fun t => Ev.ret t none)
  | [t, "got", "-"] => (t.drop 1).toNat?.map (fun t => Ev.ret t none)
  | [t, "got", i] => (i.toNat?).bind (fun i => (t.drop 1).toNat?.map (fun t => Ev.ret t (some i)))
  | [t, "yes"] => (t.drop 1).toNat?.map (fun t => Ev.ret t (some 1))
  | [t, "no"] => (t.drop 1).toNat?.map (fun t => Ev.ret t (some 0))
  | _ => none

/-- `ask alist lin | T1 push 0 ; T2 pop ; T1 ok ; T2 got 0` → `ok` / `notlin` / `bad-op …` -/
def query (strict : Bool) (hist : String) : String :=
  let evs := (hist.splitOn " ; ").map (fun x => x.trimAscii.toString) |>.filter (· ≠ "")
  let parsed := evs.map parseEv
  if parsed.any (·.isNone) then s!"bad-op cannot parse history"
  else
    let h := parsed.filterMap id
    if (if strict then linearizableStrict [] h else linearizable [] h) then s!"ok {h.length}" else "notlin"

/-! ### sanity examples (the test accepts what it should and rejects what it should) -/

-- overlapping push/pop: pop may or may not see the node
example : linearizable [] [.call 1 (.push 0), .call 2 .pop, .ret 1 none, .ret 2 (some 0)] = true := by decide
example : linearizable [] [.call 1 (.push 0), .call 2 .pop, .ret 1 none, .ret 2 none] = true := by decide
-- pop completed before the push began cannot return the node
example : linearizable [] [.call 2 .pop, .ret 2 (some 0), .call 1 (.push 0), .ret 1 none] = false := by decide
-- FIFO: after push 0; push 1 (sequential) a pop returns 0, not 1
example : linearizable [] [.call 1 (.push 0), .ret 1 none, .call 1 (.push 1), .ret 1 none, .call 2 .pop, .ret 2 (some 1)] = false := by decide
-- pop_front and try_remove of the same node: exactly one wins
example : linearizable [] [.call 1 (.push 0), .ret 1 none, .call 1 (.rm 0), .call 2 .pop, .ret 1 (some 1), .ret 2 (some 0)] = false := by decide
example : linearizable [] [.call 1 (.push 0), .ret 1 none, .call 1 (.rm 0), .call 2 .pop, .ret 1 (some 1), .ret 2 none] = true := by decide
example : linearizable [] [.call 1 (.push 0), .ret 1 none, .call 1 (.rm 0), .call 2 .pop, .ret 1 (some 0), .ret 2 none] = false := by decide

-- the slack of empty(): "not empty" while the pop that took the last node is still in flight …
example : linearizable [] [.call 0 (.push 0), .ret 0 none, .call 3 .pop, .call 2 (.rm 0), .ret 2 (some 0),
    .call 2 .empty, .ret 2 (some 0), .ret 3 (some 0)] = true := by decide
example : linearizableStrict [] [.call 0 (.push 0), .ret 0 none, .call 3 .pop, .call 2 (.rm 0), .ret 2 (some 0),
    .call 2 .empty, .ret 2 (some 0), .ret 3 (some 0)] = false := by decide
-- … but not once that pop has returned, and not "empty" for a non-empty list without a push in flight
example : linearizable [] [.call 0 (.push 0), .ret 0 none, .call 3 .pop, .ret 3 (some 0),
    .call 2 .empty, .ret 2 (some 0)] = false := by decide
example : linearizable [] [.call 0 (.push 0), .ret 0 none, .call 2 .empty, .ret 2 (some 1)] = false := by decide
-- the other slack: "empty" after a completed push_back while an earlier-ordered push_back is in flight
example : linearizable [] [.call 1 (.push 0), .call 2 (.push 1), .ret 1 none, .call 1 .empty, .ret 1 (some 1), .ret 2 none] = true := by decide
example : linearizableStrict [] [.call 1 (.push 0), .call 2 (.push 1), .ret 1 none, .call 1 .empty, .ret 1 (some 1), .ret 2 none] = false := by decide

end Unifex.Proto.AList
