/-
  Proto/Loops.lean — the two looping algorithms that are outside the sender calculus (whose expressions are finite trees):
  `repeat_effect_until(source, predicate)` and `retry_when(source, func)`, as functions of a SCRIPT of what each
  iteration / attempt does (documented behaviour, doc/api_reference.md + the headers' comments).  `none` = the script
  is exhausted while the algorithm is still looping.
-/
namespace Unifex.Proto.Loops

inductive Out | value (v : Nat) | error (e : Nat) | done
  deriving DecidableEq, Repr

inductive Pred | yes | no | throws (e : Nat)
  deriving DecidableEq, Repr

structure Iter where
  src : Out       -- how the (re-started) source completes in this iteration
  pred : Pred     -- what the predicate does if it is evaluated
  deriving DecidableEq, Repr

/-- repeat_effect_until: an iteration whose source completes with a value evaluates the predicate: true → set_value(),
    false → next iteration, throw → set_error; a source error / done ends the loop with that signal. -/
def repeatUntil : List Iter → Option Out
  | [] => none
  | ⟨.value _, .no⟩ :: r => repeatUntil r
  | ⟨.value _, .yes⟩ :: _ => some (.value 0)
  | ⟨.value _, .throws e⟩ :: _ => some (.error e)
  | ⟨.error e, _⟩ :: _ => some (.error e)
  | ⟨.done, _⟩ :: _ => some .done

structure Attempt where
  src : Out                    -- how the source completes in this attempt
  trig : Out                   -- how the trigger sender func(error) completes, if it is started
  connectThrows : Option Nat   -- connecting the source for THIS attempt throws (never the first attempt)
  deriving DecidableEq, Repr

/-- retry_when: value / done of the source pass through; an error starts the trigger: trigger value → the source is
    connected and started again (a throwing connect is reported as set_error), trigger error / done end the operation. -/
def retryWhen : List Attempt → Option Out
  | [] => none
  | a :: r =>
    match a.src with
    | .value v => some (.value v)
    | .done => some .done
    | .error _ =>
      match a.trig with
      | .error e => some (.error e)
      | .done => some .done
      | .value _ =>
        match r with
        | [] => none
        | b :: _ => match b.connectThrows with
          | some e => some (.error e)
          | none => retryWhen r

end Unifex.Proto.Loops
