/-
  Proto/ErasedStreamLemmas.lean — invariants of the type_erased_stream element model
  (Proto/ErasedStream.lean), used by Props/C18_stream.lean:
    * `deliver_outer`  a delivery through any number of outer layers only creates and destroys its
                       own temporaries, reads nothing dead or wrong, copies nothing
    * `complete_inv` / `step_inv` / `run_inv`  between operations every element ever constructed
                       has been destroyed exactly once and no dead / wrong read ever happened
    * `run_obs`        results and values read do not depend on the number of erasure layers
-/
import UnifexModel.Proto.ErasedStream
namespace Unifex.Proto.ErasedStream

/-- what a delivery does to the history: nothing but the temporaries it created and destroyed -/
structure Post (s s' : St) (n src : Nat) (k : Nat) : Prop where
  next_ge : n ≤ s'.next
  dead : s'.deadReads = s.deadReads
  wrong : s'.wrongReads = s.wrongReads
  copies : s'.copies = s.copies
  old : ∀ id, id < n → id ≠ src → s'.dcnt id = s.dcnt id
  srcd : s'.dcnt src = s.dcnt src + k
  mid : ∀ id, n ≤ id → id < s'.next → s'.dcnt id = 1
  hi : ∀ id, s'.next ≤ id → s'.dcnt id = 0
  pend : s'.pend = s.pend
  closed : s'.closed = s.closed

theorem foldl_append (s : St) (a b : List Event) :
    (a ++ b).foldl St.record s = b.foldl St.record (a.foldl St.record s) := List.foldl_append ..

theorem deliver_outer (L : Nat) : ∀ (thr n src v : Nat) (s : St), s.next = n → src < n → s.dcnt src = 0 →
    s.val src = v → (∀ id, n ≤ id → s.dcnt id = 0) →
    Post s ((deliverEvs L thr n src v false).1.foldl St.record s) n src 0 := by
  induction L with
  | zero =>
    intro thr n src v s hn hsrc hlive hval hhi
    constructor <;> simp [deliverEvs, St.record, St.alive, hn, hsrc, hlive, hval] <;> grind
  | succ L ih =>
    intro thr n src v s hn hsrc hlive hval hhi
    by_cases ht : thr = 1
    · constructor <;> simp [deliverEvs, ht, St.record, hn] <;> grind
    · have hne : n ≠ src := by omega
      have halive : s.alive src = true := by simp [St.alive, hn, hsrc, hlive]
      have h1 := ih (thr - 1) (n + 1) n v (s.record (.move n src))
        (by simp [St.record, hn]) (by omega) (by simp [St.record]; exact hhi n (Nat.le_refl n))
        (by simp [St.record, upd, hne]; exact hval) (by intro id hid; simp [St.record]; exact hhi id (by omega))
      simp only [deliverEvs, ht, if_false, Bool.false_eq_true, List.append_nil, foldl_append, List.foldl_cons, List.foldl_nil]
      generalize List.foldl St.record (s.record (.move n src)) (deliverEvs L (thr - 1) (n + 1) n v false).1 = s3 at h1 ⊢
      obtain ⟨a1, a2, a3, a4, a5, a6, a7, a8, a9, a10⟩ := h1
      have m2 : (s.record (.move n src)).deadReads = s.deadReads := by simp [St.record, halive]
      have m3 : (s.record (.move n src)).wrongReads = s.wrongReads := rfl
      have m4 : (s.record (.move n src)).copies = s.copies := rfl
      have m5 : (s.record (.move n src)).dcnt = s.dcnt := rfl
      have m9 : (s.record (.move n src)).pend = s.pend := rfl
      have m10 : (s.record (.move n src)).closed = s.closed := rfl
      rw [m2] at a2; rw [m3] at a3; rw [m4] at a4; rw [m9] at a9; rw [m10] at a10
      simp only [m5] at a5 a6
      have hn0 := hhi n (Nat.le_refl n)
      constructor
      · show n ≤ s3.next; omega
      · exact a2
      · exact a3
      · exact a4
      · intro id h1 h2
        show upd s3.dcnt n (s3.dcnt n + 1) id = s.dcnt id
        have : id ≠ n := by omega
        simp [upd, this]; exact a5 id (by omega) this
      · show upd s3.dcnt n (s3.dcnt n + 1) src = s.dcnt src + 0
        simp [upd, Ne.symm hne]; exact a5 src (by omega) (Ne.symm hne)
      · intro id h1 h2
        show upd s3.dcnt n (s3.dcnt n + 1) id = 1
        by_cases hid : id = n
        · subst hid; simp [upd, a6, hn0]
        · simp [upd, hid]; exact a7 id (by omega) h2
      · intro id h1
        show upd s3.dcnt n (s3.dcnt n + 1) id = 0
        have h1' : s3.next ≤ id := h1
        have : id ≠ n := by omega
        simp [upd, this]; exact a8 id h1'
      · exact a9
      · exact a10

/-- between operations: every element ever constructed has been destroyed exactly once, nothing
    was ever read dead or wrong, nothing copied -/
structure Inv (s : St) : Prop where
  done : ∀ id, id < s.next → s.dcnt id = 1
  hi : ∀ id, s.next ≤ id → s.dcnt id = 0
  dead : s.deadReads = 0
  wrong : s.wrongReads = 0
  nocopy : s.copies = 0

theorem init_inv : Inv St.init := by
  constructor <;> simp [St.init]

theorem complete_inv (L thr : Nat) (it : Item) (s : St) (h : Inv s) :
    Inv ((completeEvs L s.next thr it).1.foldl St.record s) := by
  obtain ⟨h1, h2, h3, h4, h5⟩ := h
  cases it with
  | done => constructor <;> simp [completeEvs, St.record] <;> assumption
  | error e => constructor <;> simp [completeEvs, St.record] <;> assumption
  | value v =>
    cases L with
    | zero =>
      constructor <;> simp [completeEvs, St.record, St.alive, upd, h3, h4, h5] <;> grind
    | succ L =>
      have hn0 := h2 s.next (Nat.le_refl _)
      by_cases ht : thr = 1
      · constructor <;> simp [completeEvs, deliverEvs, ht, St.record, upd, h3, h4, h5] <;> grind
      · -- s2: after ctor n, move (n+1) n, dtor n
        let s2 : St := ((s.record (.ctor s.next v)).record (.move (s.next + 1) s.next)).record (.dtor s.next)
        have e_next : s2.next = s.next + 2 := by simp [s2, St.record]
        have e_dcnt : s2.dcnt = upd s.dcnt s.next (s.dcnt s.next + 1) := by simp [s2, St.record]
        have e_val : s2.val (s.next + 1) = v := by simp [s2, St.record, upd]
        have e_dead : s2.deadReads = 0 := by simp [s2, St.record, St.alive, hn0, h3]
        have e_wrong : s2.wrongReads = 0 := by simp [s2, St.record, h4]
        have e_copy : s2.copies = 0 := by simp [s2, St.record, h5]
        have hpost := deliver_outer L (thr - 1) (s.next + 2) (s.next + 1) v s2 e_next (by omega)
          (by rw [e_dcnt]; simp [upd]; exact h2 _ (by omega)) e_val
          (by intro id hid; rw [e_dcnt]; have : id ≠ s.next := by omega
              simp [upd, this]; exact h2 id (by omega))
        have hfold : (completeEvs (L + 1) s.next thr (.value v)).1.foldl St.record s =
            ((deliverEvs L (thr - 1) (s.next + 2) (s.next + 1) v false).1.foldl St.record s2).record (.dtor (s.next + 1)) := by
          simp [completeEvs, deliverEvs, ht, s2]
        rw [hfold]
        generalize List.foldl St.record s2 (deliverEvs L (thr - 1) (s.next + 2) (s.next + 1) v false).1 = s3 at hpost ⊢
        obtain ⟨a1, a2, a3, a4, a5, a6, a7, a8, a9, a10⟩ := hpost
        rw [e_dcnt] at a5 a6
        constructor
        · intro id hid
          show upd s3.dcnt (s.next + 1) (s3.dcnt (s.next + 1) + 1) id = 1
          have hid' : id < s3.next := hid
          by_cases e1 : id = s.next + 1
          · subst e1; simp [upd] at a6 ⊢; rw [a6]; simp [h2 (s.next + 1) (by omega)]
          · simp [upd, e1]
            by_cases e2 : id < s.next + 2
            · rw [a5 id e2 e1]
              by_cases e3 : id = s.next
              · subst e3; simp [upd, hn0]
              · simp [upd, e3]; exact h1 id (by omega)
            · exact a7 id (by omega) hid'
        · intro id hid
          show upd s3.dcnt (s.next + 1) (s3.dcnt (s.next + 1) + 1) id = 0
          have hid' : s3.next ≤ id := hid
          have : id ≠ s.next + 1 := by omega
          simp [upd, this]; exact a8 id hid'
        · show s3.deadReads = 0; rw [a2]; exact e_dead
        · show s3.wrongReads = 0; rw [a3]; exact e_wrong
        · show s3.copies = 0; rw [a4]; exact e_copy

theorem step_inv (L : Nat) (s : St) (op : Op) (h : Inv s) : Inv (step L s op).1 := by
  have key : ∀ (evs : List Event) (p : Option (Item × Nat)) (c : Bool), Inv (evs.foldl St.record s) →
      Inv { (evs.foldl St.record s) with pend := p, closed := c } := by
    intro evs p c hi; obtain ⟨a, b, c', d, e⟩ := hi; exact ⟨a, b, c', d, e⟩
  have hnil : Inv (([] : List Event).foldl St.record s) := by simpa using h
  unfold step
  apply key
  cases op with
  | next it pending thr =>
    simp only [eff]
    split
    · exact hnil
    · split
      · exact hnil
      · exact complete_inv L thr it s h
  | fire =>
    simp only [eff]
    split
    · split
      · exact hnil
      · exact complete_inv L _ _ s h
    · exact hnil
  | cleanup err =>
    simp only [eff]
    split <;> exact hnil

theorem run_inv (L : Nat) (s : St) (ops : List Op) (h : Inv s) : Inv (run L s ops).1 := by
  induction ops generalizing s with
  | nil => simpa [run] using h
  | cons op ops ih => simp only [run]; exact ih _ (step_inv L s op h)

/-! ### what the consumer observes does not depend on the number of erasure layers -/

theorem readsOf_append (a b : List Event) : readsOf (a ++ b) = readsOf a ++ readsOf b := by
  induction a with
  | nil => simp [readsOf]
  | cons e a ih => cases e <;> simp [readsOf, ih]

theorem deliver_obs (L : Nat) : ∀ (n src v : Nat) (inner : Bool),
    (deliverEvs L 0 n src v inner).2 = .value v ∧ readsOf (deliverEvs L 0 n src v inner).1 = [v] := by
  induction L with
  | zero => intro n src v inner; simp [deliverEvs, readsOf]
  | succ L ih =>
    intro n src v inner
    have := ih (n + 1) n v false
    cases inner <;> simp [deliverEvs, readsOf_append, readsOf, this]

theorem complete_obs (L n n' : Nat) (it : Item) :
    (completeEvs L n 0 it).2 = (completeEvs 0 n' 0 it).2 ∧
    readsOf (completeEvs L n 0 it).1 = readsOf (completeEvs 0 n' 0 it).1 := by
  cases it with
  | done => simp [completeEvs]
  | error e => simp [completeEvs]
  | value v =>
    cases L with
    | zero => simp [completeEvs, readsOf]
    | succ L =>
      have := deliver_obs (L + 1) (n + 1) n v true
      simp [completeEvs, readsOf_append, readsOf, this]

/-- no scripted throwing move anywhere -/
def Op.noThrow : Op → Bool
  | .next _ _ thr => thr == 0
  | _ => true

def St.pendNoThrow (s : St) : Prop := ∀ it thr, s.pend = some (it, thr) → thr = 0

theorem step_obs (L : Nat) (s s' : St) (op : Op) (hp : s.pend = s'.pend) (hc : s.closed = s'.closed)
    (hs : s.pendNoThrow) (hop : op.noThrow = true) :
    (step L s op).2.obs = (step 0 s' op).2.obs ∧ (step L s op).1.pend = (step 0 s' op).1.pend ∧
    (step L s op).1.closed = (step 0 s' op).1.closed ∧ (step L s op).1.pendNoThrow := by
  cases op with
  | next it pending thr =>
    have ht : thr = 0 := by simpa [Op.noThrow] using hop
    subst ht
    simp only [step, eff, Out.obs, ← hp, ← hc]
    by_cases h1 : (s.closed || s.pend.isSome) = true
    · simp [h1, readsOf]; exact hs
    · cases pending
      · have := complete_obs L s.next s'.next it
        simp [h1, this, St.pendNoThrow]
      · simp [h1, readsOf, St.pendNoThrow]
  | fire =>
    simp only [step, eff, Out.obs, ← hp, ← hc]
    cases hpd : s.pend with
    | none => simp [readsOf, St.pendNoThrow]
    | some p =>
      obtain ⟨it, thr⟩ := p
      have ht : thr = 0 := hs it thr hpd
      subst ht
      by_cases h1 : s.closed = true
      · simp [h1, readsOf, St.pendNoThrow]
      · have := complete_obs L s.next s'.next it
        simp [h1, this, St.pendNoThrow]
  | cleanup err =>
    simp only [step, eff, Out.obs, ← hp, ← hc]
    by_cases h1 : (s.closed || s.pend.isSome) = true
    · simp [h1, readsOf]; exact hs
    · simp [h1, readsOf, St.pendNoThrow]

theorem run_obs (L : Nat) (ops : List Op) : ∀ (s s' : St), s.pend = s'.pend → s.closed = s'.closed →
    s.pendNoThrow → (∀ op ∈ ops, op.noThrow = true) →
    (run L s ops).2.map Out.obs = (run 0 s' ops).2.map Out.obs := by
  induction ops with
  | nil => intro s s' _ _ _ _; simp [run]
  | cons op ops ih =>
    intro s s' hp hc hs hops
    have h := step_obs L s s' op hp hc hs (hops op List.mem_cons_self)
    simp only [run, List.map_cons, h.1]
    rw [ih (step L s op).1 (step 0 s' op).1 h.2.1 h.2.2.1 h.2.2.2 (fun q hq => hops q (List.mem_cons_of_mem _ hq))]

end Unifex.Proto.ErasedStream
