/-
  Proto/FindIf.lean — `find_if` (include/unifex/find_if.hpp) over the GENERATED chunk arithmetic
  (Generated/FindIfChunks.lean) and the GENERATED bulk loop (Generated/BulkLoop.lean via Proto/Bulk).

  Elements are identified with their offset from `begin_it` (an `Int`; offsets outside `[0, d)`
  are representable, so a scan that leaves the range is visible).  The predicate is a parameter
  `p : Int → Bool`.  Hand-written here is only the statement structure that the translator checks
  literally against the source:

    sequential overload:  for (it = seq_init; seq_continue; it = seq_step) if (p(*it)) return it;  return end_it;
    parallel overload:    perChunkState = vector(per_chunk_len, per_chunk_init)
                          bulk_join(bulk_transform(bulk_schedule(sched, bulk_count), chunk-lambda, par))
                             chunk-lambda(index): for (it = scan_init; scan_continue; it = scan_step)
                                                    if (p(*it)) { perChunkState[index] = it; request_stop(); return; }
                          then: for (it : perChunkState) if (it != end_it) return it;  return end_it;

  Which chunk lambdas run is decided by the bulk loop model: `Bulk.run` with stop possible
  (let_value_with_stop_source), receiver policy `par` (bulk_transform(par) over bulk_join), and the
  stop requested from inside the set_next call of the first chunk that has a hit.
-/
import UnifexModel.Generated.FindIfChunks
import UnifexModel.Proto.Bulk

namespace Unifex.Proto.FindIf
open Unifex.Generated.FindIfChunks

structure Scan where
  evals : List Int      -- offsets the predicate was evaluated on, in order
  hit : Option Int      -- the offset on which the predicate answered true
  ranOut : Bool         -- the loop did not terminate within the fuel
  deriving DecidableEq, Repr

/-- `for (it = start; cont it; it = step it) if (p it) { hit; return }` -/
def genLoop (cont : Int → Bool) (step : Int → Int) (p : Int → Bool) : Nat → Int → Scan
  | 0, _ => ⟨[], none, true⟩
  | f+1, it =>
    if cont it then
      if p it then ⟨[it], some it, false⟩
      else
        let r := genLoop cont step p f (step it)
        ⟨it :: r.evals, r.hit, r.ranOut⟩
    else ⟨[], none, false⟩

structure Result where
  res : Int             -- offset of the iterator find_if completes with
  evals : List Int      -- every offset the predicate was evaluated on, in order
  ranOut : Bool
  storeOob : Bool       -- a chunk stored into perChunkState outside its bounds
  deriving DecidableEq, Repr

/-- sequential overload -/
def findIfSeq (p : Int → Bool) (d : Int) (fuel : Nat) : Result :=
  let s := genLoop (seq_continue d) (seq_step d) p fuel (seq_init d)
  ⟨s.hit.getD d, s.evals, s.ranOut, false⟩

/-- the chunk lambda for bulk index `i` -/
def scanChunk (p : Int → Bool) (d : Int) (fuel : Nat) (i : Nat) : Scan :=
  genLoop (scan_continue d i) (scan_step d i) p fuel (scan_init d i)

/-- the first bulk index (in launch order) whose chunk has a hit -/
def firstHitChunk (p : Int → Bool) (d : Int) (fuel : Nat) : Option Nat :=
  (List.range (bulk_count d).toNat).find? (fun i => (scanChunk p d fuel i).hit.isSome)

/-- the bulk indices whose chunk lambda runs, in order -/
def executed (p : Int → Bool) (d : Int) (fuel : Nat) : List Nat :=
  Bulk.indices (Bulk.run false true ((firstHitChunk p d fuel).map (· + 1)) (bulk_count d).toNat)

/-- `if (it != end_it) return it` of the final scan over perChunkState -/
def notEnd (d : Int) (x : Int) : Option Int := if x ≠ d then some x else none

/-- parallel overload -/
def findIfPar (p : Int → Bool) (d : Int) (fuel : Nat) : Result :=
  let ex := executed p d fuel
  let len := (per_chunk_len d).toNat
  -- perChunkState after the bulk phase: entry i was written by chunk i (only) if it ran and hit
  let state := (List.range len).map (fun i =>
    if ex.contains i then ((scanChunk p d fuel i).hit).getD (per_chunk_init d) else per_chunk_init d)
  let scans := ex.map (scanChunk p d fuel)
  ⟨(state.findSome? (notEnd d)).getD d,
   scans.flatMap (·.evals),
   scans.any (·.ranOut),
   ex.any (fun i => decide (len ≤ i) && (scanChunk p d fuel i).hit.isSome)⟩

/-- The chunks of the parallel overload tile `[0, d)`: there is at least one chunk, perChunkState and
    the bulk count have one entry per chunk, chunk 0 starts at 0, every chunk is a (possibly empty)
    interval inside `[0, d]`, each chunk ends where the next one starts, and the last chunk ends at `d`.
    (`tiles_spelled` in Props/C17.lean unfolds this into quantified statements.) -/
def tilesB (d : Nat) : Bool :=
  let D : Int := d
  let n := num_chunks D
  decide (1 ≤ n) && decide (per_chunk_len D = n) && decide (bulk_count D = n) &&
  decide (per_chunk_init D = D) && decide (chunk_begin_it D 0 = 0) &&
  (List.range n.toNat).all (fun i =>
    decide (scan_init D i = chunk_begin_it D i) &&
    decide (chunk_begin_it D i ≤ chunk_end_it D i) && decide (chunk_end_it D i ≤ D) &&
    (if i + 1 < n.toNat then decide (chunk_end_it D i = chunk_begin_it D ((i + 1 : Nat) : Int))
     else decide (chunk_end_it D i = D)))

/-! ### LEGACY: the chunk arithmetic of the parallel overload BEFORE fix 64fd49b
    Transcribed BY HAND from the pre-fix code (not generated, NOT the current code), kept only so that
    the history of the finding (DESIGN §8 #1) stays machine-checked — see the "history" section of
    Props/C17.lean:
        chunk_size = (distance + num_chunks) / num_chunks;
        chunk_begin_it = begin_it + (chunk_size * index);
        chunk_end_it = index < (num_chunks - 1) ? chunk_begin_it + chunk_size : end_it;          -/

def chunkSizeLegacy (distance : Int) : Int := Int.tdiv (distance + num_chunks distance) (num_chunks distance)
def chunkBeginLegacy (distance index : Int) : Int := chunkSizeLegacy distance * index
def chunkEndLegacy (distance index : Int) : Int :=
  if index < num_chunks distance - 1 then chunkBeginLegacy distance index + chunkSizeLegacy distance else distance

/-! ### reference semantics: the first offset in `[b, b+len)` satisfying `p` -/

def firstIn (p : Int → Bool) : Int → Nat → Option Int
  | _, 0 => none
  | b, k+1 => if p b then some b else firstIn p (b + 1) k

/-- the offsets a first-match scan of `[b, b+len)` evaluates `p` on -/
def evalsIn (p : Int → Bool) : Int → Nat → List Int
  | _, 0 => []
  | b, k+1 => if p b then [b] else b :: evalsIn p (b + 1) k

/-- `std::find_if` on `[0, d)`: the first offset satisfying `p`, else `d` -/
def firstSat (p : Int → Bool) (d : Nat) : Int := (firstIn p 0 d).getD d

theorem firstIn_succ (p : Int → Bool) (b : Int) (k : Nat) :
    firstIn p b (k + 1) = if p b then some b else firstIn p (b + 1) k := rfl
theorem evalsIn_succ (p : Int → Bool) (b : Int) (k : Nat) :
    evalsIn p b (k + 1) = if p b then [b] else b :: evalsIn p (b + 1) k := rfl

theorem firstIn_some (p : Int → Bool) : ∀ (k : Nat) (b r : Int), firstIn p b k = some r →
    b ≤ r ∧ r < b + k ∧ p r = true ∧ ∀ j, b ≤ j → j < r → p j = false := by
  intro k
  induction k with
  | zero => intro b r h; simp [firstIn] at h
  | succ k ih =>
    intro b r h
    unfold firstIn at h
    by_cases hp : p b = true
    · rw [if_pos hp] at h
      cases h
      exact ⟨Int.le_refl _, by omega, hp, by intro j h1 h2; omega⟩
    · rw [if_neg hp] at h
      obtain ⟨h1, h2, h3, h4⟩ := ih (b + 1) r h
      refine ⟨by omega, by omega, h3, ?_⟩
      intro j hj1 hj2
      by_cases hjb : j = b
      · subst hjb; simpa using hp
      · exact h4 j (by omega) hj2

theorem firstIn_none (p : Int → Bool) : ∀ (k : Nat) (b : Int), firstIn p b k = none →
    ∀ j, b ≤ j → j < b + k → p j = false := by
  intro k
  induction k with
  | zero => intro b _ j h1 h2; omega
  | succ k ih =>
    intro b h j h1 h2
    unfold firstIn at h
    by_cases hp : p b = true
    · rw [if_pos hp] at h; cases h
    · rw [if_neg hp] at h
      by_cases hjb : j = b
      · subst hjb; simpa using hp
      · exact ih (b + 1) h j (by omega) (by omega)

/-- `firstSat` is `std::find_if`: either no element of `[0,d)` satisfies `p` and the answer is `d`,
    or the answer is the least offset in `[0,d)` satisfying `p`. -/
theorem firstSat_spec (p : Int → Bool) (d : Nat) :
    (firstSat p d = d ∧ ∀ j : Int, 0 ≤ j → j < d → p j = false) ∨
    (0 ≤ firstSat p d ∧ firstSat p d < d ∧ p (firstSat p d) = true ∧
      ∀ j : Int, 0 ≤ j → j < firstSat p d → p j = false) := by
  unfold firstSat
  cases h : firstIn p 0 d with
  | none =>
    left
    refine ⟨rfl, ?_⟩
    intro j h1 h2
    exact firstIn_none p d 0 h j h1 (by omega)
  | some r =>
    right
    obtain ⟨h1, h2, h3, h4⟩ := firstIn_some p d 0 r h
    exact ⟨h1, by simpa using h2, h3, h4⟩

theorem firstIn_append (p : Int → Bool) : ∀ (a c : Nat) (b : Int),
    firstIn p b (a + c) = (firstIn p b a).or (firstIn p (b + a) c) := by
  intro a
  induction a with
  | zero => intro c b; simp [firstIn]
  | succ a ih =>
    intro c b
    have e : a + 1 + c = (a + c) + 1 := by omega
    rw [e, firstIn_succ, firstIn_succ]
    by_cases hp : p b = true
    · simp [hp]
    · simp only [hp, if_false, Bool.false_eq_true]
      have e2 : b + 1 + (a : Int) = b + ((a + 1 : Nat) : Int) := by push_cast; omega
      rw [ih c (b + 1), e2]

theorem evalsIn_range (p : Int → Bool) : ∀ (k : Nat) (b j : Int), j ∈ evalsIn p b k → b ≤ j ∧ j < b + k := by
  intro k
  induction k with
  | zero => intro b j h; simp [evalsIn] at h
  | succ k ih =>
    intro b j h
    unfold evalsIn at h
    by_cases hp : p b = true
    · rw [if_pos hp] at h
      simp at h
      omega
    · rw [if_neg hp] at h
      simp at h
      rcases h with h | h
      · omega
      · have := ih (b + 1) j h
        omega

/-- a `!=`-terminated unit-step scan from `b` to `e ≥ b` is a first-match scan of `[b, e)` -/
theorem genLoop_closed (cont : Int → Bool) (step : Int → Int) (p : Int → Bool) (e : Int)
    (hc : ∀ it, cont it = decide (it ≠ e)) (hs : ∀ it, step it = it + 1) :
    ∀ (f : Nat) (b : Int) (k : Nat), e = b + k → k < f →
      genLoop cont step p f b = ⟨evalsIn p b k, firstIn p b k, false⟩ := by
  intro f
  induction f with
  | zero => intro b k _ h; omega
  | succ f ih =>
    intro b k he hk
    unfold genLoop
    rw [hc, hs]
    cases k with
    | zero =>
      have : b = e := by omega
      simp [this, evalsIn, firstIn]
    | succ k =>
      have hne : b ≠ e := by omega
      rw [if_pos (by simpa using hne), evalsIn_succ, firstIn_succ]
      by_cases hp : p b = true
      · simp [hp]
      · simp only [hp, if_false, Bool.false_eq_true]
        rw [ih (b + 1) k (by omega) (by omega)]

end Unifex.Proto.FindIf
