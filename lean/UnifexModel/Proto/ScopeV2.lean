/-
  Proto/ScopeV2.lean — atomic-step model of `unifex::v2::async_scope`
  (include/unifex/v2/async_scope.hpp) together with the event its join waits on
  (`unifex::v1::async_manual_reset_event`, include/unifex/v1/async_manual_reset_event.hpp,
  source/async_manual_reset_event_v1.cpp — that is the event `<unifex/async_manual_reset_event.hpp>`
  selects) and of `nest()` / `spawn_detached()` on it (nest.hpp, spawn_detached.hpp).

  The packed word `opState_` (bit 0 = scope still open, bits 1.. = use count) is modelled as the
  pair (`ended`, `count`); `fetch_and(~1)`, `fetch_sub(2)` and the `compare_exchange(old, old+2)` of
  the C++ act on the pair exactly as they act on the word (`word = 2*count + (if ended then 0 else 1)`).
  The event's `state_` (nullptr / top of the Treiber stack of waiters / `this` = signalled) is the
  pair (`sig`, `waiters`).

  One step = one atomic operation of one thread (plus the plain-memory work up to the next one) or
  one externally visible event.  No thread ever blocks inside the scope (the CAS loops retry with
  the freshly read value), the only blocking step is a scenario's `fire i` which waits until the
  fate of operation `i` (started / rejected) is known.

  Client programs are the configuration: each thread runs a script of
    spawn i   nest(leaf i, scope) + connect + start  (or spawn_detached when `detached`)
    fire i    complete leaf i (if it was started), which releases the scope reference
    join j    connect + start scope.join() with receiver j (inline scheduler)
  History variables: per-operation phase, `lateNest` (the scope was already closed when nest()
  began), `jbegun`/`jdone` (join started / number of completions), `late` (the event was touched by
  a completing operation after the owner of the scope was entitled to destroy it — never happens
  since only the `end_scope` call that actually ends the scope sets the event, /repo 5b08c2e).

  Observable labels are the strings harness/rt/scn_c08.cpp prints.
-/
import UnifexModel.Core.Reflect

namespace Unifex.Proto.ScopeV2
open Unifex.Core

inductive Op
  | spawn (i : Nat) | fire (i : Nat) | join (j : Nat)
  deriving DecidableEq, Repr

structure Config where
  scripts : List (List Op)
  nOps : Nat
  nJoins : Nat
  /-- `spawn` is `spawn_detached(leaf, scope)` (no receiver of ours around the nest sender) -/
  detached : Bool := false

/-- phases of a nested operation:
    0 not decided yet, 1 admitted (`try_record_start` succeeded, the use count includes it),
    2 started, 3 its leaf is completing, 4 the receiver of the nest sender has its completion,
    5 released (`record_completion` did its `fetch_sub`), 6 rejected (scope was closed: the nest
    sender is empty, starting it completes with done and never starts the leaf). -/
structure OpSt where
  phase : Nat
  lateNest : Bool
  deriving DecidableEq, Repr

/-- A thread: `ip` = index of the current call in its script, `pc` = 0 between calls, > 0 inside
    the call `script[ip]`; `x`, `y` = locals (the `opState` value read by `try_record_start`, resp. the
    `top` read by `start_or_wait`); `todo` = the popped stack of waiters `set()` is iterating over. -/
structure Thr where
  ip : Nat
  pc : Nat
  x : Nat
  y : Nat
  todo : List Nat
  deriving DecidableEq, Repr

structure St where
  ended : Bool          -- !(opState_ & 1)
  count : Nat           -- opState_ >> 1
  sig : Bool            -- evt_.state_ == &evt_
  waiters : List Nat    -- evt_.state_ as a stack of join operations, top first
  ops : List OpSt
  jbegun : List Nat
  jdone : List Nat
  thrs : List Thr
  late : Bool           -- history: `evt_.set()` ran after the owner could have destroyed the scope
  deriving DecidableEq, Repr

def init (cfg : Config) : St :=
  { ended := false, count := 0, sig := false, waiters := [],
    ops := List.replicate cfg.nOps ⟨0, false⟩,
    jbegun := List.replicate cfg.nJoins 0, jdone := List.replicate cfg.nJoins 0,
    thrs := cfg.scripts.map (fun _ => ⟨0, 0, 0, 0, []⟩), late := false }

def getOp (s : St) (i : Nat) : OpSt := s.ops.getD i ⟨0, false⟩
def setOp (s : St) (i : Nat) (o : OpSt) : St := { s with ops := s.ops.set i o }
def setPhase (s : St) (i : Nat) (p : Nat) : St := setOp s i { getOp s i with phase := p }
def getThr (s : St) (t : Nat) : Thr := s.thrs.getD t ⟨0, 0, 0, 0, []⟩
def setThr (s : St) (t : Nat) (x : Thr) : St := { s with thrs := s.thrs.set t x }
def goto (s : St) (t : Nat) (pc : Nat) : St := setThr s t { getThr s t with pc := pc }
/-- the current call returns -/
def ret (s : St) (t : Nat) : St := setThr s t ⟨(getThr s t).ip + 1, 0, 0, 0, []⟩
def bump (l : List Nat) (j : Nat) : List Nat := l.set j (l.getD j 0 + 1)

abbrev Lbl := Nat × Option String
def ev (t : Nat) (txt : String) : Lbl := (t, some txt)
def tau (t : Nat) : Lbl := (t, none)

def b2n (b : Bool) : Nat := if b then 1 else 0

def isFire : Op → Bool
  | .fire _ => true
  | _ => false

/-- The owner of the scope is entitled to destroy it: every join of the scenario has completed and
    every thread has returned from all its calls on the scope (only `fire`s remain). -/
def quiet (cfg : Config) (s : St) : Bool :=
  s.jdone.all (fun d => d ≥ 1) &&
  (List.range s.thrs.length).all (fun u => ((cfg.scripts.getD u []).drop (getThr s u).ip).all isFire)

/-- `evt_.set()`, first half: `state_.exchange(this)`.  `k` = pc at which the popped waiters are
    resumed, `done` = what to do when there is nothing (more) to resume. -/
def evtExchange (s : St) (t : Nat) (k : Nat) (done : St → St) : St :=
  if s.sig then done s
  else
    let s1 := { s with sig := true, waiters := [] }
    match s.waiters with
    | [] => done s1
    | ws => setThr s1 t { getThr s1 t with pc := k, todo := ws }

/-- `evt_.set()`, second half: resume the next popped waiter (its `set_value` starts the schedule
    operation on the join receiver's inline scheduler, which completes the join receiver). -/
def evtResume (s : St) (t : Nat) (done : St → St) : Option (Lbl × St) :=
  let th := getThr s t
  match th.todo with
  | [] => some (tau t, done s)
  | j :: rest =>
    let s1 := { s with jdone := bump s.jdone j }
    let s2 := setThr s1 t { th with todo := rest }
    some (ev t s!"join{j}.done", if rest.isEmpty then done s2 else s2)

/-- One step of thread `t`; `none` = disabled (script finished, or `fire` waiting for the spawn). -/
def stepThr (cfg : Config) (s : St) (t : Nat) : Option (Lbl × St) :=
  let th := getThr s t
  match (cfg.scripts.getD t [])[th.ip]? with
  | none => none
  | some (.spawn i) =>
    let o := getOp s i
    match th.pc with
    | 0 => some (ev t s!"op{i}.nest", goto (setOp s i { o with lateNest := s.ended }) t 1)
    | 1 =>  -- try_record_start: opState_.load()
      some (tau t, setThr s t { th with pc := 2, x := b2n s.ended, y := s.count })
    | 2 =>  -- if (scope_ended(opState)) return false;  else compare_exchange(opState, opState + 2)
      if th.x = 1 then some (ev t s!"op{i}.rejected", ret (setPhase s i 6) t)
      else if !s.ended && s.count = th.y then
        some (tau t, goto (setPhase { s with count := s.count + 1 } i 1) t 3)
      else some (tau t, setThr s t { th with x := b2n s.ended, y := s.count })
    | _ =>  -- connect + start of the (non-empty) nest sender starts the leaf
      some (ev t s!"op{i}.start", ret (setPhase s i 2) t)
  | some (.fire i) =>
    let o := getOp s i
    match th.pc with
    | 0 =>
      if o.phase = 6 then some (tau t, ret s t)                       -- rejected: nothing to complete
      else if o.phase = 2 then
        some (ev t s!"op{i}.complete", goto (setPhase s i 3) t (if cfg.detached then 2 else 1))
      else none
    | 1 =>  -- nest_receiver::complete: scope reference moved to a local, receiver completed
      some (ev t s!"op{i}.finished", goto (setPhase s i 4) t 2)
    | 2 =>  -- ~scope_reference → record_completion: opState_.fetch_sub(2)
      let s1 := setPhase { s with count := s.count - 1 } i 5
      if s.ended && s.count = 1 then some (tau t, goto s1 t 3) else some (tau t, ret s1 t)
    | 3 =>  -- scope->evt_.set(): exchange
      let s1 := if quiet cfg s then { s with late := true } else s
      some (tau t, evtExchange s1 t 4 (fun z => ret z t))
    | _ => evtResume s t (fun z => ret z t)
  | some (.join j) =>
    match th.pc with
    | 0 => some (ev t s!"join{j}.begin", goto { s with jbegun := bump s.jbegun j } t 1)
    | 1 =>  -- end_scope: opState_.fetch_and(~scopeEndedBit); only the call that actually ends the
            -- scope (old value still open) with count 0 sets the event
      some (tau t, goto { s with ended := true } t (if !s.ended && s.count = 0 then 2 else 4))
    | 2 => some (tau t, evtExchange s t 3 (fun z => goto z t 4))   -- evt_.set(): exchange
    | 3 => evtResume s t (fun z => goto z t 4)
    | 4 =>  -- start_or_wait: state_.load()
      if s.sig then some (ev t s!"join{j}.done", ret { s with jdone := bump s.jdone j } t)
      else some (tau t, setThr s t { th with pc := 5, x := (s.waiters.head?.map (· + 1)).getD 0 })
    | _ =>  -- compare_exchange_weak(top, &op); on failure `top` is reloaded and the loop re-tests it
      if s.sig then some (ev t s!"join{j}.done", ret { s with jdone := bump s.jdone j } t)
      else if (s.waiters.head?.map (· + 1)).getD 0 = th.x then
        some (tau t, ret { s with waiters := j :: s.waiters } t)
      else some (tau t, setThr s t { th with x := (s.waiters.head?.map (· + 1)).getD 0 })

def sys (cfg : Config) : LSys St Lbl where
  init := init cfg
  next s := (List.range s.thrs.length).filterMap (fun t => stepThr cfg s t)

def obsOf (l : Lbl) : Option String := l.2.map (fun txt => s!"T{l.1} {txt}")

/-- every thread has run its script to the end -/
def final (cfg : Config) (s : St) : Bool :=
  (List.range s.thrs.length).all (fun u => (getThr s u).ip ≥ (cfg.scripts.getD u []).length)

/-- operation is counted by the scope: admitted and not yet released -/
def OpSt.counted (o : OpSt) : Bool := 1 ≤ o.phase && o.phase ≤ 4

/-- Property C08 for v2 as a state predicate (the history variables make it one):
    * a join has completed only if the scope is closed, the use count is zero and no operation is
      admitted-but-unreleased (so every admitted operation's receiver has its completion);
    * every join completes at most once;
    * an operation whose nest() began after the close is never admitted (hence never started);
    * the use count is exactly the number of admitted, not yet released operations (work admitted
      before the close is counted, however the close races with the admission);
    * no deadlock;
    * at the end: every started join completed exactly once, every operation was either rejected
      or ran to its release, and the count is zero. -/
def safe (cfg : Config) (s : St) : Bool :=
  (s.jdone.all (fun d => d = 0) || (s.ended && s.count = 0 && s.ops.all (fun o => !o.counted))) &&
  s.jdone.all (fun d => d ≤ 1) &&
  s.ops.all (fun o => !o.lateNest || o.phase = 0 || o.phase = 6) &&
  s.count = (s.ops.filter OpSt.counted).length &&
  ((sys cfg).next s |>.isEmpty |> fun dead => !dead || final cfg s) &&
  (!final cfg s ||
    ((List.range s.jdone.length).all (fun j => s.jbegun.getD j 0 = s.jdone.getD j 0) &&
     s.ops.all (fun o => o.phase = 0 || o.phase = 5 || o.phase = 6) && s.count = 0))

/-- The scope is not touched by a completing operation after its owner may have destroyed it. -/
def noLateTouch (s : St) : Bool := !s.late

/-- `safe` and never a late touch of the scope -/
def safeQ (cfg : Config) (s : St) : Bool := safe cfg s && noLateTouch s

/-! ### coding (untrusted; checked on the fly by `checkClosed`) -/

def encThr (t : Thr) : List Nat := [t.ip, t.pc, t.x, t.y, t.todo.length] ++ t.todo
def encSt (s : St) : List Nat :=
  [b2n s.ended, s.count, b2n s.sig, b2n s.late, s.waiters.length] ++ s.waiters ++
  [s.ops.length] ++ s.ops.flatMap (fun o => [o.phase, b2n o.lateNest]) ++
  [s.jbegun.length] ++ s.jbegun ++ [s.jdone.length] ++ s.jdone ++
  [s.thrs.length] ++ s.thrs.flatMap encThr

def decOps : Nat → List Nat → List OpSt × List Nat
  | 0, r => ([], r)
  | n+1, p :: l :: r => let (os, r') := decOps n r; (⟨p, l == 1⟩ :: os, r')
  | _, r => ([], r)

def decThrs : Nat → List Nat → List Thr × List Nat
  | 0, r => ([], r)
  | n+1, ip :: pc :: x :: y :: len :: r =>
    let (ts, r') := decThrs n (r.drop len)
    (⟨ip, pc, x, y, r.take len⟩ :: ts, r')
  | _, r => ([], r)

def badSt : St := ⟨false, 99, false, [], [], [], [], [], false⟩

def decSt (l : List Nat) : St :=
  match l with
  | en :: ct :: sg :: lt :: wl :: r =>
    let ws := r.take wl
    match r.drop wl with
    | no :: r1 =>
      let (ops, r2) := decOps no r1
      match r2 with
      | nb :: r3 =>
        let jb := r3.take nb
        match r3.drop nb with
        | nd :: r4 =>
          let jd := r4.take nd
          match r4.drop nd with
          | nt :: r5 => ⟨en == 1, ct, sg == 1, ws, ops, jb, jd, (decThrs nt r5).1, lt == 1⟩
          | _ => badSt
        | _ => badSt
      | _ => badSt
    | _ => badSt
  | _ => badSt

def coded : Coded St :=
  { enc := fun s => packNats 16 (encSt s), dec := fun n => decSt (unpackNats 16 100 n), M := 4093, W := 200 }

/-! ### the scenario configurations (mirrored one-to-one by harness/rt/scn_c08.cpp) -/

/-- T1 nests, starts and completes op0; T2 joins. -/
def cfgRace1 : Config := ⟨[[], [.spawn 0, .fire 0], [.join 0]], 1, 1, false⟩
/-- T0 nests op0 and joins; T1 nests, starts and completes op1, then completes op0 (admission of
    op1 races with the close, the last completion races with the join). -/
def cfgRace2 : Config := ⟨[[.spawn 0, .join 0], [.spawn 1, .fire 1, .fire 0]], 2, 1, false⟩
/-- T0 nests op0, starts the join, then nests op1 (after the close); T1 completes op0. -/
def cfgLateNest : Config := ⟨[[.spawn 0, .join 0, .spawn 1], [.fire 0]], 2, 1, false⟩
/-- `cfgRace2` with spawn_detached instead of nest + a receiver of ours. -/
def cfgDetached : Config := ⟨[[.spawn 0, .join 0], [.spawn 1, .fire 1, .fire 0]], 2, 1, true⟩
/-- two racing joins (T0 and T2), op0 nested by T0 beforehand and completed by T1. -/
def cfgTwoJoins : Config := ⟨[[.spawn 0, .join 0], [.fire 0], [.join 1]], 1, 2, false⟩

/-- two workers and a joiner, all on their own threads (1045 states: used for the correspondence
    with the real code only; its safety is an instance of the parametric theorems of Props/C08). -/
def cfgWide : Config := ⟨[[], [.spawn 0, .fire 0], [.spawn 1, .fire 1], [.join 0]], 2, 1, false⟩

def configs : List (String × Config) :=
  [("v2_race1", cfgRace1), ("v2_race2", cfgRace2), ("v2_late_nest", cfgLateNest),
   ("v2_detached", cfgDetached), ("v2_two_joins", cfgTwoJoins), ("v2_wide", cfgWide)]

end Unifex.Proto.ScopeV2
