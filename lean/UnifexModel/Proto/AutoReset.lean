/-
  Proto/AutoReset.lean — atomic-step model of `async_auto_reset_event`
  (include/unifex/async_auto_reset_event.hpp, source/async_auto_reset_event.cpp).

  The event is a `std::mutex`, a three-valued `state_` (UNSET / SET / DONE) that is only touched
  under the mutex, and a v1 `async_manual_reset_event event_` (one atomic word, see
  Proto/EventV1.lean) that is set/reset under the mutex but WAITED ON WITHOUT the mutex:

    set()        lock;  if state_ != DONE { state_ = SET; event_.set(); }            unlock
    set_done()   lock;  state_ = DONE; event_.set();                                  unlock
    try_reset()  lock;  if state_ == SET { state_ = UNSET; event_.reset(); true } else false;  unlock
    stream().next()   = register a stop callback `[evt]{ evt->set_done(); }` on the receiver's stop
                        token; event_.async_wait(); when resumed: destroy the stop callback;
                        just_void_or_done(try_reset())

  Steps.  A lock acquisition is merged with the plain work up to the next atomic operation of the
  region (a lock acquisition commutes to the right), a release with the step before it (it commutes
  to the left); try_reset() — acquire, one CAS on event_, release — is therefore one step.  The
  atomic operations on `event_`'s word are separate steps, because a consumer's async_wait (load,
  CAS loop) runs outside the mutex and races with them.  The consumers' receivers use a DEFERRED
  scheduler owned by the consumer thread (the header says "avoid inline Scheduler"; with an inline
  scheduler set() would run try_reset() inside its own critical section and self-deadlock on the
  non-recursive mutex), so `event_.set()` resuming a waiter = enqueueing its continuation
  (`sched := true`); the consumer thread runs it when it finds it.

  Threads: controller 0 is T0 (the scenario body), consumer k is T(k+1), controller j>0 is
  T(nC+j).  Controllers run scripts of set / setDone / stop k / joinCtl.

  History variables: `ups` (UNSET→SET transitions), `values` (try_reset() calls that returned true),
  `doneSeen` (a set_done region ran), `spurious` (a next() completed with done although state_ was
  not DONE — only possible with two simultaneous next()), `bad` (1: a continuation was scheduled
  twice for one wait; 2: try_reset() succeeded after DONE).
-/
import UnifexModel.Core.Reflect
import UnifexModel.Proto.Code16

namespace Unifex.Proto.AutoReset
open Unifex.Core

inductive AOp
  | set | setDone | stop (k : Nat) | joinCtl
  deriving DecidableEq, Repr

structure Config where
  nNext : List Nat              -- per consumer: number of next() calls it makes (stops early on done)
  scripts : List (List AOp)     -- controller scripts; controller 0 is T0
  startReady : Bool := false

/-- consumer program counters:
    0 call next()        1 register the stop callback      2 load event_.state_
    3 CAS loop / inline  4 wait for the continuation; destroy the stop callback
    5 try_reset() (lock, region, unlock)        6 completion
    10,11: set_done() run inline from the stop-callback constructor (stop already requested):
           10 lock+region+exchange, 11 pop loop, then unlock -/
structure Cons where
  pc : Nat
  calls : Nat        -- next() calls completed
  seenSet : Bool     -- local `top` of start_or_wait: was it `this`?
  seen : List Nat    -- … otherwise the stack it read
  sched : Bool       -- continuation enqueued on this consumer's scheduler
  res : Bool         -- result of try_reset()
  cap : List Nat     -- captured stack of an inline set_done()
  stopReq : Bool     -- this consumer's stop source: stop requested
  cbReg : Bool       -- stop callback registered (and not yet destroyed)
  cbRun : Bool       -- stop callback currently executing on a controller thread
  lastDone : Bool    -- history: the last completion was done
  deriving DecidableEq, Repr

/-- controller program counters: 0 between calls; 1 lock+region+exchange, 2 pop loop then unlock, 3 return
    (`isDone` tells set from set_done; `forCb` = running as stop callback of that consumer + 1) -/
structure Ctl where
  ip : Nat
  pc : Nat
  isDone : Bool
  forCb : Nat
  cap : List Nat
  deriving DecidableEq, Repr

structure St where
  locked : Bool
  st : Nat            -- 0 UNSET, 1 SET, 2 DONE
  evSet : Bool        -- event_.state_ == this
  evList : List Nat   -- … otherwise the stack of waiting consumers
  cons : List Cons
  ctls : List Ctl
  ups : Nat
  values : Nat
  doneSeen : Bool
  spurious : Bool
  bad : Nat
  deriving DecidableEq, Repr

def Cons.init : Cons := ⟨0, 0, false, [], false, false, [], false, false, false, false⟩
def Ctl.init : Ctl := ⟨0, 0, false, 0, []⟩

def init (cfg : Config) : St :=
  { locked := false, st := if cfg.startReady then 1 else 0, evSet := cfg.startReady, evList := [],
    cons := cfg.nNext.map (fun _ => Cons.init), ctls := cfg.scripts.map (fun _ => Ctl.init),
    ups := 0, values := 0, doneSeen := false, spurious := false, bad := 0 }

abbrev Lbl := Nat × Option String
def ev (t : Nat) (txt : String) : Lbl := (t, some txt)
def tau (t : Nat) : Lbl := (t, none)

def getC (s : St) (k : Nat) : Cons := s.cons.getD k Cons.init
def setC (s : St) (k : Nat) (c : Cons) : St := { s with cons := s.cons.set k c }
def getT (s : St) (j : Nat) : Ctl := s.ctls.getD j Ctl.init
def setT (s : St) (j : Nat) (c : Ctl) : St := { s with ctls := s.ctls.set j c }

/-- event_.set() resumes waiter `i`: its continuation is enqueued on its scheduler -/
def enqueue (s : St) (i : Nat) : St :=
  let c := getC s i
  let s1 := if c.sched && s.bad = 0 then { s with bad := 1 } else s
  setC s1 i { c with sched := true }

/-- the lock-protected region of set()/set_done() up to and including the exchange on event_;
    returns the new state and the captured stack -/
def regionSet (s : St) (isDone : Bool) : St × List Nat :=
  if isDone then
    ({ s with locked := true, st := 2, doneSeen := true, evSet := true, evList := [] },
     if s.evSet then [] else s.evList)
  else if s.st = 2 then ({ s with locked := true }, [])
  else
    ({ s with locked := true, st := 1, ups := if s.st = 0 then s.ups + 1 else s.ups,
              evSet := true, evList := [] },
     if s.evSet then [] else s.evList)

def ctlTid (s : St) (j : Nat) : Nat := if j = 0 then 0 else s.cons.length + j

def othersDone (cfg : Config) (s : St) (j : Nat) : Bool :=
  (List.range s.ctls.length).all (fun u =>
    u = j || ((getT s u).pc == 0 && decide ((cfg.scripts.getD u []).length ≤ (getT s u).ip)))

/-- One step of consumer `k`. -/
def stepCons (cfg : Config) (s : St) (k : Nat) : Option (Lbl × St) :=
  let c := getC s k
  let t := k + 1
  match c.pc with
  | 0 =>
    if c.calls < cfg.nNext.getD k 0 && !c.lastDone then
      some (ev t s!"next{k}.begin", setC s k { c with pc := 1 })
    else none
  | 1 =>  -- inplace_stop_callback constructor
    if c.stopReq then some (tau t, setC s k { c with pc := 10 })          -- runs set_done() inline
    else some (tau t, setC s k { c with pc := 2, cbReg := true })
  | 10 =>
    if s.locked then none else
      let (s1, cap) := regionSet s true
      some (tau t, setC s1 k { c with pc := 11, cap := cap })
  | 11 =>
    match c.cap with
    | [] => some (tau t, setC { s with locked := false } k { c with pc := 2 })   -- unlock
    | i :: rest =>
      let s1 := setC s k { c with cap := rest }
      some (tau t, enqueue s1 i)
  | 2 => some (tau t, setC s k { c with pc := 3, seenSet := s.evSet, seen := s.evList })
  | 3 =>
    if c.seenSet then
      -- signalled: op.set_value() → schedule() on the consumer's (deferred) scheduler
      some (tau t, enqueue (setC s k { c with pc := 4 }) k)
    else if !s.evSet && (c.seen.head? == s.evList.head?) then
      some (tau t, setC { s with evList := k :: c.seen } k { c with pc := 4 })
    else some (tau t, setC s k { c with seenSet := s.evSet, seen := s.evList })
  | 4 =>
    -- the consumer thread drives its scheduler; the continuation first destroys the stop callback
    -- (which blocks while the callback runs on another thread)
    if c.sched && !c.cbRun then some (tau t, setC s k { c with pc := 5, sched := false, cbReg := false })
    else none
  | 5 =>  -- try_reset(): lock, region (with the CAS of event_.reset()), unlock — one block
    if s.locked then none else
      if s.st = 1 then
        let s1 := { s with st := 0, evSet := false, evList := [],
                           values := s.values + 1, bad := if s.doneSeen && s.bad = 0 then 2 else s.bad }
        some (tau t, setC s1 k { c with pc := 6, res := true })
      else
        let s1 := { s with spurious := s.spurious || s.st != 2 }
        some (tau t, setC s1 k { c with pc := 6, res := false })
  | 6 =>
    some (ev t (if c.res then s!"next{k}.value" else s!"next{k}.done"),
          setC s k { c with pc := 0, calls := c.calls + 1, lastDone := !c.res })
  | _ => none

/-- One step of controller `j`. -/
def stepCtl (cfg : Config) (s : St) (j : Nat) : Option (Lbl × St) :=
  let c := getT s j
  let t := ctlTid s j
  match c.pc with
  | 0 =>
    match (cfg.scripts.getD j [])[c.ip]? with
    | none => none
    | some .set => some (ev t "set.begin", setT s j { c with pc := 1, isDone := false, forCb := 0 })
    | some .setDone => some (ev t "setdone.begin", setT s j { c with pc := 1, isDone := true, forCb := 0 })
    | some (.stop k) => some (ev t s!"stop{k}.begin", setT s j { c with pc := 4, forCb := k + 1 })
    | some .joinCtl => if othersDone cfg s j then some (tau t, setT s j { c with ip := c.ip + 1 }) else none
  | 1 =>
    if s.locked then none else
      let (s1, cap) := regionSet s c.isDone
      some (tau t, setT s1 j { c with pc := 2, cap := cap })
  | 2 =>
    match c.cap with
    | [] => some (tau t, setT { s with locked := false } j { c with pc := 3 })   -- unlock
    | i :: rest => some (tau t, enqueue (setT s j { c with cap := rest }) i)
  | 3 =>
    let s1 := s
    if c.forCb = 0 then
      some (ev t (if c.isDone then "setdone.end" else "set.end"), setT s1 j { c with pc := 0, ip := c.ip + 1 })
    else
      -- the stop callback returns; request_stop() returns
      let k := c.forCb - 1
      let s2 := setC s1 k { getC s1 k with cbRun := false }
      some (ev t s!"stop{k}.end", setT s2 j { c with pc := 0, ip := c.ip + 1, forCb := 0 })
  | 4 =>  -- request_stop(): set the flag; run the callback if it is registered
    let k := c.forCb - 1
    let ck := getC s k
    if ck.cbReg then
      some (tau t, setT (setC s k { ck with stopReq := true, cbRun := true }) j { c with pc := 1, isDone := true })
    else
      some (tau t, setT (setC s k { ck with stopReq := true }) j { c with pc := 3 })
  | _ => none

def sys (cfg : Config) : LSys St Lbl where
  init := init cfg
  next s := (List.range s.cons.length).filterMap (stepCons cfg s) ++
            (List.range s.ctls.length).filterMap (stepCtl cfg s)

def obsOf (l : Lbl) : Option String := l.2.map (fun txt => s!"T{l.1} {txt}")

def consDone (cfg : Config) (s : St) (k : Nat) : Bool :=
  let c := getC s k
  c.pc == 0 && (decide (cfg.nNext.getD k 0 ≤ c.calls) || c.lastDone)

def final (cfg : Config) (s : St) : Bool :=
  (List.range s.cons.length).all (consDone cfg s) &&
  (List.range s.ctls.length).all (fun j => (getT s j).pc == 0 && decide ((cfg.scripts.getD j []).length ≤ (getT s j).ip))

/-- The property as a state predicate:
    * `values + [state_ = SET] ≤ ups + [startReady]`: every successful next() consumed its own
      UNSET→SET transition — a set() is handed to at most one next() (with equality as long as
      set_done has not run: a pending SET is dropped only by DONE);
    * DONE is permanent (`doneSeen → state_ = DONE`), no value after DONE, no continuation
      scheduled twice (`bad = 0`);
    * no deadlock (a consumer whose wait could never end would be a disabled thread in a non-final
      state; every configuration ends with T0 calling set_done, like a stream's cleanup);
    * with a single consumer a next() completes with done only if the event is DONE. -/
def safe (cfg : Config) (s : St) : Bool :=
  s.bad == 0 &&
  decide (s.values + (if s.st = 1 then 1 else 0) ≤ s.ups + (if cfg.startReady then 1 else 0)) &&
  (s.doneSeen || decide (s.values + (if s.st = 1 then 1 else 0) = s.ups + (if cfg.startReady then 1 else 0))) &&
  (!s.doneSeen || s.st == 2) &&
  (!((sys cfg).next s).isEmpty || final cfg s) &&
  (decide (1 < cfg.nNext.length) || !s.spurious)

/-! ### coding (fixed layout, see Proto/Code16.lean) -/
open Code16

/-- 20 digits -/
def encCons (c : Cons) : Nat :=
  dcons c.pc (dcons c.calls (dcons (b2n c.seenSet) (dcons (b2n c.sched) (dcons (b2n c.res)
    (dcons (b2n c.stopReq) (dcons (b2n c.cbReg) (dcons (b2n c.cbRun) (dcons (b2n c.lastDone)
      (encLN c.seen + 16 ^ 5 * encLN c.cap)))))))))
def decCons (n o : Nat) : Cons :=
  ⟨dig n o, dig n (o + 1), dig n (o + 2) == 1, decL n (o + 9), dig n (o + 3) == 1, dig n (o + 4) == 1,
   decL n (o + 14), dig n (o + 5) == 1, dig n (o + 6) == 1, dig n (o + 7) == 1, dig n (o + 8) == 1⟩

/-- 9 digits -/
def encCtl (c : Ctl) : Nat := dcons c.ip (dcons c.pc (dcons (b2n c.isDone) (dcons c.forCb (encLN c.cap))))
def decCtl (n o : Nat) : Ctl := ⟨dig n o, dig n (o + 1), dig n (o + 2) == 1, dig n (o + 3), decL n (o + 4)⟩

/-- layout: nCons, nCtl, locked, st, evSet, ups, values, doneSeen, spurious, bad, evList (5),
    consumers (20 each), controllers (9 each), terminator -/
def encSt (s : St) : Nat :=
  dcons s.cons.length (dcons s.ctls.length (dcons (b2n s.locked) (dcons s.st (dcons (b2n s.evSet)
    (dcons s.ups (dcons s.values (dcons (b2n s.doneSeen) (dcons (b2n s.spurious) (dcons s.bad
      (encLN s.evList + 16 ^ 5 * (packW 20 encCons s.cons + 16 ^ (20 * s.cons.length) *
        (packW 9 encCtl s.ctls + 16 ^ (9 * s.ctls.length)))))))))))))

def decSt (n : Nat) : St :=
  { locked := dig n 2 == 1, st := dig n 3, evSet := dig n 4 == 1, evList := decL n 10,
    cons := (List.range (dig n 0)).map (fun i => decCons n (15 + 20 * i)),
    ctls := (List.range (dig n 1)).map (fun j => decCtl n (15 + 20 * dig n 0 + 9 * j)),
    ups := dig n 5, values := dig n 6, doneSeen := dig n 7 == 1, spurious := dig n 8 == 1, bad := dig n 9 }

def coded : Coded St := { enc := encSt, dec := decSt, M := 1021, W := 400 }

/-! ### scenario configurations (mirrored by harness/rt/scn_c16.cpp, same names) -/

/-- one consumer (two next() calls), one producer calling set() twice; T0 ends the stream -/
def cfgOneConsumer : Config := { nNext := [2], scripts := [[.joinCtl, .setDone], [.set, .set]] }
/-- one consumer whose next() is cancelled through its stop token -/
def cfgCancel : Config := { nNext := [1], scripts := [[.joinCtl, .setDone], [.stop 0]] }
/-- … with a set() racing with the cancellation (618 states: correspondence only, no instance theorem) -/
def cfgCancelVsSet : Config := { nNext := [1], scripts := [[.joinCtl, .setDone], [.set], [.stop 0]] }
/-- two simultaneous next() senders, one set(): at most one of them gets the value -/
def cfgTwoConsumers : Config := { nNext := [1, 1], scripts := [[.joinCtl, .setDone], [.set]] }
/-- the event starts ready; set_done races with the consumer -/
def cfgStartReady : Config := { nNext := [2], scripts := [[.setDone]], startReady := true }

def configs : List (String × Config) :=
  [("ar_one_consumer", cfgOneConsumer), ("ar_cancel", cfgCancel), ("ar_cancel_vs_set", cfgCancelVsSet),
   ("ar_two_consumers", cfgTwoConsumers),
   ("ar_start_ready", cfgStartReady)]

end Unifex.Proto.AutoReset
