/-
  Proto/AsyncPass.lean — atomic-step model of `async_pass` (include/unifex/async_pass.hpp,
  source/async_pass.cpp) with its `cancellable<>` wrapper (include/unifex/cancellable.hpp) and the
  `completion_forwarder` (include/unifex/detail/completion_forwarder.hpp).

  One tagged atomic word `state_`: 0 idle | caller* (a call is waiting) | acceptor*^1 (an accept is
  waiting).  `call_or_suspend` / `accept_or_suspend` are CAS loops that either claim the waiting
  counterpart (word → 0) or store self; `try_claim_*` only claim; a second caller while one waits
  is `std::terminate()` (not modelled: one caller, one acceptor).

    the claiming side runs the rendezvous: the caller's function is invoked with the acceptor (the
        payload is moved into the acceptor's deferred-completion storage), then each side is resumed:
        `if (try_complete(op)) op->forwardingOp_.start(*op)`
    stop()   (stop callback when state_ == started, or start() when it finds `stopped`):
             CAS(word: self → 0); on success try_complete; cancelled_ = true / deferred = done;
             forwardingOp_.start
    completion_forwarder::start = connect(schedule(get_scheduler(receiver)), receiver{outer}); start;
             its receiver answers get_stop_token with `unstoppable_token` (since /repo commit b17d5ba;
             before that fix it forwarded the FINAL receiver's stop token, so a stop request arriving
             after the hand-over turned the rescheduled completion into set_done — DESIGN §8 #3), so
             the schedule operation always reaches forward_set_value: the outcome is decided by
             `cancelled_` / the deferred completion alone.  Modelled as coded: step 11 below.

  Steps: one per atomic operation on the word / on a cancellable state / on a stop source /
  scheduler queue; `try_complete` + destroying the stop callback + enqueueing the forwarder's
  schedule operation are merged (nothing observable separates them; destroying a stop callback
  blocks while it runs on another thread); the store to `sync_complete` is merged with the
  fetch_or before it.

  Threads: controller 0 = T0, T1 = caller, T2 = acceptor (present or not), controller j>0 = T(2+j).
  Each party drives its own deferred scheduler until its operation completes.
-/
import UnifexModel.Core.Reflect
import UnifexModel.Proto.Code16

namespace Unifex.Proto.AsyncPass
open Unifex.Core

inductive POp
  | stop (who : Nat)        -- request_stop on the caller's (0) / acceptor's (1) stop source
  | tryCall | tryAccept
  | joinCtl                 -- wait for all other controllers
  | joinParty (who : Nat)   -- wait for that party's thread
  | unlessServed            -- skip the rest of the script if a payload has been handed over
  | awaitWord (w : Nat)     -- spin until the word has that value (is_expecting_call / _accept)
  | awaitAcceptor           -- spin until some acceptor is parked (is_expecting_call)
  | onlyIfServed            -- skip the rest of the script unless the caller's payload has been handed over
  | awaitServed             -- block until the caller's function has run
  deriving DecidableEq, Repr

structure Config where
  present : List Bool        -- [caller present, acceptor present]
  stoppable : List Bool      -- [caller's receiver has a stop token, acceptor's …]
  scripts : List (List POp)  -- controller scripts, controller 0 = T0
  gatedAcceptor : Bool := false  -- the acceptor calls async_accept only after the caller's function has run
                                 -- (and not at all if the call was cancelled instead)

/-- party pcs: 0 call, 1 register cb, 2 CAS loop, 3 rendezvous (first resume), 4 second resume,
    6 load sync_complete, 7 fetch_or(started), 8 stop(): CAS un-claim, 9 stop(): complete,
    10 start returned, 11 drive scheduler, 12 finished -/
structure Party where
  pc : Nat
  stopped : Bool
  started : Bool
  completed : Bool
  sync : Bool
  sched : Bool       -- the forwarder's schedule operation is enqueued
  stopReq : Bool
  cbReg : Bool
  cbRun : Nat
  cancelled : Bool   -- caller: cancelled_; acceptor: deferred completion = done
  payload : Nat      -- acceptor: payload in the deferred completion (0 none)
  outcome : Nat      -- history: 0 none, 1 value, 2 done
  got : Nat          -- history: payload delivered with the acceptor's set_value
  count : Nat        -- history: completions delivered
  peer : Nat         -- caller: the acceptor it claimed
  parked : Bool      -- history: stored itself in the word and has been neither claimed nor un-claimed since
  deriving DecidableEq, Repr

/-- controller pcs: 0 idle; stop: 1 request, 2 callback fetch_or, 3 CAS un-claim, 4 complete, 5 return;
    try_call: 6 claim, 7 hand over + resume, 8 return;  try_accept: 9 claim, 10 the caller's function runs, 12 caller->resume_, 11 return -/
structure Ct where
  ip : Nat
  pc : Nat
  who : Nat
  r : Bool
  deriving DecidableEq, Repr

structure St where
  word : Nat           -- 0 idle, k+1: party k is parked (1 caller, 2 acceptor, 3 second acceptor)
  ps : List Party      -- [caller, acceptor] or [caller, acceptor, second acceptor]
  cs : List Ct
  transferred : Bool   -- history: the caller's function was invoked (its payload, 1, was handed over)
  immediate : Nat      -- history: payload received by a try_accept
  bad : Nat            -- history: 1 completed twice, 2 accept value without payload, 3 done without stop
                       -- request, 4 caller's payload handed over twice
  deriving DecidableEq, Repr

def Party.init : Party := ⟨0, false, false, false, false, false, false, false, 0, false, 0, 0, 0, 0, 0, false⟩
def Ct.init : Ct := ⟨0, 0, 0, false⟩

def init (cfg : Config) : St :=
  { word := 0, ps := cfg.present.map (fun _ => Party.init), cs := cfg.scripts.map (fun _ => Ct.init),
    transferred := false, immediate := 0, bad := 0 }

abbrev Lbl := Nat × Option String
def ev (t : Nat) (txt : String) : Lbl := (t, some txt)
def tau (t : Nat) : Lbl := (t, none)

def getP (s : St) (k : Nat) : Party := s.ps.getD k Party.init
def setP (s : St) (k : Nat) (p : Party) : St := { s with ps := s.ps.set k p }
def getT (s : St) (j : Nat) : Ct := s.cs.getD j Ct.init
def setT (s : St) (j : Nat) (c : Ct) : St := { s with cs := s.cs.set j c }
def ctlTid (s : St) (j : Nat) : Nat := if j = 0 then 0 else s.ps.length + j
def flag (s : St) (b : Nat) : St := if s.bad = 0 then { s with bad := b } else s
def nm (who : Nat) : String := if who = 0 then "call" else if who = 1 then "accept" else "accept2"

def canDestroyCb (p : Party) (t : Nat) : Bool := p.cbRun = 0 || p.cbRun = t + 1

/-- `if (try_complete(op)) forwardingOp_.start(*op)` executed by thread `t` on party `who`:
    fetch_or(completed) (+ sync_complete), destroy the stop callback, enqueue the schedule op -/
def resume (s : St) (who : Nat) : St :=
  let p := getP s who
  setP s who { p with completed := true, sync := p.sync || !p.started, cbReg := false, sched := true }

/-- the caller's function runs: its payload goes into acceptor `a`'s deferred completion -/
def handOver (s : St) (a : Nat) : St :=
  let s1 := if s.transferred then flag s 4 else s
  let pa := getP s1 a
  setP { s1 with transferred := true } a { pa with payload := 1 }

/-- the counterpart's claim CAS took party `k` out of the word -/
def unpark (s : St) (k : Nat) : St := setP s k { getP s k with parked := false }

def partyDone (cfg : Config) (s : St) (who : Nat) : Bool :=
  !(cfg.present.getD who false) || (getP s who).pc == 12

def othersDone (cfg : Config) (s : St) (j : Nat) : Bool :=
  (List.range s.cs.length).all (fun u =>
    u = j || ((getT s u).pc == 0 && decide ((cfg.scripts.getD u []).length ≤ (getT s u).ip)))

/-- One step of party `who` (0 caller on T1, 1 acceptor on T2, 2 second acceptor on T3).  The second
    acceptor calls async_accept only after the caller's function has run (two acceptors parked at
    the same time are `std::terminate()`); if the call was cancelled instead it does not start. -/
def stepP (cfg : Config) (s : St) (who : Nat) : Option (Lbl × St) :=
  if !(cfg.present.getD who false) then none else
  let p := getP s who
  let t := who + 1
  let stp := cfg.stoppable.getD who false
  let self := who + 1          -- value of the word when this party waits
  -- does the word hold a waiting counterpart?
  let claimable := if who = 0 then decide (2 ≤ s.word) else decide (s.word = 1)
  match p.pc with
  | 0 =>
    if (who = 2 || (who = 1 && cfg.gatedAcceptor)) && !s.transferred then
      if (getP s 0).pc == 12 then some (tau t, setP s who { p with pc := 12 })   -- call cancelled: do not start
      else none
    else some (ev t s!"{nm who}.begin", setP s who { p with pc := if stp then 1 else 2 })
  | 1 =>
    if p.stopReq then some (tau t, setP s who { p with pc := 2, stopped := true })
    else some (tau t, setP s who { p with pc := 2, cbReg := true })
  | 2 =>  -- call_or_suspend / accept_or_suspend
    if claimable then
      some (tau t, setP (unpark { s with word := 0 } (s.word - 1)) who { p with pc := 3, peer := s.word - 1 })
    else if s.word = 0 then
      some (tau t, setP { s with word := self } who { p with pc := if stp then 6 else 10, parked := true })
    else none   -- a second caller / acceptor while one waits: std::terminate()
  | 3 =>
    -- the caller's function is invoked with the acceptor; then the first resume:
    -- caller active → acceptor->unlocked_complete_;  acceptor active → its own try_complete
    let a := if who = 0 then p.peer else who
    if canDestroyCb (getP s a) t then
      some (tau t, setP (resume (handOver s a) a) who { getP (resume (handOver s a) a) who with pc := 4 })
    else none
  | 4 =>  -- second resume: always the caller (its own resume_ / caller->resume_)
    if canDestroyCb (getP s 0) t then
      some (tau t, setP (resume s 0) who { getP (resume s 0) who with pc := 10 })
    else none
  | 6 => some (tau t, setP s who { p with pc := if p.sync then 10 else 7 })
  | 7 =>
    if p.stopped && !p.completed then some (tau t, setP s who { p with pc := 8, started := true })
    else some (tau t, setP s who { p with pc := 10, started := true })
  | 8 =>  -- stop(): CAS(word: self → 0)
    if s.word = self then some (tau t, setP { s with word := 0 } who { p with pc := 9, parked := false })
    else some (tau t, setP s who { p with pc := 10 })
  | 9 =>
    if canDestroyCb p t then
      some (tau t, setP (resume s who) who { getP (resume s who) who with pc := 10, cancelled := true })
    else none
  | 10 => some (ev t s!"{nm who}.started", setP s who { p with pc := 11 })
  | 11 =>
    if p.sched then
      -- the schedule operation runs; its receiver's stop token is unstoppable_token, so it always
      -- calls forward_set_value: done iff cancelled_ (caller) / the deferred completion is done (acceptor)
      let isDone := p.cancelled
      let s1 := if p.count ≥ 1 then flag s 1 else s
      let s2 := if isDone && !p.stopReq then flag s1 3 else s1
      let s3 := if !isDone && who ≠ 0 && p.payload = 0 then flag s2 2 else s2
      let p' := { getP s3 who with pc := 12, sched := false, outcome := if isDone then 2 else 1,
                                    got := if isDone then 0 else p.payload, count := p.count + 1 }
      some (ev t (if isDone then s!"{nm who}.done"
                  else if who = 0 then "call.value" else s!"{nm who}.value {p.payload}"), setP s3 who p')
    else none
  | _ => none

/-- One step of controller `j`. -/
def stepC (cfg : Config) (s : St) (j : Nat) : Option (Lbl × St) :=
  let c := getT s j
  let t := ctlTid s j
  match c.pc with
  | 0 =>
    match (cfg.scripts.getD j [])[c.ip]? with
    | none => none
    | some (.stop who) => some (ev t s!"stop{who}.begin", setT s j { c with pc := 1, who := who })
    | some .tryCall => some (ev t "trycall.begin", setT s j { c with pc := 6 })
    | some .tryAccept => some (ev t "tryaccept.begin", setT s j { c with pc := 9 })
    | some .joinCtl => if othersDone cfg s j then some (tau t, setT s j { c with ip := c.ip + 1 }) else none
    | some (.joinParty who) => if partyDone cfg s who then some (tau t, setT s j { c with ip := c.ip + 1 }) else none
    | some .unlessServed =>
      if s.transferred || s.ps.any (fun q => q.payload != 0) then some (tau t, setT s j { c with ip := (cfg.scripts.getD j []).length })
      else some (tau t, setT s j { c with ip := c.ip + 1 })
    | some (.awaitWord w) => if s.word = w then some (tau t, setT s j { c with ip := c.ip + 1 }) else none
    | some .onlyIfServed =>
      if s.transferred then some (tau t, setT s j { c with ip := c.ip + 1 })
      else some (tau t, setT s j { c with ip := (cfg.scripts.getD j []).length })
    | some .awaitServed => if s.transferred then some (tau t, setT s j { c with ip := c.ip + 1 }) else none
    | some .awaitAcceptor => if 2 ≤ s.word then some (tau t, setT s j { c with ip := c.ip + 1 }) else none
  | 1 =>  -- request_stop()
    let p := getP s c.who
    if p.cbReg then some (tau t, setT (setP s c.who { p with stopReq := true, cbRun := t + 1 }) j { c with pc := 2 })
    else some (tau t, setT (setP s c.who { p with stopReq := true }) j { c with pc := 5 })
  | 2 =>  -- stop callback: fetch_or(stopped) == started ?
    let p := getP s c.who
    let s1 := setP s c.who { p with stopped := true }
    if p.started && !p.stopped && !p.completed then some (tau t, setT s1 j { c with pc := 3 })
    else some (tau t, setT s1 j { c with pc := 5 })
  | 3 =>  -- nested stop(): CAS(word: that party → 0)
    if s.word = c.who + 1 then some (tau t, setT (unpark { s with word := 0 } c.who) j { c with pc := 4 })
    else some (tau t, setT s j { c with pc := 5 })
  | 4 =>
    let s1 := resume s c.who
    some (tau t, setT (setP s1 c.who { getP s1 c.who with cancelled := true }) j { c with pc := 5 })
  | 5 =>
    let p := getP s c.who
    some (ev t s!"stop{c.who}.end", setT (setP s c.who { p with cbRun := 0 }) j { c with pc := 0, ip := c.ip + 1 })
  | 6 =>  -- try_claim_acceptor
    if 2 ≤ s.word then some (tau t, setT (unpark { s with word := 0 } (s.word - 1)) j { c with pc := 7, r := true, who := s.word - 1 })
    else some (tau t, setT s j { c with pc := 8, r := false })
  | 7 =>  -- the immediate call hands payload 2 to the claimed acceptor; acceptor->unlocked_complete_
    if canDestroyCb (getP s c.who) t then
      let a := getP s c.who
      some (tau t, setT (resume (setP s c.who { a with payload := 2 }) c.who) j { c with pc := 8 })
    else none
  | 8 => some (ev t (if c.r then "trycall.end 1" else "trycall.end 0"), setT s j { c with pc := 0, ip := c.ip + 1 })
  | 9 =>  -- try_claim_caller
    if s.word = 1 then some (tau t, setT (unpark { s with word := 0 } 0) j { c with pc := 10, r := true })
    else some (tau t, setT s j { c with pc := 11, r := false })
  | 10 =>  -- the caller's function runs with the immediate acceptor …
    let s1 := if s.transferred then flag s 4 else s
    some (tau t, setT { s1 with transferred := true, immediate := 1 } j { c with pc := 12 })
  | 12 =>  -- … then (scope_guard) caller->resume_
    if canDestroyCb (getP s 0) t then some (tau t, setT (resume s 0) j { c with pc := 11 })
    else none
  | 11 => some (ev t (if c.r then "tryaccept.end 1" else "tryaccept.end 0"), setT s j { c with pc := 0, ip := c.ip + 1 })
  | _ => none

def sys (cfg : Config) : LSys St Lbl where
  init := init cfg
  next s := (List.range s.ps.length).filterMap (stepP cfg s) ++ (List.range s.cs.length).filterMap (stepC cfg s)

def obsOf (l : Lbl) : Option String := l.2.map (fun txt => s!"T{l.1} {txt}")

def final (cfg : Config) (s : St) : Bool :=
  (List.range s.ps.length).all (partyDone cfg s) &&
  (List.range s.cs.length).all (fun j => (getT s j).pc == 0 && decide ((cfg.scripts.getD j []).length ≤ (getT s j).ip))

/-- The property as a state predicate (the converse direction of `call_value_iff_accepted` is
    `faithful`):
    * no party completes twice, no accept value without a payload, no done without a stop request,
      the caller's payload is handed over at most once (`bad = 0`);
    * no deadlock (in particular: a cancelled call leaves the acceptor waiting and claimable, and
      vice versa — the configurations end with T0 releasing the party that is left);
    * at the end every present party completed exactly once;
    * the call completes with value ONLY IF its payload was handed over; an accept that completed
      with value got a payload that was really handed to it;
    * a call whose stop() won the un-claim CAS is never handed over (its arguments stay untouched),
      an accept whose stop() won never receives a payload;
    * the slot is consistent (`slotOk`): a party that stored itself in the word and has been neither
      claimed by a counterpart nor un-claimed by its own stop() IS the content of the word, and vice
      versa — no waiter is ever wiped out of the slot, so `try_call`/`try_accept` succeed exactly when
      a counterpart is waiting (`try_succeeds_iff_counterpart_waiting`,
      `cancel_leaves_other_waiting`). -/
def slotOk (s : St) : Bool :=
  (List.range s.ps.length).all (fun k => (getP s k).parked == decide (s.word = k + 1)) &&
  decide (s.word ≤ s.ps.length)

def safe (cfg : Config) (s : St) : Bool :=
  s.bad == 0 &&
  (!((sys cfg).next s).isEmpty || final cfg s) &&
  (!final cfg s ||
    (((!cfg.present.getD 0 false) || (getP s 0).count == 1) &&
     ((!cfg.present.getD 1 false) || (getP s 1).count == 1 || (cfg.gatedAcceptor && !s.transferred)) &&
     -- (the second acceptor does not start when the call was cancelled)
     ((!cfg.present.getD 2 false) || (getP s 2).count == 1 || !s.transferred))) &&
  ((getP s 0).outcome != 1 || s.transferred) &&
  ((getP s 1).outcome != 1 || ((getP s 1).got != 0 && ((getP s 1).got != 1 || s.transferred))) &&
  (!(getP s 0).cancelled || !s.transferred) &&
  (!(getP s 1).cancelled || (getP s 1).payload == 0) &&
  ((getP s 2).outcome != 1 || ((getP s 2).got != 0 && ((getP s 2).got != 1 || s.transferred))) &&
  slotOk s

/-- `call_value_iff_accepted`, the converse direction (the one the pre-b17d5ba forwarder violated): a
    call whose payload was handed over does not complete with done, and an accept that was handed a
    payload does not complete with done. -/
def faithful (s : St) : Bool :=
  (!(s.transferred && (getP s 0).outcome == 2)) &&
  (!((getP s 1).payload != 0 && (getP s 1).outcome == 2)) &&
  (!((getP s 2).payload != 0 && (getP s 2).outcome == 2))

/-! ### coding (fixed layout, see Proto/Code16.lean) -/
open Code16

/-- 16 digits -/
def encParty (p : Party) : Nat :=
  dcons p.pc (dcons (b2n p.stopped) (dcons (b2n p.started) (dcons (b2n p.completed) (dcons (b2n p.sync)
    (dcons (b2n p.sched) (dcons (b2n p.stopReq) (dcons (b2n p.cbReg) (dcons p.cbRun (dcons (b2n p.cancelled)
      (dcons p.payload (dcons p.outcome (dcons p.got (dcons p.count (dcons p.peer (dcons (b2n p.parked) 0)))))))))))))))
def decParty (n o : Nat) : Party :=
  ⟨dig n o, dig n (o+1) == 1, dig n (o+2) == 1, dig n (o+3) == 1, dig n (o+4) == 1, dig n (o+5) == 1,
   dig n (o+6) == 1, dig n (o+7) == 1, dig n (o+8), dig n (o+9) == 1, dig n (o+10), dig n (o+11),
   dig n (o+12), dig n (o+13), dig n (o+14), dig n (o+15) == 1⟩

/-- 4 digits -/
def encCt (c : Ct) : Nat := dcons c.ip (dcons c.pc (dcons c.who (dcons (b2n c.r) 0)))
def decCt (n o : Nat) : Ct := ⟨dig n o, dig n (o+1), dig n (o+2), dig n (o+3) == 1⟩

/-- layout: nP, nC, word, transferred, immediate, bad, parties (16 each), controllers (4 each), terminator -/
def encSt (s : St) : Nat :=
  dcons s.ps.length (dcons s.cs.length (dcons s.word (dcons (b2n s.transferred) (dcons s.immediate (dcons s.bad
    (packW 16 encParty s.ps + 16 ^ (16 * s.ps.length) * (packW 4 encCt s.cs + 16 ^ (4 * s.cs.length))))))))

def decSt (n : Nat) : St :=
  { word := dig n 2, ps := (List.range (dig n 0)).map (fun i => decParty n (6 + 16 * i)),
    cs := (List.range (dig n 1)).map (fun j => decCt n (6 + 16 * dig n 0 + 4 * j)),
    transferred := dig n 3 == 1, immediate := dig n 4, bad := dig n 5 }

def coded : Coded St := { enc := encSt, dec := decSt, M := 1021, W := 192 }

/-! ### scenario configurations (mirrored by harness/rt/scn_c16_pass.cpp, same names) -/

/-- one call meets one accept, nobody can cancel -/
def cfgRendezvous : Config := { present := [true, true], stoppable := [false, false], scripts := [[]] }
/-- the call can be cancelled (T3); T0 releases the acceptor with try_call if it was left waiting -/
def cfgCancelCall : Config :=
  { present := [true, true], stoppable := [true, false],
    scripts := [[.joinCtl, .joinParty 0, .unlessServed, .awaitWord 2, .tryCall], [.stop 0]] }
/-- the accept can be cancelled (T3); T0 releases the caller with try_accept if it was left waiting -/
def cfgCancelAccept : Config :=
  { present := [true, true], stoppable := [false, true],
    scripts := [[.joinCtl, .joinParty 1, .unlessServed, .awaitWord 1, .tryAccept], [.stop 1]] }
/-- try_call races with the start of an accept (no caller); T0 releases the acceptor if the try failed -/
def cfgTryCall : Config :=
  { present := [false, true], stoppable := [false, false],
    scripts := [[.joinCtl, .unlessServed, .awaitWord 2, .tryCall], [.tryCall]] }
/-- try_accept races with the start of a call (no acceptor) -/
def cfgTryAccept : Config :=
  { present := [true, false], stoppable := [false, false],
    scripts := [[.joinCtl, .unlessServed, .awaitWord 1, .tryAccept], [.tryAccept]] }

/-- a late stop request for a call that has ALREADY been claimed, while another waiter parks in the
    slot: T3 waits until the (cancellable) call is parked and claims it with try_accept; as soon as
    the caller's function has run, the acceptor (T2) parks in the now idle slot AND T4 requests stop
    for the call, both racing with the rest of the rendezvous (caller->resume_).  The call's stop()
    must leave the slot alone (its CAS expects itself): T0's try_call must find the acceptor. -/
def cfgLateStop : Config :=
  { present := [true, true], stoppable := [true, false], gatedAcceptor := true,
    scripts := [[.joinCtl, .joinParty 0, .awaitWord 2, .tryCall], [.awaitWord 1, .tryAccept], [.awaitServed, .stop 0]] }
/-- the same with two asynchronous acceptors (first one claims, second one parks): 2378 states, too
    large for a kernel-evaluated instance; not registered, kept as documentation of the generality -/
def cfgLateStop3 : Config :=
  { present := [true, true, true], stoppable := [true, false, false],
    scripts := [[.joinCtl, .joinParty 0, .awaitAcceptor, .tryCall], [.stop 0]] }

def configs : List (String × Config) :=
  [("pass_rendezvous", cfgRendezvous), ("pass_cancel_call", cfgCancelCall), ("pass_cancel_accept", cfgCancelAccept),
   ("pass_cancel_call_plain", cfgCancelCall),   -- same protocol, C++ scheduler ignores stop tokens
   ("pass_try_call", cfgTryCall), ("pass_try_accept", cfgTryAccept), ("pass_late_stop", cfgLateStop)]

end Unifex.Proto.AsyncPass
