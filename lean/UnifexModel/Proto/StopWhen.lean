/-
  Proto/StopWhen.lean — atomic-step model of the completion protocol of `stop_when(source, trigger)`
  (include/unifex/stop_when.hpp, `_op::type`).  Fixed parties: child 0 = source (completed by T1),
  child 1 = trigger (completed by T2), T3 = the thread that requests stop on the receiver's stop source.

  What is modelled (one step = one atomic operation of the real code plus the plain-memory work that
  follows it on the same thread):
    * `activeOpCount_` (initially 2); `notify_source_complete()` / `notify_trigger_complete()`:
      the source stores its result, then `stopSource_.request_stop()` (EVERY completion, whatever the
      outcome, requests stop on the other child), then `fetch_sub`; the thread that takes the count to 0
      runs `stopCallback_.reset()` (blocks while the callback runs on another thread — C03 semantics) and
      `deliver_result()`, which forwards the SOURCE's stored result;
    * `cancel_callback` (registered on the receiver's token): `fetch_add`, early return if the old value
      is 0, `stopSource_.request_stop()`, `fetch_sub`, and if the old value is 1 `deliver_result()`
      WITHOUT `stopCallback_.reset()`: the receiver is signalled while the callback object is still alive
      (its registration has been dequeued by the running `request_stop()` and it is executing on this very
      thread) — history variable `aliveAtDlv`, visible in the label as " cb-alive";
    * the operation's own stop source and the leaves exactly as in Proto/WhenAll.lean.
  `deliver_result()` contains no atomic operation, so the signal belongs to the step of the preceding
  atomic operation (the end of `reset()`, resp. the `fetch_sub` of the callback).
-/
import UnifexModel.Proto.WhenAll

namespace Unifex.Proto.StopWhen
open Unifex.Core
open Unifex.Proto.WhenAll (Out Res Lbl ev tau b2n o2n n2o)

inductive CPh
  | run | claimed
  | preStop    -- (source: store the result) about to call stopSource_.request_stop()
  | notifying
  | preDec     -- about to `activeOpCount_.fetch_sub(1)`
  | dlv        -- elected: `stopCallback_.reset()` then `deliver_result()`
  | fin
  deriving DecidableEq, Repr

inductive SPh
  | idle | begun | cbEnter | preOwnStop | notifying | preDec | cbRet | ret | fin
  deriving DecidableEq, Repr

structure Config where
  /-- what T(j+1) completes child j with; `none` = no such thread -/
  outs : List (Option Out)
  /-- leaf j completes with done from inside its stop callback -/
  inl : List Bool
  extStop : Bool

structure Child where
  ph : CPh
  exec : Nat
  out : Out
  cbst : Nat          -- the leaf's stop callback: 0 registered, 1 running, 2 gone
  notified : Bool
  deriving DecidableEq, Repr

structure St where
  count : Nat            -- activeOpCount_
  stored : Option Out    -- result_ (the source's completion)
  ownStop : Bool
  cur : Option Nat
  notifyDone : Bool
  cbAlive : Bool         -- stopCallback_ engaged
  cbTaken : Bool         -- its registration was dequeued by request_stop() on the receiver's source
  cbRunning : Bool
  recvStop : Bool
  stopPh : SPh
  ch : List Child
  delivered : Nat
  result : Option Res
  dlvBy : Nat
  aliveAtDlv : Bool      -- history: stopCallback_ was still engaged when the receiver was signalled
  bad : Nat
  deriving DecidableEq, Repr

def Child.init : Child := ⟨.run, 0, .value, 0, false⟩

def init (_cfg : Config) : St :=
  { count := 2, stored := none, ownStop := false, cur := none, notifyDone := false, cbAlive := true,
    cbTaken := false, cbRunning := false, recvStop := false, stopPh := .idle,
    ch := [Child.init, Child.init], delivered := 0, result := none, dlvBy := 0, aliveAtDlv := false,
    bad := 0 }

def setCh (s : St) (j : Nat) (c : Child) : St := { s with ch := s.ch.set j c }
def touch (s : St) : St := if s.delivered ≠ 0 ∧ s.bad = 0 then { s with bad := 1 } else s
def stopTid : Nat := 3

def takeSteps (s : St) (t : Nat) : List (Lbl × St) :=
  (List.range s.ch.length).filterMap (fun k =>
    match s.ch[k]? with
    | some c =>
      if c.cbst = 0 then
        some (ev t s!"leaf{k}.stop", { setCh s k { c with cbst := 1, notified := true } with cur := some k })
      else none
    | none => none)

def cbBodySteps (cfg : Config) (s : St) (t : Nat) (k : Nat) : List (Lbl × St) :=
  match s.ch[k]? with
  | none => []
  | some c =>
    if c.cbst = 1 then
      if cfg.inl.getD k false ∧ c.ph = .run then
        [(ev t s!"leaf{k}.complete done", setCh s k { c with ph := .preStop, exec := t, out := .done, cbst := 2 })]
      else [(tau t, { setCh s k { c with cbst := 2 } with cur := none })]
    else if c.ph = .fin then [(tau t, { s with cur := none })]
    else []

def allGone (s : St) : Bool := s.ch.all (fun c => c.cbst != 0)

/-- `deliver_result()`: forwards the stored completion of the source (`std::terminate()` if none) -/
def resOf (s : St) : Res :=
  match s.stored with
  | some .value => .value
  | some .error => .error 0
  | some .done => .done
  | none => .error 99

def signalLbl (s : St) (t : Nat) : Lbl :=
  ev t (s!"root.{(resOf s).text}" ++ (if s.cbAlive then " cb-alive" else ""))

def signalSt (s : St) (t : Nat) : St :=
  { touch s with delivered := s.delivered + 1, result := some (resOf s), dlvBy := t, aliveAtDlv := s.cbAlive,
                 bad := if s.stored.isNone then 2 else (touch s).bad }

def stepChild (cfg : Config) (s : St) (j : Nat) : List (Lbl × St) :=
  match s.ch[j]? with
  | none => []
  | some c =>
    let t := c.exec
    match c.ph with
    | .run =>
      match cfg.outs.getD j none with
      | none => []
      | some o =>
        [(ev (j + 1) s!"leaf{j}.complete {o.text}", setCh s j { c with ph := .claimed, exec := j + 1, out := o })]
    | .claimed =>
      if c.cbst = 1 then [] else [(tau t, setCh s j { c with ph := .preStop, cbst := 2 })]
    | .preStop =>
      let s1 := if j = 0 then { touch s with stored := some c.out } else touch s
      if s.ownStop then [(tau t, setCh s1 j { c with ph := .preDec })]
      else [(tau t, setCh { s1 with ownStop := true } j { c with ph := .notifying })]
    | .notifying =>
      match s.cur with
      | some k => cbBodySteps cfg s t k
      | none =>
        if allGone s then [(tau t, setCh { touch s with notifyDone := true } j { c with ph := .preDec })]
        else takeSteps s t
    | .preDec =>
      if s.count = 1 then [(tau t, setCh { touch s with count := 0 } j { c with ph := .dlv })]
      else [(tau t, setCh { touch s with count := s.count - 1 } j { c with ph := .fin })]
    | .dlv =>
      -- stopCallback_.reset() (waits while the callback runs on another thread), then deliver_result()
      if s.cbRunning ∧ t ≠ stopTid then []
      else
        let s1 := { touch s with cbAlive := false }
        [(signalLbl s1 t, setCh (signalSt s1 t) j { c with ph := .fin })]
    | .fin => []

def stepStop (cfg : Config) (s : St) : List (Lbl × St) :=
  let t := stopTid
  match s.stopPh with
  | .idle => if cfg.extStop then [(ev t "stop.begin", { s with stopPh := .begun })] else []
  | .begun =>
    if s.cbAlive then
      [(tau t, { s with recvStop := true, cbTaken := true, cbRunning := true, stopPh := .cbEnter })]
    else [(tau t, { s with recvStop := true, stopPh := .ret })]
  | .cbEnter =>
    if s.count = 0 then [(tau t, { touch s with count := 1, stopPh := .cbRet })]
    else [(tau t, { touch s with count := s.count + 1, stopPh := .preOwnStop })]
  | .preOwnStop =>
    if s.ownStop then [(tau t, { touch s with stopPh := .preDec })]
    else [(tau t, { touch s with ownStop := true, stopPh := .notifying })]
  | .notifying =>
    match s.cur with
    | some k => cbBodySteps cfg s t k
    | none =>
      if allGone s then [(tau t, { touch s with notifyDone := true, stopPh := .preDec })]
      else takeSteps s t
  | .preDec =>
    if s.count = 1 then
      -- last owner: deliver_result() right away, the callback object stays engaged
      let s1 := { touch s with count := 0 }
      [(signalLbl s1 t, { signalSt s1 t with stopPh := .cbRet })]
    else [(tau t, { touch s with count := s.count - 1, stopPh := .cbRet })]
  | .cbRet => [(tau t, { s with cbRunning := false, stopPh := .ret })]
  | .ret => [(ev t "stop.end", { s with stopPh := .fin })]
  | .fin => []

def sys (cfg : Config) : LSys St Lbl where
  init := init cfg
  next s := (List.range s.ch.length).flatMap (stepChild cfg s) ++ stepStop cfg s

def obsOf (l : Lbl) : Option String := l.2.map (fun txt => s!"T{l.1} {txt}")

def final (cfg : Config) (s : St) : Bool :=
  s.ch.all (fun c => c.ph = .fin) && (s.stopPh = .fin || (!cfg.extStop && s.stopPh = .idle))

/-! ### the property as a Boolean state predicate -/

def CPh.pastStop : CPh → Bool
  | .notifying | .preDec | .dlv | .fin => true
  | _ => false

def outRes : Out → Res
  | .value => .value | .error => .error 0 | .done => .done

def safe (cfg : Config) (s : St) : Bool :=
  -- nothing touches the operation state after the receiver was signalled; a result is always stored
  s.bad = 0 &&
  s.delivered ≤ 1 &&
  -- delivery only after both children have completed
  (s.delivered = 0 || s.ch.all (fun c => c.ph = .fin)) &&
  -- C04: at delivery the callback is not waiting in the receiver's source (either reset, or dequeued and
  -- executing on the delivering thread itself), and never runs on another thread
  (s.delivered = 0 || ((!s.aliveAtDlv || (s.cbTaken && s.dlvBy = stopTid)) && (!s.cbRunning || s.dlvBy = stopTid))) &&
  -- the callback object is alive at delivery exactly on the cancel_callback path
  (s.delivered = 0 || (s.aliveAtDlv == decide (s.dlvBy = stopTid))) &&
  ((sys cfg).next s |>.isEmpty |> fun dead => !dead || final cfg s) &&
  -- exactly once at the end, with the source's result
  (!final cfg s || (s.delivered = 1 && s.result = some (outRes (s.ch.getD 0 Child.init).out))) &&
  -- each completion stops the other child
  s.ch.all (fun c => !c.ph.pastStop || s.ownStop) &&
  (!s.notifyDone || s.ch.all (fun c => c.ph != .run || c.notified)) &&
  -- a stop request on the receiver's token reaches both children
  (!(s.stopPh = .fin) || s.ch.all (fun c => c.ph != .run || s.ownStop))

/-! ### coding -/

def CPh.code : CPh → Nat
  | .run => 0 | .claimed => 1 | .preStop => 2 | .notifying => 3 | .preDec => 4 | .dlv => 5 | .fin => 6
def CPh.decode : Nat → CPh
  | 0 => .run | 1 => .claimed | 2 => .preStop | 3 => .notifying | 4 => .preDec | 5 => .dlv | _ => .fin
def SPh.code : SPh → Nat
  | .idle => 0 | .begun => 1 | .cbEnter => 2 | .preOwnStop => 3 | .notifying => 4 | .preDec => 5
  | .cbRet => 6 | .ret => 7 | .fin => 8
def SPh.decode : Nat → SPh
  | 0 => .idle | 1 => .begun | 2 => .cbEnter | 3 => .preOwnStop | 4 => .notifying | 5 => .preDec
  | 6 => .cbRet | 7 => .ret | _ => .fin
def oOut : Option Out → Nat | none => 0 | some o => o.code + 1
def nOut : Nat → Option Out | 0 => none | k + 1 => some (Out.decode k)

def encCh (c : Child) : List Nat := [c.ph.code, c.exec, c.out.code, c.cbst, b2n c.notified]

def encSt (s : St) : List Nat :=
  [s.count, oOut s.stored, b2n s.ownStop, o2n s.cur, b2n s.notifyDone, b2n s.cbAlive, b2n s.cbTaken,
   b2n s.cbRunning, b2n s.recvStop, s.stopPh.code, s.delivered, Res.code s.result, s.dlvBy,
   b2n s.aliveAtDlv, s.bad] ++ s.ch.flatMap encCh

def decChs : Nat → List Nat → List Child
  | 0, _ => []
  | f + 1, a :: b :: c :: d :: e :: r => ⟨CPh.decode a, b, Out.decode c, d, e == 1⟩ :: decChs f r
  | _, _ => []

def decSt (l : List Nat) : St :=
  match l with
  | cnt :: st :: os :: cur :: nd :: ca :: ct :: crun :: rs :: sp :: dl :: res :: by' :: aad :: bad :: r =>
    { count := cnt, stored := nOut st, ownStop := os == 1, cur := n2o cur, notifyDone := nd == 1,
      cbAlive := ca == 1, cbTaken := ct == 1, cbRunning := crun == 1, recvStop := rs == 1,
      stopPh := SPh.decode sp, ch := decChs 4 r, delivered := dl, result := Res.decode res, dlvBy := by',
      aliveAtDlv := aad == 1, bad := bad }
  | _ => { init ⟨[], [], false⟩ with bad := 99 }

def coded : Coded St :=
  { enc := fun s => packNats 16 (encSt s), dec := fun n => decSt (unpackNats 16 60 n), M := 4093, W := 160 }

/-! ### scenario configurations (mirrored by harness/rt/scn_c0104.cpp) -/

/-- source and trigger complete with values on T1/T2, T3 requests stop. -/
def cfgSwStop : Config := ⟨[some .value, some .value], [false, false], true⟩
/-- the trigger fires (T2); the source only ever completes from inside its stop callback. -/
def cfgSwTrigger : Config := ⟨[none, some .value], [true, false], false⟩
/-- the source fails with an error (T1); the trigger only completes from inside its stop callback. -/
def cfgSwSrcErr : Config := ⟨[some .error, none], [false, true], false⟩
/-- both children complete only from inside their stop callbacks; T3 requests stop: the cancel_callback
    delivers the result itself. -/
def cfgSwStopInl : Config := ⟨[none, none], [true, true], true⟩
/-- the source completes with a value on T1, the trigger only from inside its stop callback, T3 stops. -/
def cfgSwMix : Config := ⟨[some .value, none], [false, true], true⟩

/-- source and trigger race, no external stop. -/
def cfgSwRace : Config := ⟨[some .value, some .value], [false, false], false⟩
/-- the trigger fires on T2, the source completes inside its stop callback, T3 requests stop. -/
def cfgSwTrgStop : Config := ⟨[none, some .value], [true, false], true⟩

def configs : List (String × Config) :=
  [("sw_stop", cfgSwStop), ("sw_trigger", cfgSwTrigger), ("sw_src_err", cfgSwSrcErr),
   ("sw_stop_inl", cfgSwStopInl), ("sw_mix", cfgSwMix), ("sw_race", cfgSwRace), ("sw_trg_stop", cfgSwTrgStop)]

end Unifex.Proto.StopWhen
