/-
  Proto/EpollOp2.lean — further configurations of Proto/EpollOp.lean (kept in their own file so that
  the kernel-evaluated instances of Props/C14_ops|cancel|race are not rebuilt when one is added).
-/
import UnifexModel.Proto.EpollOp

namespace Unifex.Proto.EpollOp

/-- WRITE side of "stop requested before start", with reuse that has to PARK: the pipe is full, the
    first write (stop already requested) parks and completes with done — `request_stop` ran inline in
    `stopCallback_.construct`, i.e. its `epoll_ctl(DEL)` came BEFORE `start_io`'s `epoll_ctl(ADD)`,
    so only `complete_with_done`'s second DEL removes the registration.  Then a second write on the
    same descriptor parks too (its ADD must succeed: one registration per descriptor), the
    environment drains the pipe, and the second write must be the one that is woken and complete
    with its 8 bytes. -/
def cfgWrCancelBeforeStart : Config :=
  ⟨true, [.cancel 0, .start 0 8, .await 0, .start 1 8, .fence, .feed 16, .await 1], [], 0, [], 0, 2⟩

/-- the same on the read side with a second read that parks (empty pipe) before data arrives -/
def cfgRdCancelBeforeStartPark : Config :=
  rd [.cancel 0, .start 0 8, .await 0, .start 1 8, .fence, .feed 4, .await 1] [] 0 [] 2

/-- TWO contexts: the read on context B (the modelled context, loop = T1) is started from the thread
    that runs context A's loop (T2, here simply "a foreign thread": `is_running_on_io_thread()` of B
    must be false there), data already in the pipe: the start goes through B's remote queue,
    `start_io` and the completion run on B's thread T1. -/
def cfgX2Read : Config := rd [.feed 5, .join2, .await 0] [.start 0 8] 1 []

def configs2 : List (String × Config) :=
  [("wr_cancel_before_start", cfgWrCancelBeforeStart), ("rd_cancel_before_start_park", cfgRdCancelBeforeStartPark),
   ("x2_read", cfgX2Read)]

end Unifex.Proto.EpollOp
