/-
  Proto/CancellableAfter.lean — the `cancellable<>` model (Proto/Cancellable.lean) restricted to
  the most common situation: the completion source (thread A) and the stop requester (thread B)
  become active only after `start()` has returned to its caller.  It is a sub-system of
  `Cancellable.sys` (same states, same steps, the steps of the other threads are disabled until the
  starter's `start()` frame has been popped), so every `Reach` of it is a `Reach` of the full system;
  the interest is that here the FULL property `safe` holds — the two defects of `stop_type::start()`
  need a completion / stop request that arrives while start() is still running.
-/
import UnifexModel.Proto.Cancellable

namespace Unifex.Proto.CancellableAfter
open Unifex.Core Unifex.Proto.Cancellable

def startReturned (s : St) : Bool := (getThr s 0).stack.isEmpty && (getThr s 0).ip ≥ 1

def sys (cfg : Config) : LSys St Lbl where
  init := init cfg
  next s := ((Cancellable.sys cfg).next s).filter (fun p => p.1.1 = 0 || startReturned s)

theorem reach_full (cfg : Config) : ∀ s, Reach (sys cfg) s → Reach (Cancellable.sys cfg) s := by
  intro s h
  induction h with
  | init => exact Reach.init
  | step _ hm ih => exact Reach.step ih (List.mem_filter.mp hm).1

/-- `safe` with the deadlock clause taken for the restricted system -/
def safe (cfg : Config) (s : St) : Bool :=
  s.bad = 0 && s.completions ≤ 1 && s.tcTrue ≤ 1 && s.hookRuns ≤ 1 && s.nestedStarts ≤ 1 &&
  !s.startAfterHook && !s.hookLate && (s.doneWins = 0 || s.hookRuns = 1) &&
  ((sys cfg).next s |>.isEmpty |> fun dead => !dead || final cfg s) &&
  (!final cfg s || (s.completions = 1 && s.freed))

/-- start() returns, then completion (T1) races with the stop request (T2); the receiver destroys the op -/
def cfgAfterStart : Config := cfgRace
/-- the same with try_complete as the only arbiter, op destroyed by the starter at the end -/
def cfgNoArbAfterStart : Config := cfgNoArb

def configs : List (String × Config) :=
  [("c_after_start", cfgAfterStart), ("c_noarb_after_start", cfgNoArbAfterStart)]

end Unifex.Proto.CancellableAfter
