/-
  Proto/ScopeV1.lean — atomic-step model of `unifex::v1::async_scope`
  (include/unifex/v1/async_scope.hpp): an `inplace_stop_source` + a `v2::async_scope` + the attach
  operation that `nest(sender, v1scope)` wraps around the sender.

  The v2 part (packed word as (`ended`, `count`), try_record_start load/CAS loop, record_completion,
  end_scope, the v1 manual reset event as (`sig`, `waiters`)) is step for step Proto/ScopeV2.lean.
  Added here:
    * `request_stop()`  = `scope_.end_scope(); stopSource_.request_stop();`
    * `cleanup()`       = `request_stop()` followed by `scope_.join()`  — i.e. end_scope runs twice;
                          only the call that finds the scope still open may set the event
    * `complete()`      = `scope_.join()`
    * the attach operation: `refcount_` (1; the stop callback moves it 1→2 around its work; the
      leaf's completion and the stop callback each `fetch_sub(1)`, whoever sees 1 completes the outer
      receiver and releases the scope reference), its stop callback registered with the scope's stop
      source, its own stop source through which the leaf sees the stop request.
  ASSUMED (proved separately as C03): every operation of an `inplace_stop_source` (register a
  callback — which runs it inline when stop was already requested —, deregister — which blocks
  while the callback runs on another thread —, request_stop's "take the next callback") is atomic.
  `reg`/`leafReg`: 0 not registered, 1 registered, 2 taken by the notifier (running), 3 ran,
  4 deregistered.

  Scripts: spawn i / fire i / join j (= complete()) / cleanup j / stop (= request_stop()).
  Observable labels are the strings harness/rt/scn_c08.cpp prints.
-/
import UnifexModel.Core.Reflect

namespace Unifex.Proto.ScopeV1
open Unifex.Core

inductive Op
  | spawn (i : Nat) | fire (i : Nat) | join (j : Nat) | cleanup (j : Nat) | stop
  deriving DecidableEq, Repr

structure Config where
  scripts : List (List Op)
  nOps : Nat
  nJoins : Nat
  /-- model `unifex::v0::async_scope` instead (see Proto/ScopeV0.lean) -/
  v0 : Bool := false

/-- phases as in ScopeV2: 0 undecided, 1 admitted, 2 leaf started, 3 leaf completing, 4 outer
    receiver completed, 5 released, 6 rejected. -/
structure OpSt where
  phase : Nat
  lateNest : Bool
  ret : Bool        -- history: nest()+start has returned to the caller
  refc : Nat        -- attach op refcount_
  reg : Nat         -- the attach op's callback on the scope's stop source
  opStop : Bool     -- the attach op's own stop source: stop requested
  leafReg : Nat     -- the leaf's callback on the attach op's stop source
  stopSeen : Bool   -- history: the leaf's stop callback ran
  deriving DecidableEq, Repr

structure Thr where
  ip : Nat
  pc : Nat
  x : Nat
  y : Nat
  todo : List Nat
  deriving DecidableEq, Repr

structure St where
  ended : Bool
  count : Nat
  sig : Bool
  waiters : List Nat
  stopReq : Bool        -- scope's stopSource_: stop requested
  cbList : List Nat     -- scope's stopSource_: registered attach callbacks, head first
  ops : List OpSt
  jbegun : List Nat
  jdone : List Nat
  thrs : List Thr
  stopRet : Bool        -- history: a request_stop() (stand-alone or inside cleanup) has returned
  late : Bool
  deriving DecidableEq, Repr

def OpSt.init : OpSt := ⟨0, false, false, 1, 0, false, 0, false⟩

def init (cfg : Config) : St :=
  { ended := false, count := 0, sig := false, waiters := [], stopReq := false, cbList := [],
    ops := List.replicate cfg.nOps OpSt.init,
    jbegun := List.replicate cfg.nJoins 0, jdone := List.replicate cfg.nJoins 0,
    thrs := cfg.scripts.map (fun _ => ⟨0, 0, 0, 0, []⟩), stopRet := false, late := false }

def getOp (s : St) (i : Nat) : OpSt := s.ops.getD i OpSt.init
def setOp (s : St) (i : Nat) (o : OpSt) : St := { s with ops := s.ops.set i o }
def getThr (s : St) (t : Nat) : Thr := s.thrs.getD t ⟨0, 0, 0, 0, []⟩
def setThr (s : St) (t : Nat) (x : Thr) : St := { s with thrs := s.thrs.set t x }
def goto (s : St) (t : Nat) (pc : Nat) : St := setThr s t { getThr s t with pc := pc }
def ret (s : St) (t : Nat) : St := setThr s t ⟨(getThr s t).ip + 1, 0, 0, 0, []⟩
def bump (l : List Nat) (j : Nat) : List Nat := l.set j (l.getD j 0 + 1)

abbrev Lbl := Nat × Option String
def ev (t : Nat) (txt : String) : Lbl := (t, some txt)
def tau (t : Nat) : Lbl := (t, none)
def b2n (b : Bool) : Nat := if b then 1 else 0

def isFire : Op → Bool
  | .fire _ => true
  | _ => false

def quiet (cfg : Config) (s : St) : Bool :=
  s.jdone.all (fun d => d ≥ 1) &&
  (List.range s.thrs.length).all (fun u => ((cfg.scripts.getD u []).drop (getThr s u).ip).all isFire)

def topOf (ws : List Nat) : Nat := (ws.head?.map (· + 1)).getD 0

def evtExchange (s : St) (t : Nat) (k : Nat) (done : St → St) : St :=
  if s.sig then done s
  else
    let s1 := { s with sig := true, waiters := [] }
    match s.waiters with
    | [] => done s1
    | ws => setThr s1 t { getThr s1 t with pc := k, todo := ws }

def evtResume (s : St) (t : Nat) (done : St → St) : Option (Lbl × St) :=
  let th := getThr s t
  match th.todo with
  | [] => some (tau t, done s)
  | j :: rest =>
    let s1 := { s with jdone := bump s.jdone j }
    let s2 := setThr s1 t { th with todo := rest }
    some (ev t s!"join{j}.done", if rest.isEmpty then done s2 else s2)

/-- `scope_.join()` from its `end_scope` on; pcs 21..25 -/
def stepJoin (s : St) (t : Nat) (j : Nat) : Option (Lbl × St) :=
  let th := getThr s t
  match th.pc with
  | 21 => some (tau t, goto { s with ended := true } t (if !s.ended && s.count = 0 then 22 else 24))
  | 22 => some (tau t, evtExchange s t 23 (fun z => goto z t 24))
  | 23 => evtResume s t (fun z => goto z t 24)
  | 24 =>
    if s.sig then some (ev t s!"join{j}.done", ret { s with jdone := bump s.jdone j } t)
    else some (tau t, setThr s t { th with pc := 25, x := topOf s.waiters })
  | _ =>
    if s.sig then some (ev t s!"join{j}.done", ret { s with jdone := bump s.jdone j } t)
    else if topOf s.waiters = th.x then some (tau t, ret { s with waiters := j :: s.waiters } t)
    else some (tau t, setThr s t { th with x := topOf s.waiters })

/-- `request_stop()`; pcs 1..12; `fin` = what happens when it returns -/
def stepStop (cfg : Config) (s : St) (t : Nat) (fin : St → Lbl × St) : Option (Lbl × St) :=
  let th := getThr s t
  let i := th.y
  let o := getOp s i
  match th.pc with
  | 1 =>  -- end_scope (sets the event only if this call ended the scope and the count is 0)
    some (tau t, goto { s with ended := true } t (if !s.ended && s.count = 0 then 2 else 4))
  | 2 => some (tau t, evtExchange s t 3 (fun z => goto z t 4))
  | 3 => evtResume s t (fun z => goto z t 4)
  | 4 =>  -- stopSource_.request_stop(): try_lock_unless_stop_requested(true)
    if s.stopReq then some (fin s) else some (tau t, goto { s with stopReq := true } t 5)
  | 5 =>  -- next registered callback
    match s.cbList with
    | [] => some (fin s)
    | k :: rest =>
      if cfg.v0 then  -- v0: the registered callbacks are the leaves' own
        let s1 := setOp { s with cbList := rest } k { getOp s k with leafReg := 2, stopSeen := true }
        some (ev t s!"op{k}.stop", setThr s1 t { th with pc := 8, y := k })
      else
        let s1 := setOp { s with cbList := rest } k { getOp s k with reg := 2 }
        some (tau t, setThr s1 t { th with pc := 6, y := k })
  | 6 =>  -- attach op request_stop(): refcount_ CAS 1 → 2
    if o.refc = 1 then some (tau t, goto (setOp s i { o with refc := 2 }) t 7)
    else some (tau t, goto (setOp s i { o with reg := 3 }) t 5)
  | 7 =>  -- op's stopSource_.request_stop(): the leaf's callback, if registered
    if o.leafReg = 1 then
      some (ev t s!"op{i}.stop", goto (setOp s i { o with opStop := true, leafReg := 2, stopSeen := true }) t 8)
    else some (tau t, goto (setOp s i { o with opStop := true }) t 9)
  | 8 => some (tau t, goto (setOp s i { o with leafReg := 3 }) t (if cfg.v0 then 5 else 9))
  | 9 =>  -- try_complete(): refcount_.fetch_sub(1)
    if o.refc = 2 then some (tau t, goto (setOp s i { o with refc := 1, reg := 3 }) t 5)
    else some (ev t s!"op{i}.finished", goto (setOp s i { o with refc := 0, reg := 4, phase := 4 }) t 10)
  | 10 =>  -- record_completion
    let s1 := setOp { s with count := s.count - 1 } i { o with phase := 5 }
    if s.ended && s.count = 1 then some (tau t, goto s1 t 11) else some (tau t, goto s1 t 5)
  | 11 => some (tau t, evtExchange s t 12 (fun z => goto z t 5))
  | _ => evtResume s t (fun z => goto z t 5)

def stepThr (cfg : Config) (s : St) (t : Nat) : Option (Lbl × St) :=
  let th := getThr s t
  match (cfg.scripts.getD t [])[th.ip]? with
  | none => none
  | some (.spawn i) =>
    let o := getOp s i
    match th.pc with
    | 0 => some (ev t s!"op{i}.nest", goto (setOp s i { o with lateNest := s.ended }) t 1)
    | 1 => some (tau t, setThr s t { th with pc := 2, x := b2n s.ended, y := s.count })
    | 2 =>
      if th.x = 1 then some (ev t s!"op{i}.rejected", ret (setOp s i { o with phase := 6 }) t)
      else if !s.ended && s.count = th.y then
        some (tau t, goto (setOp { s with count := s.count + 1 } i { o with phase := 1 }) t 3)
      else some (tau t, setThr s t { th with x := b2n s.ended, y := s.count })
    | 3 =>  -- start of the attach op: register its callback with the scope's stop source
      if cfg.v0 then some (tau t, goto s t 4)
      else if s.stopReq then some (tau t, goto (setOp s i { o with opStop := true, reg := 3 }) t 4)
      else some (tau t, goto (setOp { s with cbList := i :: s.cbList } i { o with reg := 1 }) t 4)
    | 4 => some (ev t s!"op{i}.start", goto (setOp s i { o with phase := 2 }) t 5)
    | _ =>  -- the leaf registers its callback with the attach op's stop source (v0: the scope's)
      if cfg.v0 && !s.stopReq then
        some (tau t, ret (setOp { s with cbList := i :: s.cbList } i { o with leafReg := 1, ret := true }) t)
      else if o.opStop || cfg.v0 then
        some (ev t s!"op{i}.stop", ret (setOp s i { o with leafReg := 3, stopSeen := true, ret := true }) t)
      else some (tau t, ret (setOp s i { o with leafReg := 1, ret := true }) t)
  | some (.fire i) =>
    let o := getOp s i
    match th.pc with
    | 0 =>
      if o.phase = 6 then some (tau t, ret s t)
      else if o.phase = 2 && o.ret then some (ev t s!"op{i}.complete", goto (setOp s i { o with phase := 3 }) t 1)
      else none
    | 1 =>  -- the leaf deregisters its callback (blocks while it runs on the notifying thread)
      if o.leafReg = 2 then none
      else
        let s0 := if cfg.v0 then { s with cbList := s.cbList.erase i } else s
        -- v0: no attach op, no receiver of ours: straight to record_done
        some (tau t, goto (setOp s0 i { o with leafReg := if o.leafReg = 1 then 4 else o.leafReg }) t (if cfg.v0 then 4 else 2))
    | 2 =>  -- attach receiver: try_complete(): refcount_.fetch_sub(1)
      if o.refc = 2 then some (tau t, ret (setOp s i { o with refc := 1 }) t)
      else some (tau t, goto (setOp s i { o with refc := 0 }) t 3)
    | 3 =>  -- completer: deregister the attach callback (blocks while it runs), complete the receiver
      if o.reg = 2 then none
      else
        let s1 := setOp { s with cbList := s.cbList.erase i } i { o with reg := if o.reg = 1 then 4 else o.reg, phase := 4 }
        some (ev t s!"op{i}.finished", goto s1 t 4)
    | 4 =>
      let s1 := setOp { s with count := s.count - 1 } i { o with phase := 5 }
      if s.ended && s.count = 1 then some (tau t, goto s1 t 5) else some (tau t, ret s1 t)
    | 5 =>
      let s1 := if quiet cfg s then { s with late := true } else s
      some (tau t, evtExchange s1 t 6 (fun z => ret z t))
    | _ => evtResume s t (fun z => ret z t)
  | some (.join j) =>
    match th.pc with
    | 0 => some (ev t s!"join{j}.begin", goto { s with jbegun := bump s.jbegun j } t 21)
    | _ => stepJoin s t j
  | some (.cleanup j) =>
    if th.pc = 0 then some (ev t s!"join{j}.begin", goto { s with jbegun := bump s.jbegun j } t 1)
    else if th.pc ≤ 12 then  -- v1: request_stop() then scope_.join(); v0: request_stop() then wait
      stepStop cfg s t (fun z => (tau t, goto { z with stopRet := true } t (if cfg.v0 then 24 else 21)))
    else stepJoin s t j
  | some .stop =>
    if th.pc = 0 then some (ev t "stop.begin", goto s t 1)
    else stepStop cfg s t (fun z => (ev t "stop.end", ret { z with stopRet := true } t))

def sys (cfg : Config) : LSys St Lbl where
  init := init cfg
  next s := (List.range s.thrs.length).filterMap (fun t => stepThr cfg s t)

def obsOf (l : Lbl) : Option String := l.2.map (fun txt => s!"T{l.1} {txt}")

def final (cfg : Config) (s : St) : Bool :=
  (List.range s.thrs.length).all (fun u => (getThr s u).ip ≥ (cfg.scripts.getD u []).length)

def OpSt.counted (o : OpSt) : Bool := 1 ≤ o.phase && o.phase ≤ 4

/-- C08 for v1: the clauses of `ScopeV2.safe` plus: once a request_stop() (stand-alone or the one
    inside cleanup()) has returned, every outstanding started operation has seen the stop request. -/
def safe (cfg : Config) (s : St) : Bool :=
  (s.jdone.all (fun d => d = 0) || (s.ended && s.count = 0 && s.ops.all (fun o => !o.counted))) &&
  s.jdone.all (fun d => d ≤ 1) &&
  s.ops.all (fun o => !o.lateNest || o.phase = 0 || o.phase = 6) &&
  s.count = (s.ops.filter OpSt.counted).length &&
  s.ops.all (fun o => !(s.stopRet && o.phase = 2 && o.ret) || o.stopSeen) &&
  ((sys cfg).next s |>.isEmpty |> fun dead => !dead || final cfg s) &&
  (!final cfg s ||
    ((List.range s.jdone.length).all (fun j => s.jbegun.getD j 0 = s.jdone.getD j 0) &&
     s.ops.all (fun o => o.phase = 0 || o.phase = 5 || o.phase = 6) && s.count = 0))

def noLateTouch (s : St) : Bool := !s.late

def safeQ (cfg : Config) (s : St) : Bool := safe cfg s && noLateTouch s

/-! ### coding -/

def encThr (t : Thr) : List Nat := [t.ip, t.pc, t.x, t.y, t.todo.length] ++ t.todo
def encOp (o : OpSt) : List Nat :=
  [o.phase, b2n o.lateNest, b2n o.ret, o.refc, o.reg, b2n o.opStop, o.leafReg, b2n o.stopSeen]
def encSt (s : St) : List Nat :=
  [b2n s.ended, s.count, b2n s.sig, b2n s.late, b2n s.stopReq, b2n s.stopRet, s.waiters.length] ++ s.waiters ++
  [s.cbList.length] ++ s.cbList ++ [s.ops.length] ++ s.ops.flatMap encOp ++
  [s.jbegun.length] ++ s.jbegun ++ [s.jdone.length] ++ s.jdone ++
  [s.thrs.length] ++ s.thrs.flatMap encThr

def decOps : Nat → List Nat → List OpSt × List Nat
  | 0, r => ([], r)
  | n+1, a :: b :: c :: d :: e :: f :: g :: h :: r =>
    let (os, r') := decOps n r
    (⟨a, b == 1, c == 1, d, e, f == 1, g, h == 1⟩ :: os, r')
  | _, r => ([], r)

def decThrs : Nat → List Nat → List Thr × List Nat
  | 0, r => ([], r)
  | n+1, ip :: pc :: x :: y :: len :: r =>
    let (ts, r') := decThrs n (r.drop len)
    (⟨ip, pc, x, y, r.take len⟩ :: ts, r')
  | _, r => ([], r)

def badSt : St := ⟨false, 99, false, [], false, [], [], [], [], [], false, false⟩

def decSt (l : List Nat) : St :=
  match l with
  | en :: ct :: sg :: lt :: sr :: st :: wl :: r =>
    let ws := r.take wl
    match r.drop wl with
    | cl :: r0 =>
      let cbs := r0.take cl
      match r0.drop cl with
      | no :: r1 =>
        let (ops, r2) := decOps no r1
        match r2 with
        | nb :: r3 =>
          let jb := r3.take nb
          match r3.drop nb with
          | nd :: r4 =>
            let jd := r4.take nd
            match r4.drop nd with
            | nt :: r5 => ⟨en == 1, ct, sg == 1, ws, sr == 1, cbs, ops, jb, jd, (decThrs nt r5).1, st == 1, lt == 1⟩
            | _ => badSt
          | _ => badSt
        | _ => badSt
      | _ => badSt
    | _ => badSt
  | _ => badSt

/-- pcs go up to 25, so base 32 (5 bits per digit) -/
def coded : Coded St :=
  { enc := fun s => packNats 32 (encSt s), dec := fun n => decSt (unpackNats 32 100 n), M := 4093, W := 300 }

/-! ### the scenario configurations (mirrored by harness/rt/scn_c08.cpp) -/

/-- T1 nests, starts and completes op0; T2 runs complete(). -/
def cfgComplete : Config := ⟨[[], [.spawn 0, .fire 0], [.join 0]], 1, 1, false⟩
/-- T0 nests op0 and runs cleanup(); T1 completes op0. -/
def cfgCleanup : Config := ⟨[[.spawn 0, .cleanup 0], [.fire 0]], 1, 1, false⟩
/-- T0 nests op0 and runs complete(); T1 completes op0; T2 calls request_stop(). -/
def cfgStopJoin : Config := ⟨[[.spawn 0, .join 0], [.fire 0], [.stop]], 1, 1, false⟩
/-- request_stop() racing with the admission and start of op0 (T1); T0 then runs complete(). -/
def cfgStopSpawn : Config := ⟨[[.stop, .join 0], [.spawn 0, .fire 0]], 1, 1, false⟩

def configs : List (String × Config) :=
  [("v1_complete", cfgComplete), ("v1_cleanup", cfgCleanup), ("v1_stop_join", cfgStopJoin),
   ("v1_stop_spawn", cfgStopSpawn)]

end Unifex.Proto.ScopeV1
