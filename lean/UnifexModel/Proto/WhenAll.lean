/-
  Proto/WhenAll.lean — atomic-step model of the completion protocol of `when_all`
  (include/unifex/when_all.hpp, `_op::type`) and `when_all_range` (when_all_range.hpp) for N children.

  What is modelled (one step = one atomic operation of the real code plus the plain-memory work that
  follows it on the same thread):
    * `refCount_` (initially N): `element_complete()` = `fetch_sub`; the thread that takes it to 0 is
      elected and runs `deliver_result()`; `request_stop()` (the stop callback registered on the
      receiver's token) = `fetch_add`, early return when the old value is 0, `stopSource_.request_stop()`,
      `element_complete()`;
    * `doneOrError_.exchange(true)` in the element receiver's `set_error`/`set_done`; the winner stores the
      error and calls `stopSource_.request_stop()`;
    * the operation's own `stopSource_`: the first requester sets the flag and then runs the stop callbacks
      of the children that are still registered, one after the other (any order); a later requester
      returns immediately ("already requested") although the first may still be notifying;
    * `deliver_result()`: `stopCallback_.destruct()` — deregistration from the receiver's stop source with
      the semantics proved in C03: it BLOCKS while the callback is executing on another thread, and never
      blocks on the thread that executes the callback — then the read of the receiver's `stop_requested()`
      (when_all only) and the completion signal;
    * the leaves (environment): a leaf has a stop callback on the token it was given; its completer
      deregisters that callback first (blocking while it runs elsewhere) and then calls
      set_value/set_error/set_done on the element receiver; optionally the leaf completes with done from
      INSIDE its stop callback (on the notifying thread, nested in `stopSource_.request_stop()`).
  Threads: T(j+1) completes child j (if `outs[j]` is given), T(n+1) calls `request_stop()` on the
  receiver's stop source.  The operation has been started (all children running, all callbacks registered)
  in the initial state; stop before/during `start()` is covered at the event level (Calc/Sem).

  History variables: `zeroed`, `delivered`, `result`, `dlvBy`, `recvAtDlv`, `firstFail`, `notified`,
  `bad` (1 = a step touched the operation state after the receiver had been signalled, i.e. after the
  op-state may have been destroyed).
-/
import UnifexModel.Core.Reflect

namespace Unifex.Proto.WhenAll
open Unifex.Core

inductive Out | value | error | done
  deriving DecidableEq, Repr

def Out.text : Out → String
  | .value => "value" | .error => "error" | .done => "done"

inductive Res | value | error (k : Nat) | done
  deriving DecidableEq, Repr

def Res.text : Res → String
  | .value => "value" | .error k => s!"error {k}" | .done => "done"

/-- phases of the completion of one child -/
inductive CPh
  | run        -- leaf running, nobody has claimed its completion
  | claimed    -- a completer won the claim; next: deregister the leaf's own stop callback
  | preX       -- about to call set_xxx on the element receiver (store value / exchange on doneOrError_)
  | preStop    -- won the exchange: about to call stopSource_.request_stop()
  | notifying  -- inside stopSource_.request_stop() as the first requester
  | preDec     -- about to `refCount_.fetch_sub(1)`
  | dlv1       -- elected (old value 1): about to `stopCallback_.destruct()`
  | dlv2       -- when_all: about to load the receiver's stop flag (set_done if set);
               -- when_all_range: about to load doneOrError_ and signal the receiver
  | dlv3       -- when_all: about to load doneOrError_ and signal the receiver
  | fin
  deriving DecidableEq, Repr

/-- phases of the external stop thread -/
inductive SPh
  | idle        -- has not called request_stop() on the receiver's source
  | begun       -- about to do the CAS on the receiver's source (stop flag + dequeue of the callback)
  | cbEnter     -- the callback `cancel_operation` was invoked: about to `refCount_.fetch_add(1)`
  | preOwnStop  -- old value was not 0: about to call stopSource_.request_stop()
  | notifying
  | preDec      -- `element_complete()`
  | dlv1 | dlv2 | dlv3 -- elected: deliver_result() from inside the callback
  | cbRet       -- the callback returns
  | ret         -- request_stop() on the receiver's source returns
  | fin
  deriving DecidableEq, Repr

structure Config where
  n : Nat
  /-- what T(j+1) completes child j with; `none` = no such thread -/
  outs : List (Option Out)
  /-- leaf j completes with done from inside its stop callback -/
  inl : List Bool
  extStop : Bool
  /-- when_all: `deliver_result` looks at the receiver's stop token first; when_all_range does not -/
  checksRecv : Bool

structure Child where
  ph : CPh
  exec : Nat          -- thread executing the completion (0 before it is claimed)
  out : Out
  cbst : Nat          -- the leaf's stop callback: 0 registered, 1 running, 2 gone (ran or deregistered)
  notified : Bool     -- history: "stop reached leaf j"
  deriving DecidableEq, Repr

structure St where
  refCount : Nat
  doe : Bool             -- doneOrError_
  err : Option Nat       -- error_ (the child whose error is stored)
  ownStop : Bool         -- stopSource_.stop_requested()
  cur : Option Nat       -- the leaf whose stop callback the notifier is executing right now
  notifyDone : Bool      -- history: the first requester has run all registered callbacks
  cbReg : Bool           -- stopCallback_ constructed and not yet destructed
  cbRunning : Bool       -- cancel_operation is executing (on the stop thread)
  recvStop : Bool        -- stop requested on the receiver's source
  stopPh : SPh
  ch : List Child
  zeroed : Bool          -- history: some fetch_sub returned 1
  delivered : Nat        -- history: number of completion signals sent to the receiver
  result : Option Res
  dlvBy : Nat            -- history: thread that signalled the receiver
  recvAtDlv : Bool       -- history: value of the receiver's stop flag when the result was chosen
  firstFail : Option Nat -- history: child that won the doneOrError_ exchange
  bad : Nat
  deriving DecidableEq, Repr

def Child.init : Child := ⟨.run, 0, .value, 0, false⟩

def init (cfg : Config) : St :=
  { refCount := cfg.n, doe := false, err := none, ownStop := false, cur := none, notifyDone := false,
    cbReg := true, cbRunning := false, recvStop := false, stopPh := .idle,
    ch := List.replicate cfg.n Child.init,
    zeroed := false, delivered := 0, result := none, dlvBy := 0, recvAtDlv := false, firstFail := none,
    bad := 0 }

abbrev Lbl := Nat × Option String
def ev (t : Nat) (txt : String) : Lbl := (t, some txt)
def tau (t : Nat) : Lbl := (t, none)

def setCh (s : St) (j : Nat) (c : Child) : St := { s with ch := s.ch.set j c }

/-- a step that reads or writes the operation state: an error once the receiver has been signalled -/
def touch (s : St) : St := if s.delivered ≠ 0 ∧ s.bad = 0 then { s with bad := 1 } else s

/-- thread id of the external stop thread -/
def stopTid (cfg : Config) : Nat := cfg.n + 1

/-- the notifier (thread `t`) picks a registered leaf callback and starts executing it -/
def takeSteps (s : St) (t : Nat) : List (Lbl × St) :=
  (List.range s.ch.length).filterMap (fun k =>
    match s.ch[k]? with
    | some c =>
      if c.cbst = 0 then
        some (ev t s!"leaf{k}.stop", { setCh s k { c with cbst := 1, notified := true } with cur := some k })
      else none
    | none => none)

/-- the body of leaf `k`'s stop callback, executed by the notifier (thread `t`) -/
def cbBodySteps (cfg : Config) (s : St) (t : Nat) (k : Nat) : List (Lbl × St) :=
  match s.ch[k]? with
  | none => []
  | some c =>
    if c.cbst = 1 then
      if cfg.inl.getD k false ∧ c.ph = .run then
        -- the leaf completes with done from inside the callback: claim + self-deregistration
        [(ev t s!"leaf{k}.complete done", setCh s k { c with ph := .preX, exec := t, out := .done, cbst := 2 })]
      else
        -- the callback returns
        [(tau t, { setCh s k { c with cbst := 2 } with cur := none })]
    else if c.ph = .fin then
      -- the nested completion has returned, the callback returns
      [(tau t, { s with cur := none })]
    else []

def allGone (s : St) : Bool := s.ch.all (fun c => c.cbst != 0)

/-- the result `deliver_result()` chooses once the receiver's stop flag has been found clear (or is not
    consulted at all: when_all_range) -/
def resByDoe (s : St) : Res :=
  if s.doe then (match s.err with | some k => .error k | none => .done) else .value

def signalLbl (r : Res) (t : Nat) : Lbl := ev t s!"root.{r.text}"

/-- the completion signal (reads doneOrError_/error_/values_ or the receiver's stop flag just before) -/
def signalSt (s : St) (t : Nat) (r : Res) : St :=
  { touch s with delivered := s.delivered + 1, result := some r, dlvBy := t }

/-- steps of the completion of child `j` -/
def stepChild (cfg : Config) (s : St) (j : Nat) : List (Lbl × St) :=
  match s.ch[j]? with
  | none => []
  | some c =>
    let t := c.exec
    match c.ph with
    | .run =>
      match cfg.outs.getD j none with
      | none => []
      | some o =>
        [(ev (j + 1) s!"leaf{j}.complete {o.text}", setCh s j { c with ph := .claimed, exec := j + 1, out := o })]
    | .claimed =>
      -- ~inplace_stop_callback of the leaf: waits while the callback runs on another thread
      if c.cbst = 1 then [] else [(tau t, setCh s j { c with ph := .preX, cbst := 2 })]
    | .preX =>
      if c.out = .value then [(tau t, setCh (touch s) j { c with ph := .preDec })]
      else if s.doe then [(tau t, setCh (touch s) j { c with ph := .preDec })]
      else
        [(tau t, setCh { touch s with doe := true, err := if c.out = .error then some j else none,
                                      firstFail := some j } j { c with ph := .preStop })]
    | .preStop =>
      if s.ownStop then [(tau t, setCh (touch s) j { c with ph := .preDec })]
      else [(tau t, setCh { touch s with ownStop := true } j { c with ph := .notifying })]
    | .notifying =>
      match s.cur with
      | some k => cbBodySteps cfg s t k
      | none =>
        if allGone s then [(tau t, setCh { touch s with notifyDone := true } j { c with ph := .preDec })]
        else takeSteps s t
    | .preDec =>
      if s.refCount = 1 then
        [(tau t, setCh { touch s with refCount := 0, zeroed := true } j { c with ph := .dlv1 })]
      else [(tau t, setCh { touch s with refCount := s.refCount - 1 } j { c with ph := .fin })]
    | .dlv1 =>
      if s.cbRunning ∧ t ≠ stopTid cfg then []
      else [(tau t, setCh { touch s with cbReg := false } j { c with ph := .dlv2 })]
    | .dlv2 =>
      if cfg.checksRecv then
        if s.recvStop then
          [(signalLbl .done t, setCh { signalSt s t .done with recvAtDlv := true } j { c with ph := .fin })]
        else [(tau t, setCh (touch s) j { c with ph := .dlv3 })]
      else [(signalLbl (resByDoe s) t, setCh (signalSt s t (resByDoe s)) j { c with ph := .fin })]
    | .dlv3 => [(signalLbl (resByDoe s) t, setCh (signalSt s t (resByDoe s)) j { c with ph := .fin })]
    | .fin => []

/-- steps of the external stop thread -/
def stepStop (cfg : Config) (s : St) : List (Lbl × St) :=
  let t := stopTid cfg
  match s.stopPh with
  | .idle => if cfg.extStop then [(ev t "stop.begin", { s with stopPh := .begun })] else []
  | .begun =>
    if s.cbReg then [(tau t, { s with recvStop := true, cbRunning := true, stopPh := .cbEnter })]
    else [(tau t, { s with recvStop := true, stopPh := .ret })]
  | .cbEnter =>
    if s.refCount = 0 then [(tau t, { touch s with refCount := 1, stopPh := .cbRet })]
    else [(tau t, { touch s with refCount := s.refCount + 1, stopPh := .preOwnStop })]
  | .preOwnStop =>
    if s.ownStop then [(tau t, { touch s with stopPh := .preDec })]
    else [(tau t, { touch s with ownStop := true, stopPh := .notifying })]
  | .notifying =>
    match s.cur with
    | some k => cbBodySteps cfg s t k
    | none =>
      if allGone s then [(tau t, { touch s with notifyDone := true, stopPh := .preDec })]
      else takeSteps s t
  | .preDec =>
    if s.refCount = 1 then [(tau t, { touch s with refCount := 0, zeroed := true, stopPh := .dlv1 })]
    else [(tau t, { touch s with refCount := s.refCount - 1, stopPh := .cbRet })]
  | .dlv1 => [(tau t, { touch s with cbReg := false, stopPh := .dlv2 })]
  | .dlv2 =>
    if cfg.checksRecv then
      if s.recvStop then
        [(signalLbl .done t, { signalSt s t .done with recvAtDlv := true, stopPh := .cbRet })]
      else [(tau t, { touch s with stopPh := .dlv3 })]
    else [(signalLbl (resByDoe s) t, { signalSt s t (resByDoe s) with stopPh := .cbRet })]
  | .dlv3 => [(signalLbl (resByDoe s) t, { signalSt s t (resByDoe s) with stopPh := .cbRet })]
  | .cbRet => [(tau t, { s with cbRunning := false, stopPh := .ret })]
  | .ret => [(ev t "stop.end", { s with stopPh := .fin })]
  | .fin => []

def sys (cfg : Config) : LSys St Lbl where
  init := init cfg
  next s := (List.range s.ch.length).flatMap (stepChild cfg s) ++ stepStop cfg s

def obsOf (l : Lbl) : Option String := l.2.map (fun txt => s!"T{l.1} {txt}")

/-- every completion has returned and the stop thread (if any) has returned -/
def final (cfg : Config) (s : St) : Bool :=
  s.ch.all (fun c => c.ph = .fin) && (s.stopPh = .fin || (!cfg.extStop && s.stopPh = .idle))

/-! ### the property as a Boolean state predicate (used by the reflection instances) -/

def CPh.decremented : CPh → Bool
  | .dlv1 | .dlv2 | .dlv3 | .fin => true
  | _ => false

/-- the child is past its exchange and its `stopSource_.request_stop()` call -/
def CPh.pastStop : CPh → Bool
  | .preDec | .dlv1 | .dlv2 | .dlv3 | .fin => true
  | _ => false

/-- result precedence, stated independently of `chooseRes`: receiver stop > first error/done > values -/
def resultOk (cfg : Config) (s : St) : Bool :=
  match s.result with
  | none => s.delivered = 0
  | some .value => s.ch.all (fun c => c.out = .value) && !(cfg.checksRecv && s.recvAtDlv)
  | some (.error k) =>
    s.firstFail = some k && (s.ch.getD k Child.init).out = .error && !(cfg.checksRecv && s.recvAtDlv)
  | some .done =>
    (cfg.checksRecv && s.recvAtDlv) ||
    (match s.firstFail with | some k => (s.ch.getD k Child.init).out = .done | none => false)

def safe (cfg : Config) (s : St) : Bool :=
  s.bad = 0 &&
  s.delivered ≤ 1 &&
  (s.delivered = 0 || s.ch.all (fun c => c.ph = .fin)) &&
  (s.delivered = 0 || (!s.cbReg && (!s.cbRunning || s.dlvBy = stopTid cfg))) &&
  ((sys cfg).next s |>.isEmpty |> fun dead => !dead || final cfg s) &&
  (!final cfg s || s.delivered = 1) &&
  resultOk cfg s &&
  (match s.firstFail with
   | some k => !(s.ch.getD k Child.init).ph.pastStop || s.ownStop
   | none => !s.doe && s.ch.all (fun c => !(c.out != .value && c.ph.pastStop))) &&
  (!s.notifyDone || s.ch.all (fun c => c.ph != .run || c.notified)) &&
  (!(s.stopPh = .fin) || s.ch.all (fun c => c.ph != .run || s.ownStop))

/-! ### coding (untrusted; re-checked by `checkClosed`) -/

def b2n (b : Bool) : Nat := if b then 1 else 0
def o2n : Option Nat → Nat | none => 0 | some k => k + 1
def n2o : Nat → Option Nat | 0 => none | k + 1 => some k

def CPh.code : CPh → Nat
  | .run => 0 | .claimed => 1 | .preX => 2 | .preStop => 3 | .notifying => 4 | .preDec => 5
  | .dlv1 => 6 | .dlv2 => 7 | .fin => 8 | .dlv3 => 9
def CPh.decode : Nat → CPh
  | 0 => .run | 1 => .claimed | 2 => .preX | 3 => .preStop | 4 => .notifying | 5 => .preDec
  | 6 => .dlv1 | 7 => .dlv2 | 9 => .dlv3 | _ => .fin
def SPh.code : SPh → Nat
  | .idle => 0 | .begun => 1 | .cbEnter => 2 | .preOwnStop => 3 | .notifying => 4 | .preDec => 5
  | .dlv1 => 6 | .dlv2 => 7 | .cbRet => 8 | .ret => 9 | .fin => 10 | .dlv3 => 11
def SPh.decode : Nat → SPh
  | 0 => .idle | 1 => .begun | 2 => .cbEnter | 3 => .preOwnStop | 4 => .notifying | 5 => .preDec
  | 6 => .dlv1 | 7 => .dlv2 | 8 => .cbRet | 9 => .ret | 11 => .dlv3 | _ => .fin
def Out.code : Out → Nat | .value => 0 | .error => 1 | .done => 2
def Out.decode : Nat → Out | 0 => .value | 1 => .error | _ => .done
def Res.code : Option Res → Nat
  | none => 0 | some .value => 1 | some .done => 2 | some (.error k) => k + 3
def Res.decode : Nat → Option Res
  | 0 => none | 1 => some .value | 2 => some .done | k + 3 => some (.error k)

def encCh (c : Child) : List Nat := [c.ph.code, c.exec, c.out.code, c.cbst, b2n c.notified]

def encSt (s : St) : List Nat :=
  [s.refCount, b2n s.doe, o2n s.err, b2n s.ownStop, o2n s.cur, b2n s.notifyDone, b2n s.cbReg,
   b2n s.cbRunning, b2n s.recvStop, s.stopPh.code, b2n s.zeroed, s.delivered, Res.code s.result,
   s.dlvBy, b2n s.recvAtDlv, o2n s.firstFail, s.bad] ++ s.ch.flatMap encCh

def decChs : Nat → List Nat → List Child
  | 0, _ => []
  | f + 1, a :: b :: c :: d :: e :: r => ⟨CPh.decode a, b, Out.decode c, d, e == 1⟩ :: decChs f r
  | _, _ => []

def decSt (l : List Nat) : St :=
  match l with
  | rc :: doe :: err :: os :: cur :: nd :: cr :: crun :: rs :: sp :: z :: dl :: res :: by' :: rad :: ff :: bad :: r =>
    { refCount := rc, doe := doe == 1, err := n2o err, ownStop := os == 1, cur := n2o cur,
      notifyDone := nd == 1, cbReg := cr == 1, cbRunning := crun == 1, recvStop := rs == 1,
      stopPh := SPh.decode sp, ch := decChs 8 r, zeroed := z == 1, delivered := dl,
      result := Res.decode res, dlvBy := by', recvAtDlv := rad == 1, firstFail := n2o ff, bad := bad }
  | _ => { init ⟨0, [], [], false, false⟩ with bad := 99 }

def coded : Coded St :=
  { enc := fun s => packNats 16 (encSt s), dec := fun n => decSt (unpackNats 16 80 n), M := 4093, W := 240 }

/-! ### scenario configurations (mirrored one-to-one by harness/rt/scn_c0104.cpp) -/

/-- when_all, 2 children complete with values on T1/T2, T3 requests stop. -/
def cfgWa2Stop : Config := ⟨2, [some .value, some .value], [false, false], true, true⟩
/-- when_all, child 0 fails with an error, child 1 completes with a value; T3 requests stop. -/
def cfgWa2ErrStop : Config := ⟨2, [some .error, some .value], [false, false], true, true⟩
/-- when_all, child 0 reports done, child 1 only ever completes from inside its stop callback. -/
def cfgWa2DoneInl : Config := ⟨2, [some .done, none], [false, true], false, true⟩
/-- when_all, child 0 fails with an error, child 1 only ever completes from inside its stop callback. -/
def cfgWa2ErrInl : Config := ⟨2, [some .error, none], [false, true], false, true⟩
/-- when_all, both leaves complete only from inside their stop callbacks; T3 requests stop
    (deliver_result runs inside the stop callback). -/
def cfgWa2StopInl : Config := ⟨2, [none, none], [true, true], true, true⟩
/-- when_all, 3 children: error, done, value; no external stop (two failures race for doneOrError_). -/
def cfgWa3Fail : Config := ⟨3, [some .error, some .done, some .value], [false, false, false], false, true⟩
/-- when_all, 3 children: value, error, inline-done leaf; external stop. -/
def cfgWa3Mix : Config := ⟨3, [some .value, some .error, none], [false, false, true], true, true⟩
/-- when_all_range, 2 children values + stop (no receiver-stop precedence). -/
def cfgWar2Stop : Config := ⟨2, [some .value, some .value], [false, false], true, false⟩
/-- when_all_range, 3 children: value, error, inline-done leaf; external stop. -/
def cfgWar3Mix : Config := ⟨3, [some .value, some .error, none], [false, false, true], true, false⟩

/-- smaller instances (reflection theorems in Props/C01_Atomic, Props/C04_Atomic; also scenarios) -/
def cfgWa1Stop : Config := ⟨1, [some .value], [false], true, true⟩
def cfgWa2Race : Config := ⟨2, [some .value, some .value], [false, false], false, true⟩
def cfgWa2ValInlStop : Config := ⟨2, [some .value, none], [false, true], true, true⟩
def cfgWa2ErrInlStop : Config := ⟨2, [some .error, none], [false, true], true, true⟩
/-- 3 children: error and done race for doneOrError_, the third only completes when it is stopped. -/
def cfgWa3FailInl : Config := ⟨3, [some .error, some .done, none], [false, false, true], false, true⟩
/-- 3 children + stop thread: one value, two leaves that complete inside their stop callbacks. -/
def cfgWa3StopInl : Config := ⟨3, [some .value, none, none], [false, true, true], true, true⟩

def configs : List (String × Config) :=
  [("wa2_stop", cfgWa2Stop), ("wa2_err_stop", cfgWa2ErrStop), ("wa2_done_inl", cfgWa2DoneInl),
   ("wa2_err_inl", cfgWa2ErrInl),
   ("wa2_stop_inl", cfgWa2StopInl), ("wa3_fail", cfgWa3Fail), ("wa3_mix", cfgWa3Mix),
   ("war2_stop", cfgWar2Stop), ("war3_mix", cfgWar3Mix),
   ("wa1_stop", cfgWa1Stop), ("wa2_race", cfgWa2Race), ("wa2_valinl_stop", cfgWa2ValInlStop),
   ("wa2_errinl_stop", cfgWa2ErrInlStop), ("wa3_fail_inl", cfgWa3FailInl), ("wa3_stop_inl", cfgWa3StopInl)]

end Unifex.Proto.WhenAll
