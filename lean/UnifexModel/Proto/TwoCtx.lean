/-
  Proto/TwoCtx.lean — TWO io_epoll_context instances, A and B, each with its own thread inside
  run(); work for B is submitted from the thread that runs A's loop (the body of an item of A
  starts a `schedule()` sender of B).  `is_running_on_io_thread()` of B is `this ==
  currentThreadContext`, so on A's thread it is false: the submission goes through B's REMOTE
  queue (enqueue CAS, eventfd write when B was inactive) and the item runs on B's thread.

  The model is the product of two instances of Proto/RemoteQueue.lean (same step functions, nothing
  re-modelled), coupled only by who executes B's producer steps and by the client's ordering:
    T0  client: producer 0 of A (schedules item a), then — once item b has run — stopper of A,
        then stopper of B
    T1  the thread inside B.run()       (B's loop)
    T2  the thread inside A.run()       (A's loop); while it is inside item a it IS producer 0 of B
  Labels: component A's events are prefixed "A.", B's "B.".
-/
import UnifexModel.Proto.RemoteQueue

namespace Unifex.Proto.TwoCtx
open Unifex.Core
open Unifex.Proto.RemoteQueue (Lbl)

abbrev RQ.St := Unifex.Proto.RemoteQueue.St
def cfgA : RemoteQueue.Config := ⟨[1], false⟩
def cfgB : RemoteQueue.Config := ⟨[1], false⟩

structure St where
  a : RemoteQueue.St
  b : RemoteQueue.St
  inItem : Bool        -- A's loop is inside the body of item a
  deriving DecidableEq

def init : St := ⟨RemoteQueue.init cfgA, RemoteQueue.init cfgB, false⟩

/-- A: loop thread 1 ↦ T2, producer (thread 2) and stopper (thread 0) ↦ T0 -/
def relA (l : Lbl) : Lbl := ((if l.1 = 1 then 2 else 0), l.2.map (fun t => "A." ++ t))
/-- B: loop ↦ T1, producer 0 (thread 2) ↦ T2 = A's loop thread, stopper ↦ T0 -/
def relB (l : Lbl) : Lbl := (l.1, l.2.map (fun t => "B." ++ t))

def inA (s : St) (p : Lbl × RemoteQueue.St) : Lbl × St := (relA p.1, { s with a := p.2 })
def inB (s : St) (p : Lbl × RemoteQueue.St) : Lbl × St := (relB p.1, { s with b := p.2 })

/-- T0 -/
def stepClient (s : St) : List (Lbl × St) :=
  if !RemoteQueue.prodDone cfgA s.a 0 then (RemoteQueue.stepProd cfgA s.a 0).toList.map (inA s)
  else
    (if s.b.ran.contains (0, 0) then (RemoteQueue.stepStopper cfgA s.a).toList.map (inA s) else []) ++
    (if s.a.spc = 5 then (RemoteQueue.stepStopper cfgB s.b).toList.map (inB s) else [])

/-- T2: A's loop; inside item a it performs B's producer steps (begin, enqueue CAS, eventfd write
    if B was inactive, end) -/
def stepLoopA (s : St) : List (Lbl × St) :=
  if s.inItem then
    (RemoteQueue.stepProd cfgB s.b 0).toList.map (fun p =>
      (relB p.1, { s with b := p.2, inItem := !RemoteQueue.prodDone cfgB p.2 0 }))
  else
    (RemoteQueue.stepLoop cfgA s.a).toList.map (fun p =>
      (relA p.1, { s with a := p.2,
                          inItem := decide (p.2.ran.length > s.a.ran.length) && p.2.ran.getLast? == some (0, 0) }))

/-- T1: B's loop -/
def stepLoopB (s : St) : List (Lbl × St) := (RemoteQueue.stepLoop cfgB s.b).toList.map (inB s)

def sys : LSys St Lbl where
  init := init
  next s := stepClient s ++ stepLoopB s ++ stepLoopA s

def obsOf (l : Lbl) : Option String := l.2.map (fun txt => s!"T{l.1} {txt}")

def final (s : St) : Bool := RemoteQueue.final cfgA s.a && RemoteQueue.final cfgB s.b && !s.inItem

/-- product-level property: nothing waits forever, and at the end both items ran (a on A's loop,
    b on B's loop — items are executed only by `stepLoop` of their own context) exactly once -/
def safe (s : St) : Bool :=
  ((sys.next s).isEmpty |> fun dead => !dead || final s) &&
  (!final s || (s.a.ran == [(0, 0), (1, 0)] && s.b.ran == [(0, 0), (1, 0)]))

/-! coding (untrusted) -/
def encSt (s : St) : List Nat :=
  let ea := RemoteQueue.encSt s.a
  RemoteQueue.b2n s.inItem :: ea.length :: (ea ++ RemoteQueue.encSt s.b)
def decSt (l : List Nat) : St :=
  match l with
  | i :: n :: r => ⟨RemoteQueue.decSt (r.take n), RemoteQueue.decSt (r.drop n), i == 1⟩
  | _ => ⟨RemoteQueue.decSt [], RemoteQueue.decSt [], false⟩
def coded : Coded St :=
  { enc := fun s => packNats 16 (encSt s), dec := fun n => decSt (unpackNats 16 200 n), M := 4093, W := 400 }

def configs : List (String × Unit) := [("x2_schedule", ())]

end Unifex.Proto.TwoCtx
