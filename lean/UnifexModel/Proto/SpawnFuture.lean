/-
  Proto/SpawnFuture.lean — atomic-step model of the state shared by a `spawn_future` operation and
  its `future<>` (include/unifex/spawn_future.hpp): the `_future_state` machine in
  `_spawn_future_op_base::state_`, the wake-up event `evt_`, the stop source of the spawned
  operation, the stop callback that `abandon()`s, and the heap block that holds all of it.

  One step = one atomic operation on `state_` / `evt_.state_` / a stop source, or the plain-memory
  work a thread does between two such operations, or one externally visible call/return.  A thread
  that would spin (`while (!evt_.ready())`, the deregistration of a stop callback that is running
  on another thread) is *disabled*.

  Parties (the protocol has exactly these):
    T0  the future's owner: connect+start (await) | drop | connect, then destroy without start
    T1  the spawned operation completing with value | error | done (polls its stop token first)
    T2  (optional) a thread requesting stop on the awaiting receiver's stop source
  The future's continuation (the `let_value` successor that deregisters the abandon stop callback,
  reads `state_`, negotiates deletion, frees the block and completes the receiver) runs inline on
  whichever thread signals `evt_` (T1 in `complete()`, T2 in `abandon()`), or on T0 in `start()`
  when the event is already set — so every thread has a small call stack of frames.

  The awaiting receiver's `inplace_stop_source` is modelled at the granularity proved in C03:
  registration (or inline execution when stop was already requested), taking the callback for
  execution, and deregistration are atomic; deregistration from another thread blocks while the
  callback runs; deregistration from inside the callback on the notifying thread returns at once.

  History variables: `freed` (heap block deletions), `resC`/`resD` (stored result constructed /
  destroyed), `out`/`outN` (what the future's receiver got, how often), `opStop` (stop requested on
  the spawned operation), `abandonWon`, `dropSawInit`, `uaf` (the block was touched
  after it was freed), `term` (`std::terminate()` reached), `bad` (double delete).

  The model follows the code as it is.  Two details matter for the property and are modelled
  explicitly: the abandon callback is registered when the future is CONNECTED (not when it is
  started) and is destroyed by the continuation before `state_` is read (so `abandon()` can never
  run after the block was freed); `drop()` of a connected, never started future may read
  `abandoned` / `complete` and then negotiates deletion like the continuation does.

  Further configurations: `late` (T2 requests stop only after T1 has finished — the available
  result must be delivered), `detached` (`spawn_detached`: no future; the completing thread deletes
  the state, an error completion is `std::terminate()`).  The scope's reference counting (C08) is
  not modelled.  The `v1_*` configuration names are aliases used by the v1::async_scope scenarios
  whose observable behaviour coincides with v2 (await, drop, detached); cancellation through a v1
  scope (its attach layer completes early with done) is not modelled.

  Observable labels are the strings the C++ scenarios print (harness/rt/scn_c09.cpp).
-/
import UnifexModel.Core.Reflect

namespace Unifex.Proto.SpawnFuture
open Unifex.Core

/-- `_future_state` enumerators, in declaration order. -/
abbrev sInit : Nat := 0
abbrev sAbandoned : Nat := 1
abbrev sValue : Nat := 2
abbrev sError : Nat := 3
abbrev sDone : Nat := 4
abbrev sComplete : Nat := 5

structure Config where
  kind : Nat        -- how the spawned operation completes: 0 value, 1 error, 2 done
  owner : Nat       -- 0 await (connect, start); 1 drop; 2 connect, then destroy without start
  stopper : Bool    -- is there a thread T2 requesting stop on the awaiting receiver's source
  late : Bool := false   -- T2 first waits until T1 has finished (stop after the result is available)
  detached : Bool := false   -- spawn_detached instead of spawn_future: there is no future at all

/-- Call frames.  Frame kinds: 0 connect, 1 start, 2 the future's continuation, 3 abandon() (the
    stop callback), 4 request_stop on the receiver's source, 5 drop(), 6 destroy a connected future,
    7 the spawned operation's completion.  `arg` holds the frame's locals: `lst + 8 * own`.
    A frame is the number `1 + kind + 8 * pc + 64 * arg` (< 1024) and a thread's call stack is the
    base-1024 numeral of its frames, top frame in the lowest digit, 0 = empty.  (Everything in the
    state is a `Nat`/`Bool` so that Lean's kernel evaluates steps with its built-in arithmetic.) -/
def fcode (kind arg pc : Nat) : Nat := 1 + kind + 8 * pc + 64 * arg

structure St where
  st : Nat            -- state_
  evt : Nat           -- evt_: 0 not set, no waiter; 1 not set, the future's waiter is pushed; 2 set
  opStop : Bool       -- stopSource_ (of the spawned operation): stop requested
  fStop : Bool        -- the awaiting receiver's stop source: stop requested
  cbReg : Bool        -- the abandon callback is registered (in the source's list)
  cbRun : Nat         -- 0 = not running, t+1 = running on thread t
  cbInline : Bool     -- it was executed inline at registration (source_ == nullptr)
  freed : Nat         -- history: deletions of the heap block
  resC : Nat          -- history: constructions of values_/error_
  resD : Nat          -- history: destructions of values_/error_
  out : Nat           -- history: 0 nothing, 1 value, 2 error, 3 done delivered to the future's receiver
  outN : Nat          -- history: number of completions of the future's receiver
  abandonWon : Bool   -- history: abandon() moved init -> abandoned
  dropSawInit : Bool  -- history: drop() read init (and therefore requested stop)
  uaf : Bool          -- history: the heap block was accessed after it was freed
  term : Bool         -- history: std::terminate() was reached
  bad : Nat           -- history: 0 ok, 2 block deleted twice
  ip0 : Nat           -- T0: index of the next call of its script (7 = killed by std::terminate)
  stk0 : Nat          -- T0: call stack
  ip1 : Nat
  stk1 : Nat
  ip2 : Nat
  stk2 : Nat
  deriving Repr

/-- Boolean equality test, field by field (`Nat.beq` / Bool `==`, which Lean's kernel evaluates
    directly); `DecidableEq St` is derived from it because the instance produced by
    `deriving DecidableEq` is an order of magnitude slower under kernel evaluation. -/
def St.beq (a b : St) : Bool :=
  a.st == b.st && a.evt == b.evt && a.opStop == b.opStop && a.fStop == b.fStop && a.cbReg == b.cbReg &&
  a.cbRun == b.cbRun && a.cbInline == b.cbInline && a.freed == b.freed && a.resC == b.resC &&
  a.resD == b.resD && a.out == b.out && a.outN == b.outN && a.abandonWon == b.abandonWon &&
  a.dropSawInit == b.dropSawInit && a.uaf == b.uaf && a.term == b.term && a.bad == b.bad &&
  a.ip0 == b.ip0 && a.stk0 == b.stk0 && a.ip1 == b.ip1 && a.stk1 == b.stk1 && a.ip2 == b.ip2 &&
  a.stk2 == b.stk2

theorem St.beq_iff (a b : St) : a.beq b = true ↔ a = b := by
  cases a; cases b
  simp only [St.beq, Bool.and_eq_true, beq_iff_eq, St.mk.injEq]
  constructor
  · intro h; simp_all
  · intro h; simp_all

instance : DecidableEq St := fun a b =>
  if h : a.beq b = true then isTrue ((St.beq_iff a b).mp h)
  else isFalse (fun e => h ((St.beq_iff a b).mpr e))

/-- the `i`-th call (a frame kind) of thread `t`'s script -/
def callAt (cfg : Config) (t i : Nat) : Option Nat :=
  if cfg.detached then (if t = 1 && i = 0 then some 0 else none)
  else if t = 0 then
    (if cfg.owner = 0 then (if i = 0 then some 0 else if i = 1 then some 1 else none)
     else if cfg.owner = 1 then (if i = 0 then some 5 else none)
     else (if i = 0 then some 0 else if i = 1 then some 6 else none))
  else if t = 1 then (if i = 0 then some 7 else none)
  else (if i = 0 then some 4 else none)

def scriptLen (cfg : Config) (t : Nat) : Nat :=
  if cfg.detached then (if t = 1 then 1 else 0)
  else if t = 0 then (if cfg.owner = 1 then 1 else 2) else 1

def init (cfg : Config) : St :=
  { st := 0, evt := 0, opStop := false, fStop := false, cbReg := false, cbRun := 0, cbInline := false,
    freed := 0, resC := 0, resD := 0, out := 0, outN := 0, abandonWon := false, dropSawInit := false,
    uaf := false, term := false, bad := 0,
    ip0 := 0, stk0 := 0, ip1 := 0, stk1 := 0,
    ip2 := if cfg.stopper && !cfg.detached then 0 else 1,    -- without a stopper T2's script is already finished
    stk2 := 0 }

def getIp (s : St) (t : Nat) : Nat := if t = 0 then s.ip0 else if t = 1 then s.ip1 else s.ip2
def getStk (s : St) (t : Nat) : Nat := if t = 0 then s.stk0 else if t = 1 then s.stk1 else s.stk2
def setIp (s : St) (t v : Nat) : St :=
  if t = 0 then { s with ip0 := v } else if t = 1 then { s with ip1 := v } else { s with ip2 := v }
def setStk (s : St) (t v : Nat) : St :=
  if t = 0 then { s with stk0 := v } else if t = 1 then { s with stk1 := v } else { s with stk2 := v }

/-- replace pc (and arg) of the top frame -/
def gotoA (s : St) (t : Nat) (arg pc : Nat) : St :=
  let k := getStk s t
  let top := k % 1024 - 1
  setStk s t (k / 1024 * 1024 + fcode (top % 8) arg pc)
def goto (s : St) (t : Nat) (pc : Nat) : St :=
  let k := getStk s t
  let top := k % 1024 - 1
  setStk s t (k / 1024 * 1024 + fcode (top % 8) (top / 64) pc)
def push (s : St) (t : Nat) (kind : Nat) : St := setStk s t (getStk s t * 1024 + fcode kind 0 0)
def pop (s : St) (t : Nat) : St := setStk s t (getStk s t / 1024)
/-- the thread dies (std::terminate): no further steps; counts as finished -/
def kill (s : St) (t : Nat) : St := setIp (setStk s t 0) t 7
def threadDone (cfg : Config) (s : St) (t : Nat) : Bool := getStk s t = 0 && getIp s t ≥ scriptLen cfg t

/-- every access to the heap block goes through `touch` -/
def touch (s : St) : St := if s.freed > 0 then { s with uaf := true } else s

/-- `deleter_(op, lst)`: destroy values_/error_ if `lst` says one is alive, then free the block -/
def deleteBlock (s : St) (lst : Nat) : St :=
  let s1 := touch s
  let s2 := if lst = sValue || lst = sError then { s1 with resD := s1.resD + 1 } else s1
  { s2 with freed := s2.freed + 1, bad := if s2.freed > 0 && s2.bad = 0 then 2 else s2.bad }

/-- `evt_.set()`: exchange to "set"; a pushed waiter (the future's continuation) is resumed inline.
    The caller's frame is first moved to `pcAfter`. -/
def evtSet (s : St) (t : Nat) (pcAfter : Nat) : St :=
  let s1 := touch s
  let old := s1.evt
  let s2 := goto { s1 with evt := 2 } t pcAfter
  if old = 1 then push s2 t 2 else s2

/-- destructor of the abandon stop callback; `none` = has to wait (callback running elsewhere) -/
def deregister (s : St) (t : Nat) : Option St :=
  if s.cbInline then some s
  else if s.cbReg then some { s with cbReg := false }
  else if s.cbRun = t + 1 then some s
  else if s.cbRun ≠ 0 then none
  else some s

abbrev Lbl := Nat × Option String
def ev (t : Nat) (txt : String) : Lbl := (t, some txt)
def tau (t : Nat) : Lbl := (t, none)

def kindName (k : Nat) : String := if k = 0 then "value" else if k = 1 then "error" else "done"

/-- One step of the top frame (`kind`, `arg`, `pc`) of thread `t`. -/
def stepFrame (cfg : Config) (s : St) (t : Nat) (kind arg pc : Nat) : Option (Lbl × St) :=
    let lst := arg % 8
    let own := arg / 8
    match kind, pc with
    -- ---------------- connect(future, receiver): registers the abandon stop callback
    | 0, 0 =>
      some (ev t "fut.connect.begin", goto s t 1)
    | 0, 1 =>
      if s.fStop then some (tau t, push (goto { s with cbInline := true } t 2) t 3)
      else some (tau t, goto { s with cbReg := true } t 2)
    | 0, 2 => some (ev t "fut.connect.end", pop s t)
    -- ---------------- start(op): evt_.async_wait() -> start_or_wait
    | 1, 0 =>   -- load evt_.state_
      let s1 := touch s
      if s1.evt = 2 then some (tau t, push (goto s1 t 3) t 2) else some (tau t, goto s1 t 1)
    | 1, 1 =>   -- CAS push; on failure the event has been set meanwhile
      let s1 := touch s
      if s1.evt = 0 then some (tau t, goto { s1 with evt := 1 } t 3)
      else some (tau t, push (goto s1 t 3) t 2)
    | 1, 3 => some (ev t "fut.started", pop s t)
    -- ---------------- the future's continuation (let_value successor) on thread t
    | 2, 0 =>   -- stopCallback.reset(): the abandon callback is deregistered BEFORE state_ is read
      match deregister s t with
      | none => none
      | some s1 => some (tau t, goto s1 t 1)
    | 2, 1 =>   -- state = state_.load()
      let s1 := touch s
      if s1.st = sAbandoned then some (tau t, gotoA s1 t sAbandoned 2)
      else some (tau t, gotoA s1 t (s1.st + 8) 3)
    | 2, 2 =>   -- CAS abandoned -> complete; whoever FAILS deletes
      let s1 := touch s
      if s1.st = sAbandoned then some (tau t, gotoA { s1 with st := sComplete } t sAbandoned 4)
      else some (tau t, gotoA s1 t (s1.st + 8) 3)
    | 2, 3 =>   -- build the result sender (moves values_/error_ out), scope_guard runs deleter_
      if own = 1 then some (ev t "block.free", goto (deleteBlock s lst) t 4) else none
    | 2, 4 =>
      let o := if lst = sValue then 1 else if lst = sError then 2 else 3
      let txt := if lst = sValue then "fut.value 42" else if lst = sError then "fut.error 7" else "fut.done"
      some (ev t txt, pop { s with out := o, outN := s.outN + 1 } t)
    -- ---------------- abandon(): body of the stop callback, on thread t
    | 3, 0 =>   -- CAS init -> abandoned
      let s1 := touch s
      if s.freed = 0 && s1.st = sInit then some (tau t, goto { s1 with st := sAbandoned, abandonWon := true } t 1)
      else some (tau t, pop s1 t)
    | 3, 1 => some (tau t, goto { touch s with opStop := true } t 2)   -- stopSource_.request_stop()
    | 3, 2 =>   -- evt_.set(), then return (a resumed waiter runs first, on this thread)
      let s1 := touch s
      let old := s1.evt
      let s2 := pop { s1 with evt := 2 } t
      some (tau t, if old = 1 then push s2 t 2 else s2)
    -- ---------------- request_stop() on the awaiting receiver's stop source
    | 4, 0 =>
      if cfg.late && !threadDone cfg s 1 then none   -- rt::join(T1) first
      else some (ev t "stop.begin", goto s t 1)
    | 4, 1 =>
      if s.fStop then some (tau t, goto s t 3)
      else if s.cbReg then
        some (tau t, push (goto { s with fStop := true, cbReg := false, cbRun := t + 1 } t 2) t 3)
      else some (tau t, goto { s with fStop := true } t 3)
    | 4, 2 => some (tau t, goto { s with cbRun := 0 } t 3)   -- callback returned: callbackCompleted_
    | 4, 3 => some (ev t "stop.end", pop s t)
    -- ---------------- drop(): the future is destroyed without having been started
    | 5, 0 => some (ev t "fut.drop.begin", goto s t 1)
    | 5, 1 =>   -- state_.load()
      let s1 := touch s
      if s1.st = sInit then some (tau t, goto s1 t 2)
      else if s1.st = sValue || s1.st = sError || s1.st = sDone then some (tau t, gotoA s1 t s1.st 4)
      else if s1.st = sAbandoned then some (tau t, goto s1 t 7)   -- connected, stop requested, never started
      else if s1.st = sComplete then some (tau t, gotoA s1 t sComplete 5)   -- … and the operation has finished
      else some (ev t "terminate", kill { s1 with term := true } t)     -- default: std::terminate()
    | 5, 2 => some (tau t, goto { touch s with opStop := true, dropSawInit := true } t 3)
    | 5, 3 =>   -- CAS init -> complete
      let s1 := touch s
      if s1.st = sInit then some (tau t, goto { s1 with st := sComplete } t 6)
      else some (tau t, gotoA s1 t s1.st 4)
    | 5, 4 => if s.evt = 2 then some (tau t, goto (touch s) t 5) else none   -- while (!evt_.ready());
    | 5, 5 => some (ev t "block.free", goto (deleteBlock s lst) t 6)
    | 5, 6 => some (ev t "fut.drop.end", pop s t)
    | 5, 7 =>   -- case abandoned: CAS abandoned -> complete; whoever FAILS deletes
      let s1 := touch s
      if s1.st = sAbandoned then some (tau t, goto { s1 with st := sComplete } t 6)
      else some (tau t, gotoA s1 t sComplete 5)
    -- ---------------- destroy a connected, never started future: callback first, then drop()
    | 6, 0 => some (ev t "fut.drop.begin", goto s t 1)
    | 6, 1 =>
      match deregister s t with
      | none => none
      | some s1 =>
        some (tau t, setStk s1 t (getStk s1 t / 1024 * 1024 + fcode 5 0 1))
    -- ---------------- the spawned operation completes (receiver -> complete(desired, func))
    | 7, 0 =>
      let s1 := touch s
      some (ev t s!"op.complete {kindName cfg.kind} stop={if s1.opStop then 1 else 0}", goto s1 t 1)
    | 7, 1 =>   -- CAS init -> value|error|done
      let s1 := touch s
      if s1.st = sInit then   -- success: func() constructs values_/error_, destruct_op() (plain work)
        some (tau t, goto { s1 with st := 2 + cfg.kind, resC := if cfg.kind < 2 then s1.resC + 1 else s1.resC } t 3)
      else if s1.st = sAbandoned then some (tau t, goto s1 t 4)
      else some (tau t, goto s1 t 5)
    | 7, 3 => some (tau t, evtSet s t 6)
    | 7, 4 =>   -- negotiate_deletion: CAS abandoned -> complete; whoever FAILS deletes
      let s1 := touch s
      if s1.st = sAbandoned then some (tau t, goto { s1 with st := sComplete } t 6)
      else some (tau t, goto s1 t 5)
    | 7, 5 => some (ev t "block.free", goto (deleteBlock s sComplete) t 6)
    | 7, 6 => some (ev t "op.completed", pop s t)
    | _, _ => none

/-- spawn_detached: the completing thread deletes the operation state on value/done; the receiver's
    `set_error` is `std::terminate()`. -/
def stepDetached (cfg : Config) (s : St) (t : Nat) (pc : Nat) : Option (Lbl × St) :=
  if pc = 0 then some (ev t s!"op.complete {kindName cfg.kind} stop=0", goto s t 1)
  else if pc = 1 then
    (if cfg.kind = 1 then some (ev t "terminate", kill { s with term := true } t)
     else some (ev t "block.free", goto (deleteBlock s sComplete) t 2))
  else if pc = 2 then some (ev t "op.completed", pop s t)
  else none

/-- One step of thread `t`; `none` = disabled (spinning, finished or dead).  With an empty stack
    the next call of the script is entered and its first step taken. -/
def stepThr (cfg : Config) (s : St) (t : Nat) : Option (Lbl × St) :=
  let k := getStk s t
  if k = 0 then
    match callAt cfg t (getIp s t) with
    | none => none
    | some kind =>
      let s1 := push (setIp s t (getIp s t + 1)) t kind
      if cfg.detached then stepDetached cfg s1 t 0 else stepFrame cfg s1 t kind 0 0
  else
    let top := k % 1024 - 1
    if cfg.detached then stepDetached cfg s t (top / 8 % 8)
    else stepFrame cfg s t (top % 8) (top / 64) (top / 8 % 8)

def sys (cfg : Config) : LSys St Lbl where
  init := init cfg
  next s := [0, 1, 2].filterMap (fun t => stepThr cfg s t)

def obsOf (l : Lbl) : Option String := l.2.map (fun txt => s!"T{l.1} {txt}")

/-- every thread has run its script to the end (a thread killed by `std::terminate` counts) -/
def final (cfg : Config) (s : St) : Bool :=
  threadDone cfg s 0 && threadDone cfg s 1 && threadDone cfg s 2

/-- what the future's receiver must get: done iff the operation completed with done or the future
    was cancelled before the result was available; otherwise the operation's value / error -/
def expectedOut (cfg : Config) (s : St) : Nat := if s.abandonWon then 3 else cfg.kind + 1

/-- Everything the property says except "the block is never used after deletion" and "the protocol
    never reaches std::terminate() (unless spawn_detached + error)" (those are `safe`'s first conjuncts):
    * the block is deleted at most once, the stored result destroyed at most as often as it was
      constructed, the receiver completed at most once; abandonment implies a stop request on the
      future; a stop request on the spawned operation only comes from drop / abandon;
    * no deadlock;
    * at the end (unless the process terminated): block deleted exactly once, result destroyed
      exactly as often as constructed; an awaited future completed exactly once with
      `expectedOut` — in a `late` configuration (stop requested only after the operation finished)
      that is the operation's own result;
      a future that was not started never completes its receiver; stop was requested on the
      spawned operation iff the future was dropped before completion or cancelled in time. -/
def safeRest (cfg : Config) (s : St) : Bool :=
  s.bad = 0 && s.freed ≤ 1 && s.resD ≤ s.resC && s.resC ≤ 1 && s.outN ≤ 1 &&
  (!s.abandonWon || s.fStop) &&
  (!s.opStop || s.abandonWon || s.dropSawInit) &&
  ((sys cfg).next s |>.isEmpty |> fun dead => !dead || final cfg s) &&
  (!final cfg s || s.term ||
    (s.freed = 1 && s.resD = s.resC &&
     (if cfg.detached then s.outN = 0
      else if cfg.owner = 0 then s.outN = 1 && s.out = expectedOut cfg s && (!cfg.late || s.out = cfg.kind + 1)
      else s.outN = 0) &&
     (s.opStop == (s.abandonWon || s.dropSawInit))))

/-- The property C09 as a state predicate. -/
def safe (cfg : Config) (s : St) : Bool :=
  !s.uaf && (!s.term || (cfg.detached && cfg.kind = 1)) && safeRest cfg s &&
  (!(cfg.detached && cfg.kind = 1 && final cfg s) || s.term)

/-- helper for witnesses: a schedule given as a list of choices reaches a state satisfying `p` -/
theorem reach_of_run (cfg : Config) (cs : List Nat) (p : St → Bool)
    (h : (match runChoices (sys cfg) (sys cfg).init cs with
          | some (_, s) => p s | none => false) = true) :
    ∃ s, Reach (sys cfg) s ∧ p s = true := by
  cases hr : runChoices (sys cfg) (sys cfg).init cs with
  | none => simp [hr] at h
  | some q =>
    obtain ⟨ls, s⟩ := q
    simp only [hr] at h
    exact ⟨s, runChoices_reach _ _ _ _ _ Reach.init hr, h⟩

/-! ### coding (untrusted; checked on the fly by `checkClosed`) -/

def b2n (b : Bool) : Nat := if b then 1 else 0

/-- mixed-radix numeral of all fields (radices 8,4,4,2^8,4,4,4,4,4,4,8,8,8,2^30,2^30,-) -/
def encSt (s : St) : Nat :=
  let bools := b2n s.opStop + 2 * b2n s.fStop + 4 * b2n s.cbReg + 8 * b2n s.cbInline +
    16 * b2n s.abandonWon + 32 * b2n s.dropSawInit + 64 * b2n s.uaf + 128 * b2n s.term
  s.st + 8 * (s.evt + 4 * (s.cbRun + 4 * (bools + 256 * (s.freed + 4 * (s.resC + 4 * (s.resD + 4 *
    (s.out + 4 * (s.outN + 4 * (s.bad + 4 * (s.ip0 + 8 * (s.ip1 + 8 * (s.ip2 + 8 *
    (s.stk0 + 1073741824 * (s.stk1 + 1073741824 * s.stk2))))))))))))))

def decStAux (n : Nat) : St :=
  let st := n % 8; let n := n / 8
  let evt := n % 4; let n := n / 4
  let cbRun := n % 4; let n := n / 4
  let bools := n % 256; let n := n / 256
  let freed := n % 4; let n := n / 4
  let resC := n % 4; let n := n / 4
  let resD := n % 4; let n := n / 4
  let out := n % 4; let n := n / 4
  let outN := n % 4; let n := n / 4
  let bad := n % 4; let n := n / 4
  let ip0 := n % 8; let n := n / 8
  let ip1 := n % 8; let n := n / 8
  let ip2 := n % 8; let n := n / 8
  let stk0 := n % 1073741824; let n := n / 1073741824
  let stk1 := n % 1073741824; let n := n / 1073741824
  { st := st, evt := evt, opStop := bools % 2 == 1, fStop := bools / 2 % 2 == 1, cbReg := bools / 4 % 2 == 1,
    cbRun := cbRun, cbInline := bools / 8 % 2 == 1, freed := freed, resC := resC, resD := resD, out := out,
    outN := outN, abandonWon := bools / 16 % 2 == 1, dropSawInit := bools / 32 % 2 == 1,
    uaf := bools / 64 % 2 == 1, term := bools / 128 % 2 == 1, bad := bad,
    ip0 := ip0, stk0 := stk0, ip1 := ip1, stk1 := stk1, ip2 := ip2, stk2 := n }

/-- `decStAux` behind a case split on the code: Lean's kernel evaluates the scrutinee ONCE, to a
    literal, and hands that literal to the branch — otherwise the (lazily evaluated) expression that
    produced the code is re-evaluated at every field access. -/
def decSt (n : Nat) : St :=
  match n with
  | 0 => decStAux 0
  | k + 1 => decStAux (k + 1)

def coded : Coded St := { enc := encSt, dec := decSt, M := 4093, W := 144 }

/-! ### the scenario configurations (mirrored one-to-one by harness/rt/scn_c09.cpp) -/

def cfgAwaitValue : Config := { kind := 0, owner := 0, stopper := false }
def cfgAwaitError : Config := { kind := 1, owner := 0, stopper := false }
def cfgAwaitDone : Config := { kind := 2, owner := 0, stopper := false }
def cfgCancelValue : Config := { kind := 0, owner := 0, stopper := true }
def cfgCancelError : Config := { kind := 1, owner := 0, stopper := true }
def cfgCancelDone : Config := { kind := 2, owner := 0, stopper := true }
/-- stop is requested only after the operation has finished: the result must be delivered -/
def cfgLateCancelValue : Config := { kind := 0, owner := 0, stopper := true, late := true }
def cfgDropValue : Config := { kind := 0, owner := 1, stopper := false }
def cfgDropError : Config := { kind := 1, owner := 1, stopper := false }
def cfgDropDone : Config := { kind := 2, owner := 1, stopper := false }
def cfgConnectDropValue : Config := { kind := 0, owner := 2, stopper := false }
def cfgConnectStopDropValue : Config := { kind := 0, owner := 2, stopper := true }

def cfgDetachedValue : Config := { kind := 0, owner := 1, stopper := false, detached := true }
def cfgDetachedDone : Config := { kind := 2, owner := 1, stopper := false, detached := true }
def cfgDetachedError : Config := { kind := 1, owner := 1, stopper := false, detached := true }

def configs : List (String × Config) :=
  [("await_value", cfgAwaitValue), ("await_error", cfgAwaitError), ("await_done", cfgAwaitDone),
   ("cancel_value", cfgCancelValue), ("cancel_error", cfgCancelError), ("cancel_done", cfgCancelDone), ("late_cancel_value", cfgLateCancelValue),
   ("drop_value", cfgDropValue), ("drop_error", cfgDropError), ("drop_done", cfgDropDone),
   ("connect_drop_value", cfgConnectDropValue), ("connect_stop_drop_value", cfgConnectStopDropValue),
   ("detached_value", cfgDetachedValue), ("detached_done", cfgDetachedDone), ("detached_error", cfgDetachedError),
   -- the same usages through v1::async_scope, where its extra attach layer does not change the
   -- observable behaviour (cancellation through v1 is NOT modelled: attach completes early with done)
   ("v1_await_value", cfgAwaitValue), ("v1_await_error", cfgAwaitError), ("v1_drop_value", cfgDropValue),
   ("v1_drop_done", cfgDropDone), ("v1_detached_value", cfgDetachedValue)]

end Unifex.Proto.SpawnFuture
