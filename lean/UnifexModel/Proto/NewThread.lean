/-
  Proto/NewThread.lean — model of `new_thread_context` (include/unifex/new_thread_context.hpp).

  start() of a schedule operation:  lock op.mut_;  thread_ = std::thread(run);
                                    ++activeThreadCount_;  unlock
  run() on the new thread:          lock op.mut_ (waits for start());  take thread_;  unlock;
                                    read the stop token;  set_value / set_done;
                                    retire_thread:  lock ctx.mut_;  prev = exchange(threadToJoin_, me);
                                    if (activeThreadCount_-- == 1) notify_one;  unlock;
                                    if (prev.joinable()) prev.join()
  ~context:                         --activeThreadCount_ (it starts at 1);  lock ctx.mut_;
                                    wait until the count is 0;  join threadToJoin_

  T0 (the scenario body) starts the operations one after the other and then destroys the context,
  so item i runs on thread `1 + i`.  Mutexes are explicit (acquire = one step, disabled while
  held; protected work + release = one step); the destructor's cv wait is (`dwait`, `dsig`).
-/
import UnifexModel.Core.Reflect

namespace Unifex.Proto.NewThread
open Unifex.Core

inductive Op
  | enq (i : Nat) | dtor
  deriving DecidableEq, Repr

structure Config where
  script : List Op      -- what T0 does
  n : Nat               -- number of items (threads 1 … n)

/-- item thread: phase 0 = not created, 1 lock op.mut_, 2 take handle + unlock, 3 read token,
    4 complete, 5 lock ctx.mut_, 6 retire body, 7 join prev, 8 exited -/
structure Item where
  phase : Nat
  opLock : Nat     -- op.mut_: 0 free, 1 held by start(), 2 held by run()
  prev : Nat       -- the handle taken out of threadToJoin_ (0 = not joinable, j+1 = thread of item j)
  runs : Nat       -- history
  deriving DecidableEq, Repr

structure St where
  count : Nat        -- activeThreadCount_
  ctxLock : Nat      -- ctx.mut_: 0 free, t+1
  toJoin : Nat       -- threadToJoin_: 0 = not joinable, j+1 = thread of item j
  dwait : Bool
  dsig : Bool
  ip : Nat
  pc : Nat
  items : List Item
  bad : Nat          -- history: 1 = the destructor returned while a thread of the context still runs
  deriving DecidableEq, Repr

def init (cfg : Config) : St :=
  { count := 1, ctxLock := 0, toJoin := 0, dwait := false, dsig := false, ip := 0, pc := 0,
    items := (List.range cfg.n).map (fun _ => ⟨0, 0, 0, 0⟩), bad := 0 }

def getI (s : St) (i : Nat) : Item := s.items.getD i ⟨0, 0, 0, 0⟩
def setI (s : St) (i : Nat) (x : Item) : St := { s with items := s.items.set i x }

abbrev Lbl := Nat × Option String
def ev (t : Nat) (txt : String) : Lbl := (t, some txt)
def tau (t : Nat) : Lbl := (t, none)

def exited (s : St) (j : Nat) : Bool := (getI s j).phase = 8

def mainStep (cfg : Config) (s : St) : Option (Lbl × St) :=
  match cfg.script[s.ip]? with
  | none => none
  | some op =>
    match op, s.pc with
    | .enq i, 0 => some (ev 0 s!"enq{i}.begin", { s with pc := 1 })
    | .enq i, 1 => some (tau 0, { setI s i { getI s i with opLock := 1 } with pc := 2 })      -- lock op.mut_
    | .enq i, 2 => some (tau 0, { setI s i { getI s i with phase := 1 } with pc := 3 })       -- std::thread(...)
    | .enq _, 3 => some (tau 0, { s with count := s.count + 1, pc := 4 })                      -- fetch_add
    | .enq i, 4 => some (tau 0, { setI s i { getI s i with opLock := 0 } with pc := 5 })      -- unlock
    | .enq i, _ => some (ev 0 s!"enq{i}.end", { s with ip := s.ip + 1, pc := 0 })
    | .dtor, 0 => some (ev 0 "dtor.begin", { s with pc := 1 })
    | .dtor, 1 => some (tau 0, { s with count := s.count - 1, pc := 2 })                       -- fetch_sub, no lock
    | .dtor, 2 => if s.ctxLock = 0 then some (tau 0, { s with ctxLock := 1, pc := 3 }) else none
    | .dtor, 3 =>
      if s.count = 0 then some (tau 0, { s with pc := 5 })
      else some (tau 0, { s with ctxLock := 0, dwait := true, dsig := false, pc := 4 })
    | .dtor, 4 =>
      if s.dsig && s.ctxLock = 0 then some (tau 0, { s with ctxLock := 1, dwait := false, dsig := false, pc := 3 }) else none
    | .dtor, 5 =>
      if s.toJoin = 0 then some (tau 0, { s with ctxLock := 0, pc := 6 })
      else if exited s (s.toJoin - 1) then some (tau 0, { s with ctxLock := 0, toJoin := 0, pc := 6 }) else none
    | .dtor, _ =>
      let alive := (List.range cfg.n).any (fun j => (getI s j).phase ≠ 0 && (getI s j).phase ≠ 8)
      some (ev 0 "dtor.end", { s with ip := s.ip + 1, pc := 0, bad := if alive && s.bad = 0 then 1 else s.bad })

def itemStep (s : St) (i : Nat) : Option (Lbl × St) :=
  let t := i + 1
  let it := getI s i
  match it.phase with
  | 1 => if it.opLock = 0 then some (tau t, setI s i { it with phase := 2, opLock := 2 }) else none
  | 2 => some (tau t, setI s i { it with phase := 3, opLock := 0 })
  | 3 => some (tau t, setI s i { it with phase := 4 })
  | 4 => some (ev t s!"item{i}.value", setI s i { it with phase := 5, runs := it.runs + 1 })
  | 5 => if s.ctxLock = 0 then some (tau t, setI { s with ctxLock := t + 1 } i { it with phase := 6 }) else none
  | 6 =>
    let s1 := { s with toJoin := i + 1, count := s.count - 1, ctxLock := 0,
                       dsig := if s.count = 1 && s.dwait then true else s.dsig }
    some (tau t, setI s1 i { it with phase := 7, prev := s.toJoin })
  | 7 =>
    if it.prev = 0 then some (tau t, setI s i { it with phase := 8 })
    else if exited s (it.prev - 1) then some (tau t, setI s i { it with phase := 8, prev := 0 }) else none
  | _ => none

def sys (cfg : Config) : LSys St Lbl where
  init := init cfg
  next s := (mainStep cfg s).toList ++ (List.range cfg.n).filterMap (fun i => itemStep s i)

def obsOf (l : Lbl) : Option String := l.2.map (fun txt => s!"T{l.1} {txt}")

def final (cfg : Config) (s : St) : Bool :=
  s.ip ≥ cfg.script.length && (List.range cfg.n).all (fun j => (getI s j).phase = 0 || (getI s j).phase = 8)

def started (cfg : Config) : List Nat :=
  cfg.script.filterMap (fun o => match o with | .enq i => some i | .dtor => none)

def safe (cfg : Config) (s : St) : Bool :=
  s.bad = 0 &&
  s.items.all (fun it => it.runs ≤ 1) &&
  -- the destructor sleeping without a pending notification ⇒ a thread has yet to retire
  (!(s.dwait && !s.dsig) || decide (s.count > 0)) &&
  ((sys cfg).next s |>.isEmpty |> fun dead => !dead || final cfg s) &&
  (!final cfg s || (started cfg).all (fun i => (getI s i).runs = 1 && (getI s i).phase = 8))

def b2n (b : Bool) : Nat := if b then 1 else 0

def encSt (s : St) : List Nat :=
  [s.count, s.ctxLock, s.toJoin, b2n s.dwait, b2n s.dsig, s.ip, s.pc, s.bad, s.items.length] ++
  s.items.flatMap (fun it => [it.phase, it.opLock, it.prev, it.runs])

def decItems : Nat → List Nat → List Item
  | 0, _ => []
  | n+1, a :: b :: c :: d :: r => ⟨a, b, c, d⟩ :: decItems n r
  | _, _ => []

def decSt (l : List Nat) : St :=
  match l with
  | c :: lk :: tj :: dw :: ds :: ip :: pc :: bd :: n :: r => ⟨c, lk, tj, dw == 1, ds == 1, ip, pc, decItems n r, bd⟩
  | _ => ⟨0, 0, 0, false, false, 0, 0, [], 99⟩

def coded : Coded St :=
  { enc := fun s => packNats 16 (encSt s), dec := fun n => decSt (unpackNats 16 60 n), M := 1021, W := 260 }

def cfgNt2 : Config := ⟨[.enq 0, .enq 1, .dtor], 2⟩
def cfgNt1 : Config := ⟨[.enq 0, .dtor], 1⟩
def cfgNt3 : Config := ⟨[.enq 0, .enq 1, .enq 2, .dtor], 3⟩

def configs : List (String × Config) := [("nt_2", cfgNt2), ("nt_1", cfgNt1), ("nt_3", cfgNt3)]

end Unifex.Proto.NewThread
