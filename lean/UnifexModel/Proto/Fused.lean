/-
  Proto/Fused.lean — `unifex::fused_stop_source<Tokens...>` (include/unifex/fused_stop_source.hpp): an
  inplace_stop_source that, while its callbacks are registered on the upstream tokens, requests stop on itself as
  soon as ANY upstream token that can ever stop has stop requested (a callback registered on a token whose stop
  was already requested runs inline, so an earlier upstream stop is seen at registration).
  Sequential model (the concurrency of the underlying inplace_stop_source is property C03's main model).
-/
namespace Unifex.Proto.Fused

inductive Op
  | register | deregister
  | stop (i : Nat)          -- request_stop() on the source behind upstream token i
  deriving DecidableEq, Repr

structure St where
  reg : Bool       -- register_callbacks() done and not yet deregister_callbacks()
  upAny : Bool     -- some upstream token that can stop has had stop requested
  fused : Bool     -- the fused source's own stop_requested()
  deriving DecidableEq, Repr

def init : St := ⟨false, false, false⟩

/-- `possible i` = upstream token i has a source (stop_possible()); a default-constructed token never stops -/
def step (possible : Nat → Bool) (s : St) : Op → St
  | .register => if s.reg then s else { s with reg := true, fused := s.fused || s.upAny }
  | .deregister => { s with reg := false }
  | .stop i => if possible i then { s with upAny := true, fused := s.fused || s.reg } else s

def run (possible : Nat → Bool) (ops : List Op) : St := ops.foldl (step possible) init

/-- observable: the fused source's stop_requested() after each operation -/
def trace (possible : Nat → Bool) : St → List Op → List Bool
  | _, [] => []
  | s, op :: ops => (step possible s op).fused :: trace possible (step possible s op) ops

def Inv (s : St) : Prop := (s.fused = true → s.upAny = true) ∧ (s.reg = true → s.upAny = true → s.fused = true)

theorem inv_init : Inv init := by simp [Inv, init]

theorem inv_step (possible : Nat → Bool) (s : St) (op : Op) (h : Inv s) : Inv (step possible s op) := by
  rcases s with ⟨r, u, f⟩
  cases op with
  | register => cases r <;> cases u <;> cases f <;> simp_all [Inv, step]
  | deregister => cases r <;> cases u <;> cases f <;> simp_all [Inv, step]
  | stop i => cases hp : possible i <;> cases r <;> cases u <;> cases f <;> simp_all [Inv, step]

theorem inv_run (possible : Nat → Bool) (ops : List Op) : Inv (run possible ops) := by
  unfold run
  suffices ∀ s, Inv s → Inv (ops.foldl (step possible) s) from this init inv_init
  induction ops with
  | nil => intro s h; simpa using h
  | cons op ops ih => intro s h; simpa using ih _ (inv_step possible s op h)

end Unifex.Proto.Fused
