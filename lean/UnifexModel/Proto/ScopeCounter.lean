/-
  Proto/ScopeCounter.lean — the v2::async_scope protocol for an ARBITRARY number of workers and
  joiners, in a form suited to invariant induction (state = functions of the party index).

  It is the step relation of Proto/ScopeV2.lean (same atomic operations, same program counters up
  to renumbering) specialised to the client shape
     worker i < N :  nest(leaf i) ; start ; complete leaf i          (script `[spawn i, fire i]`)
     joiner j < J :  start scope.join() with receiver j              (script `[join j]`)
  each on its own thread.  What it abstracts from ScopeV2: (1) the thread scripts are fixed to this
  shape (every operation is completed by the thread that nested it — the scope has no notion of
  thread identity, and `fire` is always enabled after `start`); (2) observable labels are dropped;
  (3) when `evt_.set()` has resumed its last popped waiter the model takes one extra internal step
  before the caller continues (stuttering).  Everything else — the packed word as (ended, count),
  the load/CAS loop of try_record_start with its locals, fetch_sub/fetch_and with their returned
  old values, the event's exchange and the push CAS loop with its local `top` — is step for step
  the same.  `setter` is a ghost variable (who performed the one successful exchange).

  Worker pc:  0 idle → 1 nest begun (`wlate` := scope already closed) → 2 opState loaded
              → 3 admitted (CAS ok) → 4 started → 5 leaf completing → 6 receiver completed
              → (fetch_sub) 7 must set the event | 9 released → 8 resuming waiters → 9 ;  10 rejected
  Joiner pc:  0 idle → 1 begun → (fetch_and) 2 must set the event (only if this call ended the
              scope and the count was 0) | 4 → 3 resuming waiters → 4 load
              → 5 push CAS loop → 6 pushed (start returned, waiting) ;  7 completed inline
-/
import UnifexModel.Core.Sched

namespace Unifex.Proto.ScopeCounter
open Unifex.Core

def upd {α : Type} (f : Nat → α) (i : Nat) (v : α) : Nat → α := fun k => if k = i then v else f k

@[simp] theorem upd_same {α : Type} (f : Nat → α) (i : Nat) (v : α) : upd f i v i = v := by simp [upd]
@[simp] theorem upd_other {α : Type} (f : Nat → α) (i k : Nat) (v : α) (h : k ≠ i) : upd f i v k = f k := by
  simp [upd, h]
theorem upd_apply {α : Type} (f : Nat → α) (i k : Nat) (v : α) : upd f i v k = if k = i then v else f k := rfl

inductive Who
  | nobody | worker (i : Nat) | joiner (j : Nat)
  deriving DecidableEq

structure St where
  ended : Bool
  count : Nat
  sig : Bool
  waiters : List Nat
  wpc : Nat → Nat
  wlate : Nat → Bool
  wseenE : Nat → Bool
  wseenC : Nat → Nat
  wtodo : Nat → List Nat
  jpc : Nat → Nat
  jtop : Nat → Nat
  jtodo : Nat → List Nat
  jdone : Nat → Nat
  setter : Who

def init : St :=
  { ended := false, count := 0, sig := false, waiters := [],
    wpc := fun _ => 0, wlate := fun _ => false, wseenE := fun _ => false, wseenC := fun _ => 0,
    wtodo := fun _ => [], jpc := fun _ => 0, jtop := fun _ => 0, jtodo := fun _ => [],
    jdone := fun _ => 0, setter := .nobody }

/-- the value of the event's `state_` as seen by a CAS: 0 = nullptr, k+1 = waiter k on top -/
def topOf (ws : List Nat) : Nat :=
  match ws with
  | [] => 0
  | k :: _ => k + 1

/-- one step of worker `i` -/
def stepW (s : St) (i : Nat) : Option St :=
  match s.wpc i with
  | 0 => some { s with wlate := upd s.wlate i s.ended, wpc := upd s.wpc i 1 }
  | 1 => some { s with wseenE := upd s.wseenE i s.ended, wseenC := upd s.wseenC i s.count, wpc := upd s.wpc i 2 }
  | 2 =>
    if s.wseenE i = true then some { s with wpc := upd s.wpc i 10 }
    else if s.ended = false ∧ s.count = s.wseenC i then
      some { s with count := s.count + 1, wpc := upd s.wpc i 3 }
    else some { s with wseenE := upd s.wseenE i s.ended, wseenC := upd s.wseenC i s.count }
  | 3 => some { s with wpc := upd s.wpc i 4 }
  | 4 => some { s with wpc := upd s.wpc i 5 }
  | 5 => some { s with wpc := upd s.wpc i 6 }
  | 6 =>
    if s.ended = true ∧ s.count = 1 then some { s with count := s.count - 1, wpc := upd s.wpc i 7 }
    else some { s with count := s.count - 1, wpc := upd s.wpc i 9 }
  | 7 =>
    if s.sig = true then some { s with wpc := upd s.wpc i 9 }
    else some { s with sig := true, waiters := [], wtodo := upd s.wtodo i s.waiters,
                       wpc := upd s.wpc i 8, setter := .worker i }
  | 8 =>
    match s.wtodo i with
    | [] => some { s with wpc := upd s.wpc i 9 }
    | k :: rest => some { s with jdone := upd s.jdone k (s.jdone k + 1), wtodo := upd s.wtodo i rest }
  | _ => none

/-- one step of joiner `j` -/
def stepJ (s : St) (j : Nat) : Option St :=
  match s.jpc j with
  | 0 => some { s with jpc := upd s.jpc j 1 }
  | 1 =>
    if s.ended = false ∧ s.count = 0 then some { s with ended := true, jpc := upd s.jpc j 2 }
    else some { s with ended := true, jpc := upd s.jpc j 4 }
  | 2 =>
    if s.sig = true then some { s with jpc := upd s.jpc j 4 }
    else some { s with sig := true, waiters := [], jtodo := upd s.jtodo j s.waiters,
                       jpc := upd s.jpc j 3, setter := .joiner j }
  | 3 =>
    match s.jtodo j with
    | [] => some { s with jpc := upd s.jpc j 4 }
    | k :: rest => some { s with jdone := upd s.jdone k (s.jdone k + 1), jtodo := upd s.jtodo j rest }
  | 4 =>
    if s.sig = true then some { s with jdone := upd s.jdone j (s.jdone j + 1), jpc := upd s.jpc j 7 }
    else some { s with jtop := upd s.jtop j (topOf s.waiters), jpc := upd s.jpc j 5 }
  | 5 =>
    if s.sig = true then some { s with jdone := upd s.jdone j (s.jdone j + 1), jpc := upd s.jpc j 7 }
    else if topOf s.waiters = s.jtop j then some { s with waiters := j :: s.waiters, jpc := upd s.jpc j 6 }
    else some { s with jtop := upd s.jtop j (topOf s.waiters) }
  | _ => none

abbrev Lbl := Bool × Nat

def sys (N J : Nat) : LSys St Lbl where
  init := init
  next s :=
    (List.range N).filterMap (fun i => (stepW s i).map (fun s' => ((false, i), s'))) ++
    (List.range J).filterMap (fun j => (stepJ s j).map (fun s' => ((true, j), s')))

theorem mem_next {N J : Nat} {s s' : St} {l : Lbl} (h : (l, s') ∈ (sys N J).next s) :
    (∃ i, i < N ∧ stepW s i = some s') ∨ (∃ j, j < J ∧ stepJ s j = some s') := by
  simp only [sys, List.mem_append, List.mem_filterMap, List.mem_range, Option.map_eq_some_iff,
    Prod.mk.injEq] at h
  rcases h with ⟨i, hi, a, ha, _, rfl⟩ | ⟨j, hj, a, ha, _, rfl⟩
  · exact Or.inl ⟨i, hi, ha⟩
  · exact Or.inr ⟨j, hj, ha⟩

/-- invariant induction specialised to the two kinds of step -/
theorem inv_induct {N J : Nat} (Inv : St → Prop) (h0 : Inv init)
    (hW : ∀ s i s', Reach (sys N J) s → Inv s → i < N → stepW s i = some s' → Inv s')
    (hJ : ∀ s j s', Reach (sys N J) s → Inv s → j < J → stepJ s j = some s' → Inv s')
    {s : St} (h : Reach (sys N J) s) : Inv s := by
  refine invariant_reach (sys := sys N J) Inv h0 ?_ h
  intro s l s' hr hi hm
  rcases mem_next hm with ⟨i, hi', hs⟩ | ⟨j, hj', hs⟩
  · exact hW s i s' hr hi hi' hs
  · exact hJ s j s' hr hi hj' hs

/-! ### counting -/

def cnt (p : Nat → Bool) : Nat → Nat
  | 0 => 0
  | n+1 => cnt p n + (if p n then 1 else 0)

theorem cnt_congr (p q : Nat → Bool) : ∀ n, (∀ k, k < n → q k = p k) → cnt q n = cnt p n
  | 0, _ => rfl
  | n+1, h => by
    simp only [cnt]
    rw [cnt_congr p q n (fun k hk => h k (by omega)), h n (by omega)]

theorem cnt_update (p q : Nat → Bool) (i : Nat) (h : ∀ k, k ≠ i → q k = p k) :
    ∀ n, i < n → cnt q n + (if p i then 1 else 0) = cnt p n + (if q i then 1 else 0)
  | 0, hi => by omega
  | n+1, hi => by
    simp only [cnt]
    by_cases hn : i = n
    · subst hn
      rw [cnt_congr p q i (fun k hk => h k (by omega))]
      omega
    · have := cnt_update p q i h n (by omega)
      rw [h n (fun e => hn e.symm)]
      omega

theorem cnt_pos (p : Nat → Bool) (i : Nat) (hp : p i = true) : ∀ n, i < n → 1 ≤ cnt p n
  | 0, hi => by omega
  | n+1, hi => by
    simp only [cnt]
    by_cases hn : i = n
    · subst hn; simp [hp]
    · have := cnt_pos p i hp n (by omega); omega

theorem cnt_zero (p : Nat → Bool) (n : Nat) (h : cnt p n = 0) (i : Nat) (hi : i < n) : p i = false := by
  cases hp : p i with
  | false => rfl
  | true => have := cnt_pos p i hp n hi; omega

/-- the scope's use count includes worker `i`: admitted, reference not yet released -/
def counted (pc : Nat) : Bool := decide (3 ≤ pc ∧ pc ≤ 6)

/-- number of workers the use count must include -/
def outstanding (s : St) (N : Nat) : Nat := cnt (fun i => counted (s.wpc i)) N

/-! ### Layer A: the counter word -/

structure InvA (N : Nat) (s : St) : Prop where
  cnt_eq : s.count = outstanding s N
  late : ∀ i, s.wlate i = true → s.ended = true ∧ (s.wpc i = 1 ∨ (s.wpc i = 2 ∧ s.wseenE i = true) ∨ s.wpc i = 10)
  sig_closed : s.sig = true → s.ended = true ∧ s.count = 0
  wset : ∀ i, (s.wpc i = 7 ∨ s.wpc i = 8) → s.ended = true ∧ s.count = 0
  jset : ∀ j, (s.jpc j = 2 ∨ s.jpc j = 3) → s.count = 0
  jended : ∀ j, 2 ≤ s.jpc j → s.ended = true
  wres : ∀ i, s.wpc i = 8 → s.sig = true
  jres : ∀ j, s.jpc j = 3 → s.sig = true
  done_sig : ∀ j, 1 ≤ s.jdone j → s.sig = true

theorem cnt_counted_upd (wpc : Nat → Nat) (N i b : Nat) (hi : i < N) :
    cnt (fun k => counted (upd wpc i b k)) N + (if counted (wpc i) then 1 else 0)
      = cnt (fun k => counted (wpc k)) N + (if counted b then 1 else 0) := by
  have := cnt_update (fun k => counted (wpc k)) (fun k => counted (upd wpc i b k)) i
    (by intro k hk; simp [upd_other _ _ _ _ hk]) N hi
  simpa using this

theorem cnt_counted_pos (wpc : Nat → Nat) (N i : Nat) (hi : i < N) (h : counted (wpc i) = true) :
    1 ≤ cnt (fun k => counted (wpc k)) N := cnt_pos _ i h N hi

@[simp] theorem counted_0 : counted 0 = false := by decide
@[simp] theorem counted_1 : counted 1 = false := by decide
@[simp] theorem counted_2 : counted 2 = false := by decide
@[simp] theorem counted_3 : counted 3 = true := by decide
@[simp] theorem counted_4 : counted 4 = true := by decide
@[simp] theorem counted_5 : counted 5 = true := by decide
@[simp] theorem counted_6 : counted 6 = true := by decide
@[simp] theorem counted_7 : counted 7 = false := by decide
@[simp] theorem counted_8 : counted 8 = false := by decide
@[simp] theorem counted_9 : counted 9 = false := by decide
@[simp] theorem counted_10 : counted 10 = false := by decide

/-- closes one step case: `ho` relates the new and old number of outstanding workers -/
macro "close_A" : tactic =>
  `(tactic| (refine ⟨?_, ?_, ?_, ?_, ?_, ?_, ?_, ?_, ?_⟩ <;> simp only [outstanding] at * <;> grind [upd_apply]))

theorem invA_stepW {N : Nat} {s s' : St} {i : Nat} (h : InvA N s) (hi : i < N)
    (hs : stepW s i = some s') : InvA N s' := by
  obtain ⟨h1, h2, h3, h4, h5, h6, h7, h8, h9⟩ := h
  have hpos := cnt_counted_pos s.wpc N i hi
  unfold stepW at hs
  split at hs
  · rename_i hpc
    injection hs with hs; subst hs
    have ho := cnt_counted_upd s.wpc N i 1 hi
    simp [hpc] at ho hpos
    close_A
  · rename_i hpc
    injection hs with hs; subst hs
    have ho := cnt_counted_upd s.wpc N i 2 hi
    simp [hpc] at ho hpos
    close_A
  · rename_i hpc
    split at hs
    · injection hs with hs; subst hs
      have ho := cnt_counted_upd s.wpc N i 10 hi
      simp [hpc] at ho hpos
      close_A
    · split at hs
      · injection hs with hs; subst hs
        have ho := cnt_counted_upd s.wpc N i 3 hi
        simp [hpc] at ho hpos
        close_A
      · injection hs with hs; subst hs
        close_A
  · rename_i hpc
    injection hs with hs; subst hs
    have ho := cnt_counted_upd s.wpc N i 4 hi
    simp [hpc] at ho hpos
    close_A
  · rename_i hpc
    injection hs with hs; subst hs
    have ho := cnt_counted_upd s.wpc N i 5 hi
    simp [hpc] at ho hpos
    close_A
  · rename_i hpc
    injection hs with hs; subst hs
    have ho := cnt_counted_upd s.wpc N i 6 hi
    simp [hpc] at ho hpos
    close_A
  · rename_i hpc
    split at hs
    · injection hs with hs; subst hs
      have ho := cnt_counted_upd s.wpc N i 7 hi
      simp [hpc] at ho hpos
      close_A
    · injection hs with hs; subst hs
      have ho := cnt_counted_upd s.wpc N i 9 hi
      simp [hpc] at ho hpos
      close_A
  · rename_i hpc
    split at hs
    · injection hs with hs; subst hs
      have ho := cnt_counted_upd s.wpc N i 9 hi
      simp [hpc] at ho hpos
      close_A
    · injection hs with hs; subst hs
      have ho := cnt_counted_upd s.wpc N i 8 hi
      simp [hpc] at ho hpos
      close_A
  · rename_i hpc
    split at hs
    · injection hs with hs; subst hs
      have ho := cnt_counted_upd s.wpc N i 9 hi
      simp [hpc] at ho hpos
      close_A
    · injection hs with hs; subst hs
      close_A
  · cases hs

theorem invA_stepJ {N : Nat} {s s' : St} {j : Nat} (h : InvA N s)
    (hs : stepJ s j = some s') : InvA N s' := by
  obtain ⟨h1, h2, h3, h4, h5, h6, h7, h8, h9⟩ := h
  have hpos := cnt_counted_pos s.wpc N
  unfold stepJ at hs
  split at hs
  · injection hs with hs; subst hs; close_A
  · split at hs <;> (injection hs with hs; subst hs; close_A)
  · split at hs <;> (injection hs with hs; subst hs; close_A)
  · split at hs <;> (injection hs with hs; subst hs; close_A)
  · split at hs <;> (injection hs with hs; subst hs; close_A)
  · split at hs
    · injection hs with hs; subst hs; close_A
    · split at hs <;> (injection hs with hs; subst hs; close_A)
  · cases hs

theorem invA_init (N : Nat) : InvA N init := by
  refine ⟨?_, ?_, ?_, ?_, ?_, ?_, ?_, ?_, ?_⟩ <;> simp [init, outstanding]
  induction N with
  | zero => rfl
  | succ n ih => simp [cnt, ← ih]

theorem invA {N J : Nat} {s : St} (h : Reach (sys N J) s) : InvA N s :=
  inv_induct (InvA N) (invA_init N) (fun _ _ _ _ hi hlt hs => invA_stepW hi hlt hs)
    (fun _ _ _ _ hi _ hs => invA_stepJ hi hs) h


/-! ### Layer B: the event's waiter stack, each join completes at most once -/

structure InvB (s : St) : Prop where
  sig_nowait : s.sig = true → s.waiters = []
  wtodo_set : ∀ i, s.wtodo i ≠ [] → s.wpc i = 8 ∧ s.setter = .worker i
  jtodo_set : ∀ j, s.jtodo j ≠ [] → s.jpc j = 3 ∧ s.setter = .joiner j
  wait_ok : ∀ k, k ∈ s.waiters → s.jpc k = 6 ∧ s.jdone k = 0
  wait_nodup : s.waiters.Nodup
  wtodo_ok : ∀ i k, k ∈ s.wtodo i → s.jpc k = 6 ∧ s.jdone k = 0
  wtodo_nodup : ∀ i, (s.wtodo i).Nodup
  jtodo_ok : ∀ j k, k ∈ s.jtodo j → s.jpc k = 6 ∧ s.jdone k = 0
  jtodo_nodup : ∀ j, (s.jtodo j).Nodup
  done_pc : ∀ k, (s.jpc k ≤ 5 → s.jdone k = 0) ∧ (s.jpc k = 7 → s.jdone k = 1) ∧ s.jdone k ≤ 1
  pending : ∀ k, s.jpc k = 6 → s.jdone k = 0 →
    k ∈ s.waiters ∨ (∃ i, k ∈ s.wtodo i) ∨ (∃ j, k ∈ s.jtodo j)

macro "close_B" : tactic =>
  `(tactic| (refine ⟨?_, ?_, ?_, ?_, ?_, ?_, ?_, ?_, ?_, ?_, ?_⟩ <;> grind [upd_apply, List.nodup_cons]))

theorem invB_stepW {N : Nat} {s s' : St} {i : Nat} (ha : InvA N s) (h : InvB s)
    (hs : stepW s i = some s') : InvB s' := by
  obtain ⟨-, -, a3, a4, a5, a6, a7, a8, a9⟩ := ha
  obtain ⟨b1, b2, b3, b4, b5, b6, b7, b8, b9, b10, b11⟩ := h
  unfold stepW at hs
  split at hs
  · injection hs with hs; subst hs; close_B
  · injection hs with hs; subst hs; close_B
  · split at hs
    · injection hs with hs; subst hs; close_B
    · split at hs <;> (injection hs with hs; subst hs; close_B)
  · injection hs with hs; subst hs; close_B
  · injection hs with hs; subst hs; close_B
  · injection hs with hs; subst hs; close_B
  · split at hs <;> (injection hs with hs; subst hs; close_B)
  · split at hs
    · injection hs with hs; subst hs; close_B
    · injection hs with hs; subst hs
      rename_i hpc hsig
      have nw : ∀ x, s.wtodo x = [] := by grind
      have nj : ∀ x, s.jtodo x = [] := by grind
      refine ⟨?_, ?_, ?_, ?_, ?_, ?_, ?_, ?_, ?_, ?_, ?_⟩
      all_goals (first | (intro k h6 h0; right; left; exact ⟨i, by grind [upd_apply]⟩) | grind [upd_apply, List.nodup_cons])
  · split at hs
    · injection hs with hs; subst hs; close_B
    · injection hs with hs; subst hs
      rename_i hpc _ k rest htodo
      have hset := (b2 i (by simp [htodo])).2
      have nw : ∀ x, x ≠ i → s.wtodo x = [] := by grind
      have nj : ∀ x, s.jtodo x = [] := by grind
      have hw : s.waiters = [] := b1 (a7 i hpc)
      have hk := b6 i k (by simp [htodo])
      have hnd := b7 i
      rw [htodo, List.nodup_cons] at hnd
      have hmem : ∀ z, z ∈ s.wtodo i ↔ z = k ∨ z ∈ rest := by simp [htodo]
      refine ⟨?_, ?_, ?_, ?_, ?_, ?_, ?_, ?_, ?_, ?_, ?_⟩
      all_goals (first | (intro z h6 h0; right; left; exact ⟨i, by grind [upd_apply]⟩) | grind [upd_apply, List.nodup_cons])
  · cases hs

theorem invB_stepJ {N : Nat} {s s' : St} {j : Nat} (ha : InvA N s) (h : InvB s)
    (hs : stepJ s j = some s') : InvB s' := by
  obtain ⟨-, -, a3, a4, a5, a6, a7, a8, a9⟩ := ha
  obtain ⟨b1, b2, b3, b4, b5, b6, b7, b8, b9, b10, b11⟩ := h
  unfold stepJ at hs
  split at hs
  · injection hs with hs; subst hs; close_B
  · split at hs <;> (injection hs with hs; subst hs; close_B)
  · split at hs
    · injection hs with hs; subst hs; close_B
    · injection hs with hs; subst hs
      rename_i hpc hsig
      have nw : ∀ x, s.wtodo x = [] := by grind
      have nj : ∀ x, s.jtodo x = [] := by grind
      refine ⟨?_, ?_, ?_, ?_, ?_, ?_, ?_, ?_, ?_, ?_, ?_⟩
      all_goals (first | (intro k h6 h0; right; right; exact ⟨j, by grind [upd_apply]⟩) | grind [upd_apply, List.nodup_cons])
  · split at hs
    · injection hs with hs; subst hs; close_B
    · injection hs with hs; subst hs
      rename_i hpc _ k rest htodo
      have hset := (b3 j (by simp [htodo])).2
      have nw : ∀ x, s.wtodo x = [] := by grind
      have nj : ∀ x, x ≠ j → s.jtodo x = [] := by grind
      have hw : s.waiters = [] := b1 (a8 j hpc)
      have hk := b8 j k (by simp [htodo])
      have hnd := b9 j
      rw [htodo, List.nodup_cons] at hnd
      have hmem : ∀ z, z ∈ s.jtodo j ↔ z = k ∨ z ∈ rest := by simp [htodo]
      refine ⟨?_, ?_, ?_, ?_, ?_, ?_, ?_, ?_, ?_, ?_, ?_⟩
      all_goals (first | (intro z h6 h0; right; right; exact ⟨j, by grind [upd_apply]⟩) | grind [upd_apply, List.nodup_cons])
  · split at hs <;> (injection hs with hs; subst hs; close_B)
  · split at hs
    · injection hs with hs; subst hs; close_B
    · split at hs
      · injection hs with hs; subst hs
        close_B
      · injection hs with hs; subst hs; close_B
  · cases hs

theorem invB_init : InvB init := by
  refine ⟨?_, ?_, ?_, ?_, ?_, ?_, ?_, ?_, ?_, ?_, ?_⟩ <;> simp [init]

theorem invB {N J : Nat} {s : St} (h : Reach (sys N J) s) : InvB s :=
  inv_induct InvB invB_init (fun _ _ _ hr hi _ hs => invB_stepW (invA hr) hi hs)
    (fun _ _ _ hr hi _ hs => invB_stepJ (invA hr) hi hs) h


/-! ### Layer C: no lost wake-up -/

/-- Layer C: a closed scope with count zero whose event is not yet set always has a thread that
    is committed to setting it (no lost wake-up of the joins). -/
def InvC (N J : Nat) (s : St) : Prop :=
  s.ended = true → s.count = 0 → s.sig = false →
    (∃ i, i < N ∧ s.wpc i = 7) ∨ (∃ j, j < J ∧ s.jpc j = 2)

macro "close_C" s:ident ih:ident i:ident hi:ident : tactic =>
  `(tactic| (
    intro he hc hs1
    first
    | (exfalso; grind [upd_apply])
    | (by_cases hp : ($s).ended = true ∧ ($s).count = 0 ∧ ($s).sig = false
       · rcases $ih hp.1 hp.2.1 hp.2.2 with ⟨c, hcN, hcpc⟩ | ⟨c, hcJ, hcpc⟩
         · exact Or.inl ⟨c, hcN, by grind [upd_apply]⟩
         · exact Or.inr ⟨c, hcJ, by grind [upd_apply]⟩
       · first
         | exact Or.inl ⟨$i, $hi, by grind [upd_apply]⟩
         | exact Or.inr ⟨$i, $hi, by grind [upd_apply]⟩
         | (exfalso; grind [upd_apply]))))

theorem invC_stepW {N J : Nat} {s s' : St} {i : Nat} (ha : InvA N s) (ih : InvC N J s) (hi : i < N)
    (hs : stepW s i = some s') : InvC N J s' := by
  obtain ⟨a1, -, a3, a4, a5, a6, a7, a8, a9⟩ := ha
  have hpos := cnt_counted_pos s.wpc N i hi
  simp only [outstanding] at a1
  unfold InvC at ih ⊢
  unfold stepW at hs
  split at hs
  · injection hs with hs; subst hs; close_C s ih i hi
  · injection hs with hs; subst hs; close_C s ih i hi
  · split at hs
    · injection hs with hs; subst hs; close_C s ih i hi
    · split at hs <;> (injection hs with hs; subst hs; close_C s ih i hi)
  · injection hs with hs; subst hs; close_C s ih i hi
  · injection hs with hs; subst hs; close_C s ih i hi
  · injection hs with hs; subst hs; close_C s ih i hi
  · rename_i hpc
    simp [hpc] at hpos
    split at hs <;> (injection hs with hs; subst hs; close_C s ih i hi)
  · split at hs <;> (injection hs with hs; subst hs; close_C s ih i hi)
  · split at hs <;> (injection hs with hs; subst hs; close_C s ih i hi)
  · cases hs

theorem invC_stepJ {N J : Nat} {s s' : St} {j : Nat} (ha : InvA N s) (ih : InvC N J s) (hj : j < J)
    (hs : stepJ s j = some s') : InvC N J s' := by
  obtain ⟨a1, -, a3, a4, a5, a6, a7, a8, a9⟩ := ha
  unfold InvC at ih ⊢
  unfold stepJ at hs
  split at hs
  · injection hs with hs; subst hs; close_C s ih j hj
  · split at hs <;> (injection hs with hs; subst hs; close_C s ih j hj)
  · split at hs <;> (injection hs with hs; subst hs; close_C s ih j hj)
  · split at hs <;> (injection hs with hs; subst hs; close_C s ih j hj)
  · split at hs <;> (injection hs with hs; subst hs; close_C s ih j hj)
  · split at hs
    · injection hs with hs; subst hs; close_C s ih j hj
    · split at hs <;> (injection hs with hs; subst hs; close_C s ih j hj)
  · cases hs

theorem invC {N J : Nat} {s : St} (h : Reach (sys N J) s) : InvC N J s :=
  inv_induct (InvC N J) (by simp [InvC, init]) (fun _ _ _ hr hi hlt hs => invC_stepW (invA hr) hi hlt hs)
    (fun _ _ _ hr hi hlt hs => invC_stepJ (invA hr) hi hlt hs) h


/-! ### Layers E, D and terminal states -/

/-- Layer E: program counters stay in range; parties outside the configuration never move. -/
structure InvE (N J : Nat) (s : St) : Prop where
  wout : ∀ i, N ≤ i → s.wpc i = 0
  jout : ∀ j, J ≤ j → s.jpc j = 0
  wle : ∀ i, s.wpc i ≤ 10
  jle : ∀ j, s.jpc j ≤ 7

macro "close_E" : tactic =>
  `(tactic| (refine ⟨?_, ?_, ?_, ?_⟩ <;> grind [upd_apply]))

theorem invE_stepW {N J : Nat} {s s' : St} {i : Nat} (h : InvE N J s) (hi : i < N)
    (hs : stepW s i = some s') : InvE N J s' := by
  obtain ⟨e1, e2, e3, e4⟩ := h
  unfold stepW at hs
  split at hs
  · injection hs with hs; subst hs; close_E
  · injection hs with hs; subst hs; close_E
  · split at hs
    · injection hs with hs; subst hs; close_E
    · split at hs <;> (injection hs with hs; subst hs; close_E)
  · injection hs with hs; subst hs; close_E
  · injection hs with hs; subst hs; close_E
  · injection hs with hs; subst hs; close_E
  · split at hs <;> (injection hs with hs; subst hs; close_E)
  · split at hs <;> (injection hs with hs; subst hs; close_E)
  · split at hs <;> (injection hs with hs; subst hs; close_E)
  · cases hs

theorem invE_stepJ {N J : Nat} {s s' : St} {j : Nat} (h : InvE N J s) (hj : j < J)
    (hs : stepJ s j = some s') : InvE N J s' := by
  obtain ⟨e1, e2, e3, e4⟩ := h
  unfold stepJ at hs
  split at hs
  · injection hs with hs; subst hs; close_E
  · split at hs <;> (injection hs with hs; subst hs; close_E)
  · split at hs <;> (injection hs with hs; subst hs; close_E)
  · split at hs <;> (injection hs with hs; subst hs; close_E)
  · split at hs <;> (injection hs with hs; subst hs; close_E)
  · split at hs
    · injection hs with hs; subst hs; close_E
    · split at hs <;> (injection hs with hs; subst hs; close_E)
  · cases hs

theorem invE {N J : Nat} {s : St} (h : Reach (sys N J) s) : InvE N J s :=
  inv_induct (InvE N J) (by refine ⟨?_, ?_, ?_, ?_⟩ <;> simp [init])
    (fun _ _ _ _ hi hlt hs => invE_stepW hi hlt hs) (fun _ _ _ _ hi hlt hs => invE_stepJ hi hlt hs) h

/-- Layer D: the thread committed to setting the event is unique (only the `end_scope` call that
    actually ends the scope with count 0, or the last completing operation, ever is), so a worker
    that still has to call `evt_.set()` excludes that the event is already set. -/
structure InvD (s : St) : Prop where
  claim : ∀ i, s.wpc i = 7 → s.sig = false ∧ ∀ j, s.jpc j ≠ 2
  uniq : ∀ i i', s.wpc i = 7 → s.wpc i' = 7 → i = i'

macro "close_D" : tactic =>
  `(tactic| (refine ⟨?_, ?_⟩ <;> grind [upd_apply]))

theorem invD_stepW {N : Nat} {s s' : St} {i : Nat} (ha : InvA N s) (h : InvD s)
    (hs : stepW s i = some s') : InvD s' := by
  obtain ⟨-, -, a3, a4, a5, a6, a7, a8, a9⟩ := ha
  obtain ⟨d2, d3⟩ := h
  unfold stepW at hs
  split at hs
  · injection hs with hs; subst hs; close_D
  · injection hs with hs; subst hs; close_D
  · split at hs
    · injection hs with hs; subst hs; close_D
    · split at hs <;> (injection hs with hs; subst hs; close_D)
  · injection hs with hs; subst hs; close_D
  · injection hs with hs; subst hs; close_D
  · injection hs with hs; subst hs; close_D
  · split at hs <;> (injection hs with hs; subst hs; close_D)
  · split at hs <;> (injection hs with hs; subst hs; close_D)
  · split at hs <;> (injection hs with hs; subst hs; close_D)
  · cases hs

theorem invD_stepJ {N : Nat} {s s' : St} {j : Nat} (ha : InvA N s) (h : InvD s)
    (hs : stepJ s j = some s') : InvD s' := by
  obtain ⟨-, -, a3, a4, a5, a6, a7, a8, a9⟩ := ha
  obtain ⟨d2, d3⟩ := h
  unfold stepJ at hs
  split at hs
  · injection hs with hs; subst hs; close_D
  · split at hs <;> (injection hs with hs; subst hs; close_D)
  · split at hs <;> (injection hs with hs; subst hs; close_D)
  · split at hs <;> (injection hs with hs; subst hs; close_D)
  · split at hs <;> (injection hs with hs; subst hs; close_D)
  · split at hs
    · injection hs with hs; subst hs; close_D
    · split at hs <;> (injection hs with hs; subst hs; close_D)
  · cases hs

theorem invD {N J : Nat} {s : St} (h : Reach (sys N J) s) : InvD s :=
  inv_induct InvD (by refine ⟨?_, ?_⟩ <;> simp [init])
    (fun _ _ _ hr hi _ hs => invD_stepW (invA hr) hi hs)
    (fun _ _ _ hr hi _ hs => invD_stepJ (invA hr) hi hs) h

/-! ### no step is ever blocked: a state without successor is terminal -/

theorem stepW_none {s : St} {i : Nat} (h : stepW s i = none) : 9 ≤ s.wpc i := by
  unfold stepW at h
  split at h <;> (try split at h) <;> (try split at h) <;> first | (cases h; done) | omega | grind

theorem stepJ_none {s : St} {j : Nat} (h : stepJ s j = none) : 6 ≤ s.jpc j := by
  unfold stepJ at h
  split at h <;> (try split at h) <;> (try split at h) <;> first | (cases h; done) | omega | grind

theorem terminal_of_no_next {N J : Nat} {s : St} (h : (sys N J).next s = []) :
    (∀ i, i < N → 9 ≤ s.wpc i) ∧ (∀ j, j < J → 6 ≤ s.jpc j) := by
  simp only [sys, List.append_eq_nil_iff, List.filterMap_eq_nil_iff, List.mem_range,
    Option.map_eq_none_iff] at h
  exact ⟨fun i hi => stepW_none (h.1 i hi), fun j hj => stepJ_none (h.2 j hj)⟩

theorem cnt_false (p : Nat → Bool) : ∀ n, (∀ k, k < n → p k = false) → cnt p n = 0
  | 0, _ => rfl
  | n+1, h => by
    simp only [cnt]
    rw [cnt_false p n (fun k hk => h k (by omega)), h n (by omega)]
    simp


end Unifex.Proto.ScopeCounter
