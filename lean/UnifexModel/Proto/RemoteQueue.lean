/-
  Proto/RemoteQueue.lean — atomic-step model of the remote-scheduling / wake-up protocol of
  `io_epoll_context` (include/unifex/linux/io_epoll_context.hpp, source/linux/io_epoll_context.cpp,
  include/unifex/detail/atomic_intrusive_queue.hpp).

  Threads
    T0          the stopper: `request_stop()` on the stop source whose token was given to `run()`
    T1          the thread inside `run(stop_token)`  (the loop)
    T(p+2)      remote producer p: `schedule()`-senders started one after the other from its thread

  One step = one atomic operation on `remoteQueue_.head_` (the CAS of `enqueue`, the load / CAS /
  exchange of `try_mark_inactive_or_dequeue_all`), one syscall (`write`/`read` of the eventfd,
  `epoll_wait`), the registration of `run()`'s stop callback / the `request_stop` that takes it
  (both under the stop source's lock, protocol proved in C03), or the plain-memory work the loop
  does between two of those (`execute_pending_local` moves the local queue to a batch and runs the
  batch item by item).  A thread that would block (`epoll_wait` with timeout -1 and nothing
  readable) is disabled.

  Environment (assumed kernel semantics): the eventfd is a counter; `write` adds 1; `read` returns
  and clears it; `epoll_wait` (level triggered, EPOLLIN) reports the eventfd iff the counter is
  non-zero, and with timeout -1 returns only then.  No other descriptor is registered (timers and
  I/O operations: see Proto/EpollOp.lean), so the local queue is fed by the remote queue only.

  History variables: `enq` (linearisation order of the successful enqueue CASes), `ran` (items
  executed by the loop, in order), `marks`/`writes`/`reads` (inactive marks, eventfd writes and
  reads), `sigBy` (which thread owes the eventfd write), `stopEnq`.
-/
import UnifexModel.Core.Reflect

namespace Unifex.Proto.RemoteQueue
open Unifex.Core

/-- an item: (producer, index); the stop operation of `run()` is `(number of producers, 0)` -/
abbrev Item := Nat × Nat

structure Config where
  /-- producer `p` schedules `quota[p]` items -/
  quota : List Nat
  /-- `true`: the stopper may call `request_stop` at any time; `false`: only after every producer
      has returned from its last `start()` -/
  early : Bool

/-- producer: `k` items completely scheduled; pc 0 = between calls, 1 = inside `start()` before the
    enqueue CAS, 2 = enqueue found the queue inactive: must write the eventfd, 3 = about to return -/
structure Prod where
  k : Nat
  pc : Nat
  deriving DecidableEq, Repr

structure St where
  prods : List Prod
  /-- stopper: 0 idle, 1 called request_stop, 2 inside the stop callback before the enqueue CAS,
      3 must write the eventfd, 4 about to return, 5 returned -/
  spc : Nat
  stopReq : Bool        -- stop source: stop requested
  cbReg : Bool          -- stop source: run()'s callback is registered
  inactive : Bool       -- remoteQueue_.head_ == producer_inactive_value()
  rq : List Item        -- remoteQueue_ (newest first)
  efd : Nat             -- eventfd counter
  /-- loop: 0 run() entered, 1 construct stop callback, 2 callback ran inline: enqueue CAS,
      3 must write the eventfd, 4 execute_pending_local: take the batch, 5 run the batch,
      6 shouldStop? / remoteQueueReadSubmitted_?, 7 try_mark_inactive: load, 8 CAS null->inactive,
      9 exchange(nullptr), 10 epoll_wait, 11 read eventfd, 12 leave run(), 13 returned -/
  lpc : Nat
  lq : List Item        -- localQueue_ (oldest first)
  batch : List Item     -- `pending` inside execute_pending_local
  rs : Bool             -- remoteQueueReadSubmitted_
  stopFlag : Bool       -- stopOp.shouldStop_
  ran : List Item       -- history: executed items, in order
  enq : List Item       -- history: enqueue order
  marks : Nat           -- history: successful inactive marks
  writes : Nat          -- history: eventfd writes
  reads : Nat           -- history: eventfd reads
  sigBy : Nat           -- history: 0 = nobody owes a wake-up, t+1 = thread t owes the eventfd write
  stopEnq : Bool        -- history: the stop operation has been enqueued
  deriving DecidableEq, Repr

def nprod (cfg : Config) : Nat := cfg.quota.length
def stopItem (cfg : Config) : Item := (nprod cfg, 0)
def quotaOf (cfg : Config) (p : Nat) : Nat := cfg.quota.getD p 0

def init (cfg : Config) : St :=
  { prods := cfg.quota.map (fun _ => ⟨0, 0⟩), spc := 0, stopReq := false, cbReg := false,
    inactive := false, rq := [], efd := 0, lpc := 0, lq := [], batch := [], rs := false,
    stopFlag := false, ran := [], enq := [], marks := 0, writes := 0, reads := 0, sigBy := 0,
    stopEnq := false }

def getP (s : St) (p : Nat) : Prod := s.prods.getD p ⟨0, 0⟩
def setP (s : St) (p : Nat) (x : Prod) : St := { s with prods := s.prods.set p x }

def prodDone (cfg : Config) (s : St) (p : Nat) : Bool :=
  (getP s p).pc == 0 && (getP s p).k == quotaOf cfg p
def allProdsDone (cfg : Config) (s : St) : Bool :=
  (List.range s.prods.length).all (fun p => prodDone cfg s p)

abbrev Lbl := Nat × Option String
def ev (t : Nat) (txt : String) : Lbl := (t, some txt)
def tau (t : Nat) : Lbl := (t, none)

/-- `remoteQueue_.enqueue(item)` by thread `t`: the successful CAS.  Returns the new state with
    `sigBy` set when the queue was inactive (the caller must then write the eventfd). -/
def enqueue (s : St) (t : Nat) (it : Item) : St :=
  { s with rq := it :: s.rq, enq := s.enq ++ [it], inactive := false,
           sigBy := if s.inactive then t + 1 else s.sigBy }

/-- `signal_remote_queue()`: write(eventfd, 1) -/
def signal (s : St) : St := { s with efd := s.efd + 1, writes := s.writes + 1, sigBy := 0 }

/-- producer `p` (thread `p+2`) -/
def stepProd (cfg : Config) (s : St) (p : Nat) : Option (Lbl × St) :=
  let x := getP s p
  let t := p + 2
  match x.pc with
  | 0 => if x.k < quotaOf cfg p then some (ev t s!"sched{x.k}.begin", setP s p { x with pc := 1 }) else none
  | 1 =>
    let s1 := enqueue s t (p, x.k)
    some (tau t, setP s1 p { x with pc := if s.inactive then 2 else 3 })
  | 2 => some (tau t, setP (signal s) p { x with pc := 3 })
  | 3 => some (ev t s!"sched{x.k}.end", setP s p ⟨x.k + 1, 0⟩)
  | _ => none

/-- the stopper (thread 0) -/
def stepStopper (cfg : Config) (s : St) : Option (Lbl × St) :=
  match s.spc with
  | 0 => if cfg.early || allProdsDone cfg s then some (ev 0 "stop.begin", { s with spc := 1 }) else none
  | 1 => some (tau 0, { s with stopReq := true, spc := if s.cbReg then 2 else 4 })
  | 2 =>
    let s1 := enqueue s 0 (stopItem cfg)
    some (tau 0, { s1 with stopEnq := true, spc := if s.inactive then 3 else 4 })
  | 3 => some (tau 0, { signal s with spc := 4 })
  | 4 => some (ev 0 "stop.end", { s with spc := 5 })
  | _ => none

/-- the thread inside run() (thread 1) -/
def stepLoop (cfg : Config) (s : St) : Option (Lbl × St) :=
  match s.lpc with
  | 0 => some (ev 1 "run.begin", { s with lpc := 1 })
  | 1 =>  -- stopCallback{stopToken, onStopRequested}: registered, or executed inline when stop was already requested
    if s.stopReq then some (tau 1, { s with lpc := 2 }) else some (tau 1, { s with cbReg := true, lpc := 4 })
  | 2 =>  -- schedule_impl(&stopOp) before run_impl: not yet "on the io thread" => schedule_remote
    let s1 := enqueue s 1 (stopItem cfg)
    some (tau 1, { s1 with stopEnq := true, lpc := if s.inactive then 3 else 4 })
  | 3 => some (tau 1, { signal s with lpc := 4 })
  | 4 =>  -- execute_pending_local(): pending = std::move(localQueue_)
    some (tau 1, { s with batch := s.lq, lq := [], lpc := 5 })
  | 5 =>
    match s.batch with
    | [] => some (tau 1, { s with lpc := 6 })
    | it :: rest =>
      if it = stopItem cfg then some (tau 1, { s with batch := rest, ran := s.ran ++ [it], stopFlag := true })
      else some (ev 1 s!"run {it.1}.{it.2}", { s with batch := rest, ran := s.ran ++ [it] })
  | 6 =>
    if s.stopFlag then some (tau 1, { s with lpc := 12 })
    else if !s.rs then some (tau 1, { s with lpc := 7 })
    else some (tau 1, { s with lpc := 10 })
  | 7 =>  -- try_mark_inactive(): oldValue = head_.load()
    if s.rq.isEmpty && !s.inactive then some (tau 1, { s with lpc := 8 }) else some (tau 1, { s with lpc := 9 })
  | 8 =>  -- compare_exchange_strong(nullptr -> inactive)
    if s.rq.isEmpty && !s.inactive then some (tau 1, { s with inactive := true, marks := s.marks + 1, rs := true, lpc := 10 })
    else some (tau 1, { s with lpc := 9 })
  | 9 =>  -- head_.exchange(nullptr); schedule_local(make_reversed(..)); remoteQueueReadSubmitted_ = items.empty()
    some (tau 1, { s with rq := [], inactive := false, lq := s.lq ++ s.rq.reverse, rs := s.rq.isEmpty,
                          lpc := if s.rq.isEmpty then 10 else 4 })
  | 10 =>  -- epoll_wait(timeout = localQueue_.empty() ? -1 : 0)
    if s.efd > 0 then some (tau 1, { s with lpc := 11 })
    else if !s.lq.isEmpty then some (tau 1, { s with lpc := 4 })
    else none
  | 11 =>  -- read(eventfd); remoteQueueReadSubmitted_ = false
    some (tau 1, { s with efd := 0, reads := s.reads + 1, rs := false, lpc := 4 })
  | 12 => some (ev 1 "run.end", { s with lpc := 13 })
  | _ => none

def sys (cfg : Config) : LSys St Lbl where
  init := init cfg
  next s := (stepStopper cfg s).toList ++ (stepLoop cfg s).toList ++
            (List.range s.prods.length).filterMap (fun p => stepProd cfg s p)

def obsOf (l : Lbl) : Option String := l.2.map (fun txt => s!"T{l.1} {txt}")

/-- every thread has returned: producers from their last start(), the stopper from request_stop(),
    the loop from run() -/
def final (cfg : Config) (s : St) : Bool :=
  allProdsDone cfg s && s.spc == 5 && s.lpc == 13

/-- items not yet executed, in the order in which the loop will execute them -/
def pending (s : St) : List Item := s.batch ++ s.lq ++ s.rq.reverse

/-- somebody still owes the wake-up write -/
def sigPending (s : St) : Bool := s.sigBy != 0

/-- the loop is blocked in epoll_wait(-1) -/
def loopBlocked (s : St) : Bool := s.lpc == 10 && s.lq.isEmpty && s.efd == 0

/-- The property as a state predicate:
    * conservation/FIFO: executed ++ pending = enqueue order, and the enqueue order has no
      duplicates — so no item is lost or duplicated, each runs at most once, in enqueue order
      (items only run in step 5 of thread 1: on the thread inside run());
    * no lost wake-up: loop blocked in epoll_wait and nobody owes a write ⇒ the queue is marked
      inactive and empty (the next enqueue will see "inactive" and write);
    * wake-up written exactly once per inactive period: `marks = writes + owed + (1 if inactive)`,
      the eventfd counter never exceeds 1, `writes = reads + counter`;
    * no deadlock: a state with no enabled step is final, i.e. run() has returned;
    * at the end the stop operation has run; if stop was requested after the producers returned,
      every scheduled item has run (exactly once, by the first clause). -/
def safe (cfg : Config) (s : St) : Bool :=
  (s.ran ++ pending s == s.enq) &&
  s.enq.Nodup &&
  (!(loopBlocked s && !sigPending s) || (s.inactive && s.rq.isEmpty)) &&
  (s.marks == s.writes + (if sigPending s then 1 else 0) + (if s.inactive then 1 else 0)) &&
  (s.efd ≤ 1) && (s.writes == s.reads + s.efd) &&
  ((sys cfg).next s |>.isEmpty |> fun dead => !dead || final cfg s) &&
  (!final cfg s ||
    (s.ran.contains (stopItem cfg) &&
     (cfg.early || (s.ran == s.enq &&
        (List.range (nprod cfg)).all (fun p => (List.range (quotaOf cfg p)).all (fun j => s.ran.contains (p, j)))))))

/-! ### coding for the reflection instances (untrusted; checked on the fly by `checkClosed`) -/

def b2n (b : Bool) : Nat := if b then 1 else 0
def encItems (l : List Item) : List Nat := l.length :: l.flatMap (fun it => [it.1, it.2])
def encSt (s : St) : List Nat :=
  [s.spc, b2n s.stopReq, b2n s.cbReg, b2n s.inactive, s.efd, s.lpc, b2n s.rs, b2n s.stopFlag,
   s.marks, s.writes, s.reads, s.sigBy, b2n s.stopEnq, s.prods.length] ++
  s.prods.flatMap (fun x => [x.k, x.pc]) ++
  encItems s.rq ++ encItems s.lq ++ encItems s.batch ++ encItems s.ran ++ encItems s.enq

def decItems : Nat → List Nat → List Item × List Nat
  | 0, r => ([], r)
  | n+1, a :: b :: r => let (is, r') := decItems n r; ((a, b) :: is, r')
  | _, r => ([], r)
def decItemList (l : List Nat) : List Item × List Nat :=
  match l with
  | n :: r => decItems n r
  | [] => ([], [])
def decProds : Nat → List Nat → List Prod × List Nat
  | 0, r => ([], r)
  | n+1, a :: b :: r => let (ps, r') := decProds n r; (⟨a, b⟩ :: ps, r')
  | _, r => ([], r)

def decSt (l : List Nat) : St :=
  match l with
  | spc :: sr :: cr :: ina :: efd :: lpc :: rs :: sf :: mk :: wr :: rd :: sb :: se :: np :: r =>
    let (ps, r1) := decProds np r
    let (rq, r2) := decItemList r1
    let (lq, r3) := decItemList r2
    let (bt, r4) := decItemList r3
    let (rn, r5) := decItemList r4
    let (en, _) := decItemList r5
    { prods := ps, spc := spc, stopReq := sr == 1, cbReg := cr == 1, inactive := ina == 1, rq := rq,
      efd := efd, lpc := lpc, lq := lq, batch := bt, rs := rs == 1, stopFlag := sf == 1, ran := rn,
      enq := en, marks := mk, writes := wr, reads := rd, sigBy := sb, stopEnq := se == 1 }
  | _ => { init ⟨[], false⟩ with spc := 99 }

def coded : Coded St :=
  { enc := fun s => packNats 16 (encSt s), dec := fun n => decSt (unpackNats 16 120 n), M := 8191, W := 480 }

/-! ### the scenario configurations (mirrored one-to-one by harness/rt/scn_c14.cpp) -/

/-- one producer, one item; stop after the producer returned -/
def cfgOne : Config := ⟨[1], false⟩
/-- two producers, one item each -/
def cfgTwo : Config := ⟨[1, 1], false⟩
/-- one producer scheduling two items -/
def cfgBurst : Config := ⟨[2], false⟩
/-- stop requested concurrently with the producer -/
def cfgStopEarly : Config := ⟨[1], true⟩

def configs : List (String × Config) :=
  [("rq_one", cfgOne), ("rq_two", cfgTwo), ("rq_burst", cfgBurst), ("rq_stop_early", cfgStopEarly)]

end Unifex.Proto.RemoteQueue
