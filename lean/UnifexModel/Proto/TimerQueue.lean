/-
  Proto/TimerQueue.lean — the sorted timer queue shared by every time scheduler of the library.

  `insertStable x q` walks a list kept in ascending due-time order and puts `x` in front of the
  first element whose due time is strictly greater — which is what
    * `timed_single_thread_context::enqueue`   (source/timed_single_thread_context.cpp),
    * `thread_unsafe_event_loop::enqueue`      (source/thread_unsafe_event_loop.cpp),
    * `intrusive_heap::insert`                 (include/unifex/detail/intrusive_heap.hpp)
  all do (`x.due < head.due` → new head, else skip while `next.due <= x.due`).  The three are
  compared against THIS definition by the sequential differential part of tools/checks/c07.py
  (`ask timerqueue run | …`).  `remove`, `pop` and `cancel` (= "if not yet due: rewrite the due
  time to now, unlink, insert again", the stop callback of the two list-based schedulers) complete
  the sequential machine `step`.

  All theorems here are PARAMETRIC: every list, every item, by induction.
-/
namespace Unifex.Proto.TimerQueue

structure Item where
  due : Int
  id : Nat
  deriving DecidableEq, Repr

abbrev Queue := List Item

/-- ascending due time -/
def Sorted (q : Queue) : Prop := q.Pairwise (fun a b => a.due ≤ b.due)

def insertStable (x : Item) : Queue → Queue
  | [] => [x]
  | y :: ys => if x.due < y.due then x :: y :: ys else y :: insertStable x ys

/-- unlink the item with identity `i` -/
def remove (i : Nat) (q : Queue) : Queue := q.filter (fun y => y.id != i)

def pop : Queue → Option (Item × Queue)
  | [] => none
  | x :: xs => some (x, xs)

def find (i : Nat) (q : Queue) : Option Item := q.find? (fun y => y.id == i)

/-- the stop callback on a queued item: only if `now < due`, the due time becomes `now` and the
    item is unlinked and inserted again (so it goes behind items already due at `now`) -/
def cancel (now : Int) (i : Nat) (q : Queue) : Queue :=
  match find i q with
  | none => q
  | some it => if now < it.due then insertStable { it with due := now } (remove i q) else q

/-! ### the sequential machine (what the differential test drives) -/

inductive Op
  | ins (id : Nat) (due : Int)
  | rem (id : Nat)
  | pop
  | cancel (now : Int) (id : Nat)
  deriving Repr

/-- output of one operation: the popped identity, if any -/
def step (q : Queue) : Op → Queue × Option Nat
  | .ins i d => (insertStable ⟨d, i⟩ q, none)
  | .rem i => (remove i q, none)
  | .pop => match pop q with
    | none => (q, none)
    | some (x, r) => (r, some x.id)
  | .cancel now i => (cancel now i q, none)

def run : Queue → List Op → Queue × List (Option Nat)
  | q, [] => (q, [])
  | q, o :: os =>
    let (q1, out) := step q o
    let (q2, outs) := run q1 os
    (q2, out :: outs)

/-! ### theorems about `insertStable` -/

theorem mem_insertStable (x y : Item) (q : Queue) : y ∈ insertStable x q ↔ y = x ∨ y ∈ q := by
  induction q with
  | nil => simp [insertStable]
  | cons z zs ih =>
    unfold insertStable
    split
    · simp
    · simp only [List.mem_cons, ih]
      constructor
      · rintro (h | h | h)
        · exact Or.inr (Or.inl h)
        · exact Or.inl h
        · exact Or.inr (Or.inr h)
      · rintro (h | h | h)
        · exact Or.inr (Or.inl h)
        · exact Or.inl h
        · exact Or.inr (Or.inr h)

/-- insertion keeps the queue sorted -/
theorem insert_sorted (x : Item) (q : Queue) (h : Sorted q) : Sorted (insertStable x q) := by
  induction q with
  | nil => simp [insertStable, Sorted]
  | cons z zs ih =>
    unfold Sorted at h ⊢
    rw [List.pairwise_cons] at h
    unfold insertStable
    split
    · rename_i hlt
      rw [List.pairwise_cons, List.pairwise_cons]
      refine ⟨?_, h.1, h.2⟩
      intro a ha
      rcases List.mem_cons.mp ha with rfl | ha
      · exact Int.le_of_lt hlt
      · exact Int.le_trans (Int.le_of_lt hlt) (h.1 a ha)
    · rename_i hnlt
      rw [List.pairwise_cons]
      refine ⟨?_, ih h.2⟩
      intro a ha
      rcases (mem_insertStable x a zs).mp ha with rfl | ha
      · exact Int.not_lt.mp hnlt
      · exact h.1 a ha

/-- insertion adds exactly the new item -/
theorem insert_perm (x : Item) (q : Queue) : (insertStable x q).Perm (x :: q) := by
  induction q with
  | nil => simp [insertStable]
  | cons z zs ih =>
    unfold insertStable
    split
    · exact List.Perm.refl _
    · exact (List.Perm.cons z ih).trans (List.Perm.swap x z zs)

theorem insert_length (x : Item) (q : Queue) : (insertStable x q).length = q.length + 1 := by
  simpa using (insert_perm x q).length_eq

/-- stability: within every class of equal due times the order of the items already queued is
    unchanged and the new item goes LAST in its own class (ties are first-in first-out) -/
theorem insert_stable (x : Item) (q : Queue) (h : Sorted q) (d : Int) :
    (insertStable x q).filter (fun y => decide (y.due = d)) =
      q.filter (fun y => decide (y.due = d)) ++ (if x.due = d then [x] else []) := by
  induction q with
  | nil => by_cases hx : x.due = d <;> simp [insertStable, hx]
  | cons z zs ih =>
    unfold Sorted at h
    rw [List.pairwise_cons] at h
    unfold insertStable
    split
    · rename_i hlt
      -- x goes in front: nothing behind it is in x's class
      by_cases hx : x.due = d
      · have hz : ¬ z.due = d := by omega
        have hrest : zs.filter (fun y => decide (y.due = d)) = [] := by
          rw [List.filter_eq_nil_iff]
          intro a ha
          have := h.1 a ha
          simp only [decide_eq_true_eq]; omega
        simp [hx, hz, hrest]
      · simp [List.filter_cons, hx]
    · rw [List.filter_cons, List.filter_cons, ih h.2]
      split <;> simp

/-- relative order of the OLD items is never changed by an insertion -/
theorem insert_sublist (x : Item) (q : Queue) : q.Sublist (insertStable x q) := by
  induction q with
  | nil => simp
  | cons z zs ih =>
    unfold insertStable
    split
    · exact List.Sublist.cons _ (List.Sublist.refl _)
    · exact List.Sublist.cons_cons _ ih

/-! ### pop / remove / cancel -/

/-- `pop` returns an item with minimal due time (and, by `insert_stable`, the oldest such) -/
theorem pop_min (q r : Queue) (x : Item) (h : Sorted q) (hp : pop q = some (x, r)) :
    (∀ y ∈ r, x.due ≤ y.due) ∧ Sorted r ∧ q = x :: r := by
  cases q with
  | nil => simp [pop] at hp
  | cons z zs =>
    simp only [pop, Option.some.injEq, Prod.mk.injEq] at hp
    obtain ⟨rfl, rfl⟩ := hp
    unfold Sorted at h
    rw [List.pairwise_cons] at h
    exact ⟨h.1, h.2, rfl⟩

theorem pop_none (q : Queue) : pop q = none ↔ q = [] := by
  cases q <;> simp [pop]

/-- removal keeps the queue sorted -/
theorem remove_sorted (i : Nat) (q : Queue) (h : Sorted q) : Sorted (remove i q) :=
  List.Pairwise.sublist List.filter_sublist h

/-- removal unlinks exactly the items with that identity, keeping the order of the others -/
theorem mem_remove (i : Nat) (q : Queue) (y : Item) : y ∈ remove i q ↔ y ∈ q ∧ y.id ≠ i := by
  simp [remove]

theorem remove_sublist (i : Nat) (q : Queue) : (remove i q).Sublist q := List.filter_sublist

/-- the stop callback keeps the queue sorted -/
theorem cancel_sorted (now : Int) (i : Nat) (q : Queue) (h : Sorted q) : Sorted (cancel now i q) := by
  unfold cancel
  split
  · exact h
  · split
    · exact insert_sorted _ _ (remove_sorted i q h)
    · exact h

/-- the stop callback neither loses nor duplicates an item: the identities queued are the same -/
theorem cancel_ids (now : Int) (i : Nat) (q : Queue) (hnd : (q.map (·.id)).Nodup) :
    ((cancel now i q).map (·.id)).Perm (q.map (·.id)) := by
  unfold cancel
  cases hf : find i q with
  | none => exact List.Perm.refl _
  | some it =>
    simp only
    split
    · -- q ~ it :: remove i q
      have hit : it ∈ q ∧ it.id = i := by
        unfold find at hf
        have h1 := List.mem_of_find?_eq_some hf
        have h2 := List.find?_some hf
        exact ⟨h1, by simpa using h2⟩
      have hq : (q.map (·.id)).Perm (i :: (remove i q).map (·.id)) := by
        clear hf
        induction q with
        | nil => exact absurd hit.1 (by simp)
        | cons z zs ih =>
          simp only [List.map_cons, List.nodup_cons] at hnd
          by_cases hz : z.id = i
          · have hnot : ∀ y ∈ zs, y.id ≠ i := by
              intro y hy hyi
              exact hnd.1 (List.mem_map.mpr ⟨y, hy, by rw [hyi, hz]⟩)
            have : remove i (z :: zs) = zs := by
              unfold remove
              rw [List.filter_cons]
              simp only [hz, bne_self_eq_false, Bool.false_eq_true, if_false]
              rw [List.filter_eq_self]
              intro y hy
              simpa using hnot y hy
            rw [this, List.map_cons, hz]
          · have hmem : it ∈ zs := by
              rcases List.mem_cons.mp hit.1 with h | h
              · exact absurd (h ▸ hit.2) hz
              · exact h
            have : remove i (z :: zs) = z :: remove i zs := by
              unfold remove
              rw [List.filter_cons]
              simp [hz]
            rw [this, List.map_cons, List.map_cons]
            exact (List.Perm.cons _ (ih hnd.2 ⟨hmem, hit.2⟩)).trans (List.Perm.swap _ _ _)
      have h1 := (insert_perm { it with due := now } (remove i q)).map (·.id)
      simp only [List.map_cons] at h1
      have h2 : (it.id :: (remove i q).map (·.id)).Perm (q.map (·.id)) := by
        rw [hit.2]; exact hq.symm
      exact h1.trans h2
    · exact List.Perm.refl _

/-- a cancelled item that was not yet due ends up in front of every item due later than `now` -/
theorem cancel_before_later (now : Int) (i : Nat) (q : Queue) (h : Sorted q) (it : Item)
    (hf : find i q = some it) (hlt : now < it.due) :
    ∃ pre post, cancel now i q = pre ++ { it with due := now } :: post ∧
      (∀ y ∈ pre, y.due ≤ now) ∧ (∀ y ∈ post, now < y.due) := by
  unfold cancel
  simp only [hf, hlt, if_true]
  have hs := remove_sorted i q h
  generalize remove i q = r at hs
  induction r with
  | nil => exact ⟨[], [], by simp [insertStable], by simp, by simp⟩
  | cons z zs ih =>
    unfold Sorted at hs
    rw [List.pairwise_cons] at hs
    unfold insertStable
    split
    · rename_i hz
      refine ⟨[], z :: zs, by simp, by simp, ?_⟩
      intro y hy
      rcases List.mem_cons.mp hy with rfl | hy
      · exact hz
      · exact Int.lt_of_lt_of_le hz (hs.1 y hy)
    · rename_i hz
      obtain ⟨pre, post, he, h1, h2⟩ := ih hs.2
      refine ⟨z :: pre, post, by simp [he], ?_, h2⟩
      intro y hy
      rcases List.mem_cons.mp hy with rfl | hy
      · exact Int.not_lt.mp hz
      · exact h1 y hy

/-! ### the machine keeps the queue sorted, whatever the operations -/

theorem step_sorted (q : Queue) (o : Op) (h : Sorted q) : Sorted (step q o).1 := by
  cases o with
  | ins i d => exact insert_sorted _ _ h
  | rem i => exact remove_sorted _ _ h
  | pop =>
    unfold step
    cases hp : pop q with
    | none => exact h
    | some p => obtain ⟨x, r⟩ := p; exact (pop_min q r x h hp).2.1
  | cancel now i => exact cancel_sorted _ _ _ h

theorem run_sorted (q : Queue) (os : List Op) (h : Sorted q) : Sorted (run q os).1 := by
  induction os generalizing q with
  | nil => exact h
  | cons o os ih =>
    unfold run
    exact ih _ (step_sorted q o h)

/-- draining a sorted queue yields non-decreasing due times -/
def drainDues : Queue → List Int := List.map (·.due)

theorem drain_nondecreasing (q : Queue) (h : Sorted q) : (drainDues q).Pairwise (· ≤ ·) := by
  unfold drainDues
  rw [List.pairwise_map]
  exact h

/-! ### query interface for the driver: `now ; i <id> <due> ; r <id> ; p ; c <now> <id> ; d` -/

def parseInt (s : String) : Int :=
  if s.startsWith "-" then -((s.drop 1).toNat!) else s.toNat!

def runQuery (text : String) : String :=
  let cmds := (text.splitOn ";").map (fun c => (c.splitOn " ").filter (· ≠ ""))
  let rec go (q : Queue) (out : List String) : List (List String) → List String
    | [] => out.reverse
    | c :: cs =>
      match c with
      | ["i", i, d] => go (insertStable ⟨parseInt d, i.toNat!⟩ q) out cs
      | ["r", i] => go (remove i.toNat! q) out cs
      | ["c", now, i] => go (cancel (parseInt now) i.toNat! q) out cs
      | ["p"] =>
        match pop q with
        | none => go q ("-" :: out) cs
        | some (x, r) => go r (toString x.id :: out) cs
      | ["d"] => go [] ((q.map (fun x => toString x.id)).reverse ++ out) cs
      | ["q"] => go q (("[" ++ " ".intercalate (q.map (fun x => s!"{x.id}@{x.due}")) ++ "]") :: out) cs
      | [] => go q out cs
      | _ => go q ("bad-op" :: out) cs
  " ".intercalate (go [] [] cmds)

end Unifex.Proto.TimerQueue
