/-
  Proto/AsyncStackFamily.lean — the discipline accepts the operation sequence of then^n(leaf) for EVERY n
  (induction over the nesting depth); helper lemmas for Props/C20.lean.
-/
import UnifexModel.Proto.AsyncStackScripts

namespace Unifex.Proto.AsyncStack

theorem grun_cons (g : G) (o : Op) (os : List Op) :
    grun g (o :: os) = (gstep g o).bind (fun g' => grun g' os) := by
  simp only [grun]; cases gstep g o <;> rfl

theorem startNest_accepted : ∀ (k : Nat) (g : G) (recv : Option Nat) (f r : Nat),
    g.nr = r → (∀ i, i < k → f + i < g.nf ∧ g.status (f + i) = .fresh) →
    (∀ p, recv = some p → p < g.nf ∧ g.status p ≠ .fresh) →
    ∃ g', grun g (startNest recv f r k) = some g' ∧ g'.stack = g.stack ∧ g'.nr = r + k ∧ g'.nf = g.nf ∧
      (∀ x, (x < f ∨ f + k ≤ x) → g'.status x = g.status x) := by
  intro k
  induction k with
  | zero => intro g recv f r hr _ _; exact ⟨g, rfl, rfl, by simpa using hr, rfl, fun _ _ => rfl⟩
  | succ k ih =>
    intro g recv f r hr hfresh hrecv
    have hf0 := hfresh 0 (by omega)
    simp only [Nat.add_zero] at hf0
    -- after rootCtor (+ setParent)
    let g1 : G := { g with nr := g.nr + 1, stack := (g.nr, none) :: g.stack }
    have h1 : gstep g .rootCtor = some g1 := rfl
    -- the optional setParent
    have h2 : ∃ g2, grun g1 (setParentOps f recv) = some g2 ∧
        g2.stack = g1.stack ∧ g2.nr = g1.nr ∧ g2.nf = g1.nf ∧ g2.status = g1.status := by
      cases recv with
      | none => exact ⟨g1, rfl, rfl, rfl, rfl, rfl⟩
      | some p =>
        have hp := hrecv p rfl
        refine ⟨{ g1 with par := upd g1.par f (some p), rank := upd g1.rank f (g1.rank p + 1) }, ?_, rfl, rfl, rfl, rfl⟩
        simp only [setParentOps, grun, gstep]
        rw [if_pos ⟨hf0.1, hp.1, hf0.2, hp.2⟩]
    obtain ⟨g2, e2, s2, n2, f2, st2⟩ := h2
    -- activate
    let g3 : G := { g2 with stack := (r, some f) :: g.stack, status := upd g2.status f .active }
    have h3 : gstep g2 (.activate r f) = some g3 := by
      simp only [gstep, s2, g1, hr]
      rw [if_pos ⟨trivial, by rw [f2]; exact hf0.1, Or.inl (by rw [st2]; exact hf0.2)⟩]
    -- inner nest
    obtain ⟨g4, e4, s4, n4, f4, st4⟩ := ih g3 (some f) (f + 1) (r + 1) (by simp [g3, n2, g1, hr])
      (by
        intro i hi
        have := hfresh (i + 1) (by omega)
        have hne : f + 1 + i ≠ f := by omega
        simp only [g3, f2, st2, g1, upd_other _ _ _ _ hne]
        rw [show f + 1 + i = f + (i + 1) by omega]
        exact this)
      (by
        intro p hp; cases hp
        simp only [g3, f2, g1, upd_same]
        exact ⟨hf0.1, by simp⟩)
    -- ensureDeactivated, rootDtor
    let g5 : G := { g4 with stack := (r, none) :: g.stack, status := upd g4.status f .stale }
    have h5 : gstep g4 (.ensureDeactivated r f) = some g5 := by
      simp only [gstep, s4, g3]
      rw [if_pos ⟨trivial, trivial⟩]
    let g6 : G := { g5 with stack := g.stack }
    have h6 : gstep g5 (.rootDtor r) = some g6 := by
      simp only [gstep, g5]
      rw [if_pos trivial]
    refine ⟨g6, ?_, rfl, ?_, ?_, ?_⟩
    · simp only [startNest, grun_cons, h1, Option.bind_some, grun_append, e2, h3, e4, h5, h6, grun]
    · simp only [g6, g5, n4]; omega
    · simp only [g6, g5, f4, g3, f2, g1]
    · intro x hx
      have hne : x ≠ f := by omega
      simp only [g6, g5, upd_other _ _ _ _ hne]
      rw [st4 x (by omega)]
      simp only [g3, upd_other _ _ _ _ hne, st2, g1]


theorem completeNest_accepted (base : Nat) : ∀ (k : Nat) (g : G) (nf r : Nat),
    g.nf = nf → g.nr = r → base + k ≤ nf + 1 →
    ∃ g', grun g (completeNest base nf r k) = some g' ∧ g'.stack = g.stack ∧ g'.nr = r + k ∧ g'.nf = nf + k := by
  intro k
  induction k with
  | zero => intro g nf r hnf hr _; exact ⟨g, rfl, rfl, by simpa using hr, by simpa using hnf⟩
  | succ k ih =>
    intro g nf r hnf hr hb
    let g1 : G := { g with nf := g.nf + 1, status := upd g.status g.nf .fresh, par := upd g.par g.nf none, rank := upd g.rank g.nf 0 }
    have h1 : gstep g .newFrame = some g1 := rfl
    let g2 : G := { g1 with nr := g.nr + 1, stack := (g.nr, none) :: g.stack }
    have h2 : gstep g1 .rootCtor = some g2 := rfl
    have h3 : ∃ g3, grun g2 (if k = 0 then [] else [Op.copyParent nf (base + k - 1)]) = some g3 ∧
        g3.stack = g2.stack ∧ g3.nr = g2.nr ∧ g3.nf = g2.nf ∧ g3.status = g2.status := by
      by_cases hk : k = 0
      · rw [if_pos hk]; exact ⟨g2, rfl, rfl, rfl, rfl, rfl⟩
      · rw [if_neg hk]
        have hc : nf < g2.nf ∧ base + k - 1 < g2.nf ∧ g2.status nf = .fresh := by
          refine ⟨by simp [g2, g1, hnf], by simp only [g2, g1, hnf]; omega, by simp [g2, g1, hnf]⟩
        cases hp : g2.par (base + k - 1) with
        | none =>
          refine ⟨g2, ?_, rfl, rfl, rfl, rfl⟩
          simp only [grun, gstep]; rw [if_pos hc, hp]
        | some p =>
          refine ⟨{ g2 with par := upd g2.par nf (some p), rank := upd g2.rank nf (g2.rank p + 1) }, ?_, rfl, rfl, rfl, rfl⟩
          simp only [grun, gstep]; rw [if_pos hc, hp]
    obtain ⟨g3, e3, s3, n3, f3, st3⟩ := h3
    let g4 : G := { g3 with stack := (r, some nf) :: g.stack, status := upd g3.status nf .active }
    have h4 : gstep g3 (.activate r nf) = some g4 := by
      simp only [gstep, s3, g2, hr]
      rw [if_pos ⟨trivial, by simp [f3, g2, g1, hnf], Or.inl (by simp [st3, g2, g1, hnf])⟩]
    obtain ⟨g5, e5, s5, n5, f5⟩ := ih g4 (nf + 1) (r + 1) (by simp [g4, f3, g2, g1, hnf]) (by simp [g4, n3, g2, hr]) (by omega)
    let g6 : G := { g5 with stack := (r, none) :: g.stack, status := upd g5.status nf .idle }
    have h6 : gstep g5 (.deactivate nf) = some g6 := by
      simp only [gstep, s5, g4]
      rw [if_pos trivial]
    let g7 : G := { g6 with stack := g.stack }
    have h7 : gstep g6 (.rootDtor r) = some g7 := by
      simp only [gstep, g6]
      rw [if_pos trivial]
    refine ⟨g7, ?_, rfl, ?_, ?_⟩
    · simp only [completeNest, grun_cons, h1, h2, Option.bind_some, grun_append, e3, h4, e5, h6, h7, grun]
    · simp only [g7, g6, n5]; omega
    · simp only [g7, g6, f5]; omega

theorem grun_newFrames : ∀ (k : Nat) (g : G), ∃ g', grun g (List.replicate k Op.newFrame) = some g' ∧
    g'.stack = g.stack ∧ g'.nr = g.nr ∧ g'.nf = g.nf + k ∧ (∀ i, g.nf ≤ i → i < g.nf + k → g'.status i = .fresh) ∧
    (∀ i, i < g.nf → g'.status i = g.status i) := by
  intro k
  induction k with
  | zero => intro g; exact ⟨g, rfl, rfl, rfl, rfl, fun i h1 h2 => by omega, fun _ _ => rfl⟩
  | succ k ih =>
    intro g
    let g1 : G := { g with nf := g.nf + 1, status := upd g.status g.nf .fresh, par := upd g.par g.nf none, rank := upd g.rank g.nf 0 }
    obtain ⟨g2, e2, s2, n2, f2, st2, so2⟩ := ih g1
    refine ⟨g2, ?_, s2, n2, by simp only [f2, g1]; omega, ?_, ?_⟩
    · simp only [List.replicate_succ, grun_cons]
      show (some g1).bind _ = _
      simpa using e2
    · intro i h1 h2
      by_cases hi : i = g.nf
      · subst hi; rw [so2 g.nf (by simp [g1])]; simp [g1]
      · exact st2 i (by simp only [g1]; omega) (by simp only [g1]; omega)
    · intro i hi
      rw [so2 i (by simp only [g1]; omega)]
      have : i ≠ g.nf := by omega
      simp [g1, upd_other _ _ _ _ this]

/-- **for every depth n**: the sequence emitted for then^n(leaf) is accepted by the discipline and balanced -/
theorem thenOps_accepted (n : Nat) : ∃ g', grun G.init (thenOps n) = some g' ∧ g'.stack = [] := by
  obtain ⟨g1, e1, s1, n1, f1, st1, _⟩ := grun_newFrames (n + 1) G.init
  obtain ⟨g2, e2, s2, n2, f2, _⟩ := startNest_accepted (n + 1) g1 none 0 0 (by simpa [G.init] using n1)
    (by intro i hi; simp only [G.init, Nat.zero_add] at f1 st1 ⊢; exact ⟨by omega, st1 i (Nat.zero_le _) hi⟩)
    (by intro p hp; cases hp)
  obtain ⟨g3, e3, s3, _, _⟩ := completeNest_accepted 0 (n + 1) g2 (n + 1) (n + 1) (by simp [f2, f1, G.init]) (by simpa using n2) (by omega)
  refine ⟨g3, ?_, by rw [s3, s2, s1]; rfl⟩
  simp only [thenOps, grun_append, e1, e2, e3, Option.bind_some]

end Unifex.Proto.AsyncStack
