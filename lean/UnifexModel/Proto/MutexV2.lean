/-
  Proto/MutexV2.lean — atomic-step model of `unifex::v2::async_mutex`
  (include/unifex/v2/async_mutex.hpp, source/async_mutex_v2.cpp) together with the pieces of
  `cancellable<>` (include/unifex/cancellable.hpp) and `completion_forwarder`
  (include/unifex/detail/completion_forwarder.hpp) that the mutex protocol depends on.

  Shared words: `locked_` (the lock flag), `queue_` (atomic_intrusive_list of waiters), and per
  waiter the `cancellable` state byte `state_` (bits stopped=1, started=2, completed=4), the stop
  source of the waiter's receiver (`stopReq`) and the registration state of the `cancellable`
  stop callback.

  One step = one atomic operation (exchange / store / load of `locked_`, fetch_or on `state_`,
  the CAS that linearises inplace_stop_source::request_stop / callback registration /
  deregistration, the load in `stop_requested()`), or one operation of the waiter list, plus the
  plain-memory work up to the next such operation.

  ASSUMPTIONS (stated, not proved here):
   * `atomic_intrusive_list` is a linearizable sequential list: push_back / pop_front /
     try_remove / empty are single steps (tied separately by the linearizability part of the
     C15 check);
   * inplace_stop_source is abstracted to its linearisation points (its own protocol is C03);
   * CAS retry loops are one step at the successful CAS; memory is sequentially consistent.

  The completion_forwarder hop is modelled AS CODED: after the hand-off (`try_complete` won by
  the popping thread, or by the uncontended `try_lock` path of start()) the waiter's completion is
  re-scheduled on the receiver's scheduler.  The schedule-operation is connected with a receiver
  that answers get_stop_token with `unstoppable_token` (completion_forwarder.hpp, since the repair
  of DESIGN §8 #3), so the scheduler cannot turn the already decided completion into set_done:
  pc 15 delivers `forward_set_value()`.  This is `Config.fwdStop = false`, the default and the ONLY
  behaviour tied to the real code.
  LEGACY: `fwdStop := true` is a hand transcription of the forwarder as it was BEFORE that repair
  (the rescheduling receiver forwarded the waiter's own stop token, and every libunifex scheduler
  completes such an operation with set_done when that token has a stop request at the time it
  runs).  It is kept only for the legacy theorems in Props/C15_v2legacy.lean, which document the
  lock leak the repair removed; no scenario on the current code uses it.

  Client programs are the configuration: each thread runs a script; the scheduler of the waiters'
  receivers is either *deferred* (schedule-operations are queued and executed by `runAll` on the
  thread that calls it) or *inline* (executed inside start(), the behaviour of inline_scheduler).
  Observable labels are the strings the C++ scenario prints (harness/rt/scn_c15.cpp, `v2_*`).
-/
import UnifexModel.Core.Reflect

namespace Unifex.Proto.MutexV2
open Unifex.Core

inductive Op
  | lock (i : Nat)            -- connect + start async_lock() with waiter i (receiver unlocks in set_value)
  | tryCs (k : Nat)           -- try_lock(); on success critical section, unlock()
  | tryHold (k : Nat)         -- try_lock(); on success keep the lock
  | release (k : Nat)         -- unlock() of a lock kept by tryHold
  | stop (i : Nat)            -- request_stop() on the stop source of waiter i's receiver
  | runAll                    -- drain the deferred scheduler until quiescence
  | waitAll                   -- wait until every other thread has finished
  | waitIp (t : Nat) (n : Nat)  -- wait until thread t has completed its first n operations
  deriving DecidableEq, Repr

structure Config where
  scripts : List (List Op)
  nw : Nat                    -- waiter ids are 0 .. nw-1
  deferred : Bool
  /-- LEGACY switch.  `false` (default) = the code: the receiver that completion_forwarder connects
      to the rescheduling `schedule()` answers get_stop_token with unstoppable_token.
      `true` = the forwarder before the repair of DESIGN §8 #3 (it forwarded the waiter's stop
      token); hand-transcribed, not tied to any current code. -/
  fwdStop : Bool := false

structure Frame where
  pc : Nat
  arg : Nat
  deriving DecidableEq, Repr

structure Thr where
  ip : Nat
  stack : List Frame
  deriving DecidableEq, Repr

/-- per waiter -/
structure W where
  cst : Nat          -- cancellable state_: 1 stopped, 2 started, 4 completed
  nst : Bool         -- lock op `started_`
  canc : Bool        -- lock op `cancelled_`
  stopReq : Bool     -- the receiver's stop source has a stop request
  cb : Nat           -- stop callback: 0 not constructed, 1 registered, 2 executing, 3 executed,
                     --   4 destroyed, 5 destroyed from inside its own execution
  cbThr : Nat        -- thread executing the callback (when cb = 2 or 5)
  outcome : Nat      -- history: 0 none, 1 set_value, 2 set_done
  comps : Nat        -- history: number of completions delivered to the receiver
  granted : Bool     -- history: the lock was acquired on its behalf (try_complete won by the
                     --   hand-off in resume_ or by the uncontended path of start())
  hazard : Bool      -- history: at some moment stop was requested, the lock was granted and the
                     --   completion had not been delivered yet
  deriving DecidableEq, Repr

structure St where
  locked : Bool
  queue : List Nat
  schedQ : List Nat        -- deferred scheduler: pending schedule-operations (waiter ids)
  ws : List W
  thrs : List Thr
  holders : Nat            -- history: parties that own the lock and have not called unlock yet
  arrivals : List Nat      -- history: push_back order
  values : List Nat        -- history: order of set_value among waiters that were queued
  deadBranch : Nat         -- history: resume_ found the popped waiter already completed
  deriving DecidableEq, Repr

def W.init : W := ⟨0, false, false, false, 0, 0, 0, 0, false, false⟩

def init (cfg : Config) : St :=
  { locked := false, queue := [], schedQ := [], ws := List.replicate cfg.nw W.init,
    thrs := cfg.scripts.map (fun _ => ⟨0, []⟩), holders := 0, arrivals := [], values := [],
    deadBranch := 0 }

def getW (s : St) (i : Nat) : W := s.ws.getD i W.init
def setW (s : St) (i : Nat) (w : W) : St := { s with ws := s.ws.set i w }
def getThr (s : St) (t : Nat) : Thr := s.thrs.getD t ⟨0, []⟩
def setThr (s : St) (t : Nat) (x : Thr) : St := { s with thrs := s.thrs.set t x }

/-- replace the top frame -/
def goto (s : St) (t : Nat) (pc : Nat) (arg : Nat) : St :=
  let th := getThr s t
  setThr s t { th with stack := ⟨pc, arg⟩ :: th.stack.tail }
def push (s : St) (t : Nat) (pc : Nat) (arg : Nat) : St :=
  let th := getThr s t
  setThr s t { th with stack := ⟨pc, arg⟩ :: th.stack }
def pop (s : St) (t : Nat) : St :=
  let th := getThr s t
  setThr s t { th with stack := th.stack.tail }

def thrDone (cfg : Config) (s : St) (u : Nat) : Bool :=
  (getThr s u).stack.isEmpty && (getThr s u).ip ≥ (cfg.scripts.getD u []).length

def allOthersDone (cfg : Config) (s : St) (t : Nat) : Bool :=
  (List.range s.thrs.length).all (fun u => u = t || thrDone cfg s u)

abbrev Lbl := Nat × Option String
def ev (t : Nat) (txt : String) : Lbl := (t, some txt)
def tau (t : Nat) : Lbl := (t, none)

def bit (n b : Nat) : Bool := (n / b) % 2 = 1

/-- recompute the `hazard` history flags (applied after every step) -/
def markHazard (s : St) : St :=
  { s with ws := s.ws.map (fun w =>
      if w.stopReq && w.granted && w.outcome = 0 then { w with hazard := true } else w) }

/-- the receiver's set_done -/
def deliverDone (s : St) (t : Nat) (i : Nat) : Lbl × St :=
  let w := getW s i
  (ev t s!"w{i}.done", pop (setW s i { w with outcome := 2, comps := w.comps + 1 }) t)

/-- the receiver's set_value: enters the critical section (then pc 16: leaves it and unlocks) -/
def deliverValue (s : St) (t : Nat) (i : Nat) : Lbl × St :=
  let w := getW s i
  let s1 := setW s i { w with outcome := 1, comps := w.comps + 1 }
  let s2 := { s1 with holders := s1.holders + 1,
                      values := if s1.arrivals.contains i then s1.values ++ [i] else s1.values }
  (ev t s!"w{i}.value", goto s2 t 16 i)

/-- One step of thread `t`; `none` = disabled (blocked or finished). -/
def stepThr (cfg : Config) (s : St) (t : Nat) : Option (Lbl × St) :=
  let th := getThr s t
  match th.stack with
  | [] =>
    match (cfg.scripts.getD t [])[th.ip]? with
    | none => none
    | some op =>
      let s1 := setThr s t { th with ip := th.ip + 1 }
      match op with
      | .lock i => some (ev t s!"lock{i}", push s1 t 1 i)
      | .tryCs k =>        -- locked_.exchange(true)
        if s.locked then some (ev t s!"t{k}.fail", s1)
        else some (ev t s!"t{k}.value", push { s1 with locked := true, holders := s1.holders + 1 } t 17 k)
      | .tryHold k =>
        if s.locked then some (ev t s!"t{k}.fail", s1)
        else some (ev t s!"t{k}.value", push { s1 with locked := true, holders := s1.holders + 1 } t 18 k)
      | .release k => some (ev t s!"t{k}.unlock", push { s1 with holders := s1.holders - 1 } t 20 0)
      | .stop i => some (ev t s!"stop{i}", push s1 t 30 i)
      | .runAll =>
        match s.schedQ with
        | j :: rest => some (ev t "run", push { s with schedQ := rest } t 15 j)   -- ip unchanged: loop
        | [] => if allOthersDone cfg s t then some (tau t, s1) else none
      | .waitAll => if allOthersDone cfg s t then some (tau t, s1) else none
      | .waitIp u n => if (getThr s u).stack.isEmpty && (getThr s u).ip ≥ n then some (tau t, s1) else none
  | f :: _ =>
    let i := f.arg
    let w := getW s i
    match f.pc with
    -- ------------- cancellable<lock_raw_sender, StopsEarly = true>::type::start() for waiter i
    | 1 =>   -- construct the stop callback (inplace_stop_callback registration)
      if w.stopReq then
        -- stop already requested: the callback runs inline: state_.fetch_or(stopped), state was 0
        some (tau t, goto (setW s i { w with cst := w.cst ||| 1, cb := 3 }) t 2 i)
      else some (tau t, goto (setW s i { w with cb := 1 }) t 2 i)
    | 2 =>   -- StopsEarly: state_.load() & stopped
      if bit w.cst 1 then
        -- nested_op().stop() with !started_: cancelled_ = true; try_complete …
        some (tau t, goto (setW s i { w with canc := true }) t 10 i)
      else
        -- stop_type::start(): continuation (pc 6) below the nested start() (pc 3)
        some (tau t, push (goto s t 6 i) t 3 i)
    | 3 =>   -- lock op start(): started_ = true; mutex_.try_lock() = locked_.exchange(true)
      let s1 := setW s i { w with nst := true }
      if s.locked then some (tau t, goto s1 t 4 i)
      else some (tau t, goto { s1 with locked := true } t 11 i)
    | 4 =>   -- queue_.push_back(this)
      some (tau t, goto { s with queue := s.queue ++ [i], arrivals := s.arrivals ++ [i] } t 5 i)
    | 5 =>   -- fence; if (!locked_.exchange(true)) process_queue();
      if s.locked then some (tau t, pop s t)
      else some (tau t, goto { s with locked := true } t 20 0)
    | 6 =>   -- back in stop_type::start(): sync_complete.load()
      -- (the completer stores the flag right after its fetch_or when it did not see `started`)
      if bit w.cst 4 then some (tau t, pop s t) else some (tau t, goto s t 7 i)
    | 7 =>   -- state_.fetch_or(started)
      let s1 := setW s i { w with cst := w.cst ||| 2 }
      if w.cst = 1 then some (tau t, goto s1 t 32 i)   -- == stopped: nested_op().stop()
      else some (tau t, pop s1 t)                      -- (& completed: wait for the flag, already stored)
    -- ------------- try_complete(op): state_.fetch_or(completed)
    | 10 =>  -- from stop(): no lock involved
      if bit w.cst 4 then some (tau t, pop s t)
      else some (tau t, goto (setW s i { w with cst := w.cst ||| 4 }) t 13 i)
    | 11 =>  -- from start(): try_lock() succeeded
      if bit w.cst 4 then some (tau t, pop s t)
      else some (tau t, goto (setW s i { w with cst := w.cst ||| 4, granted := true }) t 13 i)
    | 12 =>  -- from resume_ (popped by process_queue: hand-off)
      if bit w.cst 4 then
        -- "Pop gave us the lock but stop already completed us": mutex_.unlock()
        some (tau t, goto { s with deadBranch := s.deadBranch + 1 } t 20 0)
      else some (tau t, goto (setW s i { w with cst := w.cst ||| 4, granted := true }) t 13 i)
    | 13 =>  -- cleanup_: destroy the stop callback (deregistration)
      if w.cb = 2 && w.cbThr ≠ t then none      -- executing on another thread: wait for it
      else
        let s1 := setW s i { w with cb := if w.cb = 2 then 5 else 4 }
        -- forwardingOp_.start(): connect(schedule(get_scheduler(receiver)), forwarder receiver); start
        if cfg.deferred then some (tau t, goto s1 t 14 i) else some (tau t, goto s1 t 15 i)
    | 14 =>  -- deferred scheduler: enqueue the schedule-operation
      some (tau t, pop { s with schedQ := s.schedQ ++ [i] } t)
    | 15 =>  -- the schedule-operation runs: get_stop_token(forwarder receiver).stop_requested()
      if w.stopReq && cfg.fwdStop then
        -- LEGACY only (pre-repair forwarder): set_done on the forwarder's receiver → set_done on the
        -- final receiver; if the lock was granted to i, it stays held: nothing releases it
        some (deliverDone s t i)
      else
        -- forward_set_value(): cancelled_ ? set_done : set_value
        if w.canc then some (deliverDone s t i) else some (deliverValue s t i)
    | 16 =>  -- receiver: leave the critical section, call unlock()
      some (ev t s!"w{i}.unlock", goto { s with holders := s.holders - 1 } t 20 0)
    | 17 =>  -- tryCs: leave the critical section, call unlock()
      some (ev t s!"t{i}.unlock", goto { s with holders := s.holders - 1 } t 20 0)
    | 18 =>  -- tryHold: return to the script with the lock held
      some (tau t, pop s t)
    -- ------------- process_queue()
    | 20 =>  -- queue_.pop_front()
      match s.queue with
      | j :: rest => some (tau t, goto { s with queue := rest } t 12 j)   -- w->resume_(w)
      | [] => some (tau t, goto s t 21 0)
    | 21 =>  -- locked_.store(false)
      some (tau t, goto { s with locked := false } t 22 0)
    | 22 =>  -- fence; queue_.empty()
      if s.queue.isEmpty then some (tau t, pop s t) else some (tau t, goto s t 23 0)
    | 23 =>  -- locked_.exchange(true)
      if s.locked then some (tau t, pop s t) else some (tau t, goto { s with locked := true } t 20 0)
    -- ------------- request_stop() on waiter i's stop source
    | 30 =>
      let s1 := setW s i { w with stopReq := true }
      if w.cb = 1 then some (tau t, goto (setW s i { w with stopReq := true, cb := 2, cbThr := t }) t 31 i)
      else some (tau t, goto s1 t 34 i)
    | 31 =>  -- stop_callback: state_.fetch_or(stopped)
      let s1 := setW s i { w with cst := w.cst ||| 1 }
      if w.cst = 2 then some (tau t, push (goto s1 t 33 i) t 32 i)   -- == started: nested_op().stop()
      else some (tau t, goto s1 t 33 i)
    | 32 =>  -- lock op stop() with started_: queue_.try_remove(this)
      if s.queue.contains i then
        some (tau t, goto (setW { s with queue := s.queue.erase i } i { w with canc := true }) t 10 i)
      else some (tau t, pop s t)
    | 33 =>  -- the callback returned: callbackCompleted_ = true (unless destroyed meanwhile)
      some (tau t, goto (setW s i { w with cb := if w.cb = 2 then 3 else w.cb }) t 34 i)
    | 34 => some (ev t s!"stop{i}.end", pop s t)
    | _ => none

def sys (cfg : Config) : LSys St Lbl where
  init := init cfg
  next s := (List.range s.thrs.length).filterMap (fun t =>
    (stepThr cfg s t).map (fun p => (p.1, markHazard p.2)))

def obsOf (l : Lbl) : Option String := l.2.map (fun txt => s!"T{l.1} {txt}")

def final (cfg : Config) (s : St) : Bool :=
  (List.range s.thrs.length).all (fun u => thrDone cfg s u)

def isPrefix : List Nat → List Nat → Bool
  | [], _ => true
  | _ :: _, [] => false
  | a :: as, b :: bs => a == b && isPrefix as bs

def noHazard (s : St) : Bool := s.ws.all (fun w => !w.hazard)

/-- waiters whose lock operation was started by some script (by construction: cb ≠ 0) -/
def startedW (w : W) : Bool := w.cb ≠ 0

/-- the end-state clause: every started waiter completed exactly once, nobody is queued or
    scheduled, and the lock is not leaked (`locked` only if a party still holds it) -/
def endOk (s : St) : Bool :=
  s.ws.all (fun w => !startedW w || w.comps = 1) && s.queue.isEmpty && s.schedQ.isEmpty &&
  (!s.locked || s.holders = 1)

/-- The property as a state predicate.  Unconditional clauses:
    * `holders ≤ 1`: mutual exclusion — never two parties between acquisition and unlock;
    * every waiter completes at most once;
    * a waiter cancelled by its stop request (`cancelled_`) never was granted the lock and never
      completes with value;
    * a waiter completed with done although the lock was granted to it only via the hazard
      (stop request pending between hand-off and delivery of the re-scheduled completion);
    * resume_'s "already completed" branch is never taken;
    * FIFO: queued waiters receive set_value in push_back order (cancelled ones removed);
    * no deadlock.
    Clause guarded by `noHazard` (`safeFull` is the unguarded, full property; the guard only
    matters for the LEGACY forwarder, `fwdStop := true`, where the unguarded clause is false):
    * at the end every started waiter completed exactly once, the queue is empty, and the lock is
      not leaked: `locked` only if a party still holds it. -/
def safe (cfg : Config) (s : St) : Bool :=
  decide (s.holders ≤ 1) &&
  s.ws.all (fun w => decide (w.comps ≤ 1)) &&
  s.ws.all (fun w => !w.canc || (!w.granted && w.outcome ≠ 1)) &&
  s.ws.all (fun w => !(w.granted && w.outcome = 2) || (cfg.fwdStop && w.hazard)) &&
  s.deadBranch = 0 &&
  isPrefix s.values (s.arrivals.filter (fun i => !(getW s i).canc)) &&
  ((sys cfg).next s |>.isEmpty |> fun dead => !dead || final cfg s) &&
  (!(final cfg s && noHazard s) || endOk s)

/-- the full property: the end-state clause without the `noHazard` guard -/
def safeFull (cfg : Config) (s : St) : Bool := safe cfg s && (!final cfg s || endOk s)

/-- the leak: everything has run to the end, the mutex is locked, nobody holds it -/
def leaked (cfg : Config) (s : St) : Bool :=
  final cfg s && s.locked && s.holders = 0

/-! ### coding (untrusted; checked on the fly by `checkClosed`) -/

def b2n (b : Bool) : Nat := if b then 1 else 0

def encList (l : List Nat) : List Nat := l.length :: l
def encW (w : W) : List Nat :=
  [w.cst, b2n w.nst, b2n w.canc, b2n w.stopReq, w.cb, w.cbThr, w.outcome, w.comps, b2n w.granted, b2n w.hazard]
def encThr (t : Thr) : List Nat := t.ip :: t.stack.length :: t.stack.flatMap (fun f => [f.pc, f.arg])

def encSt (s : St) : List Nat :=
  [b2n s.locked, s.holders, s.deadBranch] ++ encList s.queue ++ encList s.schedQ ++
  encList s.arrivals ++ encList s.values ++
  [s.ws.length] ++ s.ws.flatMap encW ++ [s.thrs.length] ++ s.thrs.flatMap encThr

def decFrames : Nat → List Nat → List Frame × List Nat
  | 0, r => ([], r)
  | n+1, p :: a :: r => let (fs, r') := decFrames n r; (⟨p, a⟩ :: fs, r')
  | _, r => ([], r)

def decWs : Nat → List Nat → List W × List Nat
  | 0, r => ([], r)
  | n+1, a :: b :: c :: d :: e :: f :: g :: h :: i :: j :: r =>
    let (ws, r') := decWs n r
    (⟨a, b == 1, c == 1, d == 1, e, f, g, h, i == 1, j == 1⟩ :: ws, r')
  | _, r => ([], r)

def decThrs : Nat → List Nat → List Thr × List Nat
  | 0, r => ([], r)
  | n+1, ip :: len :: r =>
    let (fs, r1) := decFrames len r
    let (ts, r2) := decThrs n r1
    (⟨ip, fs⟩ :: ts, r2)
  | _, r => ([], r)

def decList (l : List Nat) : List Nat × List Nat :=
  match l with
  | n :: r => (r.take n, r.drop n)
  | [] => ([], [])

def decSt (l : List Nat) : St :=
  match l with
  | lk :: ho :: db :: r =>
    let (q, r1) := decList r
    let (sq, r2) := decList r1
    let (ar, r3) := decList r2
    let (vs, r4) := decList r3
    match r4 with
    | nwv :: r5 =>
      let (ws, r6) := decWs nwv r5
      match r6 with
      | nt :: r7 =>
        let (ths, _) := decThrs nt r7
        ⟨lk == 1, q, sq, ws, ths, ho, ar, vs, db⟩
      | _ => ⟨false, [], [], [], [], 0, [], [], 99⟩
    | _ => ⟨false, [], [], [], [], 0, [], [], 99⟩
  | _ => ⟨false, [], [], [], [], 0, [], [], 99⟩

def coded : Coded St :=
  { enc := fun s => packNats 64 (encSt s), dec := fun n => decSt (unpackNats 64 200 n), M := 4093, W := 512 }

/-! ### the scenario configurations (mirrored one-to-one by harness/rt/scn_c15.cpp, `v2_*`) -/

/-- hand-off to a queued waiter through the deferred scheduler, no stop request. -/
def cfgHandoff : Config := { scripts := [[.tryCs 0, .runAll, .tryCs 9], [.lock 0]], nw := 1, deferred := true }
/-- T0 holds, T1 queues waiter 0, T0 unlocks when T1's start() has returned; T2 requests stop on
    the waiter at ANY time (before start, queued, popped, after the hand-off).
    -/
def cfgHandoffStop : Config :=
  { scripts := [[.tryHold 0, .waitIp 1 2, .release 0, .runAll, .tryCs 9], [.waitIp 0 1, .lock 0], [.waitIp 0 1, .stop 0]], nw := 1, deferred := true }
/-- regression scenario for DESIGN §8 #3: T0 holds, T1 queues waiters 0 and 1 and finishes, T0
    unlocks (hand-off to 0, completion re-scheduled), THEN T2 requests stop on 0, then T0 drains the
    scheduler: waiter 0 still gets set_value, unlocks, waiter 1 is served.  (With the pre-repair
    forwarder — `cfgLeakSeqLegacy` — waiter 0 got done, the mutex stayed locked, waiter 1 starved.) -/
def cfgLeakSeq : Config :=
  { scripts := [[.tryHold 0, .waitIp 1 3, .release 0, .waitIp 2 2, .runAll, .tryCs 9], [.waitIp 0 1, .lock 0, .lock 1],
    [.waitIp 0 3, .stop 0]], nw := 2, deferred := true }
/-- two lockers race on a free mutex, inline scheduler (Dekker window: push vs release). -/
def cfgRaceInline : Config := { scripts := [[.waitAll, .tryCs 9], [.lock 0], [.lock 1]], nw := 2, deferred := false }
/-- three waiters queue (racing) behind a holder; inline scheduler: FIFO hand-off chain. -/
def cfgFifo3 : Config :=
  { scripts := [[.tryHold 0, .waitAll, .release 0, .tryCs 9], [.waitIp 0 1, .lock 0, .lock 2], [.waitIp 0 1, .lock 1]], nw := 3, deferred := false }
/-- inline scheduler, one locker, one stop request: the uncontended path of start(). -/
def cfgInlineStop : Config := { scripts := [[.waitAll, .tryCs 9], [.lock 0], [.stop 0]], nw := 1, deferred := false }
/-- two queued waiters; the unlock (pop_front) races with the cancellation (try_remove) of the
    first one; deferred scheduler. -/
def cfgCancelFirst : Config :=
  { scripts := [[.tryHold 0, .waitIp 1 3, .release 0, .runAll, .tryCs 9], [.waitIp 0 1, .lock 0, .lock 1], [.waitIp 1 3, .stop 0]], nw := 2, deferred := true }
/-- async_lock races with try_lock on a free mutex, inline scheduler. -/
def cfgRaceTry : Config := { scripts := [[.waitAll, .tryCs 9], [.lock 0], [.tryCs 2]], nw := 1, deferred := false }

/-- T0 holds, waiter 0 queues, T0 unlocks (hand-off, inline scheduler) while T2 probes try_lock. -/
def cfgHandoffTry : Config :=
  { scripts := [[.tryHold 0, .waitIp 1 2, .release 0, .waitAll, .tryCs 9], [.waitIp 0 1, .lock 0], [.waitIp 0 1, .tryCs 2]], nw := 1, deferred := false }

/-- LEGACY: the regression scenario with the pre-repair forwarder (not tied to current code) -/
def cfgLeakSeqLegacy : Config := { cfgLeakSeq with fwdStop := true }

/-- the Dekker window of unlock() with a prober: T0 holds and calls unlock() while T1's start() of
    waiter 0 is in progress (try_lock fails, push_back lands between T0's pop_front and its
    `queue_.empty()` re-check, so T0 must RE-ACQUIRE `locked_` before it hands over); T2 probes with
    try_lock once T1's start() has returned, i.e. possibly while waiter 0 is in its critical section. -/
def cfgUnlockRaceTry : Config :=
  { scripts := [[.tryHold 0, .release 0, .waitAll, .tryCs 9], [.waitIp 0 1, .lock 0], [.waitIp 1 2, .tryCs 2]],
    nw := 1, deferred := false }

def configs : List (String × Config) :=
  [("v2_handoff", cfgHandoff), ("v2_handoff_stop", cfgHandoffStop), ("v2_leak_seq", cfgLeakSeq),
   ("v2_race_inline", cfgRaceInline), ("v2_fifo3", cfgFifo3), ("v2_inline_stop", cfgInlineStop),
   ("v2_cancel_first", cfgCancelFirst), ("v2_race_try", cfgRaceTry), ("v2_handoff_try", cfgHandoffTry),
   ("v2_unlock_race_try", cfgUnlockRaceTry)]

end Unifex.Proto.MutexV2
