/-
  Proto/ThreadPool.lean — model of `static_thread_pool`
  (include/unifex/static_thread_pool.hpp, source/static_thread_pool.cpp).

  K worker threads, K `thread_state`s (mutex + condition variable + FIFO queue + stopRequested_).
  Because `try_pop`/`try_push` use `try_to_lock` — they FAIL when the mutex is held — every mutex
  is explicit: one step acquires it (`try_lock`: succeed or fail; `lock`: disabled while held), one
  step does the protected work and releases it.  `cv_.wait` releases the mutex and parks the
  worker; the parked worker is enabled again only when it has been notified AND the mutex is free
  (it re-acquires it in the same step); a notify with nobody waiting is lost.

    enqueue(task):  start = nextThread_++ % K;  try_push on start, start+1, …;  if all K fail:
                    blocking push on `start`;  push notifies iff the queue was empty
    run(i):         loop { try_pop on i, i+1, …;  if nothing: pop() on i (blocking; returns null
                    iff empty ∧ stopRequested_) → return;  execute }
    ~context:       request_stop on every thread_state (lock; flag; notify_one), then join all

  Worker i is thread `base + i` (the pool's threads are adopted in creation order).
  History: `acc` (items in the order their push happened), `ran` (order of completion).
-/
import UnifexModel.Core.Reflect

namespace Unifex.Proto.ThreadPool
open Unifex.Core

inductive Op
  | enq (i : Nat) | waitAll | waitRan (i : Nat) | dtor
  deriving DecidableEq, Repr

structure Config where
  k : Nat                    -- number of pool threads
  base : Nat                 -- thread id of worker 0
  scripts : List (List Op)   -- by thread id; entries of the workers are `[]`
  allRun : Bool

structure Q where
  items : List Nat
  stop : Bool
  owner : Nat      -- 0 = free, t+1 = held by thread t
  waiting : Bool   -- the queue's own worker is inside cv_.wait
  sig : Bool
  deriving DecidableEq, Repr

structure Thr where
  ip : Nat
  pc : Nat
  k : Nat        -- loop index
  start : Nat    -- producer: startIndex; worker: the task being executed
  deriving DecidableEq, Repr

structure St where
  qs : List Q
  next : Nat            -- nextThread_
  thrs : List Thr
  acc : List Nat
  ran : List Nat
  deriving DecidableEq, Repr

def Q.init : Q := ⟨[], false, 0, false, false⟩

def init (cfg : Config) : St :=
  { qs := (List.range cfg.k).map (fun _ => Q.init), next := 0,
    thrs := cfg.scripts.map (fun _ => ⟨0, 0, 0, 0⟩), acc := [], ran := [] }

def getQ (s : St) (j : Nat) : Q := s.qs.getD j Q.init
def setQ (s : St) (j : Nat) (q : Q) : St := { s with qs := s.qs.set j q }
def getThr (s : St) (t : Nat) : Thr := s.thrs.getD t ⟨0, 0, 0, 0⟩
def setThr (s : St) (t : Nat) (x : Thr) : St := { s with thrs := s.thrs.set t x }

abbrev Lbl := Nat × Option String
def ev (t : Nat) (txt : String) : Lbl := (t, some txt)
def tau (t : Nat) : Lbl := (t, none)

def isWorker (cfg : Config) (t : Nat) : Bool := cfg.base ≤ t && t < cfg.base + cfg.k

/-- the protected part of try_push/push: append, notify_one iff the queue was empty, unlock -/
def pushBody (s : St) (j i : Nat) : St :=
  let q := getQ s j
  let q' := { q with items := q.items ++ [i], owner := 0,
                     sig := if q.items.isEmpty && q.waiting then true else q.sig }
  { setQ s j q' with acc := s.acc ++ [i] }

/-- worker pcs: 1 try_lock for try_pop, 2 try_pop body, 3 lock for pop, 4 pop body, 5 in cv_.wait,
    6 execute, 9 returned -/
def workerStep (cfg : Config) (s : St) (t : Nat) : Option (Lbl × St) :=
  let th := getThr s t
  let me := t - cfg.base
  let qi := (me + th.k) % cfg.k
  let nextQueue (s : St) : St :=
    if th.k + 1 < cfg.k then setThr s t { th with pc := 1, k := th.k + 1 } else setThr s t { th with pc := 3, k := 0 }
  match th.pc with
  | 0 => some (tau t, setThr s t { th with pc := 1, k := 0 })
  | 1 =>
    let q := getQ s qi
    if q.owner = 0 then some (tau t, setThr (setQ s qi { q with owner := t + 1 }) t { th with pc := 2 })
    else some (tau t, nextQueue s)
  | 2 =>
    let q := getQ s qi
    match q.items with
    | [] => some (tau t, nextQueue (setQ s qi { q with owner := 0 }))
    | i :: rest => some (tau t, setThr (setQ s qi { q with items := rest, owner := 0 }) t { th with pc := 6, start := i })
  | 3 =>
    let q := getQ s me
    if q.owner = 0 then some (tau t, setThr (setQ s me { q with owner := t + 1 }) t { th with pc := 4 }) else none
  | 4 =>
    let q := getQ s me
    match q.items with
    | i :: rest => some (tau t, setThr (setQ s me { q with items := rest, owner := 0 }) t { th with pc := 6, start := i })
    | [] =>
      if q.stop then some (tau t, setThr (setQ s me { q with owner := 0 }) t { th with pc := 9 })
      else some (tau t, setThr (setQ s me { q with owner := 0, waiting := true, sig := false }) t { th with pc := 5 })
  | 5 =>
    let q := getQ s me
    if q.sig && q.owner = 0 then
      some (tau t, setThr (setQ s me { q with owner := t + 1, waiting := false, sig := false }) t { th with pc := 4 })
    else none
  | 6 => some (ev t s!"item{th.start}.value", setThr { s with ran := s.ran ++ [th.start] } t { th with pc := 1, k := 0, start := 0 })
  | _ => none

def thrDone (cfg : Config) (s : St) (u : Nat) : Bool :=
  if isWorker cfg u then (getThr s u).pc = 9 else (getThr s u).ip ≥ (cfg.scripts.getD u []).length

def othersDone (cfg : Config) (s : St) (t : Nat) : Bool :=
  (List.range s.thrs.length).all (fun u => u = t || isWorker cfg u || thrDone cfg s u)

def workersExited (cfg : Config) (s : St) : Bool :=
  (List.range cfg.k).all (fun i => (getThr s (cfg.base + i)).pc = 9)

/-- producer pcs for `enq`: 0 begin, 1 fetch_add, 2 try_lock, 3 body, 4 blocking lock, 5 body, 6 end.
    `dtor`: 0 begin, 1 lock queue k, 2 body, 3 join + end. -/
def clientStep (cfg : Config) (s : St) (t : Nat) : Option (Lbl × St) :=
  let th := getThr s t
  match (cfg.scripts.getD t [])[th.ip]? with
  | none => none
  | some op =>
    let fin (s : St) : St := setThr s t ⟨th.ip + 1, 0, 0, 0⟩
    match op, th.pc with
    | .enq i, 0 => some (ev t s!"enq{i}.begin", setThr s t { th with pc := 1 })
    | .enq _, 1 => some (tau t, setThr { s with next := s.next + 1 } t { th with pc := 2, k := 0, start := s.next % cfg.k })
    | .enq _, 2 =>
      let qi := (th.start + th.k) % cfg.k
      let q := getQ s qi
      if q.owner = 0 then some (tau t, setThr (setQ s qi { q with owner := t + 1 }) t { th with pc := 3 })
      else if th.k + 1 < cfg.k then some (tau t, setThr s t { th with k := th.k + 1 })
      else some (tau t, setThr s t { th with pc := 4 })
    | .enq i, 3 => some (tau t, setThr (pushBody s ((th.start + th.k) % cfg.k) i) t { th with pc := 6 })
    | .enq _, 4 =>
      let q := getQ s th.start
      if q.owner = 0 then some (tau t, setThr (setQ s th.start { q with owner := t + 1 }) t { th with pc := 5 }) else none
    | .enq i, 5 => some (tau t, setThr (pushBody s th.start i) t { th with pc := 6 })
    | .enq i, _ => some (ev t s!"enq{i}.end", fin s)
    | .waitAll, _ => if othersDone cfg s t then some (tau t, fin s) else none
    | .waitRan i, _ => if s.ran.contains i then some (tau t, fin s) else none
    | .dtor, 0 => some (ev t "dtor.begin", setThr s t { th with pc := 1, k := 0 })
    | .dtor, 1 =>
      let q := getQ s th.k
      if q.owner = 0 then some (tau t, setThr (setQ s th.k { q with owner := t + 1 }) t { th with pc := 2 }) else none
    | .dtor, 2 =>
      let q := getQ s th.k
      let q' := { q with stop := true, owner := 0, sig := if q.waiting then true else q.sig }
      some (tau t, setThr (setQ s th.k q') t (if th.k + 1 < cfg.k then { th with pc := 1, k := th.k + 1 } else { th with pc := 3 }))
    | .dtor, _ => if workersExited cfg s then some (ev t "dtor.end", fin s) else none

def stepThr (cfg : Config) (s : St) (t : Nat) : Option (Lbl × St) :=
  if isWorker cfg t then workerStep cfg s t else clientStep cfg s t

def sys (cfg : Config) : LSys St Lbl where
  init := init cfg
  next s := (List.range s.thrs.length).filterMap (fun t => stepThr cfg s t)

def obsOf (l : Lbl) : Option String := l.2.map (fun txt => s!"T{l.1} {txt}")

def final (cfg : Config) (s : St) : Bool :=
  (List.range s.thrs.length).all (fun u => thrDone cfg s u)

def nEnq (cfg : Config) : Nat :=
  (cfg.scripts.flatMap id).countP (fun o => match o with | .enq _ => true | _ => false)

/-- tasks popped by a worker and not yet completed -/
def inHand (cfg : Config) (s : St) : List Nat :=
  (List.range cfg.k).filterMap (fun i => let th := getThr s (cfg.base + i); if th.pc = 6 then some th.start else none)

def pending (s : St) : List Nat := s.qs.flatMap (·.items)

def safe (cfg : Config) (s : St) : Bool :=
  let live := s.ran ++ inHand cfg s ++ pending s
  -- nothing duplicated, nothing dropped: accepted = completed ⊎ being executed ⊎ pending
  s.acc.Nodup && live.Nodup && decide (live.length = s.acc.length) && s.acc.all (· ∈ live) &&
  -- per-queue FIFO is by construction; no lost wake-up: a parked, un-notified worker has nothing to do
  (List.range cfg.k).all (fun i => let q := getQ s i; !(q.waiting && !q.sig) || (q.items.isEmpty && !q.stop)) &&
  -- a worker returns only when its own queue is empty and stopped … and then nothing is pending in it
  -- as long as nobody pushes after the stop (allRun configurations)
  (!cfg.allRun || (List.range cfg.k).all (fun i => (getThr s (cfg.base + i)).pc ≠ 9 || ((getQ s i).stop && (getQ s i).items.isEmpty))) &&
  ((sys cfg).next s |>.isEmpty |> fun dead => !dead || final cfg s) &&
  (!final cfg s || !cfg.allRun || decide (s.ran.length = nEnq cfg))

/-! ### coding (untrusted) -/

def b2n (b : Bool) : Nat := if b then 1 else 0

def encSt (s : St) : List Nat :=
  [s.next, s.qs.length] ++ s.qs.flatMap (fun q => [b2n q.stop, q.owner, b2n q.waiting, b2n q.sig, q.items.length] ++ q.items) ++
  [s.acc.length] ++ s.acc ++ [s.ran.length] ++ s.ran ++
  [s.thrs.length] ++ s.thrs.flatMap (fun t => [t.ip, t.pc, t.k, t.start])

def decQs : Nat → List Nat → List Q × List Nat
  | 0, r => ([], r)
  | n+1, a :: b :: c :: d :: len :: r =>
    let (qs, r') := decQs n (r.drop len)
    (⟨r.take len, a == 1, b, c == 1, d == 1⟩ :: qs, r')
  | _, r => ([], r)

def decThrs : Nat → List Nat → List Thr
  | 0, _ => []
  | n+1, a :: b :: c :: d :: r => ⟨a, b, c, d⟩ :: decThrs n r
  | _, _ => []

def decSt (l : List Nat) : St :=
  let bad : St := ⟨[], 99, [], [], []⟩
  match l with
  | nx :: nq :: r =>
    let (qs, r1) := decQs nq r
    match r1 with
    | al :: r2 =>
      match r2.drop al with
      | rl :: r3 =>
        match r3.drop rl with
        | tl :: r4 => ⟨qs, nx, decThrs tl r4, r2.take al, r3.take rl⟩
        | _ => bad
      | _ => bad
    | _ => bad
  | _ => bad

def coded : Coded St :=
  { enc := fun s => packNats 16 (encSt s), dec := fun n => decSt (unpackNats 16 120 n), M := 2039, W := 400 }

/-! ### configurations (mirrored by harness/rt/scn_c06.cpp) -/

/-- one pool thread (T1), T0 enqueues two items and destroys the pool -/
def cfgPool1 : Config := ⟨1, 1, [[.enq 0, .enq 1, .dtor], []], true⟩
/-- two pool threads (T1, T2), T0 enqueues one item and destroys the pool -/
def cfgPool2a : Config := ⟨2, 1, [[.enq 0, .dtor], [], []], true⟩
/-- two pool threads, T0 two items -/
def cfgPool2b : Config := ⟨2, 1, [[.enq 0, .enq 1, .dtor], [], []], true⟩
/-- two pool threads, a producer T3 with one item, T0 one item, join, destroy -/
def cfgPool2c : Config := ⟨2, 1, [[.enq 0, .waitAll, .dtor], [], [], [.enq 1]], true⟩

/-- the client waits for each item's completion before it goes on (a lost wake-up is a deadlock) -/
def cfgPool1Wait : Config := ⟨1, 1, [[.enq 0, .waitRan 0, .enq 1, .waitRan 1, .dtor], []], true⟩
def cfgPool2Wait : Config := ⟨2, 1, [[.enq 0, .waitRan 0, .enq 1, .waitRan 1, .dtor], [], []], true⟩

def configs : List (String × Config) :=
  [("pool_1_wait", cfgPool1Wait), ("pool_2_wait", cfgPool2Wait), ("pool_1", cfgPool1), ("pool_2a", cfgPool2a), ("pool_2b", cfgPool2b), ("pool_2c", cfgPool2c)]

end Unifex.Proto.ThreadPool
