/-
  Proto/StopSource.lean — atomic-step model of `inplace_stop_source` / `inplace_stop_callback`
  (include/unifex/inplace_stop_token.hpp, source/inplace_stop_token.cpp).

  One step = one atomic operation on `state_` (lock acquisition by CAS, unlock by store, the
  `callbackCompleted_` store/load) or the plain-memory work done between two such operations by
  the thread that holds the spin lock.  A thread that would spin (lock held by somebody else,
  `callbackCompleted_` still false) is *disabled*, so a spin-wait that can never finish shows up
  as a deadlock.  Client programs are part of the configuration: each thread runs a script of
  register / deregister / request_stop calls, each callback has a body that may deregister itself
  or the other callback from inside the callback.  History variables (`runs`, `freed`, `bad`, …)
  record what the property talks about.

  Observable labels are the strings the C++ scenario prints (harness/rt/scn_c03.cpp).
-/
import UnifexModel.Core.Reflect

namespace Unifex.Proto.StopSource
open Unifex.Core

inductive Body | none | deregSelf | deregOther
  deriving DecidableEq, Repr

inductive Op
  | reg (i : Nat) | dereg (i : Nat) | deregIfLive (i : Nat) | stop | waitAll
  | waitReg (i : Nat)    -- block until the registration of callback i has returned
  deriving DecidableEq, Repr

structure Config where
  scripts : List (List Op)
  bodies : List Body

/-- frame kinds: 0 = register, 1 = deregister, 2 = request_stop, 3 = callback body -/
structure Frame where
  kind : Nat
  arg : Nat
  pc : Nat
  deriving DecidableEq, Repr

structure Cb where
  inList : Bool        -- prevPtr_ != nullptr
  completed : Bool     -- callbackCompleted_
  srcNull : Bool       -- source_ == nullptr (executed inline at registration)
  remPtr : Bool        -- removedDuringCallback_ != nullptr
  remFlag : Bool       -- the notifier's local `removedDuringCallback`
  runs : Nat           -- history: number of invocations
  runner : Nat         -- history: 0 = not running, t+1 = running on thread t
  freed : Bool         -- history: the destructor has returned
  sawStop : Bool       -- history: stop was requested while this callback was registered
  unlinked : Bool      -- history: its deregistration removed it from the list before any notifier took it
  regd : Bool          -- history: its registration (constructor) has returned
  deriving DecidableEq, Repr

structure Thr where
  ip : Nat
  stack : List Frame
  deriving DecidableEq, Repr

structure St where
  stopReq : Bool
  locked : Bool
  list : List Nat      -- callbacks_, head first
  notifier : Nat       -- notifyingThreadId_: 0 = none, t+1
  cbs : List Cb
  thrs : List Thr
  firsts : Nat         -- history: request_stop calls that returned "I was first"
  stopsEnded : Nat     -- history: request_stop calls that have returned
  bad : Nat            -- history: 0 ok, 1 use of a freed callback object, 2 callback invoked after
                       -- its deregistration returned, 3 deregistration returned to another thread
                       -- while the callback was running
  deriving DecidableEq, Repr

def Cb.init : Cb := ⟨false, false, false, false, false, 0, 0, false, false, false, false⟩

def init (cfg : Config) : St :=
  { stopReq := false, locked := false, list := [], notifier := 0,
    cbs := cfg.bodies.map (fun _ => Cb.init),
    thrs := cfg.scripts.map (fun _ => ⟨0, []⟩),
    firsts := 0, stopsEnded := 0, bad := 0 }

def getCb (s : St) (i : Nat) : Cb := s.cbs.getD i Cb.init
def setCb (s : St) (i : Nat) (c : Cb) : St := { s with cbs := s.cbs.set i c }
def getThr (s : St) (t : Nat) : Thr := s.thrs.getD t ⟨0, []⟩
def setThr (s : St) (t : Nat) (x : Thr) : St := { s with thrs := s.thrs.set t x }

/-- replace the top frame's pc -/
def goto (s : St) (t : Nat) (pc : Nat) : St :=
  let th := getThr s t
  match th.stack with
  | [] => s
  | f :: fs => setThr s t { th with stack := { f with pc := pc } :: fs }
def push (s : St) (t : Nat) (f : Frame) : St :=
  let th := getThr s t
  setThr s t { th with stack := f :: th.stack }
def pop (s : St) (t : Nat) : St :=
  let th := getThr s t
  setThr s t { th with stack := th.stack.tail }

/-- touching the memory of callback `i` (sets `bad` if it has been freed) -/
def touch (s : St) (i : Nat) : St := if (getCb s i).freed && s.bad = 0 then { s with bad := 1 } else s

def allOthersDone (cfg : Config) (s : St) (t : Nat) : Bool :=
  (List.range s.thrs.length).all (fun u =>
    u = t || ((getThr s u).stack.isEmpty && (getThr s u).ip ≥ (cfg.scripts.getD u []).length))

abbrev Lbl := Nat × Option String

def ev (t : Nat) (txt : String) : Lbl := (t, some txt)
def tau (t : Nat) : Lbl := (t, none)

/-- One step of thread `t`; `none` = disabled (spinning or finished). -/
def stepThr (cfg : Config) (s : St) (t : Nat) : Option (Lbl × St) :=
  let th := getThr s t
  match th.stack with
  | [] =>
    -- fetch the next call of the script
    match (cfg.scripts.getD t [])[th.ip]? with
    | none => none
    | some op =>
      let s1 := setThr s t { th with ip := th.ip + 1 }
      match op with
      | .reg i => some (ev t s!"reg{i}.begin", push s1 t ⟨0, i, 1⟩)
      | .dereg i => some (ev t s!"dereg{i}.begin", push s1 t ⟨1, i, 0⟩)
      | .deregIfLive i =>
        if (getCb s i).freed then some (tau t, s1)
        else some (ev t s!"dereg{i}.begin", push s1 t ⟨1, i, 0⟩)
      | .stop => some (ev t "stop.begin", push s1 t ⟨2, 0, 1⟩)
      | .waitAll => if allOthersDone cfg s t then some (tau t, s1) else none
      | .waitReg i => if (getCb s i).regd then some (tau t, s1) else none
  | f :: _ =>
    let i := f.arg
    let c := getCb s i
    match f.kind, f.pc with
    -- ---------------- register(i): constructor of inplace_stop_callback
    | 0, 1 =>  -- try_lock_unless_stop_requested(false)
      if s.stopReq then
        -- not registered: source_ = nullptr; execute inline
        let s1 := setCb s i { c with srcNull := true, sawStop := true }
        some (tau t, push (goto s1 t 4) t ⟨3, i, 0⟩)
      else if !s.locked then some (tau t, goto { s with locked := true } t 2)
      else none
    | 0, 2 =>  -- link at the head of callbacks_
      let s1 := setCb s i { c with inList := true }
      some (tau t, goto { s1 with list := i :: s1.list } t 3)
    | 0, 3 => some (tau t, goto { s with locked := false } t 4)   -- unlock(0)
    | 0, 4 => some (ev t s!"reg{i}.end", pop (setCb s i { c with regd := true }) t)
    -- ---------------- deregister(i): destructor of inplace_stop_callback
    | 1, 0 =>
      if c.srcNull then some (tau t, goto s t 9)
      else some (tau t, goto s t 1)
    | 1, 1 => if !s.locked then some (tau t, goto { s with locked := true } t 2) else none   -- lock()
    | 1, 2 =>
      if c.inList then
        let s1 := setCb (touch s i) i { c with inList := false, unlinked := true }
        some (tau t, goto { s1 with list := s1.list.erase i } t 3)
      else some (tau t, goto (touch s i) t 4)
    | 1, 3 => some (tau t, goto { s with locked := false } t 9)   -- unlock; done
    | 1, 4 => some (tau t, goto { s with locked := false } t 5)   -- unlock; callback executed/executing
    | 1, 5 =>
      if s.notifier = t + 1 then
        -- deregistering from inside the notifying thread: tell the notifier not to touch us again
        let s1 := touch s i
        let s2 := if c.remPtr then setCb s1 i { c with remFlag := true } else s1
        some (tau t, goto s2 t 9)
      else some (tau t, goto s t 6)
    | 1, 6 =>  -- spin until callbackCompleted_
      if c.completed then some (tau t, goto (touch s i) t 9) else none
    | 1, 9 =>
      let foreignRunning := c.runner ≠ 0 && c.runner ≠ t + 1
      let s1 := if foreignRunning && s.bad = 0 then { s with bad := 3 } else s
      some (ev t s!"dereg{i}.end", pop (setCb s1 i { c with freed := true }) t)
    -- ---------------- request_stop()
    | 2, 1 =>  -- try_lock_unless_stop_requested(true)
      if s.stopReq then some (tau t, goto s t 8)       -- returns true: somebody else was first
      else if !s.locked then
        let cbs' := s.cbs.map (fun (c : Cb) => if c.inList then { c with sawStop := true } else c)
        some (tau t, goto { s with locked := true, stopReq := true, cbs := cbs' } t 2)
      else none
    | 2, 2 => some (tau t, goto { s with notifier := t + 1 } t 3)
    | 2, 3 =>  -- holding the lock: next callback or finish
      match s.list with
      | [] => some (tau t, goto { s with locked := false, firsts := s.firsts + 1 } t 9)
      | j :: rest =>
        let cj := getCb s j
        let s1 := setCb (touch s j) j { cj with inList := false }
        let th1 := getThr s1 t
        -- remember the callback being executed in the frame's arg
        let s2 := setThr s1 t { th1 with stack := (⟨2, j, 4⟩ : Frame) :: th1.stack.tail }
        some (tau t, { s2 with list := rest })
    | 2, 4 => some (tau t, goto { s with locked := false } t 5)   -- unlock()
    | 2, 5 =>  -- removedDuringCallback = false; callback->removedDuringCallback_ = &…; execute()
      let s1 := setCb (touch s i) i { c with remPtr := true, remFlag := false }
      some (tau t, push (goto s1 t 6) t ⟨3, i, 0⟩)
    | 2, 6 =>
      if !c.remFlag then
        let s1 := setCb (touch s i) i { c with remPtr := false, completed := true }
        some (tau t, goto s1 t 7)
      else some (tau t, goto s t 7)
    | 2, 7 => if !s.locked then some (tau t, goto { s with locked := true } t 3) else none   -- lock()
    | 2, 8 => some (ev t "stop.end already", pop { s with stopsEnded := s.stopsEnded + 1 } t)
    | 2, 9 => some (ev t "stop.end first", pop { s with stopsEnded := s.stopsEnded + 1 } t)
    -- ---------------- the callback body
    | 3, 0 =>
      let s0 := if c.freed && s.bad = 0 then { s with bad := 2 } else s
      let s1 := setCb s0 i { c with runs := c.runs + 1, runner := t + 1 }
      some (ev t s!"cb{i}.run", goto s1 t 1)
    | 3, 1 =>
      match cfg.bodies.getD i .none with
      | .none => some (tau t, goto s t 2)
      | .deregSelf => some (ev t s!"dereg{i}.begin", push (goto s t 2) t ⟨1, i, 0⟩)
      | .deregOther =>
        if (getCb s (1 - i)).freed then some (tau t, goto s t 2)
        else some (ev t s!"dereg{1 - i}.begin", push (goto s t 2) t ⟨1, 1 - i, 0⟩)
    | 3, 2 =>
      let c' := getCb s i
      some (ev t s!"cb{i}.ret", pop (setCb s i { c' with runner := 0 }) t)
    | _, _ => none

def sys (cfg : Config) : LSys St Lbl where
  init := init cfg
  next s := (List.range s.thrs.length).filterMap (fun t => stepThr cfg s t)

def obsOf (l : Lbl) : Option String := l.2.map (fun txt => s!"T{l.1} {txt}")

/-- every thread has run its script to the end -/
def final (cfg : Config) (s : St) : Bool :=
  (List.range s.thrs.length).all (fun u =>
    (getThr s u).stack.isEmpty && (getThr s u).ip ≥ (cfg.scripts.getD u []).length)

/-- The property, as a predicate on states (history variables make it a state predicate):
    * no use of a freed callback, no invocation after deregistration returned, no deregistration
      returning to a foreign thread while the callback runs (`bad = 0`);
    * every callback runs at most once;
    * at most one request_stop call observes that it was first, and if any call has returned then
      exactly one did … once all have returned;
    * `stopReq` is monotone by construction (no step clears it) — see `stopReq_monotone`;
    * no deadlock: a state with no enabled step is final (covers self-deregistration);
    * at the end: a callback ran (once) iff stop was requested while it was registered and its
      deregistration did not take it off the list before the notifier reached it. -/
def safe (cfg : Config) (s : St) : Bool :=
  s.bad = 0 &&
  s.cbs.all (fun c => c.runs ≤ 1) &&
  s.firsts ≤ 1 &&
  ((sys cfg).next s |>.isEmpty |> fun dead => !dead || final cfg s) &&
  (!final cfg s ||
    (s.cbs.all (fun c => decide (c.runs = 1) == (c.sawStop && !c.unlinked)) &&
     (s.stopsEnded = 0 || s.firsts = 1)))

/-! ### coding (untrusted; checked on the fly by `checkClosed`) -/

def b2n (b : Bool) : Nat := if b then 1 else 0

def encFrame (f : Frame) : List Nat := [f.kind, f.arg, f.pc]
def encCb (c : Cb) : List Nat :=
  [b2n c.inList, b2n c.completed, b2n c.srcNull, b2n c.remPtr, b2n c.remFlag, c.runs, c.runner, b2n c.freed, b2n c.sawStop, b2n c.unlinked, b2n c.regd]
def encThr (t : Thr) : List Nat := t.ip :: t.stack.length :: t.stack.flatMap encFrame

def encSt (s : St) : List Nat :=
  [b2n s.stopReq, b2n s.locked, s.notifier, s.firsts, s.stopsEnded, s.bad, s.list.length] ++ s.list ++
  [s.cbs.length] ++ s.cbs.flatMap encCb ++ [s.thrs.length] ++ s.thrs.flatMap encThr

def decFrames : Nat → List Nat → List Frame × List Nat
  | 0, r => ([], r)
  | n+1, k :: a :: p :: r => let (fs, r') := decFrames n r; (⟨k, a, p⟩ :: fs, r')
  | _, r => ([], r)

def decCbs : Nat → List Nat → List Cb × List Nat
  | 0, r => ([], r)
  | n+1, a :: b :: c :: d :: e :: f :: g :: h :: i :: j :: k :: r =>
    let (cs, r') := decCbs n r
    (⟨a == 1, b == 1, c == 1, d == 1, e == 1, f, g, h == 1, i == 1, j == 1, k == 1⟩ :: cs, r')
  | _, r => ([], r)

def decThrs : Nat → List Nat → List Thr × List Nat
  | 0, r => ([], r)
  | n+1, ip :: len :: r =>
    let (fs, r1) := decFrames len r
    let (ts, r2) := decThrs n r1
    (⟨ip, fs⟩ :: ts, r2)
  | _, r => ([], r)

def decSt (l : List Nat) : St :=
  match l with
  | sr :: lk :: nt :: fi :: se :: bd :: ll :: r =>
    let lst := r.take ll
    let r1 := r.drop ll
    match r1 with
    | nc :: r2 =>
      let (cbs, r3) := decCbs nc r2
      match r3 with
      | ntm :: r4 =>
        let (ths, _) := decThrs ntm r4
        ⟨sr == 1, lk == 1, lst, nt, cbs, ths, fi, se, bd⟩
      | _ => ⟨false, false, [], 0, [], [], 0, 0, 99⟩
    | _ => ⟨false, false, [], 0, [], [], 0, 0, 99⟩
  | _ => ⟨false, false, [], 0, [], [], 0, 0, 99⟩

def coded : Coded St := { enc := fun s => packNats 16 (encSt s), dec := fun n => decSt (unpackNats 16 200 n), M := 16381, W := 420 }

/-! ### the scenario configurations (mirrored one-to-one by harness/rt/scn_c03.cpp) -/

/-- T1 registers and deregisters cb0 while T2 requests stop. -/
def cfgRace : Config := ⟨[[.waitAll], [.reg 0, .dereg 0], [.stop]], [.none]⟩
/-- two concurrent request_stop callers; T0 owns a registration across both. -/
def cfgTwoStops : Config := ⟨[[.reg 0, .waitAll, .dereg 0], [.stop], [.stop]], [.none]⟩
/-- the callback destroys its own registration (T1 registered it); T0 cleans up if it never ran. -/
def cfgSelfDereg : Config := ⟨[[.waitAll, .deregIfLive 0], [.reg 0], [.stop]], [.deregSelf]⟩
/-- cb0's body destroys cb1's registration; both registered by T1; T2 requests stop. -/
def cfgDeregOther : Config :=
  ⟨[[.waitAll, .deregIfLive 0, .deregIfLive 1], [.reg 1, .reg 0], [.stop]], [.deregOther, .none]⟩
/-- registration after / concurrently with the stop request: inline execution. -/
def cfgRegAfterStop : Config := ⟨[[.waitAll], [.stop], [.reg 0, .dereg 0]], [.none]⟩
/-- two callbacks owned by two threads, one requester (cb1 is cleaned up by T0 at the end). -/
def cfgTwoOwners : Config := ⟨[[.stop, .waitAll, .deregIfLive 1], [.reg 0, .dereg 0], [.reg 1]], [.none, .none]⟩

/-- a second, late request_stop() caller arrives while the first is inside the callback, and then
    deregisters that callback (it must wait for the callback to finish) -/
def cfgLateStopDereg : Config := ⟨[[.reg 0, .waitAll], [.waitReg 0, .stop], [.waitReg 0, .stop, .dereg 0]], [.none]⟩
/-- two request_stop() callers and a callback that destroys its own registration -/
def cfgLateStopSelfDereg : Config := ⟨[[.reg 0, .waitAll, .deregIfLive 0], [.waitReg 0, .stop], [.waitReg 0, .stop]], [.deregSelf]⟩

def configs : List (String × Config) :=
  [("race", cfgRace), ("two_stops", cfgTwoStops), ("self_dereg", cfgSelfDereg),
   ("dereg_other", cfgDeregOther), ("reg_after_stop", cfgRegAfterStop), ("two_owners", cfgTwoOwners),
   ("late_stop_dereg", cfgLateStopDereg), ("late_stop_self_dereg", cfgLateStopSelfDereg)]

end Unifex.Proto.StopSource
