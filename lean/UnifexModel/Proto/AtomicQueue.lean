/-
  Proto/AtomicQueue.lean — atomic-step model of `atomic_intrusive_queue`
  (include/unifex/detail/atomic_intrusive_queue.hpp) used the way the I/O contexts use it: many
  producers, ONE consumer that marks itself inactive before it goes to sleep; the producer whose
  enqueue finds the queue inactive is told so (return value) and has to wake the consumer.

  `head_` is one atomic word: the sentinel "inactive" (`&head_` in the code), or a pointer to the
  most recently enqueued item whose `next` chain is the rest (`nullptr` = empty).  The chain below
  the top pointer only changes when the consumer takes everything (`exchange(nullptr)`), so `head_`
  is modelled as `inactive | list l` (`l` = most recent first) and a CAS compares the TOP pointer
  only, exactly like the code (a successful CAS pushes onto the CURRENT chain).

  One step = one atomic operation (`load`, `compare_exchange`, `exchange`) or one observable
  call/return.  A failed CAS reloads the expected value and retries (the code's `do … while`).
    enqueue(i):                 load; CAS loop pushing i; returns "was inactive"
    enqueue_or_mark_active(i):  load; CAS loop: inactive → nullptr (item NOT enqueued, returns false)
                                otherwise push (returns true)
    try_mark_inactive():        load; if nullptr: CAS nullptr → inactive
    try_mark_inactive_or_dequeue_all(): try_mark_inactive, else exchange(nullptr), reversed
    dequeue_all():              load; if non-null: exchange(nullptr), reversed
  The wake-up channel (an eventfd in the I/O contexts, an atomic counter in the harness) is the
  counter `wake`: a told producer increments it in a SEPARATE later step, the sleeping consumer
  is disabled while it is 0 — so a lost wake-up is a deadlock.

  History: `enqd` (items in the order of their successful push), `deq` (items in the order the
  consumer received them), `direct` (items whose enqueue_or_mark_active returned false: handled by
  the caller), counters `told` (inactive→active transitions reported to a caller), `inact`
  (successful mark-inactive), `sigs` (wake-ups sent), `woke` (wake-ups consumed).
-/
import UnifexModel.Core.Reflect

namespace Unifex.Proto.AtomicQueue
open Unifex.Core

inductive Head
  | inactive
  | list (l : List Nat)
  deriving DecidableEq, Repr

/-- the pointer value a load/CAS sees: 0 = nullptr, 1 = the inactive sentinel, k+2 = item k -/
def Head.top : Head → Nat
  | .inactive => 1
  | .list [] => 0
  | .list (k :: _) => k + 2

def Head.items : Head → List Nat
  | .inactive => []
  | .list l => l

inductive POp
  | enq (i : Nat)     -- enqueue(i); wake the consumer if told
  | eoma (i : Nat)    -- enqueue_or_mark_active(i); on `false` handle i directly and wake the consumer
  deriving DecidableEq, Repr

structure Config where
  /-- producer scripts by thread id; entry 0 (the consumer, T0) is `[]` -/
  scripts : List (List POp)
  /-- consumer loop: 0 = `try_mark_inactive_or_dequeue_all`, 1 = `dequeue_all` then `try_mark_inactive` -/
  kind : Nat
  /-- the consumer stops once this many items were received or handled directly -/
  total : Nat
  /-- constructed with `initiallyActive = false` and the consumer asleep -/
  initInactive : Bool

structure Thr where
  ip : Nat
  pc : Nat
  old : Nat        -- the local `oldValue`
  told : Bool      -- the return value said: you made the inactive→active transition
  deriving DecidableEq, Repr

structure St where
  head : Head
  wake : Nat
  cpc : Nat               -- consumer program counter
  batch : List Nat        -- consumer local: the queue just dequeued
  thrs : List Thr
  enqd : List Nat
  deq : List Nat
  direct : List Nat
  told : Nat
  inact : Nat
  sigs : Nat
  woke : Nat
  bad : Nat               -- 5 = exchange hit the inactive sentinel, 6 = exchange returned nullptr
  deriving DecidableEq, Repr

/-- consumer pcs -/
def cLoop := 0
def cTmiLoad := 1
def cTmiCas := 2
def cSleepObs := 3
def cXchg := 4
def cSleep := 5
def cGotObs := 6
def cWokenObs := 7
def cDone := 8
def cDqLoad := 9

def init (cfg : Config) : St :=
  { head := if cfg.initInactive then .inactive else .list [], wake := 0,
    cpc := if cfg.initInactive then cSleep else cLoop, batch := [],
    thrs := cfg.scripts.map (fun _ => ⟨0, 0, 0, false⟩),
    enqd := [], deq := [], direct := [], told := 0, inact := 0, sigs := 0, woke := 0, bad := 0 }

def getThr (s : St) (t : Nat) : Thr := s.thrs.getD t ⟨0, 0, 0, false⟩
def setThr (s : St) (t : Nat) (x : Thr) : St := { s with thrs := s.thrs.set t x }

/-! ### effects of the successful read-modify-write operations on the shared word -/

/-- successful CAS of `enqueue(i)` -/
def pushEnq (i : Nat) (s : St) : St :=
  match s.head with
  | .inactive => { s with head := .list [i], enqd := s.enqd ++ [i], told := s.told + 1 }
  | .list l => { s with head := .list (i :: l), enqd := s.enqd ++ [i] }

/-- successful CAS of `enqueue_or_mark_active(i)` -/
def pushEoma (i : Nat) (s : St) : St :=
  match s.head with
  | .inactive => { s with head := .list [], direct := s.direct ++ [i], told := s.told + 1 }
  | .list l => { s with head := .list (i :: l), enqd := s.enqd ++ [i] }

/-- successful CAS nullptr → inactive -/
def markInactive (s : St) : St := { s with head := .inactive, inact := s.inact + 1 }

/-- `head_.exchange(nullptr)` by the consumer; the result reversed is the batch -/
def xchg (s : St) : St :=
  match s.head with
  | .inactive => { s with head := .list [], bad := if s.bad = 0 then 5 else s.bad }
  | .list [] => { s with bad := if s.bad = 0 then 6 else s.bad }
  | .list l => { s with head := .list [], batch := l.reverse }

def signal (s : St) : St := { s with wake := s.wake + 1, sigs := s.sigs + 1 }
def consumeWake (s : St) : St := { s with wake := s.wake - 1, woke := s.woke + 1 }
def takeBatch (s : St) : St := { s with deq := s.deq ++ s.batch, batch := [] }

abbrev Lbl := Nat × Option String
def ev (t : Nat) (txt : String) : Lbl := (t, some txt)
def tau (t : Nat) : Lbl := (t, none)

def showBatch (l : List Nat) : String := " ".intercalate (l.map toString)

def consumerStep (cfg : Config) (s : St) : Option (Lbl × St) :=
  let go (s : St) (pc : Nat) : St := { s with cpc := pc }
  match s.cpc with
  | 0 =>  -- loop head: enough received?
    if s.deq.length + s.direct.length ≥ cfg.total then some (ev 0 "c.done", go s cDone)
    else some (tau 0, go s (if cfg.kind = 0 then cTmiLoad else cDqLoad))
  | 1 =>  -- try_mark_inactive: load
    if s.head.top = 0 then some (tau 0, go s cTmiCas)
    else if cfg.kind = 0 then some (tau 0, go s cXchg) else some (tau 0, go s cLoop)
  | 2 =>  -- CAS(nullptr → inactive)
    if s.head.top = 0 then some (tau 0, go (markInactive s) cSleepObs)
    else if cfg.kind = 0 then some (tau 0, go s cXchg) else some (tau 0, go s cLoop)
  | 3 => some (ev 0 "c.sleep", go s cSleep)
  | 4 => some (tau 0, go (xchg s) cGotObs)
  | 5 => if s.wake > 0 then some (tau 0, go (consumeWake s) cWokenObs) else none
  | 6 => some (ev 0 s!"c.got {showBatch s.batch}", go (takeBatch s) cLoop)
  | 7 => some (ev 0 "c.woken", go s cLoop)
  | 9 =>  -- dequeue_all: load
    if s.head.top = 0 then some (tau 0, go s cTmiLoad) else some (tau 0, go s cXchg)
  | _ => none

def producerStep (cfg : Config) (s : St) (t : Nat) : Option (Lbl × St) :=
  let th := getThr s t
  match (cfg.scripts.getD t [])[th.ip]? with
  | none => none
  | some op =>
    let fin (s : St) : St := setThr s t ⟨th.ip + 1, 0, 0, false⟩
    match op, th.pc with
    | .enq i, 0 => some (ev t s!"enq{i}.begin", setThr s t { th with pc := 1 })
    | .enq _, 1 => some (tau t, setThr s t { th with pc := 2, old := s.head.top })
    | .enq i, 2 =>
      if s.head.top = th.old then
        some (tau t, setThr (pushEnq i s) t { th with pc := 3, told := decide (th.old = 1) })
      else some (tau t, setThr s t { th with old := s.head.top })
    | .enq i, 3 =>
      some (ev t s!"enq{i}.ret {if th.told then 1 else 0}",
            if th.told then setThr s t { th with pc := 4 } else fin s)
    | .enq _, _ => some (tau t, fin (signal s))
    | .eoma i, 0 => some (ev t s!"eoma{i}.begin", setThr s t { th with pc := 1 })
    | .eoma _, 1 => some (tau t, setThr s t { th with pc := 2, old := s.head.top })
    | .eoma i, 2 =>
      if s.head.top = th.old then
        some (tau t, setThr (pushEoma i s) t { th with pc := 3, told := decide (th.old = 1) })
      else some (tau t, setThr s t { th with old := s.head.top })
    | .eoma i, 3 =>
      -- the C++ return value is `oldValue != inactive`, i.e. "enqueued"
      some (ev t s!"eoma{i}.ret {if th.told then 0 else 1}",
            if th.told then setThr s t { th with pc := 4 } else fin s)
    | .eoma _, _ => some (tau t, fin (signal s))

def stepThr (cfg : Config) (s : St) (t : Nat) : Option (Lbl × St) :=
  if t = 0 then consumerStep cfg s else producerStep cfg s t

def sys (cfg : Config) : LSys St Lbl where
  init := init cfg
  next s := (List.range s.thrs.length).filterMap (fun t => stepThr cfg s t)

def obsOf (l : Lbl) : Option String := l.2.map (fun txt => s!"T{l.1} {txt}")

def final (cfg : Config) (s : St) : Bool :=
  s.cpc == cDone &&
  (List.range s.thrs.length).all (fun u => u = 0 || (getThr s u).ip ≥ (cfg.scripts.getD u []).length)

def b2n (b : Bool) : Nat := if b then 1 else 0

def allItems (cfg : Config) : List Nat :=
  (cfg.scripts.flatMap id).map (fun o => match o with | .enq i => i | .eoma i => i)

/-- The property as a state predicate (spelled out in `Props/C06_queue.lean`). -/
def safe (cfg : Config) (s : St) : Bool :=
  s.bad = 0 &&
  -- conservation, in order: pushed = received ++ (in the consumer's hands) ++ pending (oldest first)
  decide (s.enqd = s.deq ++ s.batch ++ s.head.items.reverse) &&
  (s.enqd ++ s.direct).Nodup &&
  -- the inactive→active transition is reported exactly once per inactive period
  decide (s.told + b2n (s.head == .inactive) = s.inact + b2n cfg.initInactive) &&
  -- no lost wake-up: consumer asleep but queue active ⇒ a wake-up is pending or a told producer
  -- has yet to send it
  (!(s.cpc == cSleep && s.head != .inactive) || decide (s.wake > 0 ∨ s.told > s.sigs)) &&
  ((sys cfg).next s |>.isEmpty |> fun dead => !dead || final cfg s) &&
  (!final cfg s || decide (s.deq.length + s.direct.length = cfg.total ∧
      ∀ i ∈ allItems cfg, i ∈ s.deq ++ s.direct))

/-! ### coding (untrusted) -/

def encSt (s : St) : List Nat :=
  (match s.head with | .inactive => [0] | .list l => (l.length + 1) :: l) ++
  [s.wake, s.cpc, s.told, s.inact, s.sigs, s.woke, s.bad] ++
  [s.batch.length] ++ s.batch ++ [s.enqd.length] ++ s.enqd ++ [s.deq.length] ++ s.deq ++
  [s.direct.length] ++ s.direct ++
  [s.thrs.length] ++ s.thrs.flatMap (fun t => [t.ip, t.pc, t.old, b2n t.told])

def decThrs : Nat → List Nat → List Thr
  | 0, _ => []
  | n+1, a :: b :: c :: d :: r => ⟨a, b, c, d == 1⟩ :: decThrs n r
  | _, _ => []

def takeList (l : List Nat) : List Nat × List Nat :=
  match l with
  | n :: r => (r.take n, r.drop n)
  | [] => ([], [])

def decSt (l : List Nat) : St :=
  let bad : St := ⟨.inactive, 0, 0, [], [], [], [], [], 0, 0, 0, 0, 99⟩
  match l with
  | h :: r =>
    let (hd, r0) := if h = 0 then (Head.inactive, r) else (Head.list (r.take (h - 1)), r.drop (h - 1))
    match r0 with
    | wk :: cp :: tl :: ia :: sg :: wo :: bd :: r1 =>
      let (ba, r2) := takeList r1
      let (en, r3) := takeList r2
      let (dq, r4) := takeList r3
      let (di, r5) := takeList r4
      match r5 with
      | nt :: r6 => ⟨hd, wk, cp, ba, decThrs nt r6, en, dq, di, tl, ia, sg, wo, bd⟩
      | _ => bad
    | _ => bad
  | _ => bad

def coded : Coded St :=
  { enc := fun s => packNats 16 (encSt s), dec := fun n => decSt (unpackNats 16 120 n), M := 2039, W := 400 }

/-! ### configurations (mirrored by harness/rt/scn_c06.cpp) -/

/-- two producers, one item each; consumer loops on try_mark_inactive_or_dequeue_all -/
def cfgAq2x1 : Config := ⟨[[], [.enq 0], [.enq 1]], 0, 2, false⟩
/-- one producer with two items -/
def cfgAq1x2 : Config := ⟨[[], [.enq 0, .enq 1]], 0, 2, false⟩
/-- consumer uses dequeue_all() and then try_mark_inactive() -/
def cfgAqDq : Config := ⟨[[], [.enq 0], [.enq 1]], 1, 2, false⟩
/-- queue constructed inactive, consumer asleep; one producer uses enqueue_or_mark_active -/
def cfgAqEoma : Config := ⟨[[], [.eoma 0], [.enq 1]], 0, 2, true⟩
/-- bigger one for the tie only -/
def cfgAq2x2 : Config := ⟨[[], [.enq 0, .enq 1], [.enq 2, .enq 3]], 0, 4, false⟩

def configs : List (String × Config) :=
  [("aq_2x1", cfgAq2x1), ("aq_1x2", cfgAq1x2), ("aq_dq", cfgAqDq), ("aq_eoma", cfgAqEoma), ("aq_2x2", cfgAq2x2)]

end Unifex.Proto.AtomicQueue
