/-
  Proto/AnyObject.lean — sequential model of `unifex::basic_any_object` (any_object.hpp,
  detail/any_heap_allocated_storage.hpp, detail/type_erasure_builtins.hpp) and, as the
  `unique := true` configuration, of `unifex::any_unique` (any_unique.hpp).

  Three wrapper variables (slots 0..2, `std::optional<wrapper>` in the harness) hold

      none       – the variable is not constructed (before construction / after destruction)
      inl id     – the wrapped object `id` lives in the inline buffer
      heap id a  – the inline buffer holds an `any_heap_allocated_storage` (any_unique: `impl_`)
                   pointing at the heap state that contains object `id`, allocated with allocator `a`
      heapNull   – heap storage whose pointer was moved away (`state_ == nullptr` / `impl_ == nullptr`)
      invalid    – `vtable_ = invalid_obj` : what a wrapper is left with when the move/conversion
                   inside an assignment threw (only reachable with RequireNoexceptMove = false or
                   with a throwing converting assignment)

  The wrapped objects are TRACKED payloads: every construction / move-construction / copy /
  destruction of a payload and every allocation / deallocation is an `Event`; the state's counters
  are *by definition* the fold of the emitted events (`St.record`), so the theorems about counters
  are theorems about what the C++ side observes.  `step : Cfg → St → Op → St × Out` is total; ops
  the real API makes impossible (constructing an engaged variable, using a destroyed one, invoking
  through a null/invalid wrapper, bad slot numbers) give `Res.bad` and change nothing.

  Every member function is a short sequence of PRIMITIVES (`Prim`, `compile`) that follows the body
  of the C++ function: e.g. `operator=(any_object&&)` = [clear i (leave invalid_obj), moveInto i j],
  `any_object(T&&)` = [mkTemp, emplaceFromTemp j, clear tmp] where pseudo-variable 3 (`tmp`) holds
  the caller's temporary payload.  All primitives run even if one throws (unwinding destroys the
  temporary); the op reports `threw` if any did.

  What the code does, clause by clause:
    * storage decision (`can_be_stored_inplace_v`): size ≤ padded size ∧ align ≤ padded alignment ∧
      (¬RequireNoexceptMove ∨ nothrow-move-constructible)            → `Cfg.inplace`
    * in-place construction builds the payload directly in the buffer / heap state; converting
      construction (`any_object(T&&)`) move-constructs it from the caller's temporary
    * heap construction: allocate, construct, (on throw: deallocate, rethrow)
    * `any_object(any_object&&)`: copies the vtable and runs the erased move-constructor: an inline
      payload is move-constructed (new object; the source keeps the moved-from remainder, destroyed
      with the source), heap storage transfers the pointer (source keeps nullptr)
    * `operator=(any_object&&)`: no-op on self; else destroy own content, (vtable := invalid_obj if
      ¬RequireNoexceptMove), move-construct from the source, take its vtable
    * `operator=(T&&)`: destroy own content, (vtable := invalid_obj if the construction may throw),
      construct from the value inline or on the heap with `DefaultAllocator`
    * any_unique: always heap; move = pointer transfer; `operator=(any_unique)` = transfer + swap +
      destroy old; `swap`
-/
namespace Unifex.Proto.AnyObject

/-- payload classes of the harness: small nothrow-move, small throwing-move, large, over-aligned -/
inductive Cls | sn | st | lg | oa
  deriving DecidableEq, Repr

def Cls.size : Cls → Nat | .sn => 8 | .st => 8 | .lg => 72 | .oa => 64
def Cls.align : Cls → Nat | .sn => 4 | .st => 4 | .lg => 4 | .oa => 64
def Cls.nothrowMove : Cls → Bool | .st => false | _ => true

/-- one instantiation of the wrapper template -/
structure Cfg where
  size : Nat            -- InlineSize
  align : Nat           -- InlineAlignment
  reqNoexcept : Bool    -- RequireNoexceptMove
  dflt : Nat            -- id of the DefaultAllocator (0 = global operator new/delete)
  unique : Bool         -- any_unique (always heap, has swap, no operator=(T&&))
  deriving Repr

/-- `can_be_stored_inplace_v<T>` (pointer-padded size and alignment) -/
def Cfg.inplace (cfg : Cfg) (c : Cls) : Bool :=
  !cfg.unique && decide (c.size ≤ max cfg.size 8) && decide (c.align ≤ max cfg.align 8) &&
    (!cfg.reqNoexcept || c.nothrowMove)

inductive Slot
  | none | inl (id : Nat) | heap (id : Nat) (a : Nat) | heapNull | invalid
  deriving DecidableEq, Repr

inductive Event
  | ctor (id : Nat) (c : Cls) (v : Nat)   -- payload constructed from a value
  | move (new src : Nat)                  -- payload `new` move-constructed from `src`
  | copy (new src : Nat)                  -- payload `new` copy-constructed from `src` (never emitted)
  | dtor (id : Nat)
  | al (a : Nat) | de (a : Nat)           -- allocation / deallocation through allocator `a`
  deriving DecidableEq, Repr

inductive Mode
  | inplace | conv | allocIn (a : Nat) | allocConv (a : Nat)
  deriving DecidableEq, Repr

inductive Op
  | ctor (j : Nat) (c : Cls) (v : Nat) (m : Mode)   -- slot j := wrapper(fresh payload of class c, value v)
  | moveCtor (j i : Nat)                            -- slot j := wrapper(std::move(slot i))
  | moveAssign (i j : Nat)                          -- slot i = std::move(slot j)
  | assignValue (i : Nat) (c : Cls) (v : Nat)       -- slot i = Payload(v)            (any_object only)
  | swap (i j : Nat)                                -- swap(slot i, slot j)            (any_unique only)
  | invoke (i : Nat)                                -- get_val(slot i)
  | invokeThrow (i : Nat)                           -- boom(slot i): the payload throws its value
  | destroy (i : Nat)                               -- slot i.~wrapper()
  | arm                                             -- the next move-construction of an `st` payload throws
  deriving DecidableEq, Repr

inductive Res | ok | val (v : Nat) | exc (v : Nat) | threw | bad
  deriving DecidableEq, Repr

structure Out where
  events : List Event
  res : Res
  deriving DecidableEq, Repr

def upd {α : Type} (f : Nat → α) (i : Nat) (v : α) : Nat → α := fun k => if k = i then v else f k

structure St where
  slot : Nat → Slot
  next : Nat              -- next payload id
  cls : Nat → Cls
  val : Nat → Nat         -- current value of payload id (0 once moved from)
  dcnt : Nat → Nat        -- how many times payload id was destroyed
  allocs : Nat → Nat      -- per allocator id: allocations made through it
  deallocs : Nat → Nat    -- per allocator id: deallocations made through it
  copies : Nat
  armed : Bool

def St.init : St :=
  { slot := fun _ => .none, next := 0, cls := fun _ => .sn, val := fun _ => 0, dcnt := fun _ => 0,
    allocs := fun _ => 0, deallocs := fun _ => 0, copies := 0, armed := false }

/-- the counters are the fold of the observable events -/
def St.record (s : St) : Event → St
  | .ctor id c v => { s with next := s.next + 1, cls := upd s.cls id c, val := upd s.val id v }
  | .move new src =>
    { s with next := s.next + 1, cls := upd s.cls new (s.cls src),
             val := upd (upd s.val new (s.val src)) src 0 }
  | .copy new src =>
    { s with next := s.next + 1, cls := upd s.cls new (s.cls src), val := upd s.val new (s.val src),
             copies := s.copies + 1 }
  | .dtor id => { s with dcnt := upd s.dcnt id (s.dcnt id + 1) }
  | .al a => { s with allocs := upd s.allocs a (s.allocs a + 1) }
  | .de a => { s with deallocs := upd s.deallocs a (s.deallocs a + 1) }

/-- the effect of one primitive action: what is emitted, the new wrapper variables, the result -/
structure Eff where
  evs : List Event
  slots : Nat → Slot
  res : Res
  armed : Bool

def St.apply (s : St) (e : Eff) : St × Out :=
  ({ (e.evs.foldl St.record s) with slot := e.slots, armed := e.armed }, ⟨e.evs, e.res⟩)

def St.bad (s : St) : Eff := ⟨[], s.slot, .bad, s.armed⟩

/-- what destroying a wrapper's content emits -/
def destroyEvs : Slot → List Event
  | .inl id => [.dtor id]
  | .heap id a => [.dtor id, .de a]
  | _ => []

/-- a wrapper (or raw storage) that owns no payload and no heap state -/
def Slot.hollow : Slot → Bool
  | .none => true
  | .heapNull => true
  | .invalid => true
  | _ => false

inductive MoveRes
  | done (evs : List Event) (dst srcAfter : Slot)
  | threw

/-- the erased move-constructor applied to a source wrapper's storage -/
def moveFrom (s : St) : Slot → MoveRes
  | .inl id =>
    if s.cls id = .st && s.armed then .threw
    else .done [.move s.next id] (.inl s.next) (.inl id)
  | .heap id a => .done [] (.heap id a) .heapNull
  | .heapNull => .done [] .heapNull .heapNull
  | .invalid => .done [] .invalid .invalid
  | .none => .done [] .none .none

def Mode.alloc (cfg : Cfg) : Mode → Nat
  | .allocIn a => a
  | .allocConv a => a
  | _ => cfg.dflt

def Mode.isConv : Mode → Bool
  | .conv => true
  | .allocConv _ => true
  | _ => false

/-- where a payload of class c constructed as object `id` with allocator `a` ends up -/
def Cfg.place (cfg : Cfg) (c : Cls) (id a : Nat) : Slot :=
  if cfg.inplace c then .inl id else .heap id a

/-- index of the pseudo-variable that holds the CALLER's temporary payload during a converting
    construction / assignment (`W w(Payload(v))`, `w = Payload(v)`); `none` between operations -/
abbrev tmp : Nat := 3

/-- The primitive actions the wrapper's member functions are composed of.  Every primitive checks
    its own precondition and does nothing (`Res.bad`) when it does not hold, so that each of them
    preserves the ownership invariant unconditionally (Proto/AnyObjectLemmas.lean). -/
inductive Prim
  | mkTemp (c : Cls) (v : Nat)               -- the caller constructs the temporary Payload(v)
  | clear (i : Nat) (inv : Bool)             -- destroy slot i's content; leave `invalid` (vtable_ = invalid_obj) or `none`
  | emplaceIn (j : Nat) (c : Cls) (v : Nat) (a : Nat)   -- construct a payload in place (inline or allocate+construct)
  | emplaceFromTemp (j : Nat) (a : Nat)      -- move-construct the temporary into slot j's storage (inline or heap)
  | moveInto (j i : Nat)                     -- erased move-constructor: slot j's storage from slot i
  | swap (i j : Nat)
  | arm
  deriving DecidableEq, Repr

def primEff (cfg : Cfg) (s : St) : Prim → Eff
  | .mkTemp c v =>
    if s.slot tmp = .none then ⟨[.ctor s.next c v], upd s.slot tmp (.inl s.next), .ok, s.armed⟩ else s.bad
  | .clear i inv =>
    if i < 4 then ⟨destroyEvs (s.slot i), upd s.slot i (if inv then .invalid else .none), .ok, s.armed⟩
    else s.bad
  | .emplaceIn j c v a =>
    if j < 3 && (s.slot j).hollow then
      ⟨(if cfg.inplace c then [] else [.al a]) ++ [.ctor s.next c v], upd s.slot j (cfg.place c s.next a), .ok, s.armed⟩
    else s.bad
  | .emplaceFromTemp j a =>
    match s.slot tmp with
    | .inl t =>
      if j < 3 && (s.slot j).hollow then
        if s.cls t = .st && s.armed then
          -- the payload's move constructor throws: heap storage is given back, the target keeps
          -- whatever (payload-less) state it had
          ⟨(if cfg.inplace (s.cls t) then [] else [.al a, .de a]), s.slot, .threw, false⟩
        else
          ⟨(if cfg.inplace (s.cls t) then [] else [.al a]) ++ [.move s.next t],
            upd s.slot j (cfg.place (s.cls t) s.next a), .ok, s.armed⟩
      else s.bad
    | _ => s.bad
  | .moveInto j i =>
    if j < 3 && i < 3 && i ≠ j && (s.slot j).hollow then
      match moveFrom s (s.slot i) with
      | .threw => ⟨[], s.slot, .threw, false⟩
      | .done evs d sa => ⟨evs, upd (upd s.slot i sa) j d, .ok, s.armed⟩
    else s.bad
  | .swap i j =>
    if i < 3 && j < 3 then ⟨[], upd (upd s.slot i (s.slot j)) j (s.slot i), .ok, s.armed⟩ else s.bad
  | .arm => ⟨[], s.slot, .ok, true⟩

/-- run primitives in order; all of them run even if one threw (the temporary is destroyed during
    unwinding); reports the concatenated events and whether any of them threw -/
def runPrims (cfg : Cfg) : St → List Prim → St × List Event × Bool
  | s, [] => (s, [], false)
  | s, p :: ps =>
    let r := s.apply (primEff cfg s p)
    let q := runPrims cfg r.1 ps
    (q.1, r.2.events ++ q.2.1, (r.2.res == .threw) || q.2.2)

def invokeEff (s : St) (i : Nat) (thr : Bool) : Eff :=
  match s.slot i with
  | .inl id => ⟨[], s.slot, if thr then .exc (s.val id) else .val (s.val id), s.armed⟩
  | .heap id _ => ⟨[], s.slot, if thr then .exc (s.val id) else .val (s.val id), s.armed⟩
  | _ => s.bad

def engaged (s : St) (i : Nat) : Bool := decide (i < 3) && (s.slot i != .none)
def vacant (s : St) (i : Nat) : Bool := decide (i < 3) && (s.slot i == .none)

/-- the member function called by an operation, as a sequence of primitives; `none` = the real API
    makes the call impossible (wrong variable state) -/
def compile (cfg : Cfg) (s : St) : Op → Option (List Prim)
  | .ctor j c v m =>
    if vacant s j then
      some (if m.isConv then [.mkTemp c v, .emplaceFromTemp j (m.alloc cfg), .clear tmp false]
            else [.emplaceIn j c v (m.alloc cfg)])
    else none
  | .moveCtor j i => if vacant s j && engaged s i then some [.moveInto j i] else none
  | .moveAssign i j =>
    if engaged s i && engaged s j then
      -- self-assignment is a no-op; else destroy, vtable_ = invalid_obj, move-construct
      some (if i = j then [] else [.clear i true, .moveInto i j])
    else none
  | .assignValue i c v =>
    if !cfg.unique && engaged s i then
      some [.mkTemp c v, .clear i true, .emplaceFromTemp i cfg.dflt, .clear tmp false]
    else none
  | .swap i j => if cfg.unique && engaged s i && engaged s j then some [.swap i j] else none
  | .destroy i => if engaged s i then some [.clear i false] else none
  | .arm => some [.arm]
  | .invoke _ => none
  | .invokeThrow _ => none

def step (cfg : Cfg) (s : St) (op : Op) : St × Out :=
  match op with
  | .invoke i => s.apply (if engaged s i then invokeEff s i false else s.bad)
  | .invokeThrow i => s.apply (if engaged s i then invokeEff s i true else s.bad)
  | op =>
    match compile cfg s op with
    | none => s.apply s.bad
    | some ps =>
      let q := runPrims cfg s ps
      (q.1, ⟨q.2.1, if q.2.2 then .threw else .ok⟩)

/-- run a whole sequence: final state and the per-op observations -/
def run (cfg : Cfg) : St → List Op → St × List Out
  | s, [] => (s, [])
  | s, op :: ops =>
    let (s1, o) := step cfg s op
    let (s2, os) := run cfg s1 ops
    (s2, o :: os)

/-- destroy whatever is still engaged (scope exit of the three variables, in order 0 1 2) -/
def cleanup : List Op := [.destroy 0, .destroy 1, .destroy 2]

/-- all events of a run, in order -/
def trace (outs : List Out) : List Event := outs.flatMap (·.events)

/-! ### the instantiations the harness builds (same names) -/

def cfgDflt : Cfg := ⟨24, 8, true, 0, false⟩     -- any_object_t<…>: 3 pointers, std::allocator
def cfgSmall : Cfg := ⟨8, 8, true, 1, false⟩     -- basic_any_object<8, 8, true, CountAlloc>
def cfgThrow : Cfg := ⟨16, 8, false, 1, false⟩   -- basic_any_object<16, 8, false, CountAlloc>
def cfgAl64 : Cfg := ⟨64, 64, true, 1, false⟩    -- basic_any_object<64, 64, true, CountAlloc>
def cfgTiny : Cfg := ⟨1, 1, true, 1, false⟩      -- basic_any_object<1, 1, true, CountAlloc>: padded to a pointer
def cfgWide : Cfg := ⟨64, 8, true, 1, false⟩     -- basic_any_object<64, 8, true, CountAlloc>: size fits oa, alignment does not
def cfgUnique : Cfg := ⟨0, 0, true, 0, true⟩     -- any_unique_t<…>

def configs : List (String × Cfg) :=
  [("dflt", cfgDflt), ("small", cfgSmall), ("throw", cfgThrow), ("al64", cfgAl64), ("tiny", cfgTiny),
   ("wide", cfgWide), ("unique", cfgUnique)]

end Unifex.Proto.AnyObject
