/-
  Proto/AnyObject.lean — sequential model of `unifex::basic_any_object` (any_object.hpp,
  detail/any_heap_allocated_storage.hpp, detail/type_erasure_builtins.hpp) and, as the
  `unique := true` configuration, of `unifex::any_unique` (any_unique.hpp).

  Three wrapper variables (slots 0..2, `std::optional<wrapper>` in the harness) hold

      none       – the variable is not constructed (before construction / after destruction)
      inl id     – the wrapped object `id` lives in the inline buffer
      heap id a  – the inline buffer holds an `any_heap_allocated_storage` (any_unique: `impl_`)
                   pointing at the heap state that contains object `id`, allocated with allocator `a`
      heapNull   – heap storage whose pointer was moved away (`state_ == nullptr` / `impl_ == nullptr`)
      invalid    – `vtable_ = invalid_obj` : what a wrapper is left with when the move/conversion
                   inside an assignment threw (only reachable with RequireNoexceptMove = false or
                   with a throwing converting assignment)

  The wrapped objects are TRACKED payloads: every construction / move-construction / copy /
  destruction of a payload and every allocation / deallocation is an `Event`; the state's counters
  are *by definition* the fold of the emitted events (`St.record`), so the theorems about counters
  are theorems about what the C++ side observes.  `step : Cfg → St → Op → St × Out` is total; ops
  the real API makes impossible (constructing an engaged variable, using a destroyed one, invoking
  through a null/invalid wrapper, bad slot numbers) give `Res.bad` and change nothing.

  What the code does, clause by clause:
    * storage decision (`can_be_stored_inplace_v`): size ≤ padded size ∧ align ≤ padded alignment ∧
      (¬RequireNoexceptMove ∨ nothrow-move-constructible)            → `Cfg.inplace`
    * in-place construction builds the payload directly in the buffer / heap state; converting
      construction (`any_object(T&&)`) move-constructs it from the caller's temporary
    * heap construction: allocate, construct, (on throw: deallocate, rethrow)
    * `any_object(any_object&&)`: copies the vtable and runs the erased move-constructor: an inline
      payload is move-constructed (new object; the source keeps the moved-from remainder, destroyed
      with the source), heap storage transfers the pointer (source keeps nullptr)
    * `operator=(any_object&&)`: no-op on self; else destroy own content, (vtable := invalid_obj if
      ¬RequireNoexceptMove), move-construct from the source, take its vtable
    * `operator=(T&&)`: destroy own content, (vtable := invalid_obj if the construction may throw),
      construct from the value inline or on the heap with `DefaultAllocator`
    * any_unique: always heap; move = pointer transfer; `operator=(any_unique)` = transfer + swap +
      destroy old; `swap`
-/
namespace Unifex.Proto.AnyObject

/-- payload classes of the harness: small nothrow-move, small throwing-move, large, over-aligned -/
inductive Cls | sn | st | lg | oa
  deriving DecidableEq, Repr

def Cls.size : Cls → Nat | .sn => 8 | .st => 8 | .lg => 72 | .oa => 64
def Cls.align : Cls → Nat | .sn => 4 | .st => 4 | .lg => 4 | .oa => 64
def Cls.nothrowMove : Cls → Bool | .st => false | _ => true

/-- one instantiation of the wrapper template -/
structure Cfg where
  size : Nat            -- InlineSize
  align : Nat           -- InlineAlignment
  reqNoexcept : Bool    -- RequireNoexceptMove
  dflt : Nat            -- id of the DefaultAllocator (0 = global operator new/delete)
  unique : Bool         -- any_unique (always heap, has swap, no operator=(T&&))
  deriving Repr

/-- `can_be_stored_inplace_v<T>` (pointer-padded size and alignment) -/
def Cfg.inplace (cfg : Cfg) (c : Cls) : Bool :=
  !cfg.unique && decide (c.size ≤ max cfg.size 8) && decide (c.align ≤ max cfg.align 8) &&
    (!cfg.reqNoexcept || c.nothrowMove)

inductive Slot
  | none | inl (id : Nat) | heap (id : Nat) (a : Nat) | heapNull | invalid
  deriving DecidableEq, Repr

inductive Event
  | ctor (id : Nat) (c : Cls) (v : Nat)   -- payload constructed from a value
  | move (new src : Nat)                  -- payload `new` move-constructed from `src`
  | copy (new src : Nat)                  -- payload `new` copy-constructed from `src` (never emitted)
  | dtor (id : Nat)
  | al (a : Nat) | de (a : Nat)           -- allocation / deallocation through allocator `a`
  deriving DecidableEq, Repr

inductive Mode
  | inplace | conv | allocIn (a : Nat) | allocConv (a : Nat)
  deriving DecidableEq, Repr

inductive Op
  | ctor (j : Nat) (c : Cls) (v : Nat) (m : Mode)   -- slot j := wrapper(fresh payload of class c, value v)
  | moveCtor (j i : Nat)                            -- slot j := wrapper(std::move(slot i))
  | moveAssign (i j : Nat)                          -- slot i = std::move(slot j)
  | assignValue (i : Nat) (c : Cls) (v : Nat)       -- slot i = Payload(v)            (any_object only)
  | swap (i j : Nat)                                -- swap(slot i, slot j)            (any_unique only)
  | invoke (i : Nat)                                -- get_val(slot i)
  | invokeThrow (i : Nat)                           -- boom(slot i): the payload throws its value
  | destroy (i : Nat)                               -- slot i.~wrapper()
  | arm                                             -- the next move-construction of an `st` payload throws
  deriving DecidableEq, Repr

inductive Res | ok | val (v : Nat) | exc (v : Nat) | threw | bad
  deriving DecidableEq, Repr

structure Out where
  events : List Event
  res : Res
  deriving DecidableEq, Repr

def upd {α : Type} (f : Nat → α) (i : Nat) (v : α) : Nat → α := fun k => if k = i then v else f k

structure St where
  slot : Nat → Slot
  next : Nat              -- next payload id
  cls : Nat → Cls
  val : Nat → Nat         -- current value of payload id (0 once moved from)
  dcnt : Nat → Nat        -- how many times payload id was destroyed
  allocs : Nat
  deallocs : Nat
  copies : Nat
  armed : Bool

def St.init : St :=
  { slot := fun _ => .none, next := 0, cls := fun _ => .sn, val := fun _ => 0, dcnt := fun _ => 0,
    allocs := 0, deallocs := 0, copies := 0, armed := false }

/-- the counters are the fold of the observable events -/
def St.record (s : St) : Event → St
  | .ctor id c v => { s with next := s.next + 1, cls := upd s.cls id c, val := upd s.val id v }
  | .move new src =>
    { s with next := s.next + 1, cls := upd s.cls new (s.cls src),
             val := upd (upd s.val new (s.val src)) src 0 }
  | .copy new src =>
    { s with next := s.next + 1, cls := upd s.cls new (s.cls src), val := upd s.val new (s.val src),
             copies := s.copies + 1 }
  | .dtor id => { s with dcnt := upd s.dcnt id (s.dcnt id + 1) }
  | .al _ => { s with allocs := s.allocs + 1 }
  | .de _ => { s with deallocs := s.deallocs + 1 }

/-- the effect of one operation: what is emitted, the new wrapper variables, the result -/
structure Eff where
  evs : List Event
  slots : Nat → Slot
  res : Res
  armed : Bool

def St.apply (s : St) (e : Eff) : St × Out :=
  ({ (e.evs.foldl St.record s) with slot := e.slots, armed := e.armed }, ⟨e.evs, e.res⟩)

def St.bad (s : St) : Eff := ⟨[], s.slot, .bad, s.armed⟩

/-- what destroying a wrapper's content emits -/
def destroyEvs : Slot → List Event
  | .inl id => [.dtor id]
  | .heap id a => [.dtor id, .de a]
  | _ => []

inductive MoveRes
  | done (evs : List Event) (dst srcAfter : Slot)
  | threw

/-- the erased move-constructor applied to a source wrapper's storage -/
def moveFrom (s : St) : Slot → MoveRes
  | .inl id =>
    if s.cls id = .st && s.armed then .threw
    else .done [.move s.next id] (.inl s.next) (.inl id)
  | .heap id a => .done [] (.heap id a) .heapNull
  | .heapNull => .done [] .heapNull .heapNull
  | .invalid => .done [] .invalid .invalid
  | .none => .done [] .none .none

def Mode.alloc (cfg : Cfg) : Mode → Nat
  | .allocIn a => a
  | .allocConv a => a
  | _ => cfg.dflt

def Mode.isConv : Mode → Bool
  | .conv => true
  | .allocConv _ => true
  | _ => false

/-- where a payload of class c constructed as object `id` with allocator `a` ends up -/
def Cfg.place (cfg : Cfg) (c : Cls) (id a : Nat) : Slot :=
  if cfg.inplace c then .inl id else .heap id a

def ctorEff (cfg : Cfg) (s : St) (j : Nat) (c : Cls) (v : Nat) (m : Mode) : Eff :=
  let n := s.next
  let a := m.alloc cfg
  if m.isConv then
    -- the caller's temporary is object n; the wrapped object is move-constructed from it
    if c = .st && s.armed then
      ⟨[.ctor n c v] ++ (if cfg.inplace c then [] else [.al a, .de a]) ++ [.dtor n], s.slot, .threw, false⟩
    else
      ⟨[.ctor n c v] ++ (if cfg.inplace c then [] else [.al a]) ++ [.move (n + 1) n, .dtor n],
        upd s.slot j (cfg.place c (n + 1) a), .ok, s.armed⟩
  else
    ⟨(if cfg.inplace c then [] else [.al a]) ++ [.ctor n c v], upd s.slot j (cfg.place c n a), .ok, s.armed⟩

def assignValueEff (cfg : Cfg) (s : St) (i : Nat) (c : Cls) (v : Nat) : Eff :=
  let n := s.next
  let a := cfg.dflt
  let old := destroyEvs (s.slot i)
  if c = .st && s.armed then
    ⟨[.ctor n c v] ++ old ++ (if cfg.inplace c then [] else [.al a, .de a]) ++ [.dtor n],
      upd s.slot i .invalid, .threw, false⟩
  else
    ⟨[.ctor n c v] ++ old ++ (if cfg.inplace c then [] else [.al a]) ++ [.move (n + 1) n, .dtor n],
      upd s.slot i (cfg.place c (n + 1) a), .ok, s.armed⟩

def moveCtorEff (s : St) (j i : Nat) : Eff :=
  match moveFrom s (s.slot i) with
  | .threw => ⟨[], s.slot, .threw, false⟩
  | .done evs d sa => ⟨evs, upd (upd s.slot i sa) j d, .ok, s.armed⟩

def moveAssignEff (s : St) (i j : Nat) : Eff :=
  if i = j then ⟨[], s.slot, .ok, s.armed⟩
  else
    match moveFrom s (s.slot j) with
    | .threw => ⟨destroyEvs (s.slot i), upd s.slot i .invalid, .threw, false⟩
    | .done evs d sa => ⟨destroyEvs (s.slot i) ++ evs, upd (upd s.slot j sa) i d, .ok, s.armed⟩

def invokeEff (s : St) (i : Nat) (thr : Bool) : Eff :=
  match s.slot i with
  | .inl id => ⟨[], s.slot, if thr then .exc (s.val id) else .val (s.val id), s.armed⟩
  | .heap id _ => ⟨[], s.slot, if thr then .exc (s.val id) else .val (s.val id), s.armed⟩
  | _ => s.bad

def engaged (s : St) (i : Nat) : Bool := decide (i < 3) && (s.slot i != .none)
def vacant (s : St) (i : Nat) : Bool := decide (i < 3) && (s.slot i == .none)

def eff (cfg : Cfg) (s : St) : Op → Eff
  | .ctor j c v m => if vacant s j then ctorEff cfg s j c v m else s.bad
  | .moveCtor j i => if vacant s j && engaged s i then moveCtorEff s j i else s.bad
  | .moveAssign i j => if engaged s i && engaged s j then moveAssignEff s i j else s.bad
  | .assignValue i c v => if !cfg.unique && engaged s i then assignValueEff cfg s i c v else s.bad
  | .swap i j =>
    if cfg.unique && engaged s i && engaged s j then
      ⟨[], upd (upd s.slot i (s.slot j)) j (s.slot i), .ok, s.armed⟩
    else s.bad
  | .invoke i => if engaged s i then invokeEff s i false else s.bad
  | .invokeThrow i => if engaged s i then invokeEff s i true else s.bad
  | .destroy i => if engaged s i then ⟨destroyEvs (s.slot i), upd s.slot i .none, .ok, s.armed⟩ else s.bad
  | .arm => ⟨[], s.slot, .ok, true⟩

def step (cfg : Cfg) (s : St) (op : Op) : St × Out := s.apply (eff cfg s op)

/-- run a whole sequence: final state and the per-op observations -/
def run (cfg : Cfg) : St → List Op → St × List Out
  | s, [] => (s, [])
  | s, op :: ops =>
    let (s1, o) := step cfg s op
    let (s2, os) := run cfg s1 ops
    (s2, o :: os)

/-- destroy whatever is still engaged (scope exit of the three variables, in order 0 1 2) -/
def cleanup : List Op := [.destroy 0, .destroy 1, .destroy 2]

/-- all events of a run, in order -/
def trace (outs : List Out) : List Event := outs.flatMap (·.events)

/-! ### the instantiations the harness builds (same names) -/

def cfgDflt : Cfg := ⟨24, 8, true, 0, false⟩     -- any_object_t<…>: 3 pointers, std::allocator
def cfgSmall : Cfg := ⟨8, 8, true, 1, false⟩     -- basic_any_object<8, 8, true, CountAlloc>
def cfgThrow : Cfg := ⟨16, 8, false, 1, false⟩   -- basic_any_object<16, 8, false, CountAlloc>
def cfgAl64 : Cfg := ⟨64, 64, true, 1, false⟩    -- basic_any_object<64, 64, true, CountAlloc>
def cfgTiny : Cfg := ⟨1, 1, true, 1, false⟩      -- basic_any_object<1, 1, true, CountAlloc>: padded to a pointer
def cfgUnique : Cfg := ⟨0, 0, true, 0, true⟩     -- any_unique_t<…>

def configs : List (String × Cfg) :=
  [("dflt", cfgDflt), ("small", cfgSmall), ("throw", cfgThrow), ("al64", cfgAl64), ("tiny", cfgTiny),
   ("unique", cfgUnique)]

end Unifex.Proto.AnyObject
