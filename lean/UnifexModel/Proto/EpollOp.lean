/-
  Proto/EpollOp.lean — atomic-step model of ONE descriptor's async read / write operations on
  `io_epoll_context` (include/unifex/linux/io_epoll_context.hpp: read_sender::operation,
  write_sender::operation; source/linux/io_epoll_context.cpp: acquire_completion_queue_items,
  execute_pending_local).

  Threads
    T0   client + environment: starts operations (from a foreign thread, i.e. through
         `schedule_remote`), feeds the pipe, waits for completions, may request stop
    T1   the thread inside run(): executes queue items (start_io, on_read/write_complete,
         complete_with_done), calls epoll_wait
    T2   a second client thread (spawned by T0 at a fixed point of its script), typically the
         thread that requests stop

  One step = one atomic RMW on `state_` (`fetch_add(io_flag)`, `fetch_add(cancel_pending_flag)`),
  one syscall (`readv`/`writev`, `epoll_ctl ADD/DEL`, `epoll_wait`), one enqueue on the context's
  remote queue, one lock-protected action of the operation's stop source (construct / destruct the
  stop callback, `request_stop` taking the callback), the store to `callbackCompleted_` the stop
  source performs after the callback returned, one receiver completion.

  The model follows the code after
    * the errno repair (/repo 1b893b7): `if (result < 0) result = -errno;` after every readv/writev,
      so EAGAIN/EWOULDBLOCK (and, as coded, EPERM) take the "would block" path and every other
      failure completes the operation with that errno;
    * the cancellation repair proposed with this check (tools/checks/c14_repair.patch):
      `on_read_complete` deregisters from epoll BEFORE the `fetch_add` election (as
      `on_write_complete` always did), and `complete_with_done`, before `set_done`, destructs
      `stopCallback_` when the readiness handler never ran (`state_ & io_mask == 0`) and repeats
      `epoll_ctl(DEL)`.
  History flags record what the UNREPAIRED code did wrong and the harness monitors still watch:
  `bad = 1` operation state written after completion (request_stop's store to
  `callbackCompleted_`), `bad = 2` event for a completed operation (registration made after the
  cancellation's DEL), `bad = 3` second readiness event for an operation whose `execute_` was
  already consumed.  Props/C14_cancel.lean proves that none of them is reachable any more.

  Abstractions: the context's queues are FIFO lists and "an item put on the remote queue is
  eventually dequeued" (the wake-up protocol is Proto/RemoteQueue.lean); the operation's stop source
  is the atomic register/take/complete abstraction justified by C03.
  Environment = kernel (ASSUMED semantics): `avail` bytes are readable (write mode: bytes of free
  space); a syscall transfers `min(avail, len)` bytes when `avail > 0` and fails with EAGAIN
  otherwise, unless the configuration's fault schedule says that the k-th call returns EAGAIN /
  EINTR / an errno / a short count; epoll is level triggered: a registered descriptor is reported
  by every epoll_wait while `avail > 0`; one registration per descriptor (`ADD` on a registered
  descriptor fails and the code ignores it; `DEL` removes whatever registration exists).
-/
import UnifexModel.Core.Reflect

namespace Unifex.Proto.EpollOp
open Unifex.Core

inductive Fault
  | eagain | eintr | err (e : Nat) | short (m : Nat)
  deriving DecidableEq, Repr

inductive Op
  | feed (n : Nat)              -- environment: n more bytes readable (write mode: n bytes drained)
  | start (i : Nat) (len : Nat) -- unifex::start(op i) from this (foreign) thread
  | await (i : Nat)             -- wait until op i has completed
  | fence                       -- schedule a no-op item and wait until it has run
  | cancel (i : Nat)            -- request_stop() on op i's stop source
  | join2                       -- wait for T2
  deriving DecidableEq, Repr

structure Config where
  isWrite : Bool
  t0 : List Op
  t2 : List Op
  t2After : Nat                 -- T2 exists once T0 has finished its first `t2After` script entries
  faults : List (Nat × Fault)   -- (k, f): the k-th readv/writev on the descriptor (1-based)
  avail0 : Nat
  nOps : Nat := 1               -- number of operations the scripts use

structure OpSt where
  len : Nat
  ioF : Nat          -- state_ / io_flag
  cancelF : Nat      -- state_ & cancel_pending_mask
  /-- stopCallback_: 0 not constructed, 1 registered, 2 being executed by request_stop,
      3 executed (callbackCompleted_ stored), 4 destructed, 5 executed inline at construction -/
  cb : Nat
  stopReq : Bool
  cEnq : Nat         -- completion_base::enqueued_
  exec : Bool        -- completion_base::execute_ != nullptr (set when parking, cleared when the item is run)
  outcome : Nat      -- 0 none, 1 value, 2 done, 3 error
  val : Nat          -- byte count / error code
  completions : Nat  -- history
  freed : Bool       -- history: the receiver has destroyed the operation state
  sysOk : Nat        -- history: 0 none, n+1: the last successful syscall transferred n bytes
  sysErr : Nat       -- history: errno of the last syscall failure other than EAGAIN/EINTR
  deriving DecidableEq, Repr

structure Thr where
  ip : Nat
  pc : Nat
  deriving DecidableEq, Repr

/-- queue item: kind 0 start (on_schedule_complete), 1 I/O readiness (on_read/write_complete),
    2 done_op (complete_with_done), 3 fence -/
abbrev Item := Nat × Nat

structure St where
  ops : List OpSt
  t0 : Thr
  t2 : Thr
  -- the context (abstract)
  lq : List Item
  rq : List Item     -- newest first
  batch : List Item
  lpc : Nat
  cur : Item
  rs : Bool          -- remoteQueueReadSubmitted_: the remote queue was found empty and marked inactive;
                     -- the loop looks at it again only after the eventfd was reported by epoll_wait
  pend : Nat         -- syscall result carried to the completion: n bytes
  pendErr : Nat      -- … or errno (0 = none)
  -- the kernel
  avail : Nat
  reg : Nat          -- epoll registration of the descriptor: 0 none, i+1 -> data.ptr = op i
  calls : Nat        -- readv/writev calls so far
  -- history
  fenceIssued : Nat
  fences : Nat
  bad : Nat          -- 0 ok; 1 the operation state was written after the operation completed;
                     -- 2 the kernel delivered an event for a completed operation (stale registration)
                     -- 3 the kernel delivered a second event for an operation whose handler was already
                     --   consumed (execute_ == nullptr): null function pointer call in execute_pending_local
  deriving DecidableEq, Repr

def OpSt.init : OpSt := ⟨0, 0, 0, 0, false, 0, false, 0, 0, 0, false, 0, 0⟩

def init (cfg : Config) : St :=
  { ops := List.replicate cfg.nOps OpSt.init, t0 := ⟨0, 0⟩, t2 := ⟨0, 0⟩, lq := [], rq := [], batch := [],
    lpc := 0, cur := (0, 0), rs := false, pend := 0, pendErr := 0, avail := cfg.avail0, reg := 0, calls := 0,
    fenceIssued := 0, fences := 0, bad := 0 }

def getOp (s : St) (i : Nat) : OpSt := s.ops.getD i OpSt.init
def setOp (s : St) (i : Nat) (o : OpSt) : St := { s with ops := s.ops.set i o }

/-- a write into (or read of) the operation state of op i by library code -/
def touch (s : St) (i : Nat) : St := if (getOp s i).freed && s.bad == 0 then { s with bad := 1 } else s

abbrev Lbl := Nat × Option String
def ev (t : Nat) (txt : String) : Lbl := (t, some txt)
def tau (t : Nat) : Lbl := (t, none)

def sysName (cfg : Config) : String := if cfg.isWrite then "writev" else "readv"

inductive SysRes
  | ok (n : Nat) | eagain | eintr | err (e : Nat)
  deriving DecidableEq, Repr

/-- the kernel's answer to the next readv/writev of `len` bytes -/
def sysResult (cfg : Config) (s : St) (len : Nat) : SysRes :=
  match cfg.faults.lookup (s.calls + 1) with
  | some .eagain => .eagain
  | some .eintr => .eintr
  | some (.err e) => .err e
  | some (.short m) => if s.avail = 0 then .eagain else .ok (min (min m len) s.avail)
  | none => if s.avail = 0 then .eagain else .ok (min len s.avail)

/-- `-errno` of a failed syscall -/
def errnoOf (r : SysRes) : Nat :=
  match r with
  | .ok _ => 0
  | .eagain => 11
  | .eintr => 4
  | .err e => e

/-- `result == -EAGAIN || result == -EWOULDBLOCK || result == -EPERM` -/
def wouldBlock (r : SysRes) : Bool := errnoOf r == 11 || errnoOf r == 1

def sysLabel (cfg : Config) (r : SysRes) : String :=
  match r with
  | .ok n => s!"{sysName cfg} {n}"
  | .eagain => s!"{sysName cfg} eagain"
  | .eintr => s!"{sysName cfg} eintr"
  | .err e => s!"{sysName cfg} err {e}"

/-- the receiver's completion: records the result and destroys the operation state -/
def complete (s : St) (i : Nat) (outcome val : Nat) : St :=
  let o := getOp s i
  setOp s i { o with outcome := outcome, val := val, completions := o.completions + 1, freed := true }

/-! #### script threads (T0, T2) -/

def getThr (s : St) (t : Nat) : Thr := if t = 0 then s.t0 else s.t2
def setThr (s : St) (t : Nat) (x : Thr) : St := if t = 0 then { s with t0 := x } else { s with t2 := x }
def script (cfg : Config) (t : Nat) : List Op := if t = 0 then cfg.t0 else cfg.t2
def thrDone (cfg : Config) (s : St) (t : Nat) : Bool := (getThr s t).ip ≥ (script cfg t).length

def stepScript (cfg : Config) (s : St) (t : Nat) : Option (Lbl × St) :=
  let th := getThr s t
  if t = 2 && s.t0.ip < cfg.t2After then none else
  match (script cfg t)[th.ip]? with
  | none => none
  | some op =>
    let next := fun (s : St) => setThr s t ⟨th.ip + 1, 0⟩
    let goto := fun (s : St) (pc : Nat) => setThr s t ⟨th.ip, pc⟩
    match op with
    | .feed n => some (ev t (if cfg.isWrite then "drained" else s!"wrote {n}"), next { s with avail := s.avail + n })
    | .start i len =>
      match th.pc with
      | 0 => some (ev t s!"start{i}", goto (setOp s i { getOp s i with len := len }) 1)
      | _ => some (tau t, next { s with rq := (0, i) :: s.rq })        -- schedule_remote(completion_base)
    | .await i => if (getOp s i).completions ≥ 1 then some (tau t, next s) else none
    | .fence =>
      match th.pc with
      | 0 => some (tau t, goto { s with rq := (3, 0) :: s.rq, fenceIssued := s.fenceIssued + 1 } 1)
      | _ => if s.fences ≥ s.fenceIssued then some (tau t, next s) else none
    | .join2 => if thrDone cfg s 2 then some (tau t, next s) else none
    | .cancel i =>
      let o := getOp s i
      match th.pc with
      | 0 => some (ev t s!"cancel{i}.begin", goto s 1)
      | 1 =>  -- inplace_stop_source::request_stop: sets the flag, takes the registered callback
        if o.stopReq then some (tau t, goto s 6)
        else if o.cb = 1 then some (tau t, goto (setOp s i { o with stopReq := true, cb := 2 }) 2)
        else some (tau t, goto (setOp s i { o with stopReq := true }) 6)
      | 2 =>  -- operation::request_stop(): state_.fetch_add(cancel_pending_flag)
        let s1 := setOp (touch s i) i { o with cancelF := o.cancelF + 1 }
        some (tau t, goto s1 (if o.ioF = 0 then 3 else 5))
      | 3 => some (tau t, goto { touch s i with reg := 0 } 4)               -- epoll_ctl(DEL)
      | 4 => some (tau t, goto { touch s i with rq := (2, i) :: s.rq } 5)   -- schedule_remote(done_op)
      | 5 =>  -- back in request_stop: callback->callbackCompleted_.store(true)
        let s1 := touch s i
        some (tau t, goto (setOp s1 i { getOp s1 i with cb := 3 }) 6)
      | _ => some (ev t s!"cancel{i}.end", next s)

/-! #### the thread inside run() (T1) -/

def stepLoopDet (cfg : Config) (s : St) : Option (Lbl × St) :=
  let i := s.cur.2
  let o := getOp s i
  match s.lpc with
  | 0 => some (tau 1, { s with batch := s.lq, lq := [], lpc := 1 })      -- execute_pending_local
  | 1 =>
    match s.batch with
    | [] => some (tau 1, { s with lpc := 2 })
    | it :: rest =>
      let s1 := { s with batch := rest, cur := it }
      match it.1 with
      | 0 => some (tau 1, { s1 with lpc := 10 })
      | 1 =>  -- --item->enqueued_; execute = std::exchange(item->execute_, nullptr)
        let s2 := touch s1 it.2
        some (tau 1, { setOp s2 it.2 { getOp s2 it.2 with cEnq := 0, exec := false } with lpc := 20 })
      | 2 => some (tau 1, { s1 with lpc := 26 })
      | _ => some (ev 1 "fence", { s1 with fences := s.fences + 1 })
  | 2 =>  -- if (!remoteQueueReadSubmitted_) remoteQueueReadSubmitted_ = try_schedule_local_remote_queue_contents()
    if s.rs then some (tau 1, { s with lpc := 3 })
    else if s.rq.isEmpty then some (tau 1, { s with rs := true, lpc := 3 })
    else some (tau 1, { s with lq := s.lq ++ s.rq.reverse, rq := [], lpc := 0 })
  -- ---- start_io()
  | 10 =>
    let r := sysResult cfg s o.len
    let s1 := { s with calls := s.calls + 1 }
    match r with
    | .ok n =>
      some (ev 1 (sysLabel cfg r), { setOp s1 i { o with sysOk := n + 1 } with avail := s.avail - n, pend := n, pendErr := 0, lpc := 15 })
    | _ =>
      let o1 := match r with | .err e => { o with sysErr := e } | _ => o
      if wouldBlock r then some (ev 1 (sysLabel cfg r), { setOp s1 i o1 with lpc := 11 })
      else some (ev 1 (sysLabel cfg r), { setOp s1 i o1 with pendErr := errnoOf r, lpc := 15 })
  | 11 =>  -- stopCallback_.construct(...)
    if o.stopReq then some (tau 1, { setOp s i { o with cb := 5 } with lpc := 12 })
    else some (tau 1, { setOp s i { o with cb := 1 } with lpc := 14 })
  | 12 =>  -- inline request_stop(): fetch_add(cancel_pending_flag)
    some (tau 1, { setOp s i { o with cancelF := o.cancelF + 1 } with lpc := if o.ioF = 0 then 13 else 14 })
  | 13 => some (tau 1, { s with reg := 0, lpc := 16 })                            -- epoll_ctl(DEL)
  | 16 => some (tau 1, { s with rq := (2, i) :: s.rq, lpc := 14 })               -- schedule_remote(done_op)
  | 14 =>  -- execute_ = on_*_complete; epoll_ctl(ADD) (result ignored)
    some (tau 1, { setOp s i { o with exec := true } with reg := if s.reg = 0 then i + 1 else s.reg, lpc := 1 })
  | 15 =>  -- state_.fetch_add(io_flag)
    some (tau 1, { setOp s i { o with ioF := o.ioF + 1 } with lpc := if o.cancelF = 0 then 17 else 1 })
  | 17 =>
    if s.pendErr = 0 then some (ev 1 s!"value{i} {s.pend}", { complete s i 1 s.pend with lpc := 1 })
    else some (ev 1 s!"error{i} {s.pendErr}", { complete s i 3 s.pendErr with lpc := 1 })
  -- ---- on_read_complete / on_write_complete
  | 20 =>  -- stopCallback_.destruct()
    if o.cb = 2 then none      -- the callback is executing on another thread: spin on callbackCompleted_
    else
      let s1 := touch s i
      let cb' := if o.cb = 1 || o.cb = 3 then 4 else o.cb
      some (tau 1, { setOp s1 i { getOp s1 i with cb := cb' } with lpc := 22 })
  | 21 =>  -- state_.fetch_add(io_flag)
    let s1 := setOp (touch s i) i { o with ioF := o.ioF + 1 }
    some (tau 1, { s1 with lpc := if o.cancelF ≠ 0 then 1 else 23 })
  | 22 => some (tau 1, { touch s i with reg := 0, lpc := 21 })   -- epoll_ctl(DEL), before the election
  | 23 =>  -- the retry
    let r := sysResult cfg s o.len
    let s1 := { touch s i with calls := s.calls + 1 }
    match r with
    | .ok n =>
      some (ev 1 (sysLabel cfg r), { setOp s1 i { getOp s1 i with sysOk := n + 1 } with avail := s.avail - n, pend := n, lpc := 24 })
    | .err e => some (ev 1 (sysLabel cfg r), { setOp s1 i { getOp s1 i with sysErr := e } with pendErr := e, lpc := 25 })
    | _ => some (ev 1 (sysLabel cfg r), { s1 with pendErr := errnoOf r, lpc := 25 })
  | 24 => some (ev 1 s!"value{i} {s.pend}", { complete s i 1 s.pend with lpc := 1 })
  | 25 => some (ev 1 s!"error{i} {s.pendErr}", { complete s i 3 s.pendErr with lpc := 1 })       -- error_code{-result}
  -- ---- complete_with_done
  | 26 =>  -- completion_base::enqueued_ == 0 ?  state_ & io_mask == 0 ?
    let s1 := touch s i
    if o.cEnq ≠ 0 then some (tau 1, { s1 with lq := s.lq ++ [(2, i)], lpc := 1 })
    else some (tau 1, { s1 with lpc := if o.ioF = 0 then 27 else 28 })
  | 27 =>  -- the readiness handler never ran: stopCallback_.destruct() (waits for request_stop on another thread)
    if o.cb = 2 then none
    else
      let s1 := touch s i
      let cb' := if o.cb = 1 || o.cb = 3 then 4 else o.cb
      some (tau 1, { setOp s1 i { getOp s1 i with cb := cb' } with lpc := 28 })
  | 28 => some (tau 1, { touch s i with reg := 0, lpc := 29 })   -- epoll_ctl(DEL) again: start_io may have registered after request_stop's DEL
  | 29 => some (ev 1 s!"done{i}", { complete s i 2 0 with lpc := 1 })
  | _ => none

/-- the readiness event of the registered descriptor, as `acquire_completion_queue_items` handles it -/
def opEvent (s : St) : St :=
  let j := s.reg - 1
  if (getOp s j).freed then
    -- event for a dead operation (the harness drops it and removes the registration)
    { s with bad := if s.bad = 0 then 2 else s.bad, reg := 0 }
  else if !(getOp s j).exec then
    -- a second readiness event for an operation whose handler already ran and returned without
    -- epoll_ctl(DEL) (cancelled): execute_pending_local would call a null function pointer
    -- (the harness drops the event and removes the registration)
    { s with bad := if s.bad = 0 then 3 else s.bad, reg := 0 }
  else { setOp s j { getOp s j with cEnq := 1 } with lq := s.lq ++ [(1, j)] }

/-- epoll_wait (pc 3).  Ready: the registered descriptor (level triggered, `avail > 0`) and the
    remote queue's eventfd.  The eventfd is written by the producer AFTER its enqueue, so when the
    queue is non-empty the eventfd event may or may not be there yet; when nothing else is ready
    the loop waits for it (it is certain to come: Proto/RemoteQueue).  With a non-empty local
    queue the call does not block. -/
def stepEpoll (s : St) : List (Lbl × St) :=
  let evOp := s.reg ≠ 0 ∧ s.avail > 0
  let evFd := s.rs ∧ !s.rq.isEmpty
  if evOp ∧ evFd then
    [(tau 1, { opEvent { s with rs := false } with lpc := 0 }), (tau 1, { opEvent s with lpc := 0 })]
  else if evOp then [(tau 1, { opEvent s with lpc := 0 })]
  else if evFd then [(tau 1, { s with rs := false, lpc := 0 })]
  else if !s.lq.isEmpty then [(tau 1, { s with lpc := 0 })]
  else []

def stepLoop (cfg : Config) (s : St) : List (Lbl × St) :=
  if s.lpc = 3 then stepEpoll s else (stepLoopDet cfg s).toList

def sys (cfg : Config) : LSys St Lbl where
  init := init cfg
  next s := (stepScript cfg s 0).toList ++ stepLoop cfg s ++ (stepScript cfg s 2).toList

def obsOf (l : Lbl) : Option String := l.2.map (fun txt => s!"T{l.1} {txt}")

/-- both scripts have finished and the context is idle (blocked in epoll_wait, nothing queued) -/
def final (cfg : Config) (s : St) : Bool :=
  thrDone cfg s 0 && thrDone cfg s 2 && s.lpc == 3 && s.lq.isEmpty && s.rq.isEmpty && s.batch.isEmpty &&
  !(s.reg ≠ 0 && s.avail > 0)

def started (cfg : Config) (i : Nat) : Bool :=
  (cfg.t0 ++ cfg.t2).any (fun op => match op with | .start j _ => j == i | _ => false)

/-- What the code DOES guarantee (all instances):
    * every operation completes at most once, and exactly once by the end;
    * a value completion reports exactly the byte count of the operation's (last) successful
      syscall; a done completion happens only after stop was requested;
    * no deadlock: when nothing is enabled, both scripts have finished (nothing waits forever). -/
def safe (cfg : Config) (s : St) : Bool :=
  s.ops.all (fun o => o.completions ≤ 1 &&
    (o.outcome != 1 || o.sysOk == o.val + 1) &&
    (o.outcome != 2 || o.stopReq)) &&
  ((sys cfg).next s |>.isEmpty |> fun dead => !dead || final cfg s) &&
  (!final cfg s || (List.range cfg.nOps).all (fun i => !started cfg i || (getOp s i).completions == 1))

/-- What C14 demands in addition and the code does NOT always deliver:
    no access to a completed operation, no event for a completed operation, and at the end no
    epoll registration is left. -/
def clean (cfg : Config) (s : St) : Bool :=
  s.bad == 0 && (!final cfg s || s.reg == 0)

/-- "with the OS error": an operation whose syscall failed with a real errno has not completed
    with anything but that errno. -/
def errTrue (s : St) : Bool :=
  s.ops.all (fun o => o.sysErr == 0 || o.completions == 0 || (o.outcome == 3 && o.val == o.sysErr))

/-! ### coding (untrusted) -/

def b2n (b : Bool) : Nat := if b then 1 else 0
def encItems (l : List Item) : List Nat := l.length :: l.flatMap (fun it => [it.1, it.2])
def encOp (o : OpSt) : List Nat :=
  [o.len, o.ioF, o.cancelF, o.cb, b2n o.stopReq, o.cEnq, b2n o.exec, o.outcome, o.val, o.completions, b2n o.freed, o.sysOk, o.sysErr]
def encSt (s : St) : List Nat :=
  [s.t0.ip, s.t0.pc, s.t2.ip, s.t2.pc, s.lpc, s.cur.1, s.cur.2, b2n s.rs, s.pend, s.pendErr, s.avail, s.reg, s.calls,
   s.fenceIssued, s.fences, s.bad, s.ops.length] ++ s.ops.flatMap encOp ++
  encItems s.lq ++ encItems s.rq ++ encItems s.batch

def decItems : Nat → List Nat → List Item × List Nat
  | 0, r => ([], r)
  | n+1, a :: b :: r => let (is, r') := decItems n r; ((a, b) :: is, r')
  | _, r => ([], r)
def decItemList (l : List Nat) : List Item × List Nat :=
  match l with
  | n :: r => decItems n r
  | [] => ([], [])
def decOps : Nat → List Nat → List OpSt × List Nat
  | 0, r => ([], r)
  | n+1, a :: b :: c :: d :: e :: f :: x :: g :: h :: i :: j :: k :: l :: r =>
    let (os, r') := decOps n r
    (⟨a, b, c, d, e == 1, f, x == 1, g, h, i, j == 1, k, l⟩ :: os, r')
  | _, r => ([], r)

def decSt (l : List Nat) : St :=
  match l with
  | a :: b :: c :: d :: lpc :: c1 :: c2 :: rs :: pend :: pe :: av :: reg :: calls :: fi :: fe :: bad :: no :: r =>
    let (ops, r1) := decOps no r
    let (lq, r2) := decItemList r1
    let (rq, r3) := decItemList r2
    let (bt, _) := decItemList r3
    { ops := ops, t0 := ⟨a, b⟩, t2 := ⟨c, d⟩, lq := lq, rq := rq, batch := bt, lpc := lpc, cur := (c1, c2),
      rs := rs == 1, pend := pend, pendErr := pe, avail := av, reg := reg, calls := calls, fenceIssued := fi, fences := fe, bad := bad }
  | _ => { init ⟨false, [], [], 0, [], 0, 0⟩ with bad := 99 }

def coded : Coded St :=
  { enc := fun s => packNats 32 (encSt s), dec := fun n => decSt (unpackNats 32 120 n), M := 4093, W := 256 }

/-! ### the scenario configurations (mirrored one-to-one by harness/rt/scn_c14.cpp) -/

def rd (t0 t2 : List Op) (t2After : Nat) (faults : List (Nat × Fault)) (nOps : Nat := 1) : Config :=
  ⟨false, t0, t2, t2After, faults, 0, nOps⟩

/-- data is in the pipe before the read starts -/
def cfgRdReady : Config := rd [.feed 5, .start 0 8, .await 0] [] 0 []
/-- the read parks, data arrives afterwards -/
def cfgRdPark : Config := rd [.start 0 8, .feed 5, .await 0] [] 0 []
/-- spurious EAGAIN (fault) although data is there -/
def cfgRdEagainFault : Config := rd [.feed 5, .start 0 8, .await 0] [] 0 [(1, .eagain)]
/-- short count, then a second read gets the rest -/
def cfgRdShort : Config := rd [.feed 5, .start 0 8, .await 0, .start 1 8, .await 1] [] 0 [(1, .short 2)] 2
/-- cancel while parked (T2), then the descriptor is reused by a later read -/
def cfgRdCancelParked : Config :=
  rd [.start 0 8, .fence, .await 0, .join2, .feed 4, .start 1 8, .await 1] [.cancel 0] 2 [] 2
/-- data and cancellation race; the final fence makes sure that whatever the cancellation put on the
    context's queue has run before the scenario ends -/
def cfgRdCancelRace : Config := rd [.start 0 8, .feed 5, .await 0, .join2, .fence] [.cancel 0] 1 []
/-- stop requested before the operation is started; the descriptor is used again afterwards -/
def cfgRdCancelBeforeStart : Config :=
  rd [.cancel 0, .start 0 8, .await 0, .feed 4, .fence, .start 1 8, .await 1] [] 0 [] 2
/-- the first readv fails with EIO (errno 5): the operation completes with that error at once -/
def cfgRdErrorStart : Config := rd [.start 0 8, .fence, .await 0] [] 0 [(1, .err 5)]
/-- the retry after readiness fails with EIO -/
def cfgRdErrorRetry : Config := rd [.start 0 8, .fence, .feed 5, .await 0] [] 0 [(2, .err 5)]

/-- write into a pipe that has room -/
def cfgWrReady : Config := ⟨true, [.start 0 8, .await 0], [], 0, [], 16, 1⟩
/-- write into a full pipe: parks until the environment drains it -/
def cfgWrPark : Config := ⟨true, [.start 0 8, .fence, .feed 16, .await 0], [], 0, [], 0, 1⟩
/-- write into a full pipe, cancelled while parked -/
def cfgWrCancelParked : Config := ⟨true, [.start 0 8, .fence, .await 0, .join2], [.cancel 0], 2, [], 0, 1⟩

def configs : List (String × Config) :=
  [("rd_ready", cfgRdReady), ("rd_park", cfgRdPark), ("rd_eagain_fault", cfgRdEagainFault),
   ("rd_short", cfgRdShort), ("rd_cancel_parked", cfgRdCancelParked), ("rd_cancel_race", cfgRdCancelRace),
   ("rd_cancel_before_start", cfgRdCancelBeforeStart), ("rd_error_start", cfgRdErrorStart),
   ("rd_error_retry", cfgRdErrorRetry), ("wr_ready", cfgWrReady), ("wr_park", cfgWrPark),
   ("wr_cancel_parked", cfgWrCancelParked)]

end Unifex.Proto.EpollOp
