/-
  Proto/StopOnRequest.lean — atomic-step model of `stop_on_request(tokens…)`
  (include/unifex/stop_on_request.hpp, `_op<Receiver, StopTokens…>::type`) with one external token.

  Shared word: `callbackState_` (`cs`: 0 INIT, 1 ALL_CONSTRUCTED_NOT_CALLED, 2 AT_LEAST_ONE_CALLED).
    start()         construct receiverStopCallback_ (callback 0, on the receiver's token), then the
                    external callback (1); CAS(INIT → ALL_CONSTRUCTED); on failure complete()
    request_stop()  exchange(AT_LEAST_ONE_CALLED); old == ALL_CONSTRUCTED → complete()
    complete()      destruct the external callbacks, then receiverStopCallback_, set_done(receiver)
  One step = one atomic operation on `callbackState_`, one critical section of a stop source
  (registration, deregistration — which waits while the callback runs on another thread — and the
  notifier taking the callback), or one externally visible call.

  Parties: `starter`; `stopper i` calls request_stop() on source `i` (0 = the receiver's source,
  1 = the external one).  The receiver destroys the op when completed (`freed`, `touch`).
-/
import UnifexModel.Core.Reflect

namespace Unifex.Proto.StopOnRequest
open Unifex.Core

inductive Role | starter | stopper (i : Nat)
  deriving DecidableEq, Repr

structure Config where
  roles : List Role

/-- frame kinds: 0 start(), 1 request_stop() (cancel_callback), 2 complete(), 6 source.request_stop() -/
structure Frame where
  kind : Nat
  pc : Nat
  arg : Nat      -- kind 6: which source
  deriving DecidableEq, Repr

structure Thr where
  ip : Nat
  stack : List Frame
  deriving DecidableEq, Repr

structure St where
  cs : Nat
  src : List Bool      -- stop requested on source i
  cb : List Nat        -- callback i: 0 not constructed, 1 in the list, 2 taken by the notifier, 3 completed,
                       -- 4 executed inline at registration, 5 destructed
  runner : List Nat    -- notifying thread + 1 of callback i
  freed : Bool
  completions : Nat
  bad : Nat            -- 1 op touched after destruction, 6 callback destructed twice / unconstructed,
                       -- 8 receiver completed after destruction
  thrs : List Thr
  deriving DecidableEq, Repr

def init (cfg : Config) : St :=
  { cs := 0, src := [false, false], cb := [0, 0], runner := [0, 0], freed := false, completions := 0, bad := 0,
    thrs := cfg.roles.map (fun _ => ⟨0, []⟩) }

def getThr (s : St) (t : Nat) : Thr := s.thrs.getD t ⟨0, []⟩
def setThr (s : St) (t : Nat) (x : Thr) : St := { s with thrs := s.thrs.set t x }
def goto (s : St) (t : Nat) (pc : Nat) : St :=
  let th := getThr s t
  match th.stack with
  | [] => s
  | f :: fs => setThr s t { th with stack := { f with pc := pc } :: fs }
def push (s : St) (t : Nat) (f : Frame) : St :=
  let th := getThr s t
  setThr s t { th with stack := f :: th.stack }
def pop (s : St) (t : Nat) : St :=
  let th := getThr s t
  setThr s t { th with stack := th.stack.tail }

def flag (s : St) (n : Nat) : St := if s.bad = 0 then { s with bad := n } else s
def touch (s : St) : St := if s.freed then flag s 1 else s

abbrev Lbl := Nat × Option String
def ev (t : Nat) (txt : String) : Lbl := (t, some txt)
def tau (t : Nat) : Lbl := (t, none)

def othersDone (s : St) (t : Nat) : Bool :=
  (List.range s.thrs.length).all (fun u => u = t || ((getThr s u).stack.isEmpty && (getThr s u).ip ≥ 1))

/-- destruct callback `i` on thread `t`; `none` = waiting for the notifier to finish it -/
def dereg (s : St) (i t : Nat) : Option St :=
  let s1 := touch s
  match s.cb.getD i 0 with
  | 1 => some { s1 with cb := s1.cb.set i 5 }
  | 2 => if s.runner.getD i 0 = t + 1 then some { s1 with cb := s1.cb.set i 5 } else none
  | 3 => some { s1 with cb := s1.cb.set i 5 }
  | 4 => some { s1 with cb := s1.cb.set i 5 }
  | _ => some (flag s1 6)

/-- construct callback `i` (try_add_callback): registered, or executed inline if stop was requested -/
def reg (s : St) (i t : Nat) (pc : Nat) : St :=
  if s.src.getD i false then push (goto { (touch s) with cb := s.cb.set i 4 } t pc) t ⟨1, 0, 0⟩
  else goto { (touch s) with cb := s.cb.set i 1 } t pc

def stepThr (cfg : Config) (s : St) (t : Nat) : Option (Lbl × St) :=
  let th := getThr s t
  match th.stack with
  | [] =>
    match cfg.roles.getD t .starter, th.ip with
    | .starter, 0 => some (ev t "start.begin", push (setThr s t { th with ip := 1 }) t ⟨0, 1, 0⟩)
    | .starter, 1 => if othersDone s t then some (tau t, setThr s t { th with ip := 2 }) else none
    | .stopper i, 0 => some (ev t "stop.begin", push (setThr s t { th with ip := 1 }) t ⟨6, 1, i⟩)
    | _, _ => none
  | f :: _ =>
    match f.kind, f.pc with
    -- ---------------- start()
    | 0, 1 => some (tau t, reg s 0 t 2)          -- receiverStopCallback_.construct(…)
    | 0, 2 => some (tau t, reg s 1 t 3)          -- constructCallbacks()
    | 0, 3 =>  -- callbackState_.compare_exchange_strong(INIT, ALL_CONSTRUCTED_NOT_CALLED)
      if s.cs = 0 then some (tau t, goto { (touch s) with cs := 1 } t 4)
      else some (tau t, push (goto (touch s) t 4) t ⟨2, 0, 0⟩)
    | 0, 4 => some (ev t "start.end", pop s t)
    -- ---------------- request_stop()
    | 1, 0 =>  -- callbackState_.exchange(AT_LEAST_ONE_CALLED)
      if s.cs = 1 then some (tau t, push (goto { (touch s) with cs := 2 } t 1) t ⟨2, 0, 0⟩)
      else some (tau t, goto { (touch s) with cs := 2 } t 1)
    | 1, 1 => some (tau t, pop s t)
    -- ---------------- complete()
    | 2, 0 => match dereg s 1 t with
              | some s1 => some (tau t, goto s1 t 1)
              | none => none
    | 2, 1 => match dereg s 0 t with
              | some s1 => some (tau t, goto s1 t 2)
              | none => none
    | 2, 2 =>
      let s0 := if s.freed then flag s 8 else touch s
      some (ev t "rcv.done", goto { s0 with completions := s.completions + 1 } t 3)
    | 2, 3 => some (tau t, pop (if s.completions = 1 then { s with freed := true } else s) t)
    -- ---------------- inplace_stop_source::request_stop() on source f.arg
    | 6, 1 =>
      let i := f.arg
      if s.src.getD i false then some (tau t, goto s t 4)
      else if s.cb.getD i 0 = 1 then
        some (tau t, push (goto { s with src := s.src.set i true, cb := s.cb.set i 2, runner := s.runner.set i (t + 1) } t 2) t ⟨1, 0, 0⟩)
      else some (tau t, goto { s with src := s.src.set i true } t 4)
    | 6, 2 =>
      let i := f.arg
      if s.cb.getD i 0 = 2 then some (tau t, goto { (touch s) with cb := s.cb.set i 3, runner := s.runner.set i 0 } t 4)
      else some (tau t, goto { s with runner := s.runner.set i 0 } t 4)
    | 6, 4 => some (ev t "stop.end", pop s t)
    | _, _ => none

def sys (cfg : Config) : LSys St Lbl where
  init := init cfg
  next s := (List.range s.thrs.length).filterMap (fun t => stepThr cfg s t)

def obsOf (l : Lbl) : Option String := l.2.map (fun txt => s!"T{l.1} {txt}")

def final (cfg : Config) (s : St) : Bool :=
  (List.range s.thrs.length).all (fun u =>
    (getThr s u).stack.isEmpty &&
      (getThr s u).ip ≥ (if cfg.roles.getD u .starter == .starter then 2 else 1))

/-- C19 for stop_on_request: the first stop callback (or start() on its behalf) completes the
    receiver, exactly once; nobody touches the op afterwards; no callback is destructed twice;
    no deadlock (complete() waits for callbacks running on other threads); at the end (every
    configuration has at least one stop request) completed exactly once and destroyed. -/
def safe (cfg : Config) (s : St) : Bool :=
  s.bad = 0 && s.completions ≤ 1 &&
  ((sys cfg).next s |>.isEmpty |> fun dead => !dead || final cfg s) &&
  (!final cfg s || (s.completions = 1 && s.freed))

def b2n (b : Bool) : Nat := if b then 1 else 0
def encFrame (f : Frame) : List Nat := [f.kind, f.pc, f.arg]
def encThr (t : Thr) : List Nat := t.ip :: t.stack.length :: t.stack.flatMap encFrame
def encSt (s : St) : List Nat :=
  [s.cs, b2n (s.src.getD 0 false), b2n (s.src.getD 1 false), s.cb.getD 0 0, s.cb.getD 1 0, s.runner.getD 0 0,
   s.runner.getD 1 0, b2n s.freed, s.completions, s.bad, s.thrs.length] ++ s.thrs.flatMap encThr

def decFrames : Nat → List Nat → List Frame × List Nat
  | 0, r => ([], r)
  | n+1, k :: p :: a :: r => let (fs, r') := decFrames n r; (⟨k, p, a⟩ :: fs, r')
  | _, r => ([], r)

def decThrs : Nat → List Nat → List Thr × List Nat
  | 0, r => ([], r)
  | n+1, ip :: len :: r =>
    let (fs, r1) := decFrames len r
    let (ts, r2) := decThrs n r1
    (⟨ip, fs⟩ :: ts, r2)
  | _, r => ([], r)

def decSt (l : List Nat) : St :=
  match l with
  | a0 :: a1 :: a2 :: a3 :: a4 :: a5 :: a6 :: a7 :: a8 :: a9 :: n :: r =>
    let (ths, _) := decThrs n r
    ⟨a0, [a1 == 1, a2 == 1], [a3, a4], [a5, a6], a7 == 1, a8, a9, ths⟩
  | _ => { init ⟨[]⟩ with bad := 99 }

def coded : Coded St :=
  { enc := fun s => packNats 16 (encSt s), dec := fun n => decSt (unpackNats 16 200 n), M := 16381, W := 240 }

/-- stop requested on the receiver's token (T1) and on the external token (T2) -/
def cfgTwo : Config := ⟨[.starter, .stopper 0, .stopper 1]⟩
/-- only the external token is ever stopped -/
def cfgExt : Config := ⟨[.starter, .stopper 1]⟩

def configs : List (String × Config) := [("s_two", cfgTwo), ("s_ext", cfgExt)]

end Unifex.Proto.StopOnRequest
