/-
  Proto/AsyncStackLemmas.lean — the simulation between the discipline automaton `gstep` and the
  state machine `step` (Proto/AsyncStack.lean): one lemma per operation, then `sim_step`, `sim_run`.
-/
import UnifexModel.Proto.AsyncStack

namespace Unifex.Proto.AsyncStack

/-! ### facts about the head of the ghost stack -/

theorem StackOK.head {s : St} {c : Option Nat} {r : Nat} {t : Option Nat} {rest : List (Nat × Option Nat)}
    (h : StackOK s c ((r, t) :: rest)) :
    c = some r ∧ (s.roots r).live = true ∧ (s.roots r).top = t ∧ (∀ x ∈ rest, x.1 < r) ∧
      StackOK s (s.roots r).next rest := h

/-- rewriting the head root (same liveness, same next) keeps the rest of the stack intact -/
theorem stackOK_head {s s' : St} {r : Nat} {t t' : Option Nat} {rest : List (Nat × Option Nat)} {R' : Root}
    (hroots : s'.roots = upd s.roots r R') (h : StackOK s (some r) ((r, t) :: rest))
    (hl : R'.live = true) (ht : R'.top = t') (hn : R'.next = (s.roots r).next) :
    StackOK s' (some r) ((r, t') :: rest) := by
  obtain ⟨_, _, _, h4, h5⟩ := h
  refine ⟨rfl, by simp [hroots, hl], by simp [hroots, ht], h4, ?_⟩
  have : (s'.roots r).next = (s.roots r).next := by simp [hroots, hn]
  rw [this]
  refine StackOK.congr (s := s) ?_ h5
  intro x hx
  have := h4 x hx
  rw [hroots, upd_other]; omega

/-- same roots, different frames -/
theorem stackOK_frames {s s' : St} {c : Option Nat} {l : List (Nat × Option Nat)}
    (hroots : s'.roots = s.roots) (h : StackOK s c l) : StackOK s' c l :=
  StackOK.congr (fun _ _ => by rw [hroots]) h

theorem Agree.cur_head {g : G} {s : St} {r : Nat} {t : Option Nat} {rest : List (Nat × Option Nat)}
    (a : Agree g s) (hs : g.stack = (r, t) :: rest) :
    s.cur = some r ∧ r < s.nRoots ∧ (s.roots r).live = true ∧ (s.roots r).top = t ∧ (∀ x ∈ rest, x.1 < r) := by
  have h := a.stackOK; rw [hs] at h
  obtain ⟨h1, h2, h3, h4, _⟩ := h
  have := a.stack_lt (r, t) (by rw [hs]; exact List.mem_cons_self)
  exact ⟨h1, by rw [a.nr_eq]; exact this, h2, h3, h4⟩

/-- a frame that is the top of a root deeper in the stack is not the top of the head root -/
theorem Agree.rest_ne {g : G} {s : St} {r : Nat} {t : Option Nat} {rest : List (Nat × Option Nat)}
    (a : Agree g s) (hs : g.stack = (r, t) :: rest) {r' f' : Nat} (hm : (r', some f') ∈ rest) :
    r' < r ∧ (s.frames f').root = some r' ∧ f' < g.nf ∧ g.status f' = .active := by
  have h4 := (a.cur_head hs).2.2.2.2 (r', some f') hm
  have := a.tops r' f' (by rw [hs]; exact List.mem_cons_of_mem _ hm)
  exact ⟨h4, this.2.2, this.1, this.2.1⟩

/-! ### one simulation lemma per operation -/

theorem sim_newFrame {g g' : G} {s : St} (a : Agree g s) (h : gstep g .newFrame = some g') :
    ∃ s', step s .newFrame = some s' ∧ Agree g' s' := by
  simp only [gstep, Option.some.injEq] at h
  subst h
  refine ⟨_, rfl, ?_⟩
  have hnf := a.nf_eq
  have ⟨a1, a2, a3, a4, a5, a6, a7, a8, a9, a10, a11⟩ := a
  constructor
  · simp [hnf]
  · exact a.nr_eq
  · exact stackOK_frames (s := s) rfl a.stackOK
  · exact a.stack_lt
  · exact a.dead
  · intro r f hm
    have := a6 r f hm
    simp only [upd_apply]
    grind
  · intro f hf hst
    simp only [upd_apply] at *
    grind
  · intro f hf hst
    simp only [upd_apply] at *
    grind
  · intro f hf
    simp only [upd_apply] at *
    grind
  · intro f p hf hp
    simp only [upd_apply] at *
    have := a10 f p
    grind
  · intro f hf
    simp only [upd_apply] at *
    have := a11 f
    grind

theorem sim_rootCtor {g g' : G} {s : St} (a : Agree g s) (h : gstep g .rootCtor = some g') :
    ∃ s', step s .rootCtor = some s' ∧ Agree g' s' := by
  simp only [gstep, Option.some.injEq] at h
  subst h
  refine ⟨_, rfl, ?_⟩
  have ⟨a1, a2, a3, a4, a5, a6, a7, a8, a9, a10, a11⟩ := a
  constructor
  · exact a1
  · simp [a2]
  · simp only [← a2]
    refine ⟨rfl, by simp, by simp, by simpa [a2] using a4, ?_⟩
    simp only [upd_same]
    refine StackOK.congr (s := s) ?_ a3
    intro x hx
    have := a4 x hx
    simp only [upd_apply]; grind
  · intro x hx; simp only [List.mem_cons] at hx; grind
  · intro r hr hx
    simp only [List.mem_cons, forall_eq_or_imp] at hx
    have := a5 r
    simp only [upd_apply]; grind
  · intro r f hm; simp only [List.mem_cons] at hm; grind
  · intro f hf hst; have := a7 f hf hst; grind
  · exact a8
  · exact a9
  · exact a10
  · exact a11

theorem sim_rootDtor {g g' : G} {s : St} {r : Nat} (a : Agree g s) (h : gstep g (.rootDtor r) = some g') :
    ∃ s', step s (.rootDtor r) = some s' ∧ Agree g' s' := by
  have ⟨a1, a2, a3, a4, a5, a6, a7, a8, a9, a10, a11⟩ := a
  cases hs : g.stack with
  | nil => simp [gstep, hs] at h
  | cons x rest =>
    obtain ⟨r', t⟩ := x
    cases t with
    | some f => simp [gstep, hs] at h
    | none =>
      simp only [gstep, hs] at h
      split at h
      · rename_i hr; subst hr
        simp only [Option.some.injEq] at h; subst h
        obtain ⟨c1, c2, c3, c4, c5⟩ := a.cur_head hs
        have hok := a3; rw [hs] at hok
        refine ⟨_, by simp only [step]; rw [if_pos ⟨c2, c3, c1, c4⟩], ?_⟩
        constructor
        · exact a1
        · exact a2
        · refine StackOK.congr (s := s) ?_ hok.2.2.2.2
          intro x hx; have := c5 x hx
          simp only [upd_apply]; grind
        · intro x hx; exact a4 x (by rw [hs]; exact List.mem_cons_of_mem _ hx)
        · intro r hr hx
          have := a5 r hr
          simp only [upd_apply]
          rw [hs] at this
          simp only [List.mem_cons, forall_eq_or_imp] at this
          grind
        · intro r f hm; exact a6 r f (by rw [hs]; exact List.mem_cons_of_mem _ hm)
        · intro f hf hst
          obtain ⟨r, hm⟩ := a7 f hf hst
          rw [hs] at hm; simp only [List.mem_cons] at hm
          grind
        · exact a8
        · exact a9
        · exact a10
        · exact a11
      · simp at h

theorem sim_activate {g g' : G} {s : St} {r f : Nat} (a : Agree g s) (h : gstep g (.activate r f) = some g') :
    ∃ s', step s (.activate r f) = some s' ∧ Agree g' s' := by
  have ⟨a1, a2, a3, a4, a5, a6, a7, a8, a9, a10, a11⟩ := a
  cases hs : g.stack with
  | nil => simp [gstep, hs] at h
  | cons x rest =>
    obtain ⟨r', t⟩ := x
    cases t with
    | some f' => simp [gstep, hs] at h
    | none =>
      simp only [gstep, hs] at h
      split at h
      · rename_i hc
        obtain ⟨hr, hf, hst⟩ := hc
        subst hr
        simp only [Option.some.injEq] at h; subst h
        obtain ⟨c1, c2, c3, c4, c5⟩ := a.cur_head hs
        have hok := a3; rw [hs, c1] at hok
        have hrest := fun r'' f'' (hm : (r'', some f'') ∈ rest) => a.rest_ne hs hm
        have hroot : (s.frames f).root = none := a8 f hf (by grind)
        refine ⟨_, by simp only [step]; rw [if_pos ⟨c2, by omega, c1, c4, hroot⟩], ?_⟩
        rw [hs] at a4 a5 a6 a7
        constructor
        · exact a1
        · exact a2
        · simp only [c1]
          exact stackOK_head (s := s) (R' := { s.roots r' with top := some f }) rfl hok c3 rfl rfl
        · intro x hx; simp only [List.mem_cons] at hx a4; grind
        · intro r hr hx
          have := a5 r hr
          simp only [upd_apply, List.mem_cons, forall_eq_or_imp] at *
          grind
        · intro r f'' hm
          have := a6 r f''
          have := hrest r f''
          simp only [upd_apply, List.mem_cons] at *
          grind
        · intro f'' hf'' hst''
          have := a7 f'' hf''
          simp only [upd_apply, List.mem_cons] at *
          grind
        · intro f'' hf'' hst''
          have := a8 f'' hf''
          simp only [upd_apply] at *
          grind
        · intro f'' hf''
          have := a9 f'' hf''
          simp only [upd_apply] at *
          grind
        · intro f'' p hf'' hp
          have := a10 f'' p hf'' hp
          simp only [upd_apply] at *
          grind
        · intro f'' hf''
          have := a11 f'' hf''
          simp only [upd_apply] at *
          grind
      · simp at h

theorem sim_setParent {g g' : G} {s : St} {f p : Nat} (a : Agree g s) (h : gstep g (.setParent f p) = some g') :
    ∃ s', step s (.setParent f p) = some s' ∧ Agree g' s' := by
  have ⟨a1, a2, a3, a4, a5, a6, a7, a8, a9, a10, a11⟩ := a
  simp only [gstep] at h
  split at h
  · rename_i hc
    obtain ⟨hf, hp, hsf, hsp⟩ := hc
    simp only [Option.some.injEq] at h; subst h
    refine ⟨_, by simp only [step]; rw [if_pos ⟨by omega, by omega⟩], ?_⟩
    constructor
    · exact a1
    · exact a2
    · exact stackOK_frames (s := s) rfl a3
    · exact a4
    · exact a5
    · intro r f'' hm
      have := a6 r f'' hm
      simp only [upd_apply] at *
      grind
    · exact a7
    · intro f'' hf'' hst''
      have := a8 f'' hf''
      simp only [upd_apply] at *
      grind
    · intro f'' hf''
      have := a9 f'' hf''
      simp only [upd_apply] at *
      grind
    · intro f'' q hf'' hq
      have := a10 f'' q hf''
      simp only [upd_apply] at *
      grind
    · intro f'' hf''
      have := a11 f'' hf''
      simp only [upd_apply] at *
      grind
  · simp at h

theorem sim_copyParent {g g' : G} {s : St} {c f : Nat} (a : Agree g s) (h : gstep g (.copyParent c f) = some g') :
    ∃ s', step s (.copyParent c f) = some s' ∧ Agree g' s' := by
  have ⟨a1, a2, a3, a4, a5, a6, a7, a8, a9, a10, a11⟩ := a
  simp only [gstep] at h
  split at h
  · rename_i hc
    obtain ⟨hcn, hf, hsc⟩ := hc
    have hpar := a9 f hf
    cases hp : g.par f with
    | none =>
      simp only [hp, Option.some.injEq] at h; subst h
      refine ⟨s, ?_, a⟩
      simp only [step]; rw [if_pos ⟨by omega, by omega⟩, hpar, hp]
    | some p =>
      simp only [hp, Option.some.injEq] at h; subst h
      have hpo := a10 f p hf hp
      refine ⟨_, by simp only [step]; rw [if_pos ⟨by omega, by omega⟩, hpar, hp], ?_⟩
      constructor
      · exact a1
      · exact a2
      · exact stackOK_frames (s := s) rfl a3
      · exact a4
      · exact a5
      · intro r f'' hm
        have := a6 r f'' hm
        simp only [upd_apply] at *
        grind
      · exact a7
      · intro f'' hf'' hst''
        have := a8 f'' hf''
        simp only [upd_apply] at *
        grind
      · intro f'' hf''
        have := a9 f'' hf''
        simp only [upd_apply] at *
        grind
      · intro f'' q hf'' hq
        have := a10 f'' q hf''
        simp only [upd_apply] at *
        grind
      · intro f'' hf''
        have := a11 f'' hf''
        simp only [upd_apply] at *
        grind
  · simp at h

theorem Agree.checkActive_head {g : G} {s : St} {r f : Nat} {rest : List (Nat × Option Nat)}
    (a : Agree g s) (hs : g.stack = (r, some f) :: rest) : checkActive s f = some r := by
  obtain ⟨c1, c2, c3, c4, c5⟩ := a.cur_head hs
  have ht := a.tops r f (by rw [hs]; exact List.mem_cons_self)
  simp only [checkActive]
  rw [if_pos (by rw [a.nf_eq]; exact ht.1), ht.2.2]
  simp only
  rw [if_pos ⟨c1, c2, c4⟩]

theorem sim_deactivate {g g' : G} {s : St} {f : Nat} (a : Agree g s) (h : gstep g (.deactivate f) = some g') :
    ∃ s', step s (.deactivate f) = some s' ∧ Agree g' s' := by
  have ⟨a1, a2, a3, a4, a5, a6, a7, a8, a9, a10, a11⟩ := a
  cases hs : g.stack with
  | nil => simp [gstep, hs] at h
  | cons x rest =>
    obtain ⟨r, t⟩ := x
    cases t with
    | none => simp [gstep, hs] at h
    | some f' =>
      simp only [gstep, hs] at h
      split at h
      · rename_i hc; subst hc
        simp only [Option.some.injEq] at h; subst h
        obtain ⟨c1, c2, c3, c4, c5⟩ := a.cur_head hs
        have hok := a3; rw [hs, c1] at hok
        have hrest := fun r'' f'' (hm : (r'', some f'') ∈ rest) => a.rest_ne hs hm
        have hca := a.checkActive_head hs
        have ht := a6 r f' (by rw [hs]; exact List.mem_cons_self)
        refine ⟨_, by simp only [step, hca]; rfl, ?_⟩
        rw [hs] at a4 a5 a6 a7
        constructor
        · exact a1
        · exact a2
        · simp only [c1]
          exact stackOK_head (s := s) (R' := { s.roots r with top := none }) rfl hok c3 rfl rfl
        · intro x hx; simp only [List.mem_cons] at hx a4; grind
        · intro r'' hr hx
          have := a5 r'' hr
          simp only [upd_apply, List.mem_cons, forall_eq_or_imp] at *
          grind
        · intro r'' f'' hm
          have := a6 r'' f''
          have := hrest r'' f''
          simp only [upd_apply, List.mem_cons] at *
          grind
        · intro f'' hf'' hst''
          have := a7 f'' hf''
          simp only [upd_apply, List.mem_cons] at *
          grind
        · intro f'' hf'' hst''
          have := a8 f'' hf''
          simp only [upd_apply] at *
          grind
        · intro f'' hf''
          have := a9 f'' hf''
          simp only [upd_apply] at *
          grind
        · intro f'' p hf'' hp
          have := a10 f'' p hf'' hp
          simp only [upd_apply] at *
          grind
        · intro f'' hf''
          have := a11 f'' hf''
          simp only [upd_apply] at *
          grind
      · simp at h

theorem sim_ensureDeactivated {g g' : G} {s : St} {r f : Nat} (a : Agree g s)
    (h : gstep g (.ensureDeactivated r f) = some g') :
    ∃ s', step s (.ensureDeactivated r f) = some s' ∧ Agree g' s' := by
  have ⟨a1, a2, a3, a4, a5, a6, a7, a8, a9, a10, a11⟩ := a
  cases hs : g.stack with
  | nil => simp [gstep, hs] at h
  | cons x rest =>
    obtain ⟨r', t⟩ := x
    obtain ⟨c1, c2, c3, c4, c5⟩ := a.cur_head hs
    cases t with
    | none =>
      simp only [gstep, hs] at h
      split at h
      · rename_i hc; subst hc
        simp only [Option.some.injEq] at h; subst h
        refine ⟨s, ?_, a⟩
        simp only [step]; rw [if_pos ⟨c2, c1⟩, c4]
      · simp at h
    | some f' =>
      simp only [gstep, hs] at h
      split at h
      · rename_i hc; obtain ⟨hr, hf⟩ := hc; subst hr; subst hf
        simp only [Option.some.injEq] at h; subst h
        have hok := a3; rw [hs, c1] at hok
        have hrest := fun r'' f'' (hm : (r'', some f'') ∈ rest) => a.rest_ne hs hm
        have ht := a6 r' f' (by rw [hs]; exact List.mem_cons_self)
        refine ⟨_, by simp only [step]; rw [if_pos ⟨c2, c1⟩, c4]; simp only [if_true]; rfl, ?_⟩
        rw [hs] at a4 a5 a6 a7
        constructor
        · exact a1
        · exact a2
        · simp only [c1]
          exact stackOK_head (s := s) (R' := { s.roots r' with top := none }) rfl hok c3 rfl rfl
        · intro x hx; simp only [List.mem_cons] at hx a4; grind
        · intro r'' hr hx
          have := a5 r'' hr
          simp only [upd_apply, List.mem_cons, forall_eq_or_imp] at *
          grind
        · intro r'' f'' hm
          have := a6 r'' f''
          have := hrest r'' f''
          simp only [upd_apply, List.mem_cons] at *
          grind
        · intro f'' hf'' hst''
          have := a7 f'' hf''
          simp only [upd_apply, List.mem_cons] at *
          grind
        · intro f'' hf'' hst''
          have := a8 f'' hf''
          simp only [upd_apply] at *
          grind
        · intro f'' hf''
          have := a9 f'' hf''
          simp only [upd_apply] at *
          grind
        · intro f'' p hf'' hp
          have := a10 f'' p hf'' hp
          simp only [upd_apply] at *
          grind
        · intro f'' hf''
          have := a11 f'' hf''
          simp only [upd_apply] at *
          grind
      · simp at h

theorem sim_pushCallee {g g' : G} {s : St} {c b : Nat} (a : Agree g s)
    (h : gstep g (.pushCallee c b) = some g') :
    ∃ s', step s (.pushCallee c b) = some s' ∧ Agree g' s' := by
  have ⟨a1, a2, a3, a4, a5, a6, a7, a8, a9, a10, a11⟩ := a
  cases hs : g.stack with
  | nil => simp [gstep, hs] at h
  | cons x rest =>
    obtain ⟨r, t⟩ := x
    cases t with
    | none => simp [gstep, hs] at h
    | some c' =>
      simp only [gstep, hs] at h
      split at h
      · rename_i hc; obtain ⟨hcc, hb, hsb⟩ := hc; subst hcc
        simp only [Option.some.injEq] at h; subst h
        obtain ⟨c1, c2, c3, c4, c5⟩ := a.cur_head hs
        have hok := a3; rw [hs, c1] at hok
        have hrest := fun r'' f'' (hm : (r'', some f'') ∈ rest) => a.rest_ne hs hm
        have hca := a.checkActive_head hs
        have ht := a6 r c' (by rw [hs]; exact List.mem_cons_self)
        have hne : c' ≠ b := by intro e; subst e; rw [ht.2.1] at hsb; cases hsb
        refine ⟨_, by simp only [step, hca]; rw [if_pos (by omega)], ?_⟩
        rw [hs] at a4 a5 a6 a7
        constructor
        · exact a1
        · exact a2
        · simp only [c1]
          exact stackOK_head (s := s) (R' := { s.roots r with top := some b }) rfl hok c3 rfl rfl
        · intro x hx; simp only [List.mem_cons] at hx a4; grind
        · intro r'' hr hx
          have := a5 r'' hr
          simp only [upd_apply, List.mem_cons, forall_eq_or_imp] at *
          grind
        · intro r'' f'' hm
          have := a6 r'' f''
          have := hrest r'' f''
          simp only [upd_apply, List.mem_cons] at *
          grind
        · intro f'' hf'' hst''
          have := a7 f'' hf''
          simp only [upd_apply, List.mem_cons] at *
          grind
        · intro f'' hf'' hst''
          have := a8 f'' hf''
          simp only [upd_apply] at *
          grind
        · intro f'' hf''
          have := a9 f'' hf''
          simp only [upd_apply] at *
          grind
        · intro f'' p hf'' hp
          have := a10 f'' p hf''
          simp only [upd_apply] at *
          grind
        · intro f'' hf''
          have := a11 f'' hf''
          have := a11 b hb
          simp only [upd_apply] at *
          grind
      · simp at h

theorem sim_gpop {g g' : G} {s : St} {b : Nat} (a : Agree g s) (h : gpop g b = some g') :
    ∃ s', popCalleeStep s b = some s' ∧ Agree g' s' := by
  have ⟨a1, a2, a3, a4, a5, a6, a7, a8, a9, a10, a11⟩ := a
  cases hs : g.stack with
  | nil => simp [gpop, hs] at h
  | cons x rest =>
    obtain ⟨r, t⟩ := x
    cases t with
    | none => simp [gpop, hs] at h
    | some b' =>
      simp only [gpop, hs] at h
      split at h
      · rename_i hc; subst hc
        obtain ⟨c1, c2, c3, c4, c5⟩ := a.cur_head hs
        have hok := a3; rw [hs, c1] at hok
        have hrest := fun r'' f'' (hm : (r'', some f'') ∈ rest) => a.rest_ne hs hm
        have hca := a.checkActive_head hs
        have ht := a6 r b' (by rw [hs]; exact List.mem_cons_self)
        have hpar := a9 b' ht.1
        cases hp : g.par b' with
        | none =>
          simp only [hp, Option.some.injEq] at h; subst h
          refine ⟨_, by simp only [popCalleeStep, hca, hpar, hp]; rfl, ?_⟩
          rw [hs] at a4 a5 a6 a7
          constructor
          · exact a1
          · exact a2
          · simp only [c1]
            exact stackOK_head (s := s) (R' := { s.roots r with top := none }) rfl hok c3 rfl rfl
          · intro x hx; simp only [List.mem_cons] at hx a4; grind
          · intro r'' hr hx
            have := a5 r'' hr
            simp only [upd_apply, List.mem_cons, forall_eq_or_imp] at *
            grind
          · intro r'' f'' hm
            have := a6 r'' f''
            have := hrest r'' f''
            simp only [upd_apply, List.mem_cons] at *
            grind
          · intro f'' hf'' hst''
            have := a7 f'' hf''
            simp only [upd_apply, List.mem_cons] at *
            grind
          · intro f'' hf'' hst''
            have := a8 f'' hf''
            simp only [upd_apply] at *
            grind
          · intro f'' hf''
            have := a9 f'' hf''
            simp only [upd_apply] at *
            grind
          · intro f'' p hf'' hp
            have := a10 f'' p hf'' hp
            simp only [upd_apply] at *
            grind
          · intro f'' hf''
            have := a11 f'' hf''
            simp only [upd_apply] at *
            grind
        | some c =>
          simp only [hp] at h
          split at h
          · rename_i hsc
            simp only [Option.some.injEq] at h; subst h
            have hpo := a10 b' c ht.1 hp
            have hne : c ≠ b' := by intro e; subst e; omega
            refine ⟨_, by simp only [popCalleeStep, hca, hpar, hp]; rfl, ?_⟩
            rw [hs] at a4 a5 a6 a7
            constructor
            · exact a1
            · exact a2
            · simp only [c1]
              exact stackOK_head (s := s) (R' := { s.roots r with top := some c }) rfl hok c3 rfl rfl
            · intro x hx; simp only [List.mem_cons] at hx a4; grind
            · intro r'' hr hx
              have := a5 r'' hr
              simp only [upd_apply, List.mem_cons, forall_eq_or_imp] at *
              grind
            · intro r'' f'' hm
              have := a6 r'' f''
              have := hrest r'' f''
              simp only [upd_apply, List.mem_cons] at *
              grind
            · intro f'' hf'' hst''
              have := a7 f'' hf''
              simp only [upd_apply, List.mem_cons] at *
              grind
            · intro f'' hf'' hst''
              have := a8 f'' hf''
              simp only [upd_apply] at *
              grind
            · intro f'' hf''
              have := a9 f'' hf''
              simp only [upd_apply] at *
              grind
            · intro f'' p hf'' hp
              have := a10 f'' p hf'' hp
              simp only [upd_apply] at *
              grind
            · intro f'' hf''
              have := a11 f'' hf''
              have := a11 c hpo.1
              simp only [upd_apply] at *
              grind
          · simp at h
      · simp at h

theorem sim_popFromCaller {g g' : G} {s : St} {c : Nat} (a : Agree g s)
    (h : gstep g (.popFromCaller c) = some g') :
    ∃ s', step s (.popFromCaller c) = some s' ∧ Agree g' s' := by
  cases hs : g.stack with
  | nil => simp [gstep, hs] at h
  | cons x rest =>
    obtain ⟨r, t⟩ := x
    cases t with
    | none => simp [gstep, hs] at h
    | some b =>
      simp only [gstep, hs] at h
      split at h
      · rename_i hp
        obtain ⟨c1, c2, c3, c4, c5⟩ := a.cur_head hs
        have ht := a.tops r b (by rw [hs]; exact List.mem_cons_self)
        have hpar := a.par_eq b ht.1
        obtain ⟨s', h1, h2⟩ := sim_gpop a h
        refine ⟨s', ?_, h2⟩
        simp only [step, c1]
        rw [if_pos c2, c4]
        simp only
        rw [if_pos ⟨by rw [a.nf_eq]; exact ht.1, by rw [hpar, hp]⟩]
        exact h1
      · simp at h

theorem sim_step {g g' : G} {s : St} (o : Op) (a : Agree g s) (h : gstep g o = some g') :
    ∃ s', step s o = some s' ∧ Agree g' s' := by
  cases o with
  | newFrame => exact sim_newFrame a h
  | setParent f p => exact sim_setParent a h
  | copyParent c f => exact sim_copyParent a h
  | rootCtor => exact sim_rootCtor a h
  | rootDtor r => exact sim_rootDtor a h
  | activate r f => exact sim_activate a h
  | deactivate f => exact sim_deactivate a h
  | ensureDeactivated r f => exact sim_ensureDeactivated a h
  | pushCallee c b => exact sim_pushCallee a h
  | popCallee b => exact sim_gpop a h
  | popFromCaller c => exact sim_popFromCaller a h
  | exchangeRoot r => simp [gstep] at h

/-- an accepted sequence never trips an assertion, and the simulation relation is kept -/
theorem sim_run {g g' : G} {s : St} (ops : List Op) (a : Agree g s) (h : grun g ops = some g') :
    ∃ s', run s ops = some s' ∧ Agree g' s' := by
  induction ops generalizing g s with
  | nil => simp only [grun, Option.some.injEq] at h; subst h; exact ⟨s, rfl, a⟩
  | cons o os ih =>
    simp only [grun] at h
    cases hg : gstep g o with
    | none => simp [hg] at h
    | some g1 =>
      simp only [hg] at h
      obtain ⟨s1, h1, a1⟩ := sim_step o a hg
      obtain ⟨s2, h2, a2⟩ := ih a1 h
      exact ⟨s2, by simp only [run, h1]; exact h2, a2⟩

end Unifex.Proto.AsyncStack
