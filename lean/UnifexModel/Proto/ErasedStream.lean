/-
  Proto/ErasedStream.lean — sequential model of the ELEMENT path of `unifex::type_erased_stream`
  (type_erased_stream.hpp, `_stream<Stream>::type::next_receiver_wrapper::set_value`) for element
  types with a real lifetime, `layers` erasures deep (0 = the wrapped stream used directly).

  The wrapped stream is the harness source of harness/evt/estream.cpp: its next() operation keeps
  the produced element INSIDE its operation state and completes with an rvalue reference to it (what
  `just(v)` and most hand-written senders do).  What the code does per layer, from the wrapped
  stream outwards:

      set_value(Values&&... values):
        try   { [&](Values... copy) {                      -- move-construct a by-value copy
                  deactivate_union_member(stream_.next_);   -- destroy the wrapped next operation
                  receiver_.set_value((Values&&)copy...);   -- forward a reference to the COPY
                }((Values&&)values...); }                   -- the copy dies when the lambda returns
        catch { deactivate_union_member(stream_.next_); receiver_.set_error(current_exception()); }

  so for the innermost layer the element object in the operation state is destroyed BEFORE the
  consumer runs, and the consumer must be given the copy.  Elements are tracked objects: every
  construction / move / copy / destruction and every READ by the consumer is an `Event`; the state's
  history counters are by definition the fold of the events (`St.record`): `deadReads` counts reads
  of (or moves from) an object that does not exist at that moment, `wrongReads` reads that see a
  value different from the object's current value.

  Ops (manual driver): `next it pending thr` — connect+start next(); the source will produce `it`
  (inline, or later at `fire`); the `thr`-th element move of this delivery throws (0 = none);
  `fire` — the pending next completes; `cleanup err`.
-/
namespace Unifex.Proto.ErasedStream

inductive Item
  | value (v : Nat) | done | error (e : Nat)
  deriving DecidableEq, Repr

inductive Op
  | next (it : Item) (pending : Bool) (thr : Nat)
  | fire
  | cleanup (err : Option Nat)
  deriving DecidableEq, Repr

inductive Event
  | ctor (id v : Nat)            -- the source constructs element `id` with value v in its operation state
  | move (new src : Nat)         -- element `new` move-constructed from `src`
  | copy (new src : Nat)         -- (never emitted)
  | dtor (id : Nat)
  | read (id v : Nat)            -- the consumer's receiver got a reference to `id` and read value v
  | sigDone                      -- the consumer's receiver got set_done
  | sigErr (e : Nat)             -- the consumer's receiver got set_error
  deriving DecidableEq, Repr

inductive Res
  | value (v : Nat) | done | error (e : Nat) | pending | cleaned | cleanErr (e : Nat) | bad
  deriving DecidableEq, Repr

structure Out where
  events : List Event
  res : Res
  deriving DecidableEq, Repr

def upd {α : Type} (f : Nat → α) (i : Nat) (v : α) : Nat → α := fun k => if k = i then v else f k

structure St where
  next : Nat                      -- next element id
  val : Nat → Nat                 -- current value of element id (0 once moved from)
  dcnt : Nat → Nat                -- how many times element id was destroyed
  deadReads : Nat                 -- reads of / moves from an element that is not alive
  wrongReads : Nat                -- reads that saw something else than the element's value
  copies : Nat
  pend : Option (Item × Nat)      -- the source's outstanding next (what it will produce, throw position)
  closed : Bool                   -- cleanup has run

def St.init : St :=
  { next := 0, val := fun _ => 0, dcnt := fun _ => 0, deadReads := 0, wrongReads := 0, copies := 0,
    pend := none, closed := false }

/-- is element `id` alive in state `s`? -/
def St.alive (s : St) (id : Nat) : Bool := decide (id < s.next) && (s.dcnt id == 0)

def St.record (s : St) : Event → St
  | .ctor id v => { s with next := s.next + 1, val := upd s.val id v }
  | .move new src =>
    { s with next := s.next + 1, val := upd (upd s.val new (s.val src)) src 0,
             deadReads := s.deadReads + (if s.alive src then 0 else 1) }
  | .copy new src => { s with next := s.next + 1, val := upd s.val new (s.val src), copies := s.copies + 1 }
  | .dtor id => { s with dcnt := upd s.dcnt id (s.dcnt id + 1) }
  | .read id v =>
    { s with deadReads := s.deadReads + (if s.alive id then 0 else 1),
             wrongReads := s.wrongReads + (if s.val id = v then 0 else 1) }
  | .sigDone => s
  | .sigErr _ => s

/-- Delivery of the element `src` (value v, next free id n) through `L` remaining wrapper layers to
    the consumer.  `inner`: this layer's wrapped operation is the SOURCE's (it contains `src`), so
    deactivating it destroys `src`.  `thr` counts down to the move that throws. -/
def deliverEvs : Nat → Nat → Nat → Nat → Nat → Bool → List Event × Res
  | 0, _, _, src, v, _ => ([.read src v], .value v)
  | L + 1, thr, n, src, v, inner =>
    if thr = 1 then
      -- the by-value copy throws: catch → deactivate the wrapped operation, forward the exception
      ((if inner then [.dtor src] else []) ++ [.sigErr v], .error v)
    else
      let d := deliverEvs L (thr - 1) (n + 1) n v false
      ([.move n src] ++ (if inner then [.dtor src] else []) ++ d.1 ++ [.dtor n], d.2)

/-- the source's next completes with `it` -/
def completeEvs (L : Nat) (n : Nat) (thr : Nat) : Item → List Event × Res
  | .value v =>
    if L = 0 then
      -- direct use: the consumer reads the element in the operation state; the driver destroys the
      -- completed operation afterwards
      ([.ctor n v, .read n v, .dtor n], .value v)
    else
      let d := deliverEvs L thr (n + 1) n v true
      ([.ctor n v] ++ d.1, d.2)
  | .done => ([.sigDone], .done)
  | .error e => ([.sigErr e], .error e)

/-- protocol part of a step: what is emitted, the result, the new `pend` / `closed` -/
def eff (L : Nat) (s : St) : Op → (List Event × Res) × Option (Item × Nat) × Bool
  | .next it pending thr =>
    if s.closed || s.pend.isSome then (([], .bad), s.pend, s.closed)
    else if pending then (([], .pending), some (it, thr), s.closed)
    else (completeEvs L s.next thr it, none, s.closed)
  | .fire =>
    match s.pend with
    | some (it, thr) => if s.closed then (([], .bad), s.pend, s.closed) else (completeEvs L s.next thr it, none, s.closed)
    | none => (([], .bad), s.pend, s.closed)
  | .cleanup err =>
    if s.closed || s.pend.isSome then (([], .bad), s.pend, s.closed)
    else (([], match err with | some e => .cleanErr e | none => .cleaned), none, true)

def step (L : Nat) (s : St) (op : Op) : St × Out :=
  let e := eff L s op
  ({ (e.1.1.foldl St.record s) with pend := e.2.1, closed := e.2.2 }, ⟨e.1.1, e.1.2⟩)

def run (L : Nat) : St → List Op → St × List Out
  | s, [] => (s, [])
  | s, op :: ops =>
    let r := step L s op
    let q := run L r.1 ops
    (q.1, r.2 :: q.2)

/-- end of a case: an outstanding next is completed, then cleanup runs if it has not -/
def finish (s : St) : List Op :=
  (if s.pend.isSome then [.fire] else []) ++ (if s.closed then [] else [.cleanup none])

def trace (outs : List Out) : List Event := outs.flatMap (·.events)

/-- the values the consumer read, in order -/
def readsOf : List Event → List Nat
  | [] => []
  | .read _ v :: es => v :: readsOf es
  | _ :: es => readsOf es

/-- what the consumer can tell: per op the result and the values it read -/
def Out.obs (o : Out) : Res × List Nat := (o.res, readsOf o.events)

end Unifex.Proto.ErasedStream
