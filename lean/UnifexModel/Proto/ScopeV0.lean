/-
  Proto/ScopeV0.lean — `unifex::v0::async_scope` (include/unifex/v0/async_scope.hpp).

  v0 has the same packed counter word, the same try_record_start / record_done / end_of_scope and
  the same event as v2, and a stop source like v1, so the model is Proto/ScopeV1.lean with
  `v0 := true`, which switches exactly the points where the code differs:
    * `spawn` is detached (no attach operation, no refcount, no receiver of ours: the operation
      deletes itself and calls `record_done`; a rejected spawn is destroyed without being started);
    * the spawned operation's stop token is the scope's own, so the leaf's stop callback is
      registered directly with the scope's stop source;
    * `cleanup()` = `request_stop()` then wait — `end_of_scope` runs once (v1's `end_scope` twice);
      `complete()` = `end_of_scope()` then wait.
  Not modelled: the `opState_.load(acquire)` that `await_and_sync` performs before the join
  receiver completes (no effect under sequential consistency).
-/
import UnifexModel.Proto.ScopeV1

namespace Unifex.Proto.ScopeV0
open Unifex.Core Unifex.Proto.ScopeV1

/-- T0 spawns op0 and runs complete(); T1 spawns + completes op1, then completes op0. -/
def cfgComplete : Config := ⟨[[.spawn 0, .join 0], [.spawn 1, .fire 1, .fire 0]], 2, 1, true⟩
/-- T0 spawns op0 and runs cleanup(); T1 completes op0. -/
def cfgCleanup : Config := ⟨[[.spawn 0, .cleanup 0], [.fire 0]], 1, 1, true⟩
/-- T0 spawns op0 and runs complete(); T1 completes op0; T2 calls request_stop(). -/
def cfgStopJoin : Config := ⟨[[.spawn 0, .join 0], [.fire 0], [.stop]], 1, 1, true⟩

/-- T0 runs complete() on the EMPTY scope while T1 spawns op0 (admission racing the close at count 0), then completes it. -/
def cfgSpawnRace : Config := ⟨[[.join 0], [.spawn 0, .fire 0]], 1, 1, true⟩

def configs : List (String × Config) :=
  [("v0_complete", cfgComplete), ("v0_cleanup", cfgCleanup), ("v0_stop_join", cfgStopJoin), ("v0_spawn_race", cfgSpawnRace)]

end Unifex.Proto.ScopeV0
