/-
  Proto/Trampoline.lean — sequential model of `trampoline_scheduler`
  (include/unifex/trampoline_scheduler.hpp, source/trampoline_scheduler.cpp).

  A client program is a nesting tree: the completion of item `node id stopHere kids` first (if
  `stopHere`) requests stop on the stop source all receivers share, then calls `start()` on a
  schedule operation for each kid, in order.  The C++ call stack is made explicit: `stack` holds,
  per running completion (innermost first), the kids it still has to start.

    operation_base::start():
      current_ == nullptr            → trampoline_state state (depth 1); execute(); state.drain()
      recursionDepth_ < max          → ++recursionDepth_; execute()      (never decremented!)
      otherwise                      → push on the deferred list `head_` (LIFO)
    drain(): while (head_) { pop; recursionDepth_ = 1; execute() }

  The model starts inside the outermost `start()` (root being executed) and ends (`fin = true`)
  when `drain()` found the deferred list empty, i.e. when the outermost `start()` returns.
  `log` is the observable event sequence: `run id nest done` (the item completed — with set_done
  iff stop had been requested — while `nest` other completions were on the call stack) and
  `defer id` (its `start()` returned without having run it).
-/
import UnifexModel.Core.Sched

namespace Unifex.Proto.Trampoline
open Unifex.Core

inductive Tree
  | node (id : Nat) (stopHere : Bool) (kids : List Tree)
  deriving Repr

inductive Ev
  | run (id nest : Nat) (done : Bool)
  | defer (id : Nat)
  deriving DecidableEq, Repr

structure Config where
  maxDepth : Nat
  root : Tree

structure St where
  stack : List (List Tree)
  depth : Nat               -- trampoline_state::recursionDepth_
  deferred : List Tree      -- trampoline_state::head_ (LIFO)
  stopped : Bool            -- the shared stop source
  log : List Ev
  fin : Bool                -- the outermost start() has returned
  deriving Repr

def Tree.id : Tree → Nat | .node i _ _ => i
def Tree.stopHere : Tree → Bool | .node _ b _ => b
def Tree.kids : Tree → List Tree | .node _ _ ks => ks

/-- execute(): complete the item (log), run the first part of its body, push its frame -/
def execute (c : Tree) (s : St) : St :=
  { s with log := s.log ++ [.run c.id s.stack.length s.stopped],
           stopped := s.stopped || c.stopHere,
           stack := c.kids :: s.stack }

def init (cfg : Config) : St :=
  execute cfg.root { stack := [], depth := 1, deferred := [], stopped := false, log := [], fin := false }

def step (cfg : Config) (s : St) : St :=
  match s.stack with
  | (c :: rest) :: fs =>
    -- the innermost running completion calls start() on its next kid
    if s.depth < cfg.maxDepth then
      execute c { s with depth := s.depth + 1, stack := rest :: fs }
    else
      { s with deferred := c :: s.deferred, log := s.log ++ [.defer c.id], stack := rest :: fs }
  | [] :: fs => { s with stack := fs }          -- a completion returns
  | [] =>
    -- drain()
    match s.deferred with
    | c :: ds => execute c { s with deferred := ds, depth := 1 }
    | [] => { s with fin := true }

def sys (cfg : Config) : LSys St Unit where
  init := init cfg
  next s := if s.fin then [] else [((), step cfg s)]

def iter (cfg : Config) : Nat → St → St
  | 0, s => s
  | n+1, s => if s.fin then s else iter cfg n (step cfg s)

/-! ### sizes, ids -/

mutual
def Tree.size : Tree → Nat
  | .node _ _ ks => 1 + sizeL ks
def sizeL : List Tree → Nat
  | [] => 0
  | t :: ts => t.size + sizeL ts
end

mutual
def Tree.ids : Tree → List Nat
  | .node i _ ks => i :: idsL ks
def idsL : List Tree → List Nat
  | [] => []
  | t :: ts => t.ids ++ idsL ts
end

/-- upper bound on the number of steps: every item is started (1), possibly popped from the
    deferred list (1) and returns (1) -/
def fuelFor (cfg : Config) : Nat := 3 * cfg.root.size + 2

def exec (cfg : Config) : St := iter cfg (fuelFor cfg) (init cfg)

def runsOf : List Ev → List Nat
  | [] => []
  | .run i _ _ :: r => i :: runsOf r
  | .defer _ :: r => runsOf r

/-! ### text interface for the differential tie: `maxDepth | tree`, tree ::= '(' ['!'] tree* ')' ;
    ids are assigned in preorder. -/

def parseKids : Nat → List Char → Nat → Option (List Tree × List Char × Nat)
  | 0, _, _ => none
  | fuel+1, cs, nid =>
    match cs with
    | ')' :: r => some ([], r, nid)
    | '(' :: r =>
      let (sh, r) := match r with | '!' :: r' => (true, r') | _ => (false, r)
      match parseKids fuel r (nid + 1) with
      | none => none
      | some (ks, r1, nid1) =>
        match parseKids fuel r1 nid1 with
        | none => none
        | some (sibs, r2, nid2) => some (Tree.node nid sh ks :: sibs, r2, nid2)
    | _ => none

def parseTree (str : String) : Option Tree :=
  let cs := str.toList.filter (fun c => c == '(' || c == ')' || c == '!')
  match parseKids (cs.length + 2) (cs ++ [')']) 0 with
  | some ([t], [], _) => some t
  | _ => none

def showEv : Ev → String
  | .run i n d => s!"r{i}@{n}{if d then "d" else "v"}"
  | .defer i => s!"d{i}"

def answer (q : String) : String :=
  match q.splitOn "|" with
  | [m, t] =>
    match m.trimAscii.toString.toNat?, parseTree t with
    | some md, some tree =>
      let s := exec ⟨md, tree⟩
      if s.fin then " ".intercalate (s.log.map showEv) else "nonterminating"
    | _, _ => "bad-op"
  | _ => "bad-op"

end Unifex.Proto.Trampoline
