/-
  Driver/Entry.lean — what a model contributes to the driver: for each named configuration an
  executable trace-inclusion test and a state counter.
-/
import UnifexModel.Core.Admit
import UnifexModel.Core.Reflect

namespace Unifex.Driver
open Unifex.Core

structure Entry where
  admitH : List String → Verdict
  states : Unit → Nat
  /-- free-form query hook (`ask <model> <config> | text`), default: not supported -/
  query : String → String := fun _ => "bad-op"

def mkEntry {σ lbl : Type} [DecidableEq σ] (sys : LSys σ lbl) (obs : lbl → Option String)
    (final : σ → Bool) : Entry :=
  { admitH := fun h => admits sys obs final h
    states := fun _ => (tauClosure sys (fun _ => none) 100000 [sys.init] [sys.init]).length }

abbrev ModelEntries := String × List (String × Entry)

end Unifex.Driver
