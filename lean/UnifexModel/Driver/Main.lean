/-
  Driver/Main.lean — line-protocol driver (`umdriver`).  One request per line on stdin, one answer
  per line on stdout.

    admit <model> <config> | ev ; ev ; ...     -> ok <n> | reject <i> [ev] expected: ... | notfinal ...
    states <model> <config>                    -> <number of reachable model states>
    ask <model> <config> | text                -> model-specific query (e.g. evaluate a pure function)
    configs <model>                            -> space separated configuration names
-/
import UnifexModel.Driver.Registry

open Unifex.Core Unifex.Driver

def splitHist (s : String) : List String :=
  (s.splitOn " ; ").map (fun x => x.trimAscii.toString) |>.filter (fun x => x ≠ "")

def handle (line : String) : String :=
  let line := line.trimAscii.toString
  let (cmd, hist) := match line.splitOn " | " with
    | [c] => (c, "")
    | c :: rest => (c, " | ".intercalate rest)
    | [] => ("", "")
  match (cmd.splitOn " ").filter (fun x => x ≠ "") with
  | ["admit", m, c] =>
    match lookup m c with
    | some e => (e.admitH (splitHist hist)).render
    | none => s!"bad-op unknown model/config {m}/{c}"
  | ["states", m, c] =>
    match lookup m c with
    | some e => toString (e.states ())
    | none => s!"bad-op unknown model/config {m}/{c}"
  | ["ask", m, c] =>
    match lookup m c with
    | some e => e.query hist
    | none => s!"bad-op unknown model/config {m}/{c}"
  | ["configs", m] => " ".intercalate (configsOf m)
  | _ => "bad-op"

partial def loop (h : IO.FS.Stream) (out : IO.FS.Stream) : IO Unit := do
  let line ← h.getLine
  if line.isEmpty then return ()
  out.putStrLn (handle line)
  out.flush
  loop h out

def main : IO Unit := do
  let out ← IO.getStdout
  loop (← IO.getStdin) out
  out.flush
