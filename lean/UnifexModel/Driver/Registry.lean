/-
  Driver/Registry.lean — the table model-name × configuration-name → executable model.
  Every protocol model registers its scenario configurations here.
-/
import UnifexModel.Core.Admit
import UnifexModel.Core.Reflect
import UnifexModel.Proto.StopSource

namespace Unifex.Driver
open Unifex.Core

structure Entry where
  admitH : List String → Verdict
  states : Unit → Nat

def mkEntry {σ lbl : Type} [DecidableEq σ] (sys : LSys σ lbl) (obs : lbl → Option String)
    (final : σ → Bool) : Entry :=
  { admitH := fun h => admits sys obs final h
    states := fun _ => (tauClosure sys (fun _ => none) 100000 [sys.init] [sys.init]).length }

def table : List (String × List (String × Entry)) :=
  [ ("stopsource", Proto.StopSource.configs.map (fun (n, c) =>
      (n, mkEntry (Proto.StopSource.sys c) Proto.StopSource.obsOf (Proto.StopSource.final c)))) ]

def lookup (m c : String) : Option Entry :=
  match table.lookup m with
  | some cs => cs.lookup c
  | none => none

def configsOf (m : String) : List String :=
  match table.lookup m with
  | some cs => cs.map (·.1)
  | none => []

end Unifex.Driver
