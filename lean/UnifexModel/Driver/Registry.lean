/-
  Driver/Registry.lean — the table model-name × configuration-name → executable model.
  One line per model; each model's entries live in Driver/Entries/<Model>.lean.
-/
import UnifexModel.Driver.Entry
import UnifexModel.Driver.Entries.StopSource
import UnifexModel.Driver.Entries.Calc
import UnifexModel.Driver.Entries.Io

namespace Unifex.Driver

def table : List ModelEntries :=
  [ Entries.stopsource
  , Entries.calcEntries
  , Entries.remotequeue
  , Entries.epollop
  ]

def lookup (m c : String) : Option Entry :=
  match table.lookup m with
  | some cs => cs.lookup c
  | none => none

def configsOf (m : String) : List String :=
  match table.lookup m with
  | some cs => cs.map (·.1)
  | none => []

end Unifex.Driver
