/-
  Driver/Registry.lean — the table model-name × configuration-name → executable model.
  GENERATED (imports + table) by tools/regen_imports.py; each model's entries live in Driver/Entries/<Model>.lean.
-/
import UnifexModel.Driver.Entry
import UnifexModel.Driver.Entries.AnyObj
import UnifexModel.Driver.Entries.AsyncStack
import UnifexModel.Driver.Entries.Bulk
import UnifexModel.Driver.Entries.Calc
import UnifexModel.Driver.Entries.Cancel
import UnifexModel.Driver.Entries.Coro
import UnifexModel.Driver.Entries.Ctx
import UnifexModel.Driver.Entries.EStream
import UnifexModel.Driver.Entries.Event
import UnifexModel.Driver.Entries.Fused
import UnifexModel.Driver.Entries.Io
import UnifexModel.Driver.Entries.Loops
import UnifexModel.Driver.Entries.Mutex
import UnifexModel.Driver.Entries.Sched
import UnifexModel.Driver.Entries.Scope
import UnifexModel.Driver.Entries.SpawnFuture
import UnifexModel.Driver.Entries.StopSource
import UnifexModel.Driver.Entries.Stream
import UnifexModel.Driver.Entries.Timer
import UnifexModel.Driver.Entries.WhenAll

namespace Unifex.Driver

def table : List ModelEntries :=
  [ Entries.anyobjEntries
  , Entries.asyncstackEntries
  , Entries.bulk
  , Entries.calcEntries
  , Entries.cancellable
  , Entries.cancellableafter
  , Entries.detachoncancel
  , Entries.canary
  , Entries.stoponrequest
  , Entries.coroEntries
  , Entries.ctxEntries
  , Entries.estreamEntries
  , Entries.eventv1
  , Entries.autoreset
  , Entries.eventv2
  , Entries.asyncpass
  , Entries.fused
  , Entries.remotequeue
  , Entries.epollop
  , Entries.twoctx
  , Entries.loops
  , Entries.mutexv1
  , Entries.mutexv2
  , Entries.alist
  , Entries.eventloop
  , Entries.atomicqueue
  , Entries.threadpool
  , Entries.newthread
  , Entries.trampoline
  , Entries.inlinesched
  , Entries.scopev2
  , Entries.scopev1
  , Entries.scopev0
  , Entries.spawnfuture
  , Entries.stopsource
  , Entries.streamEntries
  , Entries.clock
  , Entries.timerqueue
  , Entries.timerop
  , Entries.epolltimer
  , Entries.whenall
  , Entries.stopwhen
  ]

def lookup (m c : String) : Option Entry :=
  match table.lookup m with
  | some cs => cs.lookup c
  | none => none

def configsOf (m : String) : List String :=
  match table.lookup m with
  | some cs => cs.map (·.1)
  | none => []

end Unifex.Driver
