/-
  Driver/Entries/EStream.lean — line protocol of the type_erased_stream element correspondence:

    ask estream run | <id> | <cfg> | op op op ...         cfg := direct | erased | erased2 | reerased   (0 / 1 / 2 / 1 layers)

  ops (colon separated, numbers 1..6 decimal digits, anything else is `=bad`):
    N:<item>[:p][:tK]   connect+start next(); the source produces item := vN | d | eN, inline or
                        (p) pending; the K-th element move of the delivery throws
    F                   the pending next completes          K | K:eN   cleanup (done / error N)

  answer: `<id> | <events> =<res> | ... | <events> =end`, rendered exactly like
  harness/evt/estream.cpp does (last entry: implicit fire + cleanup at scope exit).
-/
import UnifexModel.Driver.Entry
import UnifexModel.Proto.ErasedStream

namespace Unifex.Driver.Entries
open Unifex.Proto.ErasedStream

namespace EStreamProto

def num (s : String) : Option Nat :=
  if 1 ≤ s.length && s.length ≤ 6 && s.all Char.isDigit then s.toNat? else none

def parseItem (s : String) : Option Item :=
  if s = "d" then some .done
  else if s.startsWith "v" then (num (s.drop 1).toString).map Item.value
  else if s.startsWith "e" then (num (s.drop 1).toString).map Item.error
  else none

def parseThr (s : String) : Option Nat :=
  if s.startsWith "t" then (num (s.drop 1).toString).bind (fun k => if k = 0 then none else some k) else none

def parseOp (t : String) : Option Op :=
  match t.splitOn ":" with
  | ["N", it] => (parseItem it).map (fun i => .next i false 0)
  | ["N", it, x] =>
    if x = "p" then (parseItem it).map (fun i => .next i true 0)
    else do let i ← parseItem it; let k ← parseThr x; pure (.next i false k)
  | ["N", it, "p", x] => do let i ← parseItem it; let k ← parseThr x; pure (.next i true k)
  | ["F"] => some .fire
  | ["K"] => some (.cleanup none)
  | ["K", e] => if e.startsWith "e" then (num (e.drop 1).toString).map (fun n => .cleanup (some n)) else none
  | _ => none

def renderEvent : Event → String
  | .ctor id v => s!"c{id}:{v}"
  | .move n s => s!"m{n}<{s}"
  | .copy n s => s!"k{n}<{s}"
  | .dtor id => s!"d{id}"
  | .read id v => s!"r{id}={v}"
  | .sigDone => "sd"
  | .sigErr e => s!"se{e}"

def renderRes : Res → String
  | .value v => s!"=v{v}" | .done => "=d" | .error e => s!"=e{e}" | .pending => "=pend"
  | .cleaned => "=C" | .cleanErr e => s!"=Ce{e}" | .bad => "=bad"

def renderOut (o : Out) : String := " ".intercalate (o.events.map renderEvent ++ [renderRes o.res])

def words (s : String) : List String := (s.splitOn " ").filter (fun x => x ≠ "")

def runOps (L : Nat) : St → List String → List String → St × List String
  | s, [], acc => (s, acc.reverse)
  | s, t :: ts, acc =>
    match parseOp t with
    | none => runOps L s ts ("=bad" :: acc)
    | some op =>
      let r := step L s op
      runOps L r.1 ts (renderOut r.2 :: acc)

def layersOf : String → Option Nat
  | "direct" => some 0 | "erased" => some 1 | "erased2" => some 2
  | "reerased" => some 1   -- type_erase of an already erased stream moves it: still one layer
  | _ => none

def runCase (line : String) : String :=
  match line.splitOn "|" with
  | [id, c, ops] =>
    match layersOf c.trimAscii.toString with
    | none => "bad-op config"
    | some L =>
      let (s, res) := runOps L St.init (words ops) []
      let outs := (run L s (finish s)).2
      let fin := " ".intercalate ((trace outs).map renderEvent ++ ["=end"])
      s!"{id.trimAscii} | {" | ".intercalate (res ++ [fin])}"
  | _ => "bad-op"

end EStreamProto

/-- `ask estream run | <id> | <cfg> | ops` -/
def estreamEntries : ModelEntries :=
  ("estream", [("run", { admitH := fun _ => .notFinal [], states := fun _ => 0, query := fun q => EStreamProto.runCase q })])

end Unifex.Driver.Entries
