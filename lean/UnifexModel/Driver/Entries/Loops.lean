/-
  Driver/Entries/Loops.lean — line protocol of the looping-algorithm correspondence (harness/evt/loopprobe.cpp):

    ask loops run | rep | v:n v:n v:t3        iterations  <src>:<pred>    src := v | eN | d     pred := n | y | tN
    ask loops run | ret | e1:v e2:v:c5 v7     attempts    <src>[:<trig>[:cN]]   trig := v | eN | d   cN: connect throws N
  answer: =vN | =eN | =d | =pending
-/
import UnifexModel.Driver.Entry
import UnifexModel.Proto.Loops

namespace Unifex.Driver.Entries
open Unifex.Proto.Loops

namespace LoopsProto

def parseOut (s : String) : Option Out :=
  if s = "d" then some .done
  else if s = "v" then some (.value 0)
  else if s.startsWith "v" then (s.drop 1).toString.toNat?.map Out.value
  else if s.startsWith "e" then (s.drop 1).toString.toNat?.map Out.error
  else none

def parsePred (s : String) : Option Pred :=
  if s = "n" then some .no else if s = "y" then some .yes
  else if s.startsWith "t" then (s.drop 1).toString.toNat?.map Pred.throws else none

def parseIter (t : String) : Option Iter :=
  match t.splitOn ":" with
  | [s, p] => do let s ← parseOut s; let p ← parsePred p; pure ⟨s, p⟩
  | _ => none

def parseAttempt (t : String) : Option Attempt :=
  match t.splitOn ":" with
  | [s] => do let s ← parseOut s; pure ⟨s, .done, none⟩
  | [s, g] => do let s ← parseOut s; let g ← parseOut g; pure ⟨s, g, none⟩
  | [s, g, c] => do
    let s ← parseOut s; let g ← parseOut g
    if c.startsWith "c" then do let n ← (c.drop 1).toString.toNat?; pure ⟨s, g, some n⟩ else none
  | _ => none

def render : Option Out → String
  | none => "=pending" | some (.value v) => s!"=v{v}" | some (.error e) => s!"=e{e}" | some .done => "=d"

def answer (text : String) : String :=
  match text.splitOn "|" with
  | [kind, script] =>
    let toks := (script.trimAscii.toString.splitOn " ").filter (· ≠ "")
    match kind.trimAscii.toString with
    | "rep" => match toks.mapM parseIter with | some is => render (repeatUntil is) | none => "bad-op"
    | "ret" => match toks.mapM parseAttempt with | some as => render (retryWhen as) | none => "bad-op"
    | _ => "bad-op"
  | _ => "bad-op"

end LoopsProto

def loops : ModelEntries :=
  ("loops", [("run", { admitH := fun _ => .notFinal [], states := fun _ => 0, query := LoopsProto.answer })])

end Unifex.Driver.Entries
