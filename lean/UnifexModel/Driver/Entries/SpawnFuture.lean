import UnifexModel.Driver.Entry
import UnifexModel.Proto.SpawnFuture

namespace Unifex.Driver.Entries
open Unifex.Proto

def spawnfuture : ModelEntries :=
  ("spawnfuture", SpawnFuture.configs.map (fun (n, c) =>
      (n, mkEntry (SpawnFuture.sys c) SpawnFuture.obsOf (SpawnFuture.final c))))

end Unifex.Driver.Entries
