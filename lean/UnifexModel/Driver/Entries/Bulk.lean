/-
  Driver/Entries/Bulk.lean — `ask bulk <config> | <query>` for property C17.

    ask bulk loop   | run <u 0|1> <stoppable 0|1> <stopAt -1|t> <n>
         -> term=<value|done|fuelOut|none> n=<#set_next> idx=<runs> after_terminal=<k>
    ask bulk loop   | admits <n> <term> <idx_1> … <idx_k>
         -> ok stopAt=<none|t>      some stop point makes the model (stop possible, sequenced) emit exactly this
            reject expected-one-of: …
    ask bulk loop   | const                       -> chunk=<bulk_cancellation_chunk_size>
    ask bulk findif | par|seq <d> <fence> <k> <hit_1> … <hit_k>
         -> res=<offset> nevals=<n> ranout=<0|1> storeoob=<0|1> evals=<runs>
    ask bulk findif | chunks <d>                  -> n=<num_chunks> size=<chunk_size> chunks=<b-e,…>
    ask bulk findif | tilefail <maxd>             -> none | d=<least d ≤ maxd whose chunks do not tile [0,d)> chunks=…
    ask bulk findif | tilefails <maxd>            -> count=<number of d ≤ maxd that do not tile> first=<least such d|none>
    ask bulk findif | oobfail <maxd>              -> none | d=<least d ≤ maxd for which the all-false predicate is evaluated outside [0,d)> first=<offset>
    ask bulk policy | chain <receiver: seq|unseq|par|par_unseq|join|default> <P_1> … <P_k>
         the policy seen by the source of  src | bulk_transform(f_1,P_1) | … | bulk_transform(f_k,P_k) | receiver
         -> seen=<policy> vectorised=<0|1>        (vectorised: bulk_schedule would take the #pragma ivdep loop)
-/
import UnifexModel.Driver.Entry
import UnifexModel.Proto.Bulk
import UnifexModel.Proto.FindIf
import UnifexModel.Generated.BulkPolicy

namespace Unifex.Driver.Entries
open Unifex.Proto Unifex.Core

namespace BulkQ

/-- maximal runs of consecutive values, `a-b,c-d,…` (`-` for the empty list) — the same rendering as the C++ harness -/
def runsAux : List Int → Int → Int → List String → List String
  | [], lo, hi, acc => (s!"{lo}-{hi}") :: acc
  | x :: r, lo, hi, acc => if x = hi + 1 then runsAux r lo x acc else runsAux r x x ((s!"{lo}-{hi}") :: acc)

def runs (l : List Int) : String :=
  match l with
  | [] => "-"
  | x :: r => ",".intercalate (runsAux r x x []).reverse

def nats (ws : List String) : Option (List Int) := ws.mapM (fun w => w.toInt?)

def renderEvs (evs : List Bulk.Ev) : String :=
  let idx := Bulk.indices evs
  s!"term={Bulk.terminal evs} n={idx.length} idx={runs (idx.map Int.ofNat)} after_terminal={Bulk.nextsAfterTerminal evs}"

def loopQuery (q : String) : String :=
  match (q.splitOn " ").filter (· ≠ "") with
  | ["const"] => s!"chunk={Unifex.Generated.BulkLoop.bulk_cancellation_chunk_size}"
  | ["run", u, sp, st, n] =>
    match u.toNat?, sp.toNat?, st.toInt?, n.toNat? with
    | some u, some sp, some st, some n =>
      renderEvs (Bulk.run (u == 1) (sp == 1) (if st < 0 then none else some st.toNat) n)
    | _, _, _, _ => "bad-query"
  | "admits" :: n :: term :: idx =>
    match n.toNat?, idx.mapM (fun w => w.toNat?) with
    | some n, some idx =>
      let cands : List (Option Nat) := none :: (List.range (n + 2)).map some
      let want := (idx, term)
      match cands.find? (fun st => let evs := Bulk.run false true st n; (Bulk.indices evs, Bulk.terminal evs) == want && Bulk.nextsAfterTerminal evs == 0) with
      | some st => s!"ok stopAt={match st with | none => "none" | some t => toString t}"
      | none =>
        let outs := (cands.map (fun st => renderEvs (Bulk.run false true st n))).eraseDups
        s!"reject expected-one-of: {" | ".intercalate outs}"
    | _, _ => "bad-query"
  | _ => "bad-query"

def predOf (fence : Int) (hits : List Int) : Int → Bool := fun j => decide (j ≥ fence) || hits.contains j

def renderRes (r : FindIf.Result) : String :=
  s!"res={r.res} nevals={r.evals.length} ranout={if r.ranOut then 1 else 0} storeoob={if r.storeOob then 1 else 0} evals={runs r.evals}"

def chunksOf (d : Nat) : List (Int × Int) :=
  let D : Int := d
  (List.range (Unifex.Generated.FindIfChunks.num_chunks D).toNat).map (fun (i : Nat) =>
    (Unifex.Generated.FindIfChunks.chunk_begin_it D i, Unifex.Generated.FindIfChunks.chunk_end_it D i))

def renderChunks (d : Nat) : String :=
  ",".intercalate ((chunksOf d).map (fun (b, e) => s!"{b}-{e}"))

def firstOob (d : Nat) : Option Int :=
  let r := FindIf.findIfPar (predOf (d + 64) []) d (d + 80)
  r.evals.find? (fun j => decide (j < 0) || decide (j ≥ (d : Int)))

def findifQuery (q : String) : String :=
  match (q.splitOn " ").filter (· ≠ "") with
  | pol :: d :: fence :: _k :: hits =>
    match d.toNat?, fence.toInt?, nats hits with
    | some d, some fence, some hits =>
      let fuel := (max (d : Int) fence).toNat + 16
      if pol == "par" then renderRes (FindIf.findIfPar (predOf fence hits) d fuel)
      else if pol == "seq" then renderRes (FindIf.findIfSeq (predOf fence hits) d fuel)
      else "bad-query"
    | _, _, _ => "bad-query"
  | ["chunks", d] =>
    match d.toNat? with
    | some d =>
      s!"n={Unifex.Generated.FindIfChunks.num_chunks d} size={Unifex.Generated.FindIfChunks.chunk_size d} chunks={renderChunks d}"
    | none => "bad-query"
  | ["tilefail", m] =>
    match m.toNat? with
    | some m =>
      match (List.range (m + 1)).find? (fun d => !FindIf.tilesB d) with
      | some d => s!"d={d} chunks={renderChunks d}"
      | none => "none"
    | none => "bad-query"
  | ["tilefails", m] =>
    match m.toNat? with
    | some m =>
      let bad := (List.range (m + 1)).filter (fun d => !FindIf.tilesB d)
      s!"count={bad.length} first={match bad.head? with | some d => toString d | none => "none"}"
    | none => "bad-query"
  | ["oobfail", m] =>
    match m.toNat? with
    | some m =>
      match (List.range (m + 1)).findSome? (fun d => (firstOob d).map (fun j => (d, j))) with
      | some (d, j) => s!"d={d} first={j}"
      | none => "none"
    | none => "bad-query"
  | _ => "bad-query"

def policyQuery (q : String) : String :=
  open Unifex.Proto.PolicyLattice Unifex.Generated.BulkPolicy in
  match (q.splitOn " ").filter (· ≠ "") with
  | "chain" :: recv :: ps =>
    let r : Option Policy := if recv == "join" then some join_policy else if recv == "default" then some default_policy else Policy.parse recv
    match r, ps.mapM Policy.parse with
    | some r, some ps =>
      -- ps is given from the source outwards; the transform nearest the receiver is the last one
      let seen := ps.reverse.foldl tfx_policy r
      s!"seen={seen.name} vectorised={if schedule_vectorised_stop seen then 1 else 0}"
    | _, _ => "bad-query"
  | _ => "bad-query"

def entry (q : String → String) : Entry :=
  { admitH := fun _ => Verdict.reject 0 "" ["(pure model: use ask)"], states := fun _ => 0, query := q }

end BulkQ

def bulk : ModelEntries :=
  ("bulk", [("loop", BulkQ.entry BulkQ.loopQuery), ("findif", BulkQ.entry BulkQ.findifQuery),
            ("policy", BulkQ.entry BulkQ.policyQuery)])

end Unifex.Driver.Entries
