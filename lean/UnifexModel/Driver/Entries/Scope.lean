import UnifexModel.Driver.Entry
import UnifexModel.Proto.ScopeV2
import UnifexModel.Proto.ScopeV1
import UnifexModel.Proto.ScopeV0

namespace Unifex.Driver.Entries
open Unifex.Proto

def scopev2 : ModelEntries :=
  ("scopev2", ScopeV2.configs.map (fun (n, c) =>
      (n, mkEntry (ScopeV2.sys c) ScopeV2.obsOf (ScopeV2.final c))))

def scopev1 : ModelEntries :=
  ("scopev1", ScopeV1.configs.map (fun (n, c) =>
      (n, mkEntry (ScopeV1.sys c) ScopeV1.obsOf (ScopeV1.final c))))

def scopev0 : ModelEntries :=
  ("scopev0", ScopeV0.configs.map (fun (n, c) =>
      (n, mkEntry (ScopeV1.sys c) ScopeV1.obsOf (ScopeV1.final c))))

end Unifex.Driver.Entries
