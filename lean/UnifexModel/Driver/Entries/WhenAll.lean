import UnifexModel.Driver.Entry
import UnifexModel.Proto.WhenAll
import UnifexModel.Proto.StopWhen

namespace Unifex.Driver.Entries
open Unifex.Proto

def whenall : ModelEntries :=
  ("whenall", WhenAll.configs.map (fun (n, c) =>
      (n, mkEntry (WhenAll.sys c) WhenAll.obsOf (WhenAll.final c))))

def stopwhen : ModelEntries :=
  ("stopwhen", StopWhen.configs.map (fun (n, c) =>
      (n, mkEntry (StopWhen.sys c) StopWhen.obsOf (StopWhen.final c))))

end Unifex.Driver.Entries
