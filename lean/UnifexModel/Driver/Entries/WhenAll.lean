import UnifexModel.Driver.Entry
import UnifexModel.Proto.WhenAll

namespace Unifex.Driver.Entries
open Unifex.Proto

def whenall : ModelEntries :=
  ("whenall", WhenAll.configs.map (fun (n, c) =>
      (n, mkEntry (WhenAll.sys c) WhenAll.obsOf (WhenAll.final c))))

end Unifex.Driver.Entries
