/-
  Driver/Entries/Timer.lean — C07 models for the driver:
    clock      eval         `ask clock eval | <fn> <ints…>`       evaluate a GENERATED clock function
    timerqueue run          `ask timerqueue run | i 0 5 ; c 3 0 ; d`  run the sequential queue machine
    timerop    <scenario>   `admit timerop <scenario> | history`   trace inclusion in Proto/TimerOp
-/
import UnifexModel.Driver.Entry
import UnifexModel.Generated.Clock
import UnifexModel.Proto.TimerQueue
import UnifexModel.Proto.TimerOp
import UnifexModel.Proto.EpollTimer

namespace Unifex.Driver.Entries
open Unifex.Proto
open Unifex.Generated

def parseI (s : String) : Int := TimerQueue.parseInt s

def showTp (t : Clock.TimePoint) : String := s!"{t.seconds_} {t.nanoseconds_}"
def showB (b : Bool) : String := if b then "1" else "0"

/-- `fn args…` → the value the generated definition computes, printed like the C++ harness does -/
def clockQuery (text : String) : String :=
  match (text.splitOn " ").filter (· ≠ "") with
  | ["normalize", s, n] => showTp (Clock.normalize ⟨parseI s, parseI n⟩)
  | ["from", s, n] => showTp (Clock.fromSecondsAndNanoseconds (parseI s) (parseI n))
  | ["add", s, n, d] => showTp (Clock.add ⟨parseI s, parseI n⟩ (parseI d))
  | ["sub", s, n, d] => showTp (Clock.sub ⟨parseI s, parseI n⟩ (parseI d))
  | ["addassign", s, n, d] => showTp (Clock.addAssign ⟨parseI s, parseI n⟩ (parseI d))
  | ["subassign", s, n, d] => showTp (Clock.subAssign ⟨parseI s, parseI n⟩ (parseI d))
  | ["diff", s, n, s2, n2] => toString (Clock.diff ⟨parseI s, parseI n⟩ ⟨parseI s2, parseI n2⟩)
  | ["cmp", s, n, s2, n2] =>
    let a : Clock.TimePoint := ⟨parseI s, parseI n⟩
    let b : Clock.TimePoint := ⟨parseI s2, parseI n2⟩
    " ".intercalate [showB (Clock.eq a b), showB (Clock.ne a b), showB (Clock.lt a b), showB (Clock.gt a b),
                     showB (Clock.le a b), showB (Clock.ge a b)]
  | _ => "bad-op"

def noAdmit : List String → Unifex.Core.Verdict := fun _ => .reject 0 "no-traces" []

def clock : ModelEntries :=
  ("clock", [("eval", { admitH := noAdmit, states := fun _ => 0, query := clockQuery })])

def timerqueue : ModelEntries :=
  ("timerqueue", [("run", { admitH := noAdmit, states := fun _ => 0, query := TimerQueue.runQuery })])

/-- driver-only configuration (trace inclusion, no reflection theorem: too many states for the
    kernel): three timers with equal due times — the smallest case in which a non-FIFO walk
    (`<` instead of `<=`) becomes visible. -/
def cfgThreeEqual : TimerOp.Config :=
  ⟨[[.start 0, .start 1, .start 2, .waitDone, .shutdown], [.runLoop]], [1, 1, 1], 1⟩

def timerop : ModelEntries :=
  ("timerop", (TimerOp.configs ++ [("three_equal", cfgThreeEqual)]).map (fun (n, c) =>
      (n, mkEntry (TimerOp.sys c) TimerOp.obsOf (TimerOp.final c))))

def epolltimer : ModelEntries :=
  ("epolltimer", EpollTimer.configs.map (fun (n, c) =>
      (n, mkEntry (EpollTimer.sys c) EpollTimer.obsOf (EpollTimer.final c))))

end Unifex.Driver.Entries
