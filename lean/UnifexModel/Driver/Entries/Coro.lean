import UnifexModel.Driver.Entry
import UnifexModel.Calc.CoroParse

namespace Unifex.Driver.Entries

/-- `ask coro run | <id> | <inl|man> | <prog> | <specs> | <events>` -/
def coroEntries : ModelEntries :=
  ("coro", [("run", { admitH := fun _ => .notFinal [], states := fun _ => 0, query := fun q => Unifex.Coro.runCase q })])

end Unifex.Driver.Entries
