/-
  Driver/Entries/AnyObj.lean — line protocol of the any_object / any_unique correspondence:

    ask anyobj run | <id> | <cfg> | op op op ...

  ops (colon separated fields, every number 1..6 decimal digits, anything else is `=bad`):
    C:j:cls:v:mode   construct slot j from a fresh payload   cls ∈ sn st lg oa,
                     mode ∈ i (in_place_type) | c (converting) | aiN (allocator_arg N, in place) | acN
    M:j:i   slot j := wrapper(std::move(slot i))        A:i:j   slot i = std::move(slot j)
    V:i:cls:v   slot i = Payload(v)                     S:i:j   swap
    I:i   get_val(slot i)      T:i   boom(slot i)       D:i   destroy slot i      R   arm the throwing move

  answer: `<id> | <events> =<res> | ... | <events> =end` (the last entry is the scope exit of the
  three variables), rendered exactly like harness/evt/anyobj.cpp does.
-/
import UnifexModel.Driver.Entry
import UnifexModel.Proto.AnyObject

namespace Unifex.Driver.Entries
open Unifex.Proto.AnyObject

namespace AnyObjProto

def num (s : String) : Option Nat :=
  if 1 ≤ s.length && s.length ≤ 6 && s.all Char.isDigit then s.toNat? else none

def parseCls : String → Option Cls
  | "sn" => some .sn | "st" => some .st | "lg" => some .lg | "oa" => some .oa | _ => none

def parseMode (s : String) : Option Mode :=
  if s = "i" then some .inplace
  else if s = "c" then some .conv
  else if s.startsWith "ai" then (num (s.drop 2).toString).map Mode.allocIn
  else if s.startsWith "ac" then (num (s.drop 2).toString).map Mode.allocConv
  else none

def parseOp (t : String) : Option Op :=
  match t.splitOn ":" with
  | ["C", j, c, v, m] => do
    let j ← num j; let c ← parseCls c; let v ← num v; let m ← parseMode m; pure (.ctor j c v m)
  | ["M", j, i] => do let j ← num j; let i ← num i; pure (.moveCtor j i)
  | ["A", i, j] => do let i ← num i; let j ← num j; pure (.moveAssign i j)
  | ["V", i, c, v] => do let i ← num i; let c ← parseCls c; let v ← num v; pure (.assignValue i c v)
  | ["S", i, j] => do let i ← num i; let j ← num j; pure (.swap i j)
  | ["I", i] => (num i).map Op.invoke
  | ["T", i] => (num i).map Op.invokeThrow
  | ["D", i] => (num i).map Op.destroy
  | ["R"] => some .arm
  | _ => none

def renderCls : Cls → String | .sn => "sn" | .st => "st" | .lg => "lg" | .oa => "oa"

def renderEvent : Event → String
  | .ctor id c v => s!"c{id}:{renderCls c}:{v}"
  | .move n s => s!"m{n}<{s}"
  | .copy n s => s!"k{n}<{s}"
  | .dtor id => s!"d{id}"
  | .al a => s!"a{a}"
  | .de a => s!"f{a}"

def renderRes : Res → String
  | .ok => "=ok" | .val v => s!"=v{v}" | .exc v => s!"=x{v}" | .threw => "=threw" | .bad => "=bad"

def renderOut (o : Out) : String := " ".intercalate (o.events.map renderEvent ++ [renderRes o.res])

def words (s : String) : List String := (s.splitOn " ").filter (fun x => x ≠ "")

def runOps (cfg : Cfg) : St → List String → List String → St × List String
  | s, [], acc => (s, acc.reverse)
  | s, t :: ts, acc =>
    match parseOp t with
    | none => runOps cfg s ts ("=bad" :: acc)
    | some op =>
      let (s', o) := step cfg s op
      runOps cfg s' ts (renderOut o :: acc)

def runCase (line : String) : String :=
  match line.splitOn "|" with
  | [id, c, ops] =>
    match configs.lookup c.trimAscii.toString with
    | none => "bad-op config"
    | some cfg =>
      let (s, res) := runOps cfg St.init (words ops) []
      let (_, outs) := run cfg s cleanup
      let fin := " ".intercalate ((trace outs).map renderEvent ++ ["=end"])
      s!"{id.trimAscii} | {" | ".intercalate (res ++ [fin])}"
  | _ => "bad-op"

end AnyObjProto

/-- `ask anyobj run | <id> | <cfg> | ops` -/
def anyobjEntries : ModelEntries :=
  ("anyobj", [("run", { admitH := fun _ => .notFinal [], states := fun _ => 0, query := fun q => AnyObjProto.runCase q })])

end Unifex.Driver.Entries
