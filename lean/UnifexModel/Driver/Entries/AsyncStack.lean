import UnifexModel.Driver.Entry
import UnifexModel.Proto.AsyncStackScripts

namespace Unifex.Driver.Entries
open Unifex.Proto.AsyncStack

/-- `ask asyncstack ops  | <script>`          -> dump after every operation, `assert` where the code asserts
    `ask asyncstack disc | <script>`          -> accepted <n> balanced=<0|1> | rejected@<i>
    `ask asyncstack gen  | <mode> <seed> <len>` -> a generated script (mode 0 free, 1 disciplined)
    `ask asyncstack <scenario> |`             -> predicted observations of a fixed expression -/
def asyncstackEntries : ModelEntries :=
  let mk (q : String → String) : Entry := { admitH := fun _ => .notFinal [], states := fun _ => 0, query := q }
  ("asyncstack",
    [ ("ops", mk (fun q => match parseScript q with
        | some ops => " | ".intercalate (runOps St.init ops [])
        | none => "bad-op script")),
      ("disc", mk (fun q => match parseScript q with
        | some ops => discOf ops
        | none => "bad-op script")),
      ("gen", mk (fun q => match ((q.splitOn " ").filter (fun x => x ≠ "")).map String.toNat? with
        | [some mode, some seed, some len] => renderScript (genScript mode seed len)
        | _ => "bad-op gen")) ]
    ++ scenarios.map (fun (n, items) => (n, mk (fun _ => scenarioAnswer items))))

end Unifex.Driver.Entries
