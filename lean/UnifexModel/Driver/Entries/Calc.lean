import UnifexModel.Driver.Entry
import UnifexModel.Calc.Parse

namespace Unifex.Driver.Entries
open Unifex.Calc

/-- `ask calc run | <id> | <expr> | <specs> | <events>` -/
def calcEntries : ModelEntries :=
  ("calc", [("run", { admitH := fun _ => .notFinal [], states := fun _ => 0, query := fun q => runCase q })])

end Unifex.Driver.Entries
