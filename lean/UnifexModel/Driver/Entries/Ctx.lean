import UnifexModel.Driver.Entry
import UnifexModel.Calc.CtxParse

namespace Unifex.Driver.Entries
open Unifex.Ctx

/-- `ask ctx run | <case>` (every node erased, like harness/evt/ctx.cpp), `ask ctx runt | <case>`
    (concrete types, like the typed corpus), `ask ctx traits | <expr>` -/
def ctxEntries : ModelEntries :=
  ("ctx",
    [ ("run", { admitH := fun _ => .notFinal [], states := fun _ => 0, query := fun q => runCase true q })
    , ("runt", { admitH := fun _ => .notFinal [], states := fun _ => 0, query := fun q => runCase false q })
    , ("traits", { admitH := fun _ => .notFinal [], states := fun _ => 0, query := fun q => traitsCase q }) ])

end Unifex.Driver.Entries
