import UnifexModel.Driver.Entry
import UnifexModel.Calc.StreamParse

namespace Unifex.Driver.Entries
open Unifex.Stream

/-- `ask stream run | <id> | <consumer> | <stream> | <source specs> | <events>` -/
def streamEntries : ModelEntries :=
  ("stream", [("run", { admitH := fun _ => .notFinal [], states := fun _ => 0, query := fun q => runCase q })])

end Unifex.Driver.Entries
