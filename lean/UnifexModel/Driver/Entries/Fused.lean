/-
  Driver/Entries/Fused.lean — line protocol of the fused_stop_source correspondence:

    ask fused run | <mask> | op op op ...      mask: one character per upstream token, 1 = has a source, 0 = default token
                                               ops:  R (register_callbacks)  D (deregister_callbacks)  S<i> (request_stop on source i)
  answer: one 0/1 per op = fused.stop_requested() after it, e.g. `0 0 1` (harness/evt/fusedprobe.cpp prints the same)
-/
import UnifexModel.Driver.Entry
import UnifexModel.Proto.Fused

namespace Unifex.Driver.Entries
open Unifex.Proto.Fused

namespace FusedProto

def parseOp (t : String) : Option Op :=
  if t = "R" then some .register
  else if t = "D" then some .deregister
  else if t.startsWith "S" then (t.drop 1).toString.toNat?.map Op.stop
  else none

def answer (text : String) : String :=
  match text.splitOn "|" with
  | [mask, ops] =>
    let m := mask.trimAscii.toString.toList
    let possible : Nat → Bool := fun i => m.getD i '0' == '1'
    let toks := (ops.trimAscii.toString.splitOn " ").filter (· ≠ "")
    match toks.mapM parseOp with
    | some os => " ".intercalate ((trace possible init os).map (fun b => if b then "1" else "0"))
    | none => "bad-op"
  | _ => "bad-op"

end FusedProto

def fused : ModelEntries :=
  ("fused", [("run", { admitH := fun _ => .notFinal [], states := fun _ => 0, query := FusedProto.answer })])

end Unifex.Driver.Entries
