import UnifexModel.Driver.Entry
import UnifexModel.Proto.StopSource

namespace Unifex.Driver.Entries
open Unifex.Proto

def stopsource : ModelEntries :=
  ("stopsource", StopSource.configs.map (fun (n, c) =>
      (n, mkEntry (StopSource.sys c) StopSource.obsOf (StopSource.final c))))

end Unifex.Driver.Entries
