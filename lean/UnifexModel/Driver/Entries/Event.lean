import UnifexModel.Driver.Entry
import UnifexModel.Proto.EventV1
import UnifexModel.Proto.AutoReset
import UnifexModel.Proto.EventV2
import UnifexModel.Proto.AsyncPass

namespace Unifex.Driver.Entries
open Unifex.Proto

def eventv1 : ModelEntries :=
  ("eventv1", EventV1.configs.map (fun (n, c) =>
      (n, mkEntry (EventV1.sys c) EventV1.obsOf (EventV1.final c))))

def autoreset : ModelEntries :=
  ("autoreset", AutoReset.configs.map (fun (n, c) =>
      (n, mkEntry (AutoReset.sys c) AutoReset.obsOf (AutoReset.final c))))

def eventv2 : ModelEntries :=
  ("eventv2", EventV2.configs.map (fun (n, c) =>
      (n, mkEntry (EventV2.sys c) EventV2.obsOf (EventV2.final c))))

def asyncpass : ModelEntries :=
  ("asyncpass", AsyncPass.configs.map (fun (n, c) =>
      (n, mkEntry (AsyncPass.sys c) AsyncPass.obsOf (AsyncPass.final c))))

end Unifex.Driver.Entries
