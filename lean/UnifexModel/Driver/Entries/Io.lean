import UnifexModel.Driver.Entry
import UnifexModel.Proto.RemoteQueue

namespace Unifex.Driver.Entries
open Unifex.Proto

def remotequeue : ModelEntries :=
  ("remotequeue", RemoteQueue.configs.map (fun (n, c) =>
      (n, mkEntry (RemoteQueue.sys c) RemoteQueue.obsOf (RemoteQueue.final c))))

end Unifex.Driver.Entries
