import UnifexModel.Driver.Entry
import UnifexModel.Proto.RemoteQueue
import UnifexModel.Proto.EpollOp

namespace Unifex.Driver.Entries
open Unifex.Proto

def remotequeue : ModelEntries :=
  ("remotequeue", RemoteQueue.configs.map (fun (n, c) =>
      (n, mkEntry (RemoteQueue.sys c) RemoteQueue.obsOf (RemoteQueue.final c))))

def epollop : ModelEntries :=
  ("epollop", EpollOp.configs.map (fun (n, c) =>
      (n, mkEntry (EpollOp.sys c) EpollOp.obsOf (EpollOp.final c))))

end Unifex.Driver.Entries
