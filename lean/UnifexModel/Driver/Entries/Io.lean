import UnifexModel.Driver.Entry
import UnifexModel.Proto.RemoteQueue
import UnifexModel.Proto.EpollOp2
import UnifexModel.Proto.TwoCtx

namespace Unifex.Driver.Entries
open Unifex.Proto

def remotequeue : ModelEntries :=
  ("remotequeue", RemoteQueue.configs.map (fun (n, c) =>
      (n, mkEntry (RemoteQueue.sys c) RemoteQueue.obsOf (RemoteQueue.final c))))

def epollop : ModelEntries :=
  ("epollop", (EpollOp.configs ++ EpollOp.configs2).map (fun (n, c) =>
      (n, mkEntry (EpollOp.sys c) EpollOp.obsOf (EpollOp.final c))))

def twoctx : ModelEntries :=
  ("twoctx", [("x2_schedule", mkEntry TwoCtx.sys TwoCtx.obsOf TwoCtx.final)])

end Unifex.Driver.Entries
