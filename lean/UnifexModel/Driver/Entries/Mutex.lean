import UnifexModel.Driver.Entry
import UnifexModel.Proto.MutexV1
import UnifexModel.Proto.MutexV2

namespace Unifex.Driver.Entries
open Unifex.Proto

def mutexv1 : ModelEntries :=
  ("mutexv1", MutexV1.configs.map (fun (n, c) =>
      (n, mkEntry (MutexV1.sys c) MutexV1.obsOf (MutexV1.final c))))

def mutexv2 : ModelEntries :=
  ("mutexv2", MutexV2.configs.map (fun (n, c) =>
      (n, mkEntry (MutexV2.sys c) MutexV2.obsOf (MutexV2.final c))))

end Unifex.Driver.Entries
