import UnifexModel.Driver.Entry
import UnifexModel.Proto.MutexV1
import UnifexModel.Proto.MutexV2
import UnifexModel.Proto.AList

namespace Unifex.Driver.Entries
open Unifex.Proto

def mutexv1 : ModelEntries :=
  ("mutexv1", MutexV1.configs.map (fun (n, c) =>
      (n, mkEntry (MutexV1.sys c) MutexV1.obsOf (MutexV1.final c))))

def mutexv2 : ModelEntries :=
  ("mutexv2", MutexV2.configs.map (fun (n, c) =>
      (n, mkEntry (MutexV2.sys c) MutexV2.obsOf (MutexV2.final c))))

/-- `ask alist lin | history` — linearizability of an observed atomic_intrusive_list history -/
def alist : ModelEntries :=
  ("alist", [("lin", { admitH := fun _ => Unifex.Core.Verdict.reject 0 "use ask" [], states := fun _ => 0,
                       query := AList.query false }),
             ("strict", { admitH := fun _ => Unifex.Core.Verdict.reject 0 "use ask" [], states := fun _ => 0,
                          query := AList.query true })])

end Unifex.Driver.Entries
