/-
  Driver/Entries/Cancel.lean — the C19 models (cancel wrappers) registered with the driver.
-/
import UnifexModel.Driver.Entry
import UnifexModel.Proto.Cancellable
import UnifexModel.Proto.CancellableAfter
import UnifexModel.Proto.DetachOnCancel
import UnifexModel.Proto.Canary
import UnifexModel.Proto.StopOnRequest

namespace Unifex.Driver.Entries
open Unifex.Proto

/-- `r_race` / `r_early` are the C++20 scenarios that reach `cancellable<>` through
    `create_raw_sender` + `_lambda_op`: the same configurations as `c_race` / `c_early`. -/
def cancellable : ModelEntries :=
  ("cancellable",
    (Cancellable.configs ++ [("r_race", Cancellable.cfgRace), ("r_early", Cancellable.cfgEarly)]).map (fun (n, c) =>
      (n, mkEntry (Cancellable.sys c) Cancellable.obsOf (Cancellable.final c))))

def cancellableafter : ModelEntries :=
  ("cancellableafter", CancellableAfter.configs.map (fun (n, c) =>
      (n, mkEntry (CancellableAfter.sys c) Cancellable.obsOf (Cancellable.final c))))

def detachoncancel : ModelEntries :=
  ("detachoncancel", DetachOnCancel.configs.map (fun (n, c) =>
      (n, mkEntry (DetachOnCancel.sys c) DetachOnCancel.obsOf (DetachOnCancel.final c))))

def canary : ModelEntries :=
  ("canary", Canary.configs.map (fun (n, c) =>
      (n, mkEntry (Canary.sys c) Canary.obsOf (Canary.final c))))

def stoponrequest : ModelEntries :=
  ("stoponrequest", StopOnRequest.configs.map (fun (n, c) =>
      (n, mkEntry (StopOnRequest.sys c) StopOnRequest.obsOf (StopOnRequest.final c))))

end Unifex.Driver.Entries
