/-
  Driver/Entries/Cancel.lean — the C19 models (cancel wrappers) registered with the driver.
-/
import UnifexModel.Driver.Entry
import UnifexModel.Proto.Cancellable

namespace Unifex.Driver.Entries
open Unifex.Proto

def cancellable : ModelEntries :=
  ("cancellable", Cancellable.configs.map (fun (n, c) =>
      (n, mkEntry (Cancellable.sys c) Cancellable.obsOf (Cancellable.final c))))

end Unifex.Driver.Entries
