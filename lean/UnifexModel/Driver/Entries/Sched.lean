import UnifexModel.Driver.Entry
import UnifexModel.Proto.EventLoop
import UnifexModel.Proto.AtomicQueue
import UnifexModel.Proto.ThreadPool
import UnifexModel.Proto.NewThread
import UnifexModel.Proto.Trampoline
import UnifexModel.Proto.InlineSched

namespace Unifex.Driver.Entries
open Unifex.Proto Unifex.Core

/-- entry with an extra query `checksafe`: explore the whole reachable set with compiled code and
    evaluate `safe` on every state (untrusted cross-check for instances too big for the kernel). -/
def mkEntryS {σ lbl : Type} [DecidableEq σ] [Repr σ] (sys : LSys σ lbl) (obs : lbl → Option String)
    (final : σ → Bool) (safe : σ → Bool) : Entry :=
  { mkEntry sys obs final with
    query := fun q =>
      if q.trimAscii.toString == "checksafe" then
        let all := tauClosure sys (fun _ => none) 100000 [sys.init] [sys.init]
        match all.find? (fun s => !safe s) with
        | none => s!"ok {all.length}"
        | some s => s!"unsafe {(repr s).pretty 100000}"
      else "bad-op" }

def eventloop : ModelEntries :=
  ("eventloop", EventLoop.configs.map (fun (n, c) =>
      (n, mkEntryS (EventLoop.sys c) EventLoop.obsOf (EventLoop.final c) (EventLoop.safe c))))

def atomicqueue : ModelEntries :=
  ("atomicqueue", AtomicQueue.configs.map (fun (n, c) =>
      (n, mkEntryS (AtomicQueue.sys c) AtomicQueue.obsOf (AtomicQueue.final c) (AtomicQueue.safe c))))

/-- tie-only configuration (kept here so that adding it does not touch the model file): one pool
    thread, two producers that each wait for their item — the only way to reach the blocking
    `push()` path (a `try_push` fails only while another PRODUCER holds the queue's mutex). -/
def cfgPool1Wait2 : ThreadPool.Config :=
  ⟨1, 1, [[.waitAll, .dtor], [], [.enq 0, .waitRan 0], [.enq 1, .waitRan 1]], true⟩

/-- "stop was requested on the receivers' token before anything was scheduled": the same protocol
    with every completion delivered as set_done — the observable `item<i>.value` is renamed. -/
def doneObs {lbl : Type} (f : lbl → Option String) : lbl → Option String :=
  fun l => (f l).map (fun s => s.replace ".value" ".done")

def threadpool : ModelEntries :=
  ("threadpool", (ThreadPool.configs ++ [("pool_1_wait2", cfgPool1Wait2)]).map (fun (n, c) =>
      (n, mkEntryS (ThreadPool.sys c) ThreadPool.obsOf (ThreadPool.final c) (ThreadPool.safe c))) ++
    [("pool_tokfirst", mkEntryS (ThreadPool.sys ThreadPool.cfgPool2b) (doneObs ThreadPool.obsOf)
        (ThreadPool.final ThreadPool.cfgPool2b) (ThreadPool.safe ThreadPool.cfgPool2b))])

def newthread : ModelEntries :=
  ("newthread", NewThread.configs.map (fun (n, c) =>
      (n, mkEntryS (NewThread.sys c) NewThread.obsOf (NewThread.final c) (NewThread.safe c))) ++
    [("nt_tokfirst", mkEntryS (NewThread.sys NewThread.cfgNt2) (doneObs NewThread.obsOf)
        (NewThread.final NewThread.cfgNt2) (NewThread.safe NewThread.cfgNt2))])

/-- sequential model: `ask trampoline run | <maxDepth> | <tree>` answers with the event log -/
def trampoline : ModelEntries :=
  ("trampoline", [("run",
      { admitH := fun _ => .notFinal []
        states := fun _ => 0
        query := Trampoline.answer })])

/-- sequential model: `ask inlinesched run | <tree>` answers with the event log -/
def inlinesched : ModelEntries :=
  ("inlinesched", [("run",
      { admitH := fun _ => .notFinal []
        states := fun _ => 0
        query := InlineSched.answer })])

end Unifex.Driver.Entries
