/-
  Lemmas/ReflectFast.lean — a kernel-friendlier front end to Core/Reflect.

  `Core.Reflect.explore` keeps the frontier as a list of model STATES; in the kernel these are
  unevaluated terms (a state at BFS depth d is d nested step applications) and get re-evaluated
  many times (measured on the C16 models: 30 s for 130 states).  `exploreC` keeps the frontier as
  state CODES (numbers, forced to literals before use) and passes its accumulators through
  continuations instead of pairs, so every state the kernel looks at is decoded from a literal.

  Soundness does not depend on how the set was computed: `safe_of_checkC` re-uses
  `Core.checkClosed` / `Core.reach_sound` on the computed table.
-/
import UnifexModel.Core.Reflect

namespace Unifex.Core
variable {σ lbl : Type}

/-- evaluate `m` to a numeral first (the kernel reduces the `match` by computing `m`), then
    continue with the numeral -/
def forceNat {α : Type} (m : Nat) (k : Nat → α) : α :=
  match m with
  | 0 => k 0
  | n+1 => k (n+1)

theorem forceNat_eq {α : Type} (m : Nat) (k : Nat → α) : forceNat m k = k m := by
  cases m <;> rfl

/-- insert the unseen codes; continue with (new codes, table) -/
def addNewC (M W : Nat) (k : List Nat → HSet → HSet) : List Nat → HSet → List Nat → HSet
  | [], m, acc => k acc m
  | c :: cs, m, acc =>
    forceNat c fun c =>
      if HSet.contains M W m c then addNewC M W k cs m acc
      else
        forceNat (HSet.insert M W m c) fun m' =>
          if HSet.contains M W m' c then addNewC M W k cs m' (c :: acc) else addNewC M W k cs m acc

def exploreC (sys : LSys σ lbl) (cd : Coded σ) : Nat → List Nat → HSet → HSet
  | 0, _, m => m
  | n+1, frontier, m =>
    match frontier with
    | [] => m
    | _ =>
      addNewC cd.M cd.W (fun acc m' => exploreC sys cd n acc m')
        (frontier.flatMap (fun c => (sys.next (cd.dec c)).map (fun p => cd.enc p.2))) m []

def exploreFast (sys : LSys σ lbl) (cd : Coded σ) (fuel : Nat) : HSet :=
  forceNat (cd.enc sys.init) fun c0 =>
    forceNat (HSet.insert cd.M cd.W 0 c0) fun m0 => exploreC sys cd fuel [c0] m0

variable [DecidableEq σ]

def checkSafeC (sys : LSys σ lbl) (cd : Coded σ) (fuel : Nat) (safe : σ → Bool) : Bool :=
  forceNat (exploreFast sys cd fuel) fun m => checkClosed sys cd m && (statesOf cd m).all safe

theorem safe_of_checkC (sys : LSys σ lbl) (cd : Coded σ) (fuel : Nat) (safe : σ → Bool)
    (h : checkSafeC sys cd fuel safe = true) : ∀ s, Reach sys s → safe s = true := by
  rw [checkSafeC, forceNat_eq] at h
  simp only [Bool.and_eq_true] at h
  intro s hs
  exact List.all_eq_true.mp h.2 s (reach_sound sys cd _ h.1 s hs)

def countStatesC (sys : LSys σ lbl) (cd : Coded σ) (fuel : Nat) : Nat :=
  (HSet.keys cd.M cd.W (exploreFast sys cd fuel)).length

end Unifex.Core
