/-
  Lemmas/Trampoline.lean — invariants of the trampoline model, for every nesting tree and every
  maximum depth.
-/
import UnifexModel.Proto.Trampoline

namespace Unifex.Proto.Trampoline
open Unifex.Core

/-! ### basic facts -/

theorem Tree.size_pos (t : Tree) : 1 ≤ t.size := by
  cases t with
  | node i b ks => simp [Tree.size]

theorem Tree.size_eq (t : Tree) : t.size = 1 + sizeL t.kids := by
  cases t with
  | node i b ks => simp [Tree.size, Tree.kids]

theorem Tree.ids_eq (t : Tree) : t.ids = t.id :: idsL t.kids := by
  cases t with
  | node i b ks => simp [Tree.ids, Tree.kids, Tree.id]

theorem runsOf_append (a b : List Ev) : runsOf (a ++ b) = runsOf a ++ runsOf b := by
  induction a with
  | nil => simp [runsOf]
  | cons e r ih =>
    cases e with
    | run i n d => simp [runsOf, ih]
    | defer i => simp [runsOf, ih]

/-- ids of the items that some running completion still has to start -/
def pend (st : List (List Tree)) : List Nat := st.flatMap idsL

/-! ### the step relation unfolded into its five cases -/

theorem reach_step {cfg : Config} {P : St → Prop} {s : St}
    (hinl : ∀ c rest fs, s.stack = (c :: rest) :: fs → s.depth < cfg.maxDepth →
        P (execute c { s with depth := s.depth + 1, stack := rest :: fs }))
    (hdef : ∀ c rest fs, s.stack = (c :: rest) :: fs → ¬ s.depth < cfg.maxDepth →
        P { s with deferred := c :: s.deferred, log := s.log ++ [.defer c.id], stack := rest :: fs })
    (hret : ∀ fs, s.stack = [] :: fs → P { s with stack := fs })
    (hpop : ∀ c ds, s.stack = [] → s.deferred = c :: ds → P (execute c { s with deferred := ds, depth := 1 }))
    (hfin : s.stack = [] → s.deferred = [] → P { s with fin := true }) :
    P (step cfg s) := by
  unfold step
  split
  · rename_i c rest fs h
    split
    · exact hinl c rest fs h ‹_›
    · exact hdef c rest fs h ‹_›
  · rename_i fs h; exact hret fs h
  · rename_i h
    split
    · rename_i c ds h2; exact hpop c ds h h2
    · rename_i h2; exact hfin h h2

theorem sys_step {cfg : Config} {s s' : St} {l : Unit} (h : (l, s') ∈ (sys cfg).next s) :
    s.fin = false ∧ s' = step cfg s := by
  simp only [sys] at h
  split at h
  · simp at h
  · simp only [List.mem_singleton, Prod.mk.injEq] at h
    rename_i hf
    exact ⟨by simpa using hf, h.2⟩

/-! ### 1. depth -/

structure InvDepth (cfg : Config) (s : St) : Prop where
  pos : 1 ≤ s.depth
  le : s.depth ≤ max cfg.maxDepth 1
  nest : s.stack.length ≤ s.depth
  logged : ∀ i n d, Ev.run i n d ∈ s.log → n + 1 ≤ max cfg.maxDepth 1

theorem invDepth_reach (cfg : Config) {s : St} (h : Reach (sys cfg) s) : InvDepth cfg s := by
  refine invariant (InvDepth cfg) ?_ ?_ h
  · show InvDepth cfg (init cfg)
    refine ⟨by simp [init, execute], by simp [init, execute]; omega, by simp [init, execute], ?_⟩
    intro i n d hm
    simp [init, execute] at hm
    omega
  · intro s l s' hi hm
    obtain ⟨_, rfl⟩ := sys_step hm
    obtain ⟨h1, h2, h3, h4⟩ := hi
    apply reach_step
    · intro c rest fs hs hd
      rw [hs] at h3
      simp only [List.length_cons] at h3
      refine ⟨by simp [execute], by simp [execute]; omega, by simp [execute]; omega, ?_⟩
      intro i n d hm
      simp only [execute, List.mem_append, List.mem_singleton, Ev.run.injEq, List.length_cons] at hm
      rcases hm with hm | hm
      · exact h4 i n d hm
      · omega
    · intro c rest fs hs hd
      rw [hs] at h3
      refine ⟨h1, h2, by simpa using h3, ?_⟩
      intro i n d hm
      simp only [List.mem_append, List.mem_singleton] at hm
      rcases hm with hm | hm
      · exact h4 i n d hm
      · cases hm
    · intro fs hs
      rw [hs] at h3
      simp only [List.length_cons] at h3
      exact ⟨h1, h2, by show fs.length ≤ s.depth; omega, h4⟩
    · intro c ds hs hd
      refine ⟨by simp [execute], by simp [execute]; omega, by simp [execute, hs], ?_⟩
      intro i n d hm
      simp only [execute, hs, List.mem_append, List.mem_singleton, Ev.run.injEq, List.length_nil] at hm
      rcases hm with hm | hm
      · exact h4 i n d hm
      · omega
    · intro _ _
      exact ⟨h1, h2, h3, h4⟩

/-! ### 2. every item runs exactly once; 3. the deferred list is drained before the end -/

structure InvOnce (cfg : Config) (s : St) : Prop where
  perm : (runsOf s.log ++ pend s.stack ++ idsL s.deferred).Perm cfg.root.ids
  fin : s.fin = true → s.stack = [] ∧ s.deferred = []

theorem invOnce_reach (cfg : Config) {s : St} (h : Reach (sys cfg) s) : InvOnce cfg s := by
  refine invariant (InvOnce cfg) ?_ ?_ h
  · show InvOnce cfg (init cfg)
    refine ⟨?_, by simp [init, execute]⟩
    simp [init, execute, runsOf, pend, idsL, Tree.ids_eq cfg.root]
  · intro s l s' hi hm
    obtain ⟨hnf, rfl⟩ := sys_step hm
    obtain ⟨hp, hf⟩ := hi
    apply reach_step
    · intro c rest fs hs hd
      refine ⟨?_, by simp [execute, hnf]⟩
      rw [hs] at hp
      simp only [execute, runsOf_append, runsOf, pend, List.flatMap_cons, idsL, Tree.ids_eq c] at hp ⊢
      simpa [List.append_assoc] using hp
    · intro c rest fs hs hd
      refine ⟨?_, by simp [hnf]⟩
      rw [hs] at hp
      simp only [runsOf_append, runsOf, pend, List.flatMap_cons, idsL, List.append_nil] at hp ⊢
      refine List.Perm.trans ?_ hp
      simp only [List.append_assoc]
      refine List.Perm.append_left _ ?_
      -- idsL rest ++ (X ++ (c.ids ++ D))  ~  c.ids ++ (idsL rest ++ (X ++ D))
      refine List.Perm.trans ?_ (List.perm_append_comm_assoc _ _ _).symm
      refine List.Perm.append_left _ ?_
      refine List.Perm.trans ?_ (List.perm_append_comm_assoc _ _ _).symm
      exact List.Perm.refl _
    · intro fs hs
      refine ⟨?_, by simp [hnf]⟩
      rw [hs] at hp
      simpa [pend, idsL] using hp
    · intro c ds hs hd
      refine ⟨?_, by simp [execute, hnf]⟩
      rw [hs, hd] at hp
      simp only [execute, hs, runsOf_append, runsOf, pend, List.flatMap_cons, List.flatMap_nil, idsL,
        Tree.ids_eq c, List.append_nil] at hp ⊢
      simpa [List.append_assoc] using hp
    · intro hs hd
      exact ⟨hp, fun _ => ⟨hs, hd⟩⟩

/-! ### 4. termination: the outermost start() returns, within `fuelFor` steps -/

def stackW : List (List Tree) → Nat
  | [] => 0
  | f :: fs => 1 + 3 * sizeL f + stackW fs

def defW : List Tree → Nat
  | [] => 0
  | t :: ts => (3 * t.size - 1) + defW ts

def mu (s : St) : Nat := stackW s.stack + defW s.deferred + (if s.fin then 0 else 1)

theorem mu_step (cfg : Config) (s : St) (hf : s.fin = false) : mu (step cfg s) < mu s := by
  apply reach_step (P := fun s' => mu s' < mu s)
  · intro c rest fs hs _
    have := Tree.size_eq c
    simp only [mu, execute, hs, hf, stackW, sizeL]
    omega
  · intro c rest fs hs _
    have := Tree.size_pos c
    simp only [mu, hs, hf, stackW, sizeL, defW]
    omega
  · intro fs hs
    simp only [mu, hs, hf, stackW, sizeL]
    omega
  · intro c ds hs hd
    have := Tree.size_eq c
    simp only [mu, execute, hs, hd, hf, stackW, defW]
    omega
  · intro hs hd
    simp [mu, hs, hd, hf]

theorem iter_fin (cfg : Config) : ∀ (n : Nat) (s : St), mu s ≤ n → (iter cfg n s).fin = true
  | 0, s, h => by
    simp only [iter]
    cases hf : s.fin with
    | true => rfl
    | false => simp [mu, hf] at h
  | n+1, s, h => by
    simp only [iter]
    cases hf : s.fin with
    | true => simp [hf]
    | false =>
      simp only [Bool.false_eq_true, if_false]
      exact iter_fin cfg n _ (by have := mu_step cfg s hf; omega)

theorem iter_reach (cfg : Config) : ∀ (n : Nat) (s : St), Reach (sys cfg) s → Reach (sys cfg) (iter cfg n s)
  | 0, s, h => by simpa [iter] using h
  | n+1, s, h => by
    simp only [iter]
    cases hf : s.fin with
    | true => simpa using h
    | false =>
      simp only [Bool.false_eq_true, if_false]
      refine iter_reach cfg n _ (Reach.step (l := ()) h ?_)
      simp [sys, hf]

theorem mu_init (cfg : Config) : mu (init cfg) ≤ fuelFor cfg := by
  have := Tree.size_eq cfg.root
  simp only [mu, init, execute, stackW, defW, fuelFor]
  simp
  omega

end Unifex.Proto.Trampoline
