/-
  Lemmas/FindIfTiles.lean — helper lemmas for Props/C17.lean:
  normal forms of the GENERATED chunk arithmetic (Generated/FindIfChunks.lean), the exact
  characterisation of the lengths for which the chunks tile the range, and correctness of the
  find_if model (Proto/FindIf.lean) for every length whose chunks tile.
  Only the `*_nf` lemmas look at the generated text.
-/
import UnifexModel.Proto.FindIf
import UnifexModel.Lemmas.BulkLoop

namespace Unifex.Lemmas.FindIfTiles
open Unifex.Generated.FindIfChunks Unifex.Proto.FindIf Unifex.Proto

/-! ### normal forms of the generated definitions (for a non-negative distance) -/
theorem num_chunks_nf (d : Nat) : num_chunks (d : Int) = if (d : Int) / 32 > 4 then 32 else (d : Int) / 4 + 1 := by
  have h0 : (0 : Int) ≤ d := Int.natCast_nonneg d
  simp (disch := omega) only [num_chunks, max_num_chunks, min_chunk_size, Int.tdiv_eq_ediv_of_nonneg]
  (repeat' split) <;> omega

theorem num_chunks_pos (d : Nat) : 1 ≤ num_chunks (d : Int) := by
  rw [num_chunks_nf]; split <;> omega

theorem add_self_ediv (a n : Int) (hn : 1 ≤ n) : (a + n) / n = a / n + 1 := by
  have := Int.add_mul_ediv_right a 1 (c := n) (by omega)
  rw [Int.one_mul] at this
  exact this

theorem chunk_size_nf (d : Nat) : chunk_size (d : Int) = (d : Int) / num_chunks d + 1 := by
  have hn := num_chunks_pos d
  have h0 : (0 : Int) ≤ d := Int.natCast_nonneg d
  have key := add_self_ediv (d : Int) (num_chunks d) hn
  have key' : (num_chunks (d : Int) + (d : Int)) / num_chunks d = (d : Int) / num_chunks d + 1 := by
    rw [Int.add_comm]; exact key
  simp (disch := omega) only [chunk_size, Int.tdiv_eq_ediv_of_nonneg] <;>
    first | rfl | exact key | exact key' | omega

theorem chunk_size_pos (d : Nat) : 1 ≤ chunk_size (d : Int) := by
  have hn := num_chunks_pos d
  have h0 : (0 : Int) ≤ d := Int.natCast_nonneg d
  have : 0 ≤ (d : Int) / num_chunks d := Int.ediv_nonneg h0 (by omega)
  rw [chunk_size_nf]; omega

/-- chunk_size * num_chunks covers the distance (chunk_size is rounded up) -/
theorem chunk_size_covers (d : Nat) : (d : Int) ≤ chunk_size (d : Int) * num_chunks (d : Int) := by
  have hn := num_chunks_pos d
  have h1 := Int.mul_ediv_add_emod (d : Int) (num_chunks d)
  have h2 := Int.emod_lt_of_pos (d : Int) (show 0 < num_chunks (d : Int) by omega)
  rw [chunk_size_nf, Int.add_mul, Int.one_mul, Int.mul_comm]
  omega

theorem chunk_begin_nf (d : Nat) (i : Int) : chunk_begin_it (d : Int) i = min (chunk_size d * i) d := by
  simp only [chunk_begin_it, Int.zero_add] <;>
    first | rfl | (rw [Int.mul_comm]) | omega

theorem chunk_end_nf (d : Nat) (i : Int) : chunk_end_it (d : Int) i = min (chunk_size d * (i + 1)) d := by
  simp only [chunk_end_it, Int.zero_add] <;>
    first | rfl | (rw [Int.mul_comm]) | omega

theorem ite_decide_true (c A B : Prop) [Decidable c] [Decidable A] [Decidable B] :
    ((if c then decide A else decide B) = true) ↔ ((c → A) ∧ (¬c → B)) := by
  by_cases h : c <;> simp [h]

theorem tilesB_iff (d : Nat) : tilesB d = true ↔
    (1 ≤ num_chunks (d : Int) ∧ per_chunk_len (d : Int) = num_chunks d ∧ bulk_count (d : Int) = num_chunks d ∧
     per_chunk_init (d : Int) = d ∧ chunk_begin_it (d : Int) 0 = 0 ∧
     ∀ i : Nat, i < (num_chunks (d : Int)).toNat →
       scan_init (d : Int) i = chunk_begin_it (d : Int) i ∧
       chunk_begin_it (d : Int) i ≤ chunk_end_it (d : Int) i ∧ chunk_end_it (d : Int) i ≤ d ∧
       (i + 1 < (num_chunks (d : Int)).toNat → chunk_end_it (d : Int) i = chunk_begin_it (d : Int) ((i + 1 : Nat) : Int)) ∧
       (¬ i + 1 < (num_chunks (d : Int)).toNat → chunk_end_it (d : Int) i = d)) := by
  unfold tilesB
  simp only [Bool.and_eq_true, decide_eq_true_eq, List.all_eq_true, List.mem_range, ite_decide_true]
  constructor
  · rintro ⟨⟨⟨⟨⟨h1, h2⟩, h3⟩, h4⟩, h5⟩, h6⟩
    refine ⟨h1, h2, h3, h4, h5, ?_⟩
    intro i hi
    obtain ⟨⟨⟨a, b⟩, c⟩, e, f⟩ := h6 i hi
    exact ⟨a, b, c, e, f⟩
  · rintro ⟨h1, h2, h3, h4, h5, h6⟩
    refine ⟨⟨⟨⟨⟨h1, h2⟩, h3⟩, h4⟩, h5⟩, ?_⟩
    intro i hi
    obtain ⟨a, b, c, e, f⟩ := h6 i hi
    exact ⟨⟨⟨a, b⟩, c⟩, e, f⟩

/-- the chunks tile the range for EVERY distance -/
theorem tilesB_all (d : Nat) : tilesB d = true := by
  have hn := num_chunks_pos d
  have hcs := chunk_size_pos d
  have hcov := chunk_size_covers d
  have h0 : (0 : Int) ≤ d := Int.natCast_nonneg d
  rw [tilesB_iff]
  refine ⟨hn, by simp [per_chunk_len], by simp [bulk_count], by simp [per_chunk_init], ?_, ?_⟩
  · rw [chunk_begin_nf, Int.mul_zero]; omega
  intro i hi
  have hstep : chunk_size (d : Int) * ((i : Int) + 1) = chunk_size (d : Int) * i + chunk_size (d : Int) := by
    rw [Int.mul_add, Int.mul_one]
  refine ⟨by simp [scan_init], ?_, ?_, ?_, ?_⟩
  · rw [chunk_begin_nf, chunk_end_nf, hstep]; omega
  · rw [chunk_end_nf]; omega
  · intro _
    rw [chunk_end_nf, chunk_begin_nf]
    push_cast
    rfl
  · intro h
    have e : (i : Int) + 1 = num_chunks (d : Int) := by omega
    rw [chunk_end_nf, e]; omega

theorem scan_continue_nf (D i it : Int) : scan_continue D i it = decide (it ≠ chunk_end_it D i) := by
  simp [scan_continue]
theorem scan_step_nf (D i it : Int) : scan_step D i it = it + 1 := by simp [scan_step]
theorem seq_init_nf (D : Int) : seq_init D = 0 := by simp [seq_init]
theorem seq_continue_nf (D it : Int) : seq_continue D it = decide (it ≠ D) := by simp [seq_continue]
theorem seq_step_nf (D it : Int) : seq_step D it = it + 1 := by simp [seq_step]

/-! ### correctness of the find_if model for every length whose chunks tile the range -/

/-- facts about a tiling, in a form convenient for the proofs below -/
structure TileFacts (d : Nat) : Prop where
  npos : 1 ≤ num_chunks (d : Int)
  len : per_chunk_len (d : Int) = num_chunks d
  cnt : bulk_count (d : Int) = num_chunks d
  ini : per_chunk_init (d : Int) = d
  b0 : chunk_begin_it (d : Int) 0 = 0
  si : ∀ i : Nat, i < (num_chunks (d : Int)).toNat → scan_init (d : Int) i = chunk_begin_it (d : Int) i
  le : ∀ i : Nat, i < (num_chunks (d : Int)).toNat → chunk_begin_it (d : Int) i ≤ chunk_end_it (d : Int) i
  hi : ∀ i : Nat, i < (num_chunks (d : Int)).toNat → chunk_end_it (d : Int) i ≤ d
  nxt : ∀ i : Nat, i + 1 < (num_chunks (d : Int)).toNat → chunk_end_it (d : Int) i = chunk_begin_it (d : Int) ((i + 1 : Nat) : Int)
  last : ∀ i : Nat, i + 1 = (num_chunks (d : Int)).toNat → chunk_end_it (d : Int) i = d

theorem tileFacts (d : Nat) (h : tilesB d = true) : TileFacts d := by
  rw [tilesB_iff] at h
  obtain ⟨h1, h2, h3, h4, h5, h6⟩ := h
  exact ⟨h1, h2, h3, h4, h5, fun i hi => (h6 i hi).1, fun i hi => (h6 i hi).2.1, fun i hi => (h6 i hi).2.2.1,
    fun i hi => (h6 i (by omega)).2.2.2.1 hi, fun i hi => (h6 i (by omega)).2.2.2.2 (by omega)⟩

/-- the k-th chunk boundary: where chunk k begins, `d` for k = number of chunks -/
def bnd (d k : Nat) : Int := if k < (num_chunks (d : Int)).toNat then chunk_begin_it (d : Int) k else d

theorem bnd_succ (d : Nat) (t : TileFacts d) (k : Nat) (hk : k < (num_chunks (d : Int)).toNat) :
    bnd d (k + 1) = chunk_end_it (d : Int) k := by
  unfold bnd
  by_cases h : k + 1 < (num_chunks (d : Int)).toNat
  · rw [if_pos h, t.nxt k h]
  · rw [if_neg h, t.last k (by omega)]

theorem bnd_nonneg (d : Nat) (t : TileFacts d) : ∀ k, k ≤ (num_chunks (d : Int)).toNat → 0 ≤ bnd d k := by
  intro k
  induction k with
  | zero =>
    intro _
    have := t.npos
    unfold bnd
    rw [if_pos (by omega)]
    simp [t.b0]
  | succ k ih =>
    intro hk
    rw [bnd_succ d t k (by omega)]
    have h1 := ih (by omega)
    have h2 := t.le k (by omega)
    unfold bnd at h1
    rw [if_pos (by omega)] at h1
    omega

/-- length of chunk i -/
def clen (d i : Nat) : Nat := (chunk_end_it (d : Int) i - chunk_begin_it (d : Int) i).toNat

theorem scanChunk_closed (d : Nat) (t : TileFacts d) (p : Int → Bool) (fuel i : Nat) (hf : d < fuel)
    (hi : i < (num_chunks (d : Int)).toNat) :
    scanChunk p d fuel i = ⟨evalsIn p (chunk_begin_it (d : Int) i) (clen d i), firstIn p (chunk_begin_it (d : Int) i) (clen d i), false⟩ := by
  unfold scanChunk
  rw [t.si i hi]
  have h1 := t.le i hi
  have h2 := t.hi i hi
  have h3 := bnd_nonneg d t i (by omega)
  unfold bnd at h3
  rw [if_pos hi] at h3
  apply genLoop_closed _ _ p (chunk_end_it (d : Int) i) (scan_continue_nf _ _) (scan_step_nf _ _)
  · unfold clen; omega
  · unfold clen; omega

/-- scanning the first k chunks in chunk order = a first-match scan of `[0, bnd k)` -/
theorem prefix_scan (d : Nat) (t : TileFacts d) (p : Int → Bool) :
    ∀ k, k ≤ (num_chunks (d : Int)).toNat →
      (List.range k).findSome? (fun (i : Nat) => firstIn p (chunk_begin_it (d : Int) i) (clen d i))
        = firstIn p 0 (bnd d k).toNat := by
  intro k
  induction k with
  | zero =>
    intro _
    have := t.npos
    unfold bnd
    rw [if_pos (by omega)]
    simp [t.b0, firstIn]
  | succ k ih =>
    intro hk
    have hk' : k < (num_chunks (d : Int)).toNat := by omega
    rw [List.range_succ, List.findSome?_append, ih (by omega), bnd_succ d t k hk']
    have h0 := bnd_nonneg d t k (by omega)
    have hb : bnd d k = chunk_begin_it (d : Int) k := by unfold bnd; rw [if_pos hk']
    have h1 := t.le k hk'
    have e : (chunk_end_it (d : Int) k).toNat = (bnd d k).toNat + clen d k := by
      unfold clen; omega
    rw [e, firstIn_append]
    congr 1
    simp only [List.findSome?_cons, List.findSome?_nil]
    have e2 : (0 : Int) + ((bnd d k).toNat : Int) = chunk_begin_it (d : Int) k := by omega
    rw [e2]
    cases firstIn p (chunk_begin_it (d : Int) k) (clen d k) <;> rfl

theorem executed_closed (d : Nat) (t : TileFacts d) (p : Int → Bool) (fuel : Nat) :
    ∃ K, executed p d fuel = List.range K ∧ K ≤ (num_chunks (d : Int)).toNat ∧
      (firstHitChunk p d fuel = none → K = (num_chunks (d : Int)).toNat) ∧
      (∀ h, firstHitChunk p d fuel = some h → h < K) := by
  unfold executed
  rw [Bulk.run_closed]
  simp only [if_true]
  cases hfh : firstHitChunk p d fuel with
  | none =>
    refine ⟨(num_chunks (d : Int)).toNat, ?_, Nat.le_refl _, fun _ => rfl, fun h hh => (by cases hh)⟩
    simp only [Option.map_none, Bulk.outerSpec, t.cnt]
    rw [Bulk.indices_append_single _ _ (by intro i; simp), Bulk.indices_nexts, List.range_eq_range']
    simp
  | some h =>
    have hmem : h ∈ List.range (bulk_count (d : Int)).toNat := by
      unfold firstHitChunk at hfh
      exact List.mem_of_find?_eq_some hfh
    rw [t.cnt, List.mem_range] at hmem
    obtain ⟨b1, _, _⟩ := Bulk.boundaryAfter_spec (h + 1)
    simp only [Option.map_some, Bulk.outerSpec, t.cnt]
    by_cases hb : Bulk.boundaryAfter (h + 1) < (num_chunks (d : Int)).toNat
    · refine ⟨Bulk.boundaryAfter (h + 1), ?_, by omega, fun hh => (by cases hh), fun h' hh => (by cases hh; omega)⟩
      rw [if_pos hb, Bulk.indices_append_single _ _ (by intro i; simp), Bulk.indices_nexts, List.range_eq_range']
      simp
    · refine ⟨(num_chunks (d : Int)).toNat, ?_, Nat.le_refl _, fun _ => rfl, fun h' hh => (by cases hh; omega)⟩
      rw [if_neg hb, Bulk.indices_append_single _ _ (by intro i; simp), Bulk.indices_nexts, List.range_eq_range']
      simp

theorem findSome_congr' {α β : Type} (l : List α) (f g : α → Option β) (h : ∀ a ∈ l, f a = g a) :
    l.findSome? f = l.findSome? g := by
  induction l with
  | nil => rfl
  | cons a r ih =>
    simp only [List.findSome?_cons]
    rw [h a (by simp), ih (fun b hb => h b (by simp [hb]))]

/-- cutting the chunk list after the first chunk with a hit does not change the first hit -/
theorem findSome_cut (f : Nat → Option Int) (n K : Nat) (hK : K ≤ n)
    (h : K = n ∨ ∃ h, h < K ∧ (f h).isSome = true) :
    (List.range n).findSome? (fun i => if i < K then f i else none) = (List.range n).findSome? f := by
  have hsplit : List.range n = List.range K ++ List.range' K (n - K) := by
    have := List.range'_append_1 (s := 0) (m := K) (n := n - K)
    rw [Nat.zero_add] at this
    rw [List.range_eq_range', List.range_eq_range', this]
    congr 1; omega
  rw [hsplit, List.findSome?_append, List.findSome?_append]
  have e1 : (List.range K).findSome? (fun i => if i < K then f i else none) = (List.range K).findSome? f := by
    apply findSome_congr'
    intro i hi
    rw [List.mem_range] at hi
    rw [if_pos hi]
  have e2 : (List.range' K (n - K)).findSome? (fun i => if i < K then f i else none) = none := by
    rw [List.findSome?_eq_none_iff]
    intro i hi
    rw [List.mem_range'_1] at hi
    rw [if_neg (by omega)]
  rw [e1, e2]
  rcases h with h | ⟨h, hlt, hs⟩
  · subst h
    simp
  · have : ((List.range K).findSome? f).isSome = true := by
      rw [List.findSome?_isSome_iff]
      exact ⟨h, List.mem_range.mpr hlt, hs⟩
    cases hx : (List.range K).findSome? f with
    | none => rw [hx] at this; cases this
    | some x => rfl

theorem bnd_last (d : Nat) : bnd d (num_chunks (d : Int)).toNat = d := by
  unfold bnd; rw [if_neg (by omega)]

theorem begin_nonneg (d : Nat) (t : TileFacts d) (i : Nat) (hi : i < (num_chunks (d : Int)).toNat) :
    0 ≤ chunk_begin_it (d : Int) i := by
  have := bnd_nonneg d t i (by omega)
  unfold bnd at this
  rwa [if_pos hi] at this

theorem findIfPar_correct (d : Nat) (p : Int → Bool) (fuel : Nat) (hf : d < fuel) :
    (findIfPar p d fuel).res = firstSat p d ∧
    (∀ j ∈ (findIfPar p d fuel).evals, 0 ≤ j ∧ j < d) ∧
    (findIfPar p d fuel).ranOut = false ∧ (findIfPar p d fuel).storeOob = false := by
  have t := tileFacts d (tilesB_all d)
  obtain ⟨K, hex, hKn, hnone, hsome⟩ := executed_closed d t p fuel
  have hscan := fun i hi => scanChunk_closed d t p fuel i hf hi
  unfold findIfPar
  simp only [hex, t.len, t.ini]
  refine ⟨?_, ?_, ?_, ?_⟩
  · -- the result
    rw [List.findSome?_map]
    have e1 : (List.range (num_chunks (d : Int)).toNat).findSome?
          (notEnd d ∘ fun i => if (List.range K).contains i = true then (scanChunk p d fuel i).hit.getD d else d)
        = (List.range (num_chunks (d : Int)).toNat).findSome?
          (fun i => if i < K then firstIn p (chunk_begin_it (d : Int) i) (clen d i) else none) := by
      apply findSome_congr'
      intro i hi
      rw [List.mem_range] at hi
      simp only [Function.comp, List.contains_iff_mem, List.mem_range]
      by_cases hiK : i < K
      · rw [if_pos hiK, if_pos hiK, hscan i hi]
        cases hfi : firstIn p (chunk_begin_it (d : Int) i) (clen d i) with
        | none => simp [notEnd]
        | some r =>
          obtain ⟨_, h2, _, _⟩ := firstIn_some p _ _ r hfi
          have h3 := t.le i hi
          have h4 := t.hi i hi
          have : r ≠ (d : Int) := by unfold clen at h2; omega
          simp [notEnd, this]
      · rw [if_neg hiK, if_neg hiK]
        simp [notEnd]
    rw [e1, findSome_cut _ _ K hKn, prefix_scan d t p _ (Nat.le_refl _), bnd_last]
    · simp [firstSat]
    · cases hfh : firstHitChunk p d fuel with
      | none => exact Or.inl (hnone hfh)
      | some h =>
        right
        have hlt := hsome h hfh
        refine ⟨h, hlt, ?_⟩
        have := List.find?_some (by unfold firstHitChunk at hfh; exact hfh)
        rw [hscan h (by omega)] at this
        exact this
  · -- predicate evaluated inside the range only
    intro j hj
    rw [List.mem_flatMap] at hj
    obtain ⟨s, hs, hjs⟩ := hj
    rw [List.mem_map] at hs
    obtain ⟨i, hi, rfl⟩ := hs
    rw [List.mem_range] at hi
    have hin : i < (num_chunks (d : Int)).toNat := by omega
    rw [hscan i hin] at hjs
    have := evalsIn_range p _ _ j hjs
    have h0 := begin_nonneg d t i hin
    have h3 := t.le i hin
    have h4 := t.hi i hin
    unfold clen at this
    omega
  · rw [List.any_eq_false]
    intro s hs
    rw [List.mem_map] at hs
    obtain ⟨i, hi, rfl⟩ := hs
    rw [List.mem_range] at hi
    rw [hscan i (by omega)]
    simp
  · rw [List.any_eq_false]
    intro i hi
    rw [List.mem_range] at hi
    have : ¬ (num_chunks (d : Int)).toNat ≤ i := by omega
    simp [this]

theorem findIfSeq_correct (d : Nat) (p : Int → Bool) (fuel : Nat) (hf : d < fuel) :
    (findIfSeq p d fuel).res = firstSat p d ∧
    (∀ j ∈ (findIfSeq p d fuel).evals, 0 ≤ j ∧ j < d) ∧ (findIfSeq p d fuel).ranOut = false := by
  unfold findIfSeq
  rw [seq_init_nf, genLoop_closed _ _ p (d : Int) (seq_continue_nf _) (seq_step_nf _) fuel 0 d (by omega) hf]
  refine ⟨rfl, ?_, rfl⟩
  intro j hj
  have := evalsIn_range p _ _ j hj
  omega

end Unifex.Lemmas.FindIfTiles
