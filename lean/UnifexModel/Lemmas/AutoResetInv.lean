/-
  Lemmas/AutoResetInv.lean — the counting invariant of the auto-reset event model
  (Proto/AutoReset.lean) for an ARBITRARY configuration (any number of consumers, next() calls,
  producers, cancellations) and its preservation by every step.
-/
import UnifexModel.Proto.AutoReset

namespace Unifex.Proto.AutoReset
open Unifex.Core

/-- what the invariant talks about: the mutex-protected state word and the history counters -/
structure Core where
  st : Nat
  ups : Nat
  values : Nat
  doneSeen : Bool
  bad2 : Bool

def coreOf (s : St) : Core := ⟨s.st, s.ups, s.values, s.doneSeen, s.bad == 2⟩

def CInv (startReady : Bool) (c : Core) : Prop :=
  c.values + (if c.st = 1 then 1 else 0) ≤ c.ups + (if startReady then 1 else 0) ∧
  (c.doneSeen = false → c.values + (if c.st = 1 then 1 else 0) = c.ups + (if startReady then 1 else 0)) ∧
  (c.doneSeen = true → c.st = 2) ∧
  c.bad2 = false ∧ c.st ≤ 2

def Inv (cfg : Config) (s : St) : Prop := CInv cfg.startReady (coreOf s)

@[simp] theorem coreOf_setC (s : St) (k : Nat) (c : Cons) : coreOf (setC s k c) = coreOf s := rfl
@[simp] theorem coreOf_setT (s : St) (j : Nat) (c : Ctl) : coreOf (setT s j c) = coreOf s := rfl

theorem coreOf_enqueue (s : St) (i : Nat) :
    coreOf (enqueue s i) = coreOf s ∨
    (s.bad = 0 ∧ coreOf (enqueue s i) = { coreOf s with bad2 := false }) := by
  unfold enqueue
  simp only []
  split
  · next h =>
    simp only [Bool.and_eq_true, decide_eq_true_eq] at h
    right
    refine ⟨h.2, ?_⟩
    simp [coreOf, setC]
  · left; simp [coreOf, setC]

theorem CInv_enqueue {b : Bool} {s : St} (i : Nat) (h : CInv b (coreOf s)) : CInv b (coreOf (enqueue s i)) := by
  rcases coreOf_enqueue s i with h1 | ⟨_, h1⟩
  · rw [h1]; exact h
  · rw [h1]; exact ⟨h.1, h.2.1, h.2.2.1, rfl, h.2.2.2.2⟩

theorem CInv_unlock {b : Bool} {s : St} (h : CInv b (coreOf s)) : CInv b (coreOf { s with locked := false }) := h

theorem CInv_regionSet {b : Bool} {s : St} (isDone : Bool) (h : CInv b (coreOf s)) :
    CInv b (coreOf (regionSet s isDone).1) := by
  obtain ⟨h1, h2, h3, h4, h5⟩ := h
  simp only [coreOf] at h1 h2 h3 h4 h5
  have hst : s.st = 0 ∨ s.st = 1 ∨ s.st = 2 := by omega
  unfold regionSet CInv
  cases isDone <;> cases b <;> cases hd : s.doneSeen <;> rcases hst with h0 | h0 | h0 <;>
    simp_all [coreOf] <;> omega

theorem CInv_tryReset {b : Bool} {s : St} (h : CInv b (coreOf s)) (hst : s.st = 1) :
    CInv b (coreOf { s with st := 0, evSet := false, evList := [], values := s.values + 1,
                            bad := if s.doneSeen && s.bad = 0 then 2 else s.bad }) := by
  obtain ⟨h1, h2, h3, h4, h5⟩ := h
  simp only [coreOf] at h1 h2 h3 h4 h5
  have hds : s.doneSeen = false := by
    cases hd : s.doneSeen with
    | false => rfl
    | true => have := h3 hd; omega
  unfold CInv
  cases b <;> simp_all [coreOf] <;> omega

theorem mem_next {cfg : Config} {s s' : St} {l : Lbl} :
    (l, s') ∈ (sys cfg).next s ↔
      (∃ k, k < s.cons.length ∧ stepCons cfg s k = some (l, s')) ∨
      (∃ j, j < s.ctls.length ∧ stepCtl cfg s j = some (l, s')) := by
  simp [sys, List.mem_append, List.mem_filterMap, List.mem_range]

theorem inv_init (cfg : Config) : Inv cfg (init cfg) := by
  unfold Inv CInv
  cases h : cfg.startReady <;> simp [init, coreOf, h]

theorem inv_stepCons {cfg : Config} {s s' : St} {l : Lbl} {k : Nat} (hI : Inv cfg s)
    (h : stepCons cfg s k = some (l, s')) : Inv cfg s' := by
  unfold Inv at hI ⊢
  unfold stepCons at h
  dsimp only at h
  split at h
  · -- 0
    split at h
    · simp only [Option.some.injEq, Prod.mk.injEq] at h; obtain ⟨_, rfl⟩ := h; exact hI
    · cases h
  · -- 1
    split at h <;>
    · simp only [Option.some.injEq, Prod.mk.injEq] at h; obtain ⟨_, rfl⟩ := h; exact hI
  · -- 10
    split at h
    · cases h
    · simp only [Option.some.injEq, Prod.mk.injEq] at h; obtain ⟨_, rfl⟩ := h
      rw [coreOf_setC]
      exact CInv_regionSet true hI
  · -- 11
    split at h
    · simp only [Option.some.injEq, Prod.mk.injEq] at h; obtain ⟨_, rfl⟩ := h; exact hI
    · simp only [Option.some.injEq, Prod.mk.injEq] at h; obtain ⟨_, rfl⟩ := h
      exact CInv_enqueue _ hI
  · -- 2
    simp only [Option.some.injEq, Prod.mk.injEq] at h; obtain ⟨_, rfl⟩ := h; exact hI
  · -- 3
    split at h
    · simp only [Option.some.injEq, Prod.mk.injEq] at h; obtain ⟨_, rfl⟩ := h
      exact CInv_enqueue _ hI
    · split at h <;>
      · simp only [Option.some.injEq, Prod.mk.injEq] at h; obtain ⟨_, rfl⟩ := h; exact hI
  · -- 4
    split at h
    · simp only [Option.some.injEq, Prod.mk.injEq] at h; obtain ⟨_, rfl⟩ := h; exact hI
    · cases h
  · -- 5
    split at h
    · cases h
    · split at h
      · next hst =>
        simp only [Option.some.injEq, Prod.mk.injEq] at h; obtain ⟨_, rfl⟩ := h
        rw [coreOf_setC]
        exact CInv_tryReset hI hst
      · simp only [Option.some.injEq, Prod.mk.injEq] at h; obtain ⟨_, rfl⟩ := h; exact hI
  · -- 6
    simp only [Option.some.injEq, Prod.mk.injEq] at h; obtain ⟨_, rfl⟩ := h; exact hI
  · cases h

theorem inv_stepCtl {cfg : Config} {s s' : St} {l : Lbl} {j : Nat} (hI : Inv cfg s)
    (h : stepCtl cfg s j = some (l, s')) : Inv cfg s' := by
  unfold Inv at hI ⊢
  unfold stepCtl at h
  dsimp only at h
  split at h
  · -- 0
    split at h
    · cases h
    · simp only [Option.some.injEq, Prod.mk.injEq] at h; obtain ⟨_, rfl⟩ := h; exact hI
    · simp only [Option.some.injEq, Prod.mk.injEq] at h; obtain ⟨_, rfl⟩ := h; exact hI
    · simp only [Option.some.injEq, Prod.mk.injEq] at h; obtain ⟨_, rfl⟩ := h; exact hI
    · split at h
      · simp only [Option.some.injEq, Prod.mk.injEq] at h; obtain ⟨_, rfl⟩ := h; exact hI
      · cases h
  · -- 1
    split at h
    · cases h
    · simp only [Option.some.injEq, Prod.mk.injEq] at h; obtain ⟨_, rfl⟩ := h
      rw [coreOf_setT]
      exact CInv_regionSet _ hI
  · -- 2
    split at h
    · simp only [Option.some.injEq, Prod.mk.injEq] at h; obtain ⟨_, rfl⟩ := h; exact hI
    · simp only [Option.some.injEq, Prod.mk.injEq] at h; obtain ⟨_, rfl⟩ := h
      exact CInv_enqueue _ hI
  · -- 3
    split at h <;>
    · simp only [Option.some.injEq, Prod.mk.injEq] at h; obtain ⟨_, rfl⟩ := h; exact hI
  · -- 4
    split at h <;>
    · simp only [Option.some.injEq, Prod.mk.injEq] at h; obtain ⟨_, rfl⟩ := h; exact hI
  · cases h

theorem inv_reach {cfg : Config} {s : St} (h : Reach (sys cfg) s) : Inv cfg s :=
  invariant (Inv cfg) (inv_init cfg) (fun _ _ _ hI hm => by
    rcases mem_next.mp hm with ⟨k, _, hk⟩ | ⟨j, _, hj⟩
    · exact inv_stepCons hI hk
    · exact inv_stepCtl hI hj) h

end Unifex.Proto.AutoReset
