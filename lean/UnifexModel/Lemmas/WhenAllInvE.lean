/-
  Lemmas/WhenAllInvE.lean — layer E of the when_all invariants: which result `deliver_result()` sends
  (precedence: receiver's stop flag > the first error/done > the values), for all N / configurations /
  schedules.
-/
import UnifexModel.Lemmas.WhenAllInvC
set_option linter.unusedSimpArgs false
namespace Unifex.Proto.WhenAll
open Unifex.Core

/-! ### layer E: the delivered result (precedence receiver-stop > first error/done > values) -/

structure InvE (cfg : Config) (s : St) : Prop where
  e1 : ∀ c ∈ s.ch, c.out ≠ .value → c.ph.pastX = true → s.doe = true
  e2 : ∀ k, s.err = some k → s.firstFail = some k ∧ ∀ c, s.ch[k]? = some c → c.out = .error
  e3 : ∀ k, s.firstFail = some k → s.err = none → ∀ c, s.ch[k]? = some c → c.out = .done
  e6 : s.delivered = 0 → s.result = none ∧ s.recvAtDlv = false
  rv : s.result = some .value → (∀ c ∈ s.ch, c.out = .value) ∧ s.recvAtDlv = false
  re : ∀ k, s.result = some (.error k) →
    s.firstFail = some k ∧ s.recvAtDlv = false ∧ ∀ c, s.ch[k]? = some c → c.out = .error
  rd : s.result = some .done →
    (cfg.checksRecv = true ∧ s.recvAtDlv = true) ∨
    (s.recvAtDlv = false ∧ s.firstFail ≠ none ∧
      ∀ k, s.firstFail = some k → ∀ c, s.ch[k]? = some c → c.out = .done)

syntax "inve_simp" : tactic
macro_rules
  | `(tactic| inve_simp) => `(tactic|
      simp only [setCh, signalSt, touch_refCount, touch_zeroed, touch_delivered, touch_stopPh, touch_ch,
        touch_cbReg, touch_cbRunning, touch_cur, touch_dlvBy, touch_ownStop, touch_firstFail, touch_doe,
        touch_notifyDone, touch_err, touch_result, touch_recvAtDlv, List.length_set])

syntax "inve_mem" : tactic
macro_rules
  | `(tactic| inve_mem) => `(tactic| (
      inve_simp
      first
      | assumption
      | (intro x hx; rcases mem_set_cases hx with h | h <;> grind)
      | grind))

syntax "inve_plain" : tactic
macro_rules
  | `(tactic| inve_plain) => `(tactic| (
      inve_simp
      first
      | assumption
      | grind [get_set_cases, mem_set_cases]))

syntax "inve_fin" : tactic
macro_rules
  | `(tactic| inve_fin) => `(tactic| (
      refine ⟨?_, ?_, ?_, ?_, ?_, ?_, ?_⟩
      · inve_mem
      · inve_plain
      · inve_plain
      · inve_plain
      · inve_plain
      · inve_plain
      · inve_plain))

theorem pastX_of_not_pend {c : Child} (h : c.ph.pend = false) : c.ph.pastX = true := by
  cases hp : c.ph <;> simp_all

theorem all_pastX_of_zeroed {cfg : Config} {s : St} (hi : Inv cfg s) (hz : s.zeroed = true) :
    ∀ c ∈ s.ch, c.ph.pastX = true := by
  intro c hc
  have hP := (hi.a.z hz).1
  have h1 := (List.countP_eq_zero.mp hP) c hc
  exact pastX_of_not_pend (by simpa using h1)

theorem zeroed_of_dlv {cfg : Config} {s : St} (hi : Inv cfg s) {j : Nat} {c : Child}
    (hc : s.ch[j]? = some c) (hp : c.ph.dlv = true) : s.zeroed = true := by
  obtain ⟨_, _, _, hone⟩ := hi.a
  have := cntD_pos hc hp
  cases hzz : s.zeroed
  · simp [hzz] at hone; omega
  · rfl

theorem zeroed_of_sd {cfg : Config} {s : St} (hi : Inv cfg s) (hp : s.stopPh.sd = 1) : s.zeroed = true := by
  obtain ⟨_, _, _, hone⟩ := hi.a
  cases hzz : s.zeroed
  · simp [hzz] at hone; omega
  · rfl

theorem resByDoe_cases (s : St) :
    (s.doe = false ∧ resByDoe s = .value) ∨
    (s.doe = true ∧ ∃ k, s.err = some k ∧ resByDoe s = .error k) ∨
    (s.doe = true ∧ s.err = none ∧ resByDoe s = .done) := by
  unfold resByDoe
  cases hd : s.doe <;> cases he : s.err <;> simp

set_option maxHeartbeats 4000000 in
theorem invE_step {cfg : Config} {s s' : St} (hi : Inv cfg s) (he : InvE cfg s)
    (hs : Step cfg s s') : InvE cfg s' := by
  have hall : s.delivered = 1 → ∀ c ∈ s.ch, c.ph = .fin := all_fin_of_delivered hi
  have hff := hi.d.ff
  have hffk := hi.d.ffk
  have hdoeff := hi.d.doeff
  have hwin := hi.d.winner
  have hd1 : s.delivered ≤ 1 := by
    obtain ⟨_, _, _, hone⟩ := hi.a
    cases hz : s.zeroed <;> simp [hz] at hone <;> omega
  obtain ⟨e1, e2, e3, e6, rv, re, rd⟩ := he
  cases hs with
  | cClaim j c o hc hp ho =>
    have hm := mem_of_get hc
    have hj := (get_of_some hc).1
    have hund := undelivered_of_pend hi.a hc
    have hund2 := undelivered_of_dlv hi.a hc
    simp only [hp, pend_run, pend_claimed, pend_preX, pend_preStop, pend_notifying, pend_preDec, pend_dlv1, pend_dlv2, pend_dlv3, pend_fin, dlv_run, dlv_claimed, dlv_preX, dlv_preStop, dlv_notifying, dlv_preDec, dlv_dlv1, dlv_dlv2, dlv_dlv3, dlv_fin, forall_const, Bool.false_eq_true, false_implies] at hund hund2
    inve_fin
  | cDereg j c hc hp hcb =>
    have hm := mem_of_get hc
    have hj := (get_of_some hc).1
    have hund := undelivered_of_pend hi.a hc
    have hund2 := undelivered_of_dlv hi.a hc
    simp only [hp, pend_run, pend_claimed, pend_preX, pend_preStop, pend_notifying, pend_preDec, pend_dlv1, pend_dlv2, pend_dlv3, pend_fin, dlv_run, dlv_claimed, dlv_preX, dlv_preStop, dlv_notifying, dlv_preDec, dlv_dlv1, dlv_dlv2, dlv_dlv3, dlv_fin, forall_const, Bool.false_eq_true, false_implies] at hund hund2
    inve_fin
  | cNoX j c hc hp hv =>
    have hm := mem_of_get hc
    have hj := (get_of_some hc).1
    have hund := undelivered_of_pend hi.a hc
    have hund2 := undelivered_of_dlv hi.a hc
    simp only [hp, pend_run, pend_claimed, pend_preX, pend_preStop, pend_notifying, pend_preDec, pend_dlv1, pend_dlv2, pend_dlv3, pend_fin, dlv_run, dlv_claimed, dlv_preX, dlv_preStop, dlv_notifying, dlv_preDec, dlv_dlv1, dlv_dlv2, dlv_dlv3, dlv_fin, forall_const, Bool.false_eq_true, false_implies] at hund hund2
    inve_fin
  | cXwin j c hc hp hv hd =>
    have hout : c.out = .value ∨ c.out = .error ∨ c.out = .done := by cases c.out <;> simp
    have hm := mem_of_get hc
    have hj := (get_of_some hc).1
    have hund := undelivered_of_pend hi.a hc
    have hund2 := undelivered_of_dlv hi.a hc
    simp only [hp, pend_run, pend_claimed, pend_preX, pend_preStop, pend_notifying, pend_preDec, pend_dlv1, pend_dlv2, pend_dlv3, pend_fin, dlv_run, dlv_claimed, dlv_preX, dlv_preStop, dlv_notifying, dlv_preDec, dlv_dlv1, dlv_dlv2, dlv_dlv3, dlv_fin, forall_const, Bool.false_eq_true, false_implies] at hund hund2
    inve_fin
  | cStopAlready j c hc hp ho =>
    have hm := mem_of_get hc
    have hj := (get_of_some hc).1
    have hund := undelivered_of_pend hi.a hc
    have hund2 := undelivered_of_dlv hi.a hc
    simp only [hp, pend_run, pend_claimed, pend_preX, pend_preStop, pend_notifying, pend_preDec, pend_dlv1, pend_dlv2, pend_dlv3, pend_fin, dlv_run, dlv_claimed, dlv_preX, dlv_preStop, dlv_notifying, dlv_preDec, dlv_dlv1, dlv_dlv2, dlv_dlv3, dlv_fin, forall_const, Bool.false_eq_true, false_implies] at hund hund2
    inve_fin
  | cStopFirst j c hc hp ho =>
    have hm := mem_of_get hc
    have hj := (get_of_some hc).1
    have hund := undelivered_of_pend hi.a hc
    have hund2 := undelivered_of_dlv hi.a hc
    simp only [hp, pend_run, pend_claimed, pend_preX, pend_preStop, pend_notifying, pend_preDec, pend_dlv1, pend_dlv2, pend_dlv3, pend_fin, dlv_run, dlv_claimed, dlv_preX, dlv_preStop, dlv_notifying, dlv_preDec, dlv_dlv1, dlv_dlv2, dlv_dlv3, dlv_fin, forall_const, Bool.false_eq_true, false_implies] at hund hund2
    inve_fin
  | cExit j c hc hp hcur hg =>
    have hm := mem_of_get hc
    have hj := (get_of_some hc).1
    have hund := undelivered_of_pend hi.a hc
    have hund2 := undelivered_of_dlv hi.a hc
    simp only [hp, pend_run, pend_claimed, pend_preX, pend_preStop, pend_notifying, pend_preDec, pend_dlv1, pend_dlv2, pend_dlv3, pend_fin, dlv_run, dlv_claimed, dlv_preX, dlv_preStop, dlv_notifying, dlv_preDec, dlv_dlv1, dlv_dlv2, dlv_dlv3, dlv_fin, forall_const, Bool.false_eq_true, false_implies] at hund hund2
    inve_fin
  | cDecLast j c hc hp hr =>
    have hm := mem_of_get hc
    have hj := (get_of_some hc).1
    have hund := undelivered_of_pend hi.a hc
    have hund2 := undelivered_of_dlv hi.a hc
    simp only [hp, pend_run, pend_claimed, pend_preX, pend_preStop, pend_notifying, pend_preDec, pend_dlv1, pend_dlv2, pend_dlv3, pend_fin, dlv_run, dlv_claimed, dlv_preX, dlv_preStop, dlv_notifying, dlv_preDec, dlv_dlv1, dlv_dlv2, dlv_dlv3, dlv_fin, forall_const, Bool.false_eq_true, false_implies] at hund hund2
    inve_fin
  | cDec j c hc hp hr =>
    have hm := mem_of_get hc
    have hj := (get_of_some hc).1
    have hund := undelivered_of_pend hi.a hc
    have hund2 := undelivered_of_dlv hi.a hc
    simp only [hp, pend_run, pend_claimed, pend_preX, pend_preStop, pend_notifying, pend_preDec, pend_dlv1, pend_dlv2, pend_dlv3, pend_fin, dlv_run, dlv_claimed, dlv_preX, dlv_preStop, dlv_notifying, dlv_preDec, dlv_dlv1, dlv_dlv2, dlv_dlv3, dlv_fin, forall_const, Bool.false_eq_true, false_implies] at hund hund2
    inve_fin
  | cDestruct j c hc hp hb =>
    have hm := mem_of_get hc
    have hj := (get_of_some hc).1
    have hund := undelivered_of_pend hi.a hc
    have hund2 := undelivered_of_dlv hi.a hc
    simp only [hp, pend_run, pend_claimed, pend_preX, pend_preStop, pend_notifying, pend_preDec, pend_dlv1, pend_dlv2, pend_dlv3, pend_fin, dlv_run, dlv_claimed, dlv_preX, dlv_preStop, dlv_notifying, dlv_preDec, dlv_dlv1, dlv_dlv2, dlv_dlv3, dlv_fin, forall_const, Bool.false_eq_true, false_implies] at hund hund2
    inve_fin
  | cSigStop j c hc hp hk hr =>
    have hm := mem_of_get hc
    have hj := (get_of_some hc).1
    have hund := undelivered_of_pend hi.a hc
    have hund2 := undelivered_of_dlv hi.a hc
    simp only [hp, pend_run, pend_claimed, pend_preX, pend_preStop, pend_notifying, pend_preDec, pend_dlv1, pend_dlv2, pend_dlv3, pend_fin, dlv_run, dlv_claimed, dlv_preX, dlv_preStop, dlv_notifying, dlv_preDec, dlv_dlv1, dlv_dlv2, dlv_dlv3, dlv_fin, forall_const, Bool.false_eq_true, false_implies] at hund hund2
    inve_fin
  | cNoStop j c hc hp hk hr =>
    have hm := mem_of_get hc
    have hj := (get_of_some hc).1
    have hund := undelivered_of_pend hi.a hc
    have hund2 := undelivered_of_dlv hi.a hc
    simp only [hp, pend_run, pend_claimed, pend_preX, pend_preStop, pend_notifying, pend_preDec, pend_dlv1, pend_dlv2, pend_dlv3, pend_fin, dlv_run, dlv_claimed, dlv_preX, dlv_preStop, dlv_notifying, dlv_preDec, dlv_dlv1, dlv_dlv2, dlv_dlv3, dlv_fin, forall_const, Bool.false_eq_true, false_implies] at hund hund2
    inve_fin
  | cSignalR j c hc hp hk =>
    have hpx := all_pastX_of_zeroed hi (zeroed_of_dlv hi hc (by simp [hp]))
    have hm := mem_of_get hc
    have hj := (get_of_some hc).1
    have hund := undelivered_of_pend hi.a hc
    have hund2 := undelivered_of_dlv hi.a hc
    simp only [hp, pend_run, pend_claimed, pend_preX, pend_preStop, pend_notifying, pend_preDec, pend_dlv1, pend_dlv2, pend_dlv3, pend_fin, dlv_run, dlv_claimed, dlv_preX, dlv_preStop, dlv_notifying, dlv_preDec, dlv_dlv1, dlv_dlv2, dlv_dlv3, dlv_fin, forall_const, Bool.false_eq_true, false_implies] at hund hund2
    rcases resByDoe_cases s with ⟨hdoe, hr⟩ | ⟨hdoe, k, herr, hr⟩ | ⟨hdoe, herr, hr⟩ <;> rw [hr] <;> inve_fin
  | cSignal j c hc hp =>
    have hpx := all_pastX_of_zeroed hi (zeroed_of_dlv hi hc (by simp [hp]))
    have hm := mem_of_get hc
    have hj := (get_of_some hc).1
    have hund := undelivered_of_pend hi.a hc
    have hund2 := undelivered_of_dlv hi.a hc
    simp only [hp, pend_run, pend_claimed, pend_preX, pend_preStop, pend_notifying, pend_preDec, pend_dlv1, pend_dlv2, pend_dlv3, pend_fin, dlv_run, dlv_claimed, dlv_preX, dlv_preStop, dlv_notifying, dlv_preDec, dlv_dlv1, dlv_dlv2, dlv_dlv3, dlv_fin, forall_const, Bool.false_eq_true, false_implies] at hund hund2
    rcases resByDoe_cases s with ⟨hdoe, hr⟩ | ⟨hdoe, k, herr, hr⟩ | ⟨hdoe, herr, hr⟩ <;> rw [hr] <;> inve_fin
  | nTake t k ck hn hcur hk h0 =>
    have hm := mem_of_get hk
    have hj := (get_of_some hk).1
    inve_fin
  | nClaim t k ck hn hcur hk h1 hr =>
    have hm := mem_of_get hk
    have hj := (get_of_some hk).1
    inve_fin
  | nRet t k ck hn hcur hk h1 =>
    have hm := mem_of_get hk
    have hj := (get_of_some hk).1
    inve_fin
  | nRetNested t k ck hn hcur hk h1 hf =>
    have hm := mem_of_get hk
    have hj := (get_of_some hk).1
    inve_fin
  | sBegin hp =>
    have hund := undelivered_of_sd hi.a
    simp only [hp, sd_idle, sd_begun, sd_cbEnter, sd_preOwnStop, sd_notifying, sd_preDec, sd_dlv1, sd_dlv2, sd_dlv3, sd_cbRet, sd_ret, sd_fin, forall_const, reduceCtorEq, Nat.zero_ne_one, false_implies] at hund
    inve_fin
  | sCasCb hp hr =>
    have hund := undelivered_of_sd hi.a
    simp only [hp, sd_idle, sd_begun, sd_cbEnter, sd_preOwnStop, sd_notifying, sd_preDec, sd_dlv1, sd_dlv2, sd_dlv3, sd_cbRet, sd_ret, sd_fin, forall_const, reduceCtorEq, Nat.zero_ne_one, false_implies] at hund
    inve_fin
  | sCasNo hp hr =>
    have hund := undelivered_of_sd hi.a
    simp only [hp, sd_idle, sd_begun, sd_cbEnter, sd_preOwnStop, sd_notifying, sd_preDec, sd_dlv1, sd_dlv2, sd_dlv3, sd_cbRet, sd_ret, sd_fin, forall_const, reduceCtorEq, Nat.zero_ne_one, false_implies] at hund
    inve_fin
  | sAddLate hp hr =>
    have hund := undelivered_of_sd hi.a
    simp only [hp, sd_idle, sd_begun, sd_cbEnter, sd_preOwnStop, sd_notifying, sd_preDec, sd_dlv1, sd_dlv2, sd_dlv3, sd_cbRet, sd_ret, sd_fin, forall_const, reduceCtorEq, Nat.zero_ne_one, false_implies] at hund
    inve_fin
  | sAdd hp hr =>
    have hund := undelivered_of_sd hi.a
    simp only [hp, sd_idle, sd_begun, sd_cbEnter, sd_preOwnStop, sd_notifying, sd_preDec, sd_dlv1, sd_dlv2, sd_dlv3, sd_cbRet, sd_ret, sd_fin, forall_const, reduceCtorEq, Nat.zero_ne_one, false_implies] at hund
    inve_fin
  | sStopAlready hp ho =>
    have hund := undelivered_of_sd hi.a
    simp only [hp, sd_idle, sd_begun, sd_cbEnter, sd_preOwnStop, sd_notifying, sd_preDec, sd_dlv1, sd_dlv2, sd_dlv3, sd_cbRet, sd_ret, sd_fin, forall_const, reduceCtorEq, Nat.zero_ne_one, false_implies] at hund
    inve_fin
  | sStopFirst hp ho =>
    have hund := undelivered_of_sd hi.a
    simp only [hp, sd_idle, sd_begun, sd_cbEnter, sd_preOwnStop, sd_notifying, sd_preDec, sd_dlv1, sd_dlv2, sd_dlv3, sd_cbRet, sd_ret, sd_fin, forall_const, reduceCtorEq, Nat.zero_ne_one, false_implies] at hund
    inve_fin
  | sExit hp hcur hg =>
    have hund := undelivered_of_sd hi.a
    simp only [hp, sd_idle, sd_begun, sd_cbEnter, sd_preOwnStop, sd_notifying, sd_preDec, sd_dlv1, sd_dlv2, sd_dlv3, sd_cbRet, sd_ret, sd_fin, forall_const, reduceCtorEq, Nat.zero_ne_one, false_implies] at hund
    inve_fin
  | sDecLast hp hr =>
    have hund := undelivered_of_sd hi.a
    simp only [hp, sd_idle, sd_begun, sd_cbEnter, sd_preOwnStop, sd_notifying, sd_preDec, sd_dlv1, sd_dlv2, sd_dlv3, sd_cbRet, sd_ret, sd_fin, forall_const, reduceCtorEq, Nat.zero_ne_one, false_implies] at hund
    inve_fin
  | sDec hp hr =>
    have hund := undelivered_of_sd hi.a
    simp only [hp, sd_idle, sd_begun, sd_cbEnter, sd_preOwnStop, sd_notifying, sd_preDec, sd_dlv1, sd_dlv2, sd_dlv3, sd_cbRet, sd_ret, sd_fin, forall_const, reduceCtorEq, Nat.zero_ne_one, false_implies] at hund
    inve_fin
  | sDestruct hp =>
    have hund := undelivered_of_sd hi.a
    simp only [hp, sd_idle, sd_begun, sd_cbEnter, sd_preOwnStop, sd_notifying, sd_preDec, sd_dlv1, sd_dlv2, sd_dlv3, sd_cbRet, sd_ret, sd_fin, forall_const, reduceCtorEq, Nat.zero_ne_one, false_implies] at hund
    inve_fin
  | sSigStop hp hk hr =>
    have hund := undelivered_of_sd hi.a
    simp only [hp, sd_idle, sd_begun, sd_cbEnter, sd_preOwnStop, sd_notifying, sd_preDec, sd_dlv1, sd_dlv2, sd_dlv3, sd_cbRet, sd_ret, sd_fin, forall_const, reduceCtorEq, Nat.zero_ne_one, false_implies] at hund
    inve_fin
  | sNoStop hp hk hr =>
    have hund := undelivered_of_sd hi.a
    simp only [hp, sd_idle, sd_begun, sd_cbEnter, sd_preOwnStop, sd_notifying, sd_preDec, sd_dlv1, sd_dlv2, sd_dlv3, sd_cbRet, sd_ret, sd_fin, forall_const, reduceCtorEq, Nat.zero_ne_one, false_implies] at hund
    inve_fin
  | sSignalR hp hk =>
    have hpx := all_pastX_of_zeroed hi (zeroed_of_sd hi (by simp [hp]))
    have hund := undelivered_of_sd hi.a
    simp only [hp, sd_idle, sd_begun, sd_cbEnter, sd_preOwnStop, sd_notifying, sd_preDec, sd_dlv1, sd_dlv2, sd_dlv3, sd_cbRet, sd_ret, sd_fin, forall_const, reduceCtorEq, Nat.zero_ne_one, false_implies] at hund
    rcases resByDoe_cases s with ⟨hdoe, hr⟩ | ⟨hdoe, k, herr, hr⟩ | ⟨hdoe, herr, hr⟩ <;> rw [hr] <;> inve_fin
  | sSignal hp =>
    have hpx := all_pastX_of_zeroed hi (zeroed_of_sd hi (by simp [hp]))
    have hund := undelivered_of_sd hi.a
    simp only [hp, sd_idle, sd_begun, sd_cbEnter, sd_preOwnStop, sd_notifying, sd_preDec, sd_dlv1, sd_dlv2, sd_dlv3, sd_cbRet, sd_ret, sd_fin, forall_const, reduceCtorEq, Nat.zero_ne_one, false_implies] at hund
    rcases resByDoe_cases s with ⟨hdoe, hr⟩ | ⟨hdoe, k, herr, hr⟩ | ⟨hdoe, herr, hr⟩ <;> rw [hr] <;> inve_fin
  | sCbRet hp =>
    have hund := undelivered_of_sd hi.a
    simp only [hp, sd_idle, sd_begun, sd_cbEnter, sd_preOwnStop, sd_notifying, sd_preDec, sd_dlv1, sd_dlv2, sd_dlv3, sd_cbRet, sd_ret, sd_fin, forall_const, reduceCtorEq, Nat.zero_ne_one, false_implies] at hund
    inve_fin
  | sRet hp =>
    have hund := undelivered_of_sd hi.a
    simp only [hp, sd_idle, sd_begun, sd_cbEnter, sd_preOwnStop, sd_notifying, sd_preDec, sd_dlv1, sd_dlv2, sd_dlv3, sd_cbRet, sd_ret, sd_fin, forall_const, reduceCtorEq, Nat.zero_ne_one, false_implies] at hund
    inve_fin


theorem invE_init (cfg : Config) : InvE cfg (init cfg) := by
  refine ⟨?_, by simp [init], by simp [init], by simp [init], by simp [init], by simp [init], by simp [init]⟩
  intro c hc _ hp
  rw [mem_replicate_init hc] at hp
  simp [Child.init] at hp

theorem invE_reach {cfg : Config} (hn : 0 < cfg.n) {s : St} (h : Reach (sys cfg) s) : InvE cfg s :=
  invariant_reach (InvE cfg) (invE_init cfg)
    (fun _ _ _ hr he hm => invE_step (inv_reach hn hr) he (step_of_mem_next hm)) h

end Unifex.Proto.WhenAll
