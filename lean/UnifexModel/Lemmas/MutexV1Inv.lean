/-
  Lemmas/MutexV1Inv.lean — the inductive invariant of the v1 async_mutex model
  (Proto/MutexV1.lean), for ANY configuration: any number of threads, any scripts.
-/
import UnifexModel.Proto.MutexV1

namespace Unifex.Proto.MutexV1
open Unifex.Core

/-- the thread currently owns the mutex (inside the critical section or inside unlock()) -/
def owner (th : Thr) : Bool := th.pc == 3 || th.pc == 4 || th.pc == 5 || th.pc == 6 || th.pc == 7
def inCs (th : Thr) : Bool := th.pc == 3

structure Inv (s : St) : Prop where
  /-- exactly one owner thread while the queue word is active, none while it is inactive -/
  owners : s.thrs.countP owner = (if s.q.isSome then 1 else 0)
  holders : s.holders = s.thrs.countP inCs
  unlocked : s.q = none → s.pending = []
  /-- FIFO bookkeeping: arrivals = already granted ++ pending batch ++ inbox (oldest first) -/
  fifo : s.arrivals = s.grants ++ s.pending ++ (s.q.getD []).reverse
  drained : ∀ u (h : u < s.thrs.length), (s.thrs[u].pc = 5 ∨ s.thrs[u].pc = 6 ∨ s.thrs[u].pc = 7) → s.pending = []
  nonempty : ∀ u (h : u < s.thrs.length), s.thrs[u].pc = 7 → ∃ x l, s.q = some (x :: l)
  ok : s.bad = 0

theorem mem_next {cfg : Config} {s s' : St} {l : Lbl} (h : (l, s') ∈ (sys cfg).next s) :
    ∃ t, t < s.thrs.length ∧ stepThr cfg s t = some (l, s') := by
  simp only [sys, List.mem_filterMap, List.mem_range] at h
  exact h

theorem getThr_eq {s : St} {t : Nat} (h : t < s.thrs.length) : getThr s t = s.thrs[t] := by
  simp [getThr, List.getD_eq_getElem?_getD, h]

/-- two distinct owner threads contradict `countP owner ≤ 1` -/
theorem two_owners {l : List Thr} {t u : Nat} (ht : t < l.length) (hu : u < l.length) (hne : u ≠ t)
    (hc : l.countP owner ≤ 1) (h1 : owner l[t] = true) (h2 : owner l[u] = true) : False := by
  have hs := List.countP_set (p := owner) (l := l) (i := t) (a := Thr.idle 0) ht
  have hidle : owner (Thr.idle 0) = false := by decide
  simp only [h1, hidle, if_true] at hs
  have hu' : u < (l.set t (Thr.idle 0)).length := by simpa using hu
  have hge := List.boole_getElem_le_countP (p := owner) (l := l.set t (Thr.idle 0)) (i := u) hu'
  have hget : (l.set t (Thr.idle 0))[u] = l[u] := by
    rw [List.getElem_set]; simp [Ne.symm hne]
  rw [hget] at hge
  simp only [h2, if_true] at hge
  have : 1 ≤ l.countP owner := by
    have := List.boole_getElem_le_countP (p := owner) (l := l) (i := t) ht
    simpa [h1] using this
  simp at hs
  omega

theorem inv_init (cfg : Config) : Inv (init cfg) := by
  refine ⟨?_, ?_, ?_, ?_, ?_, ?_, ?_⟩ <;> simp [init, List.countP_map, Function.comp_def, owner, inCs, Thr.idle]


theorem countP_set_add (p : Thr → Bool) (l : List Thr) (t : Nat) (ht : t < l.length) (a : Thr) :
    (l.set t a).countP p + (if p l[t] then 1 else 0) = l.countP p + (if p a then 1 else 0) := by
  have h1 := List.countP_set (p := p) (l := l) (i := t) (a := a) ht
  have h2 := List.boole_getElem_le_countP (p := p) (l := l) (i := t) ht
  omega

/-- frame lemma: thread `t` moves to `th'`, the other fields change from `s` to `s1` -/
theorem inv_upd (s : St) (hI : Inv s) (t : Nat) (ht : t < s.thrs.length) (s1 : St) (th' : Thr)
    (hthrs : s1.thrs = s.thrs)
    (h_owner : (if owner th' then 1 else 0 : Nat) + (if s.q.isSome then 1 else 0) =
               (if owner s.thrs[t] then 1 else 0) + (if s1.q.isSome then 1 else 0))
    (h_hold : s1.holders + (if inCs s.thrs[t] then 1 else 0) = s.holders + (if inCs th' then 1 else 0))
    (h_unl : s1.q = none → s1.pending = [])
    (h_fifo : s1.arrivals = s1.grants ++ s1.pending ++ (s1.q.getD []).reverse)
    (h_dr_self : (th'.pc = 5 ∨ th'.pc = 6 ∨ th'.pc = 7) → s1.pending = [])
    (h_dr_other : ∀ u (h : u < s.thrs.length), u ≠ t →
        (s.thrs[u].pc = 5 ∨ s.thrs[u].pc = 6 ∨ s.thrs[u].pc = 7) → s1.pending = [])
    (h_ne_self : th'.pc = 7 → ∃ x l, s1.q = some (x :: l))
    (h_ne_other : ∀ u (h : u < s.thrs.length), u ≠ t → s.thrs[u].pc = 7 → ∃ x l, s1.q = some (x :: l))
    (h_bad : s1.bad = 0) : Inv (setThr s1 t th') := by
  have hco := countP_set_add owner s.thrs t ht th'
  have hci := countP_set_add inCs s.thrs t ht th'
  have ho := hI.owners
  have hh := hI.holders
  refine ⟨?_, ?_, ?_, ?_, ?_, ?_, ?_⟩
  · simp only [setThr, hthrs]; omega
  · simp only [setThr, hthrs]; omega
  · simpa [setThr] using h_unl
  · simpa [setThr] using h_fifo
  · intro u hu hp
    simp only [setThr, hthrs, List.length_set] at hu
    simp only [setThr, hthrs, List.getElem_set] at hp
    simp only [setThr]
    by_cases hut : t = u
    · simp only [hut, if_true] at hp; exact h_dr_self hp
    · simp only [hut, if_false] at hp; exact h_dr_other u hu (Ne.symm hut) hp
  · intro u hu hp
    simp only [setThr, hthrs, List.length_set] at hu
    simp only [setThr, hthrs, List.getElem_set] at hp
    simp only [setThr]
    by_cases hut : t = u
    · simp only [hut, if_true] at hp; exact h_ne_self hp
    · simp only [hut, if_false] at hp; exact h_ne_other u hu (Ne.symm hut) hp
  · simpa [setThr] using h_bad


theorem owner_isSome {s : St} (hI : Inv s) {t : Nat} (ht : t < s.thrs.length)
    (ho : owner s.thrs[t] = true) : s.q.isSome = true := by
  have hge := List.boole_getElem_le_countP (p := owner) (l := s.thrs) (i := t) ht
  have hown := hI.owners
  rw [ho] at hge
  by_cases hq : s.q.isSome = true
  · exact hq
  · rw [if_neg hq] at hown; rw [hown] at hge; exact absurd hge (by decide)

theorem inv_step (cfg : Config) (s s' : St) (l : Lbl) (hI : Inv s) (h : (l, s') ∈ (sys cfg).next s) : Inv s' := by
  obtain ⟨t, ht, hs⟩ := mem_next h
  have hth := getThr_eq ht
  unfold stepThr at hs
  simp only [hth, complete] at hs
  have hbad := hI.ok
  have hfifo := hI.fifo
  have hown := hI.owners
  have hge := List.boole_getElem_le_countP (p := owner) (l := s.thrs) (i := t) ht
  split at hs
  · -- pc = 0
    rename_i hpc
    have ho : owner s.thrs[t] = false := by simp [owner, hpc]
    have hi : inCs s.thrs[t] = false := by simp [inCs, hpc]
    split at hs
    · simp at hs
    · -- lock
      simp only [Option.some.injEq, Prod.mk.injEq] at hs
      obtain ⟨-, rfl⟩ := hs
      apply inv_upd s hI t ht
      · rfl
      · simp only [ho]; simp [owner]
      · simp only [hi]; simp [inCs]
      · exact hI.unlocked
      · exact hfifo
      · simp
      · intro u hu _ hp; exact hI.drained u hu hp
      · simp
      · intro u hu _ hp; exact hI.nonempty u hu hp
      · exact hbad
    · -- tryCs
      split at hs
      · -- q = none: acquired
        rename_i hq
        simp only [Option.some.injEq, Prod.mk.injEq] at hs
        obtain ⟨-, rfl⟩ := hs
        have hp0 := hI.unlocked hq
        apply inv_upd s hI t ht
        · rfl
        · simp only [ho]; simp [owner, hq]
        · simp only [hi]; simp [inCs]
        · simp
        · simp [hfifo, hq]
        · simp
        · intro u hu _ hp; simpa using hp0
        · simp
        · intro u hu _ hp
          obtain ⟨x, l, hx⟩ := hI.nonempty u hu hp
          simp [hq] at hx
        · exact hbad
      · -- fail
        simp only [Option.some.injEq, Prod.mk.injEq] at hs
        obtain ⟨-, rfl⟩ := hs
        apply inv_upd s hI t ht
        · rfl
        · simp only [ho]; simp [owner, hpc]
        · simp only [hi]; simp [inCs, hpc]
        · exact hI.unlocked
        · exact hfifo
        · simp [hpc]
        · intro u hu _ hp; exact hI.drained u hu hp
        · simp [hpc]
        · intro u hu _ hp; exact hI.nonempty u hu hp
        · exact hbad
    · -- waitAll
      split at hs
      · simp only [Option.some.injEq, Prod.mk.injEq] at hs
        obtain ⟨-, rfl⟩ := hs
        apply inv_upd s hI t ht
        · rfl
        · simp only [ho]; simp [owner, hpc]
        · simp only [hi]; simp [inCs, hpc]
        · exact hI.unlocked
        · exact hfifo
        · simp [hpc]
        · intro u hu _ hp; exact hI.drained u hu hp
        · simp [hpc]
        · intro u hu _ hp; exact hI.nonempty u hu hp
        · exact hbad
      · simp at hs
  · -- pc = 1: enqueue_or_mark_active
    rename_i hpc
    have ho : owner s.thrs[t] = false := by simp [owner, hpc]
    have hi : inCs s.thrs[t] = false := by simp [inCs, hpc]
    split at hs
    · -- q = none: acquired, completes inline
      rename_i hq
      simp only [Option.some.injEq, Prod.mk.injEq] at hs
      obtain ⟨-, rfl⟩ := hs
      have hp0 := hI.unlocked hq
      apply inv_upd s hI t ht
      · rfl
      · simp only [ho]; simp [owner, hq]
      · simp only [hi]; simp [inCs]
      · simp
      · simp [hfifo, hq, hp0]
      · simp
      · intro u hu _ hp; simpa using hp0
      · simp
      · intro u hu _ hp
        obtain ⟨x, l, hx⟩ := hI.nonempty u hu hp
        simp [hq] at hx
      · exact hbad
    · -- q = some l: enqueued
      rename_i l' hq
      simp only [Option.some.injEq, Prod.mk.injEq] at hs
      obtain ⟨-, rfl⟩ := hs
      apply inv_upd s hI t ht
      · rfl
      · simp only [ho]; simp [owner, hq]
      · simp only [hi]; simp [inCs]
      · simp
      · simp [hfifo, hq]
      · simp
      · intro u hu _ hp; simpa using hI.drained u hu hp
      · simp
      · intro u hu _ hp; exact ⟨_, _, rfl⟩
      · exact hbad
  · -- pc = 3: leave the critical section
    rename_i hpc
    have ho : owner s.thrs[t] = true := by simp [owner, hpc]
    have hi : inCs s.thrs[t] = true := by simp [inCs, hpc]
    have hgi := List.boole_getElem_le_countP (p := inCs) (l := s.thrs) (i := t) ht
    have hh := hI.holders
    simp only [Option.some.injEq, Prod.mk.injEq] at hs
    obtain ⟨-, rfl⟩ := hs
    apply inv_upd s hI t ht
    · rfl
    · simp only [ho]; simp [owner]
    · have h1 : 1 ≤ List.countP inCs s.thrs := by rw [hi] at hgi; exact hgi
      simp only [hi]; simp [inCs]; omega
    · exact hI.unlocked
    · exact hfifo
    · simp
    · intro u hu _ hp; exact hI.drained u hu hp
    · simp
    · intro u hu _ hp; exact hI.nonempty u hu hp
    · exact hbad
  · -- pc = 4: unlock(): pending batch
    rename_i hpc
    have ho : owner s.thrs[t] = true := by simp [owner, hpc]
    have hi : inCs s.thrs[t] = false := by simp [inCs, hpc]
    split at hs
    · -- pop_front + resume
      rename_i j rest hp
      simp only [Option.some.injEq, Prod.mk.injEq] at hs
      obtain ⟨-, rfl⟩ := hs
      apply inv_upd s hI t ht
      · rfl
      · simp only [ho]; simp [owner]
      · simp only [hi]; simp [inCs]
      · intro hq; have := hI.unlocked (by simpa using hq); simp [hp] at this
      · simp [hfifo, hp]
      · simp
      · intro u hu _ hpu; have := hI.drained u hu hpu; simp [hp] at this
      · simp
      · intro u hu _ hpu; simpa using hI.nonempty u hu hpu
      · exact hbad
    · -- empty: go on to try_mark_inactive
      rename_i hp
      simp only [Option.some.injEq, Prod.mk.injEq] at hs
      obtain ⟨-, rfl⟩ := hs
      apply inv_upd s hI t ht
      · rfl
      · simp only [ho]; simp [owner]
      · simp only [hi]; simp [inCs]
      · exact hI.unlocked
      · exact hfifo
      · intro _; exact hp
      · intro u hu _ hpu; exact hI.drained u hu hpu
      · simp
      · intro u hu _ hpu; exact hI.nonempty u hu hpu
      · exact hbad
  · -- pc = 5: try_mark_inactive: head_.load()
    rename_i hpc
    have ho : owner s.thrs[t] = true := by simp [owner, hpc]
    have hi : inCs s.thrs[t] = false := by simp [inCs, hpc]
    have hp0 := hI.drained t ht (Or.inl hpc)
    split at hs
    · -- q = none: impossible, an owner exists
      rename_i hq
      have := owner_isSome hI ht ho
      simp [hq] at this
    · -- q = some []
      rename_i hq
      simp only [Option.some.injEq, Prod.mk.injEq] at hs
      obtain ⟨-, rfl⟩ := hs
      apply inv_upd s hI t ht
      · rfl
      · simp only [ho]; simp [owner]
      · simp only [hi]; simp [inCs]
      · exact hI.unlocked
      · exact hfifo
      · intro _; exact hp0
      · intro u hu _ hpu; exact hI.drained u hu hpu
      · simp
      · intro u hu _ hpu; exact hI.nonempty u hu hpu
      · exact hbad
    · -- q = some (x :: l)
      rename_i x l' hq
      simp only [Option.some.injEq, Prod.mk.injEq] at hs
      obtain ⟨-, rfl⟩ := hs
      apply inv_upd s hI t ht
      · rfl
      · simp only [ho]; simp [owner]
      · simp only [hi]; simp [inCs]
      · exact hI.unlocked
      · exact hfifo
      · intro _; exact hp0
      · intro u hu _ hpu; exact hI.drained u hu hpu
      · intro _; exact ⟨_, _, hq⟩
      · intro u hu _ hpu; exact hI.nonempty u hu hpu
      · exact hbad
  · -- pc = 6: compare_exchange_strong(nullptr → inactive)
    rename_i hpc
    have ho : owner s.thrs[t] = true := by simp [owner, hpc]
    have hi : inCs s.thrs[t] = false := by simp [inCs, hpc]
    have hp0 := hI.drained t ht (Or.inr (Or.inl hpc))
    split at hs
    · -- success: unlocked
      rename_i hq
      simp only [Option.some.injEq, Prod.mk.injEq] at hs
      obtain ⟨-, rfl⟩ := hs
      apply inv_upd s hI t ht
      · rfl
      · simp only [ho]; simp [owner, hq]
      · simp only [hi]; simp [inCs]
      · intro _; exact hp0
      · simp [hfifo, hq]
      · simp
      · intro u hu _ hpu; exact hp0
      · simp
      · intro u hu _ hpu
        obtain ⟨x, l, hx⟩ := hI.nonempty u hu hpu
        simp [hq] at hx
      · exact hbad
    · -- failure: somebody enqueued meanwhile
      rename_i hq
      simp only [Option.some.injEq, Prod.mk.injEq] at hs
      obtain ⟨-, rfl⟩ := hs
      apply inv_upd s hI t ht
      · rfl
      · simp only [ho]; simp [owner]
      · simp only [hi]; simp [inCs]
      · exact hI.unlocked
      · exact hfifo
      · intro _; exact hp0
      · intro u hu _ hpu; exact hI.drained u hu hpu
      · intro _
        cases hq' : s.q with
        | none =>
          have := owner_isSome hI ht ho
          simp [hq'] at this
        | some l' =>
          cases l' with
          | nil => exact absurd hq' (by simpa using hq)
          | cons x l'' => exact ⟨_, _, rfl⟩
      · intro u hu _ hpu; exact hI.nonempty u hu hpu
      · exact hbad
  · -- pc = 7: head_.exchange(nullptr), reverse, pop_front, resume
    rename_i hpc
    have ho : owner s.thrs[t] = true := by simp [owner, hpc]
    have hi : inCs s.thrs[t] = false := by simp [inCs, hpc]
    have hp0 := hI.drained t ht (Or.inr (Or.inr hpc))
    obtain ⟨x, l', hq⟩ := hI.nonempty t ht hpc
    have hle : List.countP owner s.thrs ≤ 1 := by rw [hown]; split <;> omega
    have huniq : ∀ u (hu : u < s.thrs.length), u ≠ t → owner s.thrs[u] = true → False :=
      fun u hu hne h2 => two_owners ht hu hne hle ho h2
    simp only [hq] at hs
    split at hs
    · rename_i j rest hrev
      simp only [Option.some.injEq, Prod.mk.injEq] at hs
      obtain ⟨-, rfl⟩ := hs
      apply inv_upd s hI t ht
      · rfl
      · simp only [ho]; simp [owner, hq]
      · simp only [hi]; simp [inCs]
      · simp
      · simp [hfifo, hq, hp0, hrev]
      · simp
      · intro u hu hne hpu
        exfalso; apply huniq u hu hne
        rcases hpu with h | h | h <;> simp [owner, h]
      · simp
      · intro u hu hne hpu
        exfalso; apply huniq u hu hne
        simp [owner, hpu]
      · exact hbad
    · rename_i hrev
      simp at hrev
  · -- any other pc: no step
    simp at hs
end Unifex.Proto.MutexV1
