/-
  Lemmas/RemoteQueueThms.lean — the assembled invariant of Proto/RemoteQueue.lean holds in every
  reachable state of every configuration; consequences used by Props/C14.lean.
-/
import UnifexModel.Lemmas.RemoteQueueProofs2

namespace Unifex.Proto.RemoteQueue
open Unifex.Core

def Inv (cfg : Config) (s : St) : Prop := InvA cfg s ∧ InvB s ∧ InvC cfg s ∧ InvD cfg s ∧ InvE cfg s

theorem getP_init (cfg : Config) (p : Nat) : getP (init cfg) p = ⟨0, 0⟩ := by
  simp only [getP, init, List.getD_eq_getElem?_getD, List.getElem?_map]
  cases cfg.quota[p]? <;> rfl

theorem inv_init (cfg : Config) : Inv cfg (init cfg) := by
  refine ⟨?_, ?_, ?_, ?_, ?_⟩
  · unfold InvA
    simp only [getP_init]
    simp [init, nprod]
  · simp [InvB, pending, init]
  · unfold InvC; simp [init]
  · unfold InvD
    simp only [getP_init]
    simp [init, cnt]
  · intro _; simp [init]

theorem inv_step (cfg : Config) (s s' : St) (l : Lbl) (h : Inv cfg s) (hm : (l, s') ∈ (sys cfg).next s) :
    Inv cfg s' := by
  obtain ⟨ha, hb, hc, hd, he⟩ := h
  rcases next_cases hm with hs | hs | ⟨p, hp, hs⟩
  · exact ⟨invA_stopper _ _ _ _ ha hs, invB_stopper _ _ _ _ hb hs, invC_stopper _ _ _ _ hc hs,
      invD_stopper _ _ _ _ hc hd hs, invE_stopper _ _ _ _ hc he hs⟩
  · exact ⟨invA_loop _ _ _ _ ha hs, invB_loop _ _ _ _ ha hb hs, invC_loop _ _ _ _ hc hs,
      invD_loop _ _ _ _ hc hd hs, invE_loop _ _ _ _ he hs⟩
  · exact ⟨invA_prod _ _ _ _ _ hp ha hs, invB_prod _ _ _ _ _ hb hs, invC_prod _ _ _ _ _ hc hs,
      invD_prod _ _ _ _ _ hp ha hd hs, invE_prod _ _ _ _ _ hp hc he hs⟩

/-- The invariant holds after every schedule of every configuration. -/
theorem inv_reach {cfg : Config} {s : St} (h : Reach (sys cfg) s) : Inv cfg s :=
  invariant (Inv cfg) (inv_init cfg) (fun s l s' hi hm => inv_step cfg s s' l hi hm) h

end Unifex.Proto.RemoteQueue
