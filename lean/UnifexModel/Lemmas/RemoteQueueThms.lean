/-
  Lemmas/RemoteQueueThms.lean — the assembled invariant of Proto/RemoteQueue.lean holds in every
  reachable state of every configuration; consequences used by Props/C14.lean.
-/
import UnifexModel.Lemmas.RemoteQueueProofs2

namespace Unifex.Proto.RemoteQueue
open Unifex.Core

def Inv (cfg : Config) (s : St) : Prop := InvA cfg s ∧ InvB s ∧ InvC cfg s ∧ InvD cfg s ∧ InvE cfg s

theorem getP_init (cfg : Config) (p : Nat) : getP (init cfg) p = ⟨0, 0⟩ := by
  simp only [getP, init, List.getD_eq_getElem?_getD, List.getElem?_map]
  cases cfg.quota[p]? <;> rfl

theorem inv_init (cfg : Config) : Inv cfg (init cfg) := by
  refine ⟨?_, ?_, ?_, ?_, ?_⟩
  · unfold InvA
    simp only [getP_init]
    simp [init, nprod]
  · simp [InvB, pending, init]
  · unfold InvC; simp [init]
  · unfold InvD
    simp only [getP_init]
    simp [init, cnt]
  · intro _; simp [init]

theorem inv_step (cfg : Config) (s s' : St) (l : Lbl) (h : Inv cfg s) (hm : (l, s') ∈ (sys cfg).next s) :
    Inv cfg s' := by
  obtain ⟨ha, hb, hc, hd, he⟩ := h
  rcases next_cases hm with hs | hs | ⟨p, hp, hs⟩
  · exact ⟨invA_stopper _ _ _ _ ha hs, invB_stopper _ _ _ _ hb hs, invC_stopper _ _ _ _ hc hs,
      invD_stopper _ _ _ _ hc hd hs, invE_stopper _ _ _ _ hc he hs⟩
  · exact ⟨invA_loop _ _ _ _ ha hs, invB_loop _ _ _ _ ha hb hs, invC_loop _ _ _ _ hc hs,
      invD_loop _ _ _ _ hc hd hs, invE_loop _ _ _ _ he hs⟩
  · exact ⟨invA_prod _ _ _ _ _ hp ha hs, invB_prod _ _ _ _ _ hb hs, invC_prod _ _ _ _ _ hc hs,
      invD_prod _ _ _ _ _ hp ha hd hs, invE_prod _ _ _ _ _ hp hc he hs⟩

/-- The invariant holds after every schedule of every configuration. -/
theorem inv_reach {cfg : Config} {s : St} (h : Reach (sys cfg) s) : Inv cfg s :=
  invariant (Inv cfg) (inv_init cfg) (fun s l s' hi hm => inv_step cfg s s' l hi hm) h

/-! ### consequences -/

theorem pending_nil_of_last {α : Type} (ran pend enq : List α) (x : α) (h : ran ++ pend = enq)
    (hn : enq.Nodup) (hl : enq.getLast? = some x) (hx : x ∈ ran) : pend = [] := by
  subst h
  cases hp : pend with
  | nil => rfl
  | cons a t =>
    exfalso
    subst hp
    have hl2 : (a :: t).getLast? = some x := by
      rw [List.getLast?_append] at hl
      cases hlt : (a :: t).getLast? with
      | none => simp at hlt
      | some y => rw [hlt] at hl; simpa using hl
    have hx2 : x ∈ a :: t := List.mem_of_getLast? hl2
    exact (List.nodup_append.mp hn).2.2 x hx x hx2 rfl

/-- No lost wake-up: when the loop is blocked in epoll_wait and nobody owes an eventfd write, the
    remote queue is marked inactive and is empty (so the next enqueue will write the eventfd). -/
theorem no_lost_wakeup {cfg : Config} {s : St} (h : Inv cfg s) (hb : loopBlocked s = true)
    (hn : sigPending s = false) : s.inactive = true ∧ s.rq = [] := by
  obtain ⟨ha, -⟩ := h
  unfold InvA at ha
  simp only [loopBlocked, sigPending, Bool.and_eq_true, beq_iff_eq, bne_eq_false_iff_eq, List.isEmpty_iff] at hb hn
  grind

theorem stepLoop_none {cfg : Config} {s : St} (h : stepLoop cfg s = none) :
    (s.lpc = 10 ∧ s.efd = 0 ∧ s.lq = []) ∨ s.lpc ≥ 13 := by
  unfold stepLoop at h
  simp only at h
  split at h
  all_goals (try (split at h))
  all_goals (try (split at h))
  all_goals (try (simp at h; done))
  · left; simp_all
  · right; grind

theorem stepStopper_none {cfg : Config} {s : St} (h : stepStopper cfg s = none) :
    (s.spc = 0 ∧ cfg.early = false ∧ allProdsDone cfg s = false) ∨ s.spc ≥ 5 := by
  unfold stepStopper at h
  simp only at h
  split at h
  all_goals (try (split at h))
  all_goals (try (simp at h; done))
  · left; simp_all
  · right; grind

theorem stepProd_none {cfg : Config} {s : St} {p : Nat} (h : stepProd cfg s p = none) :
    ((getP s p).pc = 0 ∧ ¬ (getP s p).k < quotaOf cfg p) ∨ (getP s p).pc ≥ 4 := by
  unfold stepProd at h
  simp only at h
  split at h
  all_goals (try (split at h))
  all_goals (try (simp at h; done))
  · left; simp_all
  · right; grind

theorem next_nil {cfg : Config} {s : St} (h : (sys cfg).next s = []) :
    stepStopper cfg s = none ∧ stepLoop cfg s = none ∧ ∀ p, p < s.prods.length → stepProd cfg s p = none := by
  simp only [sys, List.append_eq_nil_iff, List.filterMap_eq_nil_iff, List.mem_range] at h
  obtain ⟨⟨h1, h2⟩, h3⟩ := h
  refine ⟨?_, ?_, h3⟩
  · cases hs : stepStopper cfg s with
    | none => rfl
    | some x => rw [hs] at h1; simp at h1
  · cases hs : stepLoop cfg s with
    | none => rfl
    | some x => rw [hs] at h2; simp at h2

/-- when nothing is enabled every producer has returned from its last start() -/
theorem dead_prods_done {cfg : Config} {s : St} (h : Inv cfg s)
    (h3 : ∀ p, p < s.prods.length → stepProd cfg s p = none) : allProdsDone cfg s = true := by
  obtain ⟨ha, -, -, hd, -⟩ := h
  have hlen := ha.1
  have hpcs := ha.2.1
  have hq := hd.2.2.2.2
  unfold allProdsDone
  rw [List.all_eq_true]
  intro p hp
  have hp' : p < s.prods.length := List.mem_range.mp hp
  have hpn : p < nprod cfg := hlen ▸ hp'
  have h1 := hpcs p hpn
  have h2 := hq p hpn
  rcases stepProd_none (h3 p hp') with ⟨h0, hk⟩ | h4
  · simp only [prodDone, Bool.and_eq_true, beq_iff_eq]
    rw [h0] at h2
    simp only [if_true] at h2
    exact ⟨h0, by omega⟩
  · omega

/-- No deadlock: a state in which no thread can take a step is final — every producer returned,
    request_stop returned and **run(stop_token) returned**. -/
theorem no_deadlock {cfg : Config} {s : St} (h : Inv cfg s) (hd : (sys cfg).next s = []) :
    final cfg s = true := by
  obtain ⟨h1, h2, h3⟩ := next_nil hd
  have hdone := dead_prods_done h h3
  obtain ⟨ha, hb, hc, hdd, he⟩ := h
  have hspc : s.spc = 5 := by
    rcases stepStopper_none h1 with ⟨-, -, hf⟩ | h5
    · rw [hdone] at hf; cases hf
    · have := hc.2.2.2.2.2.2.2.2.2.2.2.1; omega
  have hlpc : s.lpc = 13 := by
    rcases stepLoop_none h2 with ⟨h10, hefd, hlq⟩ | h13
    · exfalso
      -- nobody owes a write: every producer is at pc 0, the stopper at 5, the loop at 10
      have hsig : s.sigBy = 0 := by
        have hs0 := ha.2.2.2.2.2.2.2.2.2.2.1
        have hs1 := ha.2.2.2.2.2.2.2.2.2.2.2.1
        have hs2 := ha.2.2.2.2.2.2.2.2.2.2.2.2.1
        have hs3 := ha.2.2.2.2.2.2.2.2.2.2.2.2.2.1
        have hlen := ha.1
        by_cases hz : s.sigBy = 0
        · exact hz
        · exfalso
          by_cases h1' : s.sigBy = 1
          · have := hs2.mpr h1'; omega
          · by_cases h2' : s.sigBy = 2
            · have := hs3.mpr h2'; omega
            · have hp : s.sigBy - 3 < nprod cfg := by omega
              have := (hs1 (s.sigBy - 3) hp).mpr (by omega)
              have hpd := allProdsDone_of hdone (p := s.sigBy - 3) (by omega)
              omega
      have hblk : loopBlocked s = true := by simp [loopBlocked, h10, hefd, hlq]
      have hns : sigPending s = false := by simp [sigPending, hsig]
      obtain ⟨hina, hrq⟩ := no_lost_wakeup ⟨ha, hb, hc, hdd, he⟩ hblk hns
      have hbatch : s.batch = [] := by
        by_cases hbe : s.batch = []
        · exact hbe
        · have := ha.2.2.1 hbe; omega
      have hran : s.ran = s.enq := by
        have := hb
        simp only [InvB, pending, hbatch, hlq, hrq, List.reverse_nil, List.append_nil] at this
        exact this
      -- the stop operation was enqueued, hence has run, hence the loop is past the stop test
      have hse : s.stopEnq = true := by
        rcases hc.2.2.2.2.1 (by omega) with h' | ⟨-, h'⟩
        · exact h'
        · omega
      have hin : stopItem cfg ∈ s.ran := hran ▸ hdd.2.2.2.1 hse
      have hsf := hc.2.2.2.2.2.2.1.mpr hin
      have := hc.2.2.2.2.2.2.2.1 hsf
      omega
    · have := hc.2.2.2.2.2.2.2.2.2.2.2.2; omega
  simp [final, hdone, hspc, hlpc]

/-- At the end: the stop operation has run; and when stop was requested after the producers
    returned, every scheduled item has run, in enqueue order, nothing is left in any queue. -/
theorem final_ran {cfg : Config} {s : St} (h : Inv cfg s) (hf : final cfg s = true) :
    stopItem cfg ∈ s.ran ∧
    (cfg.early = false → s.ran = s.enq ∧ pending s = [] ∧
      ∀ p, p < nprod cfg → ∀ j, j < quotaOf cfg p → (p, j) ∈ s.ran) := by
  obtain ⟨ha, hb, hc, hd, he⟩ := h
  simp only [final, Bool.and_eq_true, beq_iff_eq] at hf
  obtain ⟨⟨hdone, hspc⟩, hlpc⟩ := hf
  have hsf : s.stopFlag = true := hc.2.2.2.2.2.2.2.2.1 (by omega)
  have hin : stopItem cfg ∈ s.ran := hc.2.2.2.2.2.2.1.mp hsf
  refine ⟨hin, fun hearly => ?_⟩
  have hse : s.stopEnq = true := by
    rcases hc.2.2.2.2.1 (by omega) with h' | ⟨-, h'⟩
    · exact h'
    · omega
  have hlast := (he hearly).2 hse
  have hpend : pending s = [] := pending_nil_of_last s.ran (pending s) s.enq (stopItem cfg) hb hd.1 hlast hin
  have hran : s.ran = s.enq := by
    have := hb
    simp only [InvB, hpend, List.append_nil] at this
    exact this
  refine ⟨hran, hpend, fun p hp j hj => ?_⟩
  have hlen := ha.1
  have hpd := allProdsDone_of hdone (p := p) (by omega)
  have := hd.2.2.1 p hp j (by simp only [cnt, hpd.1]; simp; omega)
  exact hran ▸ this

/-- the Boolean state predicate `safe` of the model file follows from the invariant -/
theorem safe_of_inv {cfg : Config} {s : St} (h : Inv cfg s) : safe cfg s = true := by
  have hA := h.1
  have hB := h.2.1
  have hD := h.2.2.2.1
  have c1 : (s.ran ++ pending s == s.enq) = true := by
    have : s.ran ++ pending s = s.enq := hB
    simp [this]
  have c2 : decide s.enq.Nodup = true := by simpa using hD.1
  have c3 : (!(loopBlocked s && !sigPending s) || (s.inactive && s.rq.isEmpty)) = true := by
    cases hb : loopBlocked s <;> cases hn : sigPending s <;> simp
    have := no_lost_wakeup h hb hn
    simp [this]
  have hm := hA.2.2.2.2.2.2.2.2.2.2.2.2.2.2.1
  have hw := hA.2.2.2.2.2.2.2.2.2.2.2.2.2.2.2
  have c4 : (s.marks == s.writes + (if sigPending s then 1 else 0) + (if s.inactive then 1 else 0)) = true := by
    rw [beq_iff_eq, hm]
    by_cases hz : s.sigBy = 0 <;> simp [sigPending, hz]
  have c5 : decide (s.efd ≤ 1) = true := by
    have hw1 := hA.2.2.2.2.2.2.2.1
    have hw2 := hA.2.2.2.2.2.2.2.2.1
    have hw3 := hA.2.2.2.2.2.2.2.2.2.1
    rw [decide_eq_true_eq]
    cases hi : s.inactive with
    | true => have := (hw1 hi).2.2.1; omega
    | false =>
      cases hr : s.rs with
      | true => have := hw2 hi hr; split at this <;> omega
      | false => have := (hw3 hr).1; omega
  have c6 : (s.writes == s.reads + s.efd) = true := by rw [beq_iff_eq]; exact hw
  have c7 : (!((sys cfg).next s).isEmpty || final cfg s) = true := by
    cases hd : ((sys cfg).next s).isEmpty with
    | false => simp
    | true => simp [no_deadlock h (List.isEmpty_iff.mp hd)]
  have c8 : (!final cfg s ||
      (s.ran.contains (stopItem cfg) &&
       (cfg.early || (s.ran == s.enq &&
          (List.range (nprod cfg)).all (fun p => (List.range (quotaOf cfg p)).all (fun j => s.ran.contains (p, j))))))) = true := by
    cases hf : final cfg s with
    | false => simp
    | true =>
      obtain ⟨hin, hrest⟩ := final_ran h hf
      cases he : cfg.early with
      | true => simp [hin]
      | false =>
        obtain ⟨hran, -, hall⟩ := hrest he
        simp only [Bool.not_true, Bool.false_or, Bool.and_eq_true, List.contains_iff_mem, beq_iff_eq,
          List.all_eq_true, List.mem_range]
        exact ⟨hin, hran, hall⟩
  unfold safe
  simp only [c1, c2, c3, c4, c5, c6, c7, c8, Bool.and_self]

end Unifex.Proto.RemoteQueue
