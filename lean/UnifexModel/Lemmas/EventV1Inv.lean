/-
  Lemmas/EventV1Inv.lean — the inductive invariant of the v1 event model (Proto/EventV1.lean) for
  an ARBITRARY configuration (any number of waiters, any controller scripts), and its preservation
  by every step.  The property theorems derived from it are in Props/C16.lean.
-/
import UnifexModel.Proto.EventV1

namespace Unifex.Proto.EventV1
open Unifex.Core

/-- occurrences of operation `i` in the captured stacks of the running set() calls -/
def capCount (i : Nat) (cs : List Ct) : Nat := (cs.map (fun c => c.cap.count i)).sum
/-- occurrences of operation `i` in the event's stack and in all captured stacks -/
def occ (word : Word) (cs : List Ct) (i : Nat) : Nat := word.lst.count i + capCount i cs
def pushedAt (ws : List Wt) (x : Nat) : Prop := ∃ w, ws[x]? = some w ∧ w.pushed = true

structure WInv (word : Word) (cs : List Ct) (ws : List Wt) (i : Nat) (w : Wt) : Prop where
  pcle : w.pc ≤ 4
  early : w.pc ≤ 2 → w.pushed = false ∧ w.resumed = 0 ∧ w.covered = false ∧ occ word cs i = 0
  latePushed : 3 ≤ w.pc → w.pushed = true → occ word cs i + w.resumed = 1
  lateInline : 3 ≤ w.pc → w.pushed = false → occ word cs i = 0 ∧ w.resumed = 1 ∧ w.covered = true
  inList : i ∈ word.lst → w.covered = false
  resCov : 1 ≤ w.resumed → w.covered = true
  capCov : 1 ≤ capCount i cs → w.covered = true
  /-- no ABA: when the CAS would succeed (pointers equal) the waiter's copy IS the current stack -/
  seenOk : w.pc = 2 → ptrEq w.seen word = true → w.seen = word
  seenPushed : w.pc = 2 → ∀ x ∈ w.seen.lst, pushedAt ws x

structure CInv (c : Ct) : Prop where
  pcle : c.pc ≤ 6
  capEmpty : c.pc ≠ 2 → c.cap = []

structure Inv (cfg : Config) (s : St) : Prop where
  lenW : s.ws.length = cfg.nW
  lenC : s.cs.length = cfg.scripts.length
  listPushed : ∀ x ∈ s.word.lst, pushedAt s.ws x
  wi : ∀ (i : Nat) (w : Wt), s.ws[i]? = some w → WInv s.word s.cs s.ws i w
  ci : ∀ (j : Nat) (c : Ct), s.cs[j]? = some c → CInv c

/-! ### list plumbing -/

@[simp] theorem Word.lst_set : Word.set.lst = [] := rfl
@[simp] theorem Word.lst_list (l : List Nat) : (Word.list l).lst = l := rfl

theorem capCount_set : ∀ (cs : List Ct) (j : Nat) (c c' : Ct), cs[j]? = some c → ∀ i,
    capCount i (cs.set j c') + c.cap.count i = capCount i cs + c'.cap.count i
  | [], j, c, c', h, i => by simp at h
  | d :: ds, 0, c, c', h, i => by
    simp at h; subst h; simp [capCount]; omega
  | d :: ds, j+1, c, c', h, i => by
    simp at h
    have := capCount_set ds j c c' h i
    simp [capCount] at this ⊢; omega

theorem capCount_set_same {cs : List Ct} {j : Nat} {c c' : Ct} (h : cs[j]? = some c)
    (hc : c'.cap = c.cap) (i : Nat) : capCount i (cs.set j c') = capCount i cs := by
  have := capCount_set cs j c c' h i
  rw [hc] at this; omega

theorem pushedAt_set {ws : List Wt} {k : Nat} {w w' : Wt} (h : ws[k]? = some w)
    (hp : w.pushed = true → w'.pushed = true) {x : Nat} (hx : pushedAt ws x) :
    pushedAt (ws.set k w') x := by
  obtain ⟨v, hv, hvp⟩ := hx
  by_cases hkx : k = x
  · subst hkx
    refine ⟨w', ?_, hp ?_⟩
    · have : k < ws.length := by
        rcases Nat.lt_or_ge k ws.length with h1 | h1
        · exact h1
        · simp [List.getElem?_eq_none h1] at h
      simp [this]
    · rw [h] at hv; cases hv; exact hvp
  · exact ⟨v, by simp [hkx, hv], hvp⟩

theorem pushedAt_mark {ws : List Wt} {x : Nat} (hx : pushedAt ws x) : pushedAt (markCovered ws) x := by
  obtain ⟨v, hv, hvp⟩ := hx
  refine ⟨{ v with covered := true }, ?_, hvp⟩
  simp [markCovered, List.getElem?_map, hv, hvp]

theorem pushedAt_resume {ws : List Wt} {i x : Nat} (hx : pushedAt ws x) : pushedAt (resume ws i) x := by
  unfold resume
  split
  · next w hw => exact pushedAt_set (w' := { w with resumed := w.resumed + 1 }) hw (fun h => h) hx
  · exact hx

theorem mem_next {cfg : Config} {s s' : St} {l : Lbl} :
    (l, s') ∈ (sys cfg).next s ↔
      (∃ k, k < s.ws.length ∧ stepW s k = some (l, s')) ∨
      (∃ j, j < s.cs.length ∧ stepC cfg s j = some (l, s')) := by
  simp [sys, List.mem_append, List.mem_filterMap, List.mem_range]

theorem lt_of_getElem? {α : Type} {l : List α} {k : Nat} {a : α} (h : l[k]? = some a) : k < l.length := by
  rcases Nat.lt_or_ge k l.length with h1 | h1
  · exact h1
  · simp [List.getElem?_eq_none h1] at h

/-- `WInv` only depends on the word, the captured stacks and the set of pushed operations -/
theorem WInv.frame {word : Word} {cs cs' : List Ct} {ws ws' : List Wt} {i : Nat} {w : Wt}
    (h : WInv word cs ws i w) (hcs : capCount i cs' = capCount i cs)
    (hpa : ∀ x, pushedAt ws x → pushedAt ws' x) : WInv word cs' ws' i w := by
  have hocc : occ word cs' i = occ word cs i := by simp [occ, hcs]
  exact ⟨h.pcle, by rw [hocc]; exact h.early, by rw [hocc]; exact h.latePushed,
    by rw [hocc]; exact h.lateInline, h.inList, h.resCov, by rw [hcs]; exact h.capCov, h.seenOk,
    fun hp x hx => hpa x (h.seenPushed hp x hx)⟩


/-! ### preservation, one lemma per kind of step -/

/-- a step that only changes waiter `k`'s own record -/
theorem inv_w_local {cfg : Config} {s : St} {k : Nat} {w w' : Wt} (hI : Inv cfg s)
    (hk : s.ws[k]? = some w) (hp : w.pushed = true → w'.pushed = true)
    (hW : WInv s.word s.cs (s.ws.set k w') k w') :
    Inv cfg { s with ws := s.ws.set k w' } := by
  have hpa : ∀ x, pushedAt s.ws x → pushedAt (s.ws.set k w') x := fun x hx => pushedAt_set hk hp hx
  refine ⟨by simpa using hI.lenW, hI.lenC, fun x hx => hpa x (hI.listPushed x hx), ?_, hI.ci⟩
  intro i v hv
  simp only [List.getElem?_set] at hv
  by_cases hki : k = i
  · subst hki
    simp [lt_of_getElem? hk] at hv
    subst hv; exact hW
  · simp [hki] at hv
    exact (hI.wi i v hv).frame rfl hpa

/-- a step that only changes controller `j`'s record and leaves its captured stack alone -/
theorem inv_c_local {cfg : Config} {s : St} {j : Nat} {c c' : Ct} (hI : Inv cfg s)
    (hj : s.cs[j]? = some c) (hcap : c'.cap = c.cap) (hC : CInv c') :
    Inv cfg { s with cs := s.cs.set j c' } := by
  refine ⟨hI.lenW, by simpa using hI.lenC, hI.listPushed, ?_, ?_⟩
  · intro i v hv
    exact (hI.wi i v hv).frame (capCount_set_same hj hcap i) (fun _ h => h)
  · intro m d hd
    simp only [List.getElem?_set] at hd
    by_cases hjm : j = m
    · subst hjm
      simp [lt_of_getElem? hj] at hd
      subst hd; exact hC
    · simp [hjm] at hd
      exact hI.ci m d hd

theorem ptrEq_list_cons {sw : Word} {k : Nat} {l : List Nat} (h : ptrEq sw (.list (k :: l)) = true) :
    k ∈ sw.lst := by
  cases sw with
  | set => simp [ptrEq] at h
  | list a =>
    cases a with
    | nil => simp [ptrEq] at h
    | cons x xs =>
      simp [ptrEq] at h
      simp [Word.lst, h]

/-- the successful CAS of `start_or_wait` -/
theorem inv_cas {cfg : Config} {s : St} {k : Nat} {w : Wt} (hI : Inv cfg s)
    (hk : s.ws[k]? = some w) (hpc : w.pc = 2)
    (hpe : ptrEq w.seen s.word = true) :
    Inv cfg { s with word := .list (k :: w.seen.lst),
                     ws := s.ws.set k { w with pc := 3, pushed := true } } := by
  have hW := hI.wi k w hk
  have hseen : w.seen = s.word := hW.seenOk hpc hpe
  have hsl : w.seen.lst = s.word.lst := by rw [hseen]
  obtain ⟨hpu, hre, hco, hoc⟩ := hW.early (by omega)
  have hpa : ∀ x, pushedAt s.ws x → pushedAt (s.ws.set k { w with pc := 3, pushed := true }) x :=
    fun x hx => pushedAt_set hk (fun _ => rfl) hx
  have hklen := lt_of_getElem? hk
  simp only [occ] at hoc
  refine ⟨by simpa using hI.lenW, hI.lenC, ?_, ?_, hI.ci⟩
  · intro x hx
    simp only [Word.lst_list, List.mem_cons] at hx
    rcases hx with rfl | hx
    · exact ⟨{ w with pc := 3, pushed := true }, by simp [hklen], rfl⟩
    · rw [hsl] at hx; exact hpa x (hI.listPushed x hx)
  · intro i v hv
    simp only [List.getElem?_set] at hv
    by_cases hki : k = i
    · subst hki
      simp [hklen] at hv
      subst hv
      refine ⟨by simp, by simp, ?_, by simp, ?_, ?_, ?_, by simp, by simp⟩
      · intro _ _
        simp only [occ, Word.lst_list, List.count_cons_self, hsl]
        omega
      · intro _; exact hco
      · intro h; dsimp only at h; omega
      · intro h; dsimp only at h; omega
    · simp [hki] at hv
      have hV := hI.wi i v hv
      have hik : i ≠ k := fun h => hki h.symm
      have hocc : occ (.list (k :: w.seen.lst)) s.cs i = occ s.word s.cs i := by
        simp only [occ, Word.lst_list, hsl]
        rw [List.count_cons_of_ne (fun h => hki h)]
      refine ⟨hV.pcle, by rw [hocc]; exact hV.early, by rw [hocc]; exact hV.latePushed,
        by rw [hocc]; exact hV.lateInline, ?_, hV.resCov, hV.capCov, ?_,
        fun hp x hx => hpa x (hV.seenPushed hp x hx)⟩
      · intro hm
        simp only [Word.lst_list, List.mem_cons, hsl] at hm
        rcases hm with hm | hm
        · exact absurd hm hik
        · exact hV.inList hm
      · intro hp hq
        exfalso
        have hmem := ptrEq_list_cons hq
        obtain ⟨w0, hw0, hw0p⟩ := hV.seenPushed hp k hmem
        rw [hk] at hw0; cases hw0
        rw [hpu] at hw0p; cases hw0p

/-- the exchange of set() -/
theorem inv_exchange {cfg : Config} {s : St} {j : Nat} {c : Ct} (hI : Inv cfg s)
    (hj : s.cs[j]? = some c) (hpc : c.pc = 1) :
    Inv cfg { s with word := .set, ws := markCovered s.ws,
                     cs := s.cs.set j { c with pc := 2, cap := s.word.lst } } := by
  have hcap : c.cap = [] := (hI.ci j c hj).capEmpty (by omega)
  have hcc : ∀ x, capCount x (s.cs.set j { c with pc := 2, cap := s.word.lst }) =
      capCount x s.cs + s.word.lst.count x := by
    intro x
    have := capCount_set s.cs j c { c with pc := 2, cap := s.word.lst } hj x
    simp only [hcap, List.count_nil] at this
    omega
  refine ⟨by simpa [markCovered] using hI.lenW, by simpa using hI.lenC, ?_, ?_, ?_⟩
  · intro x hx; simp at hx
  · intro i v hv
    simp only [markCovered, List.getElem?_map, Option.map_eq_some_iff] at hv
    obtain ⟨u, hu, rfl⟩ := hv
    have hU := hI.wi i u hu
    have hocc : occ .set (s.cs.set j { c with pc := 2, cap := s.word.lst }) i = occ s.word s.cs i := by
      simp only [occ, Word.lst_set, hcc, List.count_nil]; omega
    have hso : ∀ sw : Word, ptrEq sw .set = true → sw = .set := by
      intro sw hq
      cases sw with
      | set => rfl
      | list a => simp [ptrEq] at hq
    by_cases hup : u.pushed = true
    · rw [if_pos hup]
      refine ⟨hU.pcle, ?_, ?_, ?_, ?_, fun _ => rfl, fun _ => rfl, ?_, ?_⟩
      · intro h; have := (hU.early h).1; rw [hup] at this; cases this
      · intro h1 _; rw [hocc]; exact hU.latePushed h1 hup
      · intro _ h2; dsimp only at h2; rw [hup] at h2; cases h2
      · intro h; simp at h
      · intro _ hq; exact hso _ hq
      · intro hp x hx; exact pushedAt_mark (hU.seenPushed hp x hx)
    · rw [if_neg hup]
      have hup' : u.pushed = false := by cases h : u.pushed <;> simp_all
      refine ⟨hU.pcle, by rw [hocc]; exact hU.early, by rw [hocc]; exact hU.latePushed,
        by rw [hocc]; exact hU.lateInline, ?_, hU.resCov, ?_, ?_, ?_⟩
      · intro h; simp at h
      · intro h
        rw [hcc] at h
        by_cases h0 : 1 ≤ capCount i s.cs
        · exact hU.capCov h0
        · have hm : i ∈ s.word.lst := by
            apply List.count_pos_iff.mp; omega
          obtain ⟨u0, hu0, hu0p⟩ := hI.listPushed i hm
          rw [hu] at hu0; cases hu0
          rw [hup'] at hu0p; cases hu0p
      · intro _ hq; exact hso _ hq
      · intro hp x hx; exact pushedAt_mark (hU.seenPushed hp x hx)
  · intro m d hd
    simp only [List.getElem?_set] at hd
    by_cases hjm : j = m
    · subst hjm
      simp [lt_of_getElem? hj] at hd
      subst hd
      exact ⟨by simp, by simp⟩
    · simp [hjm] at hd
      exact hI.ci m d hd

/-- one `set_value()` of the pop loop of set() -/
theorem inv_resume {cfg : Config} {s : St} {j : Nat} {c : Ct} {i : Nat} {rest : List Nat}
    (hI : Inv cfg s) (hj : s.cs[j]? = some c) (hpc : c.pc = 2) (hcap : c.cap = i :: rest) :
    Inv cfg { s with ws := resume s.ws i, cs := s.cs.set j { c with cap := rest } } := by
  have hcc : ∀ x, capCount x (s.cs.set j { c with cap := rest }) + (i :: rest).count x =
      capCount x s.cs + rest.count x := by
    intro x
    have := capCount_set s.cs j c { c with cap := rest } hj x
    rw [hcap] at this; exact this
  have hcne : ∀ x, x ≠ i → capCount x (s.cs.set j { c with cap := rest }) = capCount x s.cs := by
    intro x hx
    have := hcc x
    rw [List.count_cons_of_ne (fun h => hx h.symm)] at this
    omega
  have hci : capCount i (s.cs.set j { c with cap := rest }) + 1 = capCount i s.cs := by
    have := hcc i
    rw [List.count_cons_self] at this
    omega
  have hpa : ∀ x, pushedAt s.ws x → pushedAt (resume s.ws i) x := fun x hx => pushedAt_resume hx
  refine ⟨?_, by simpa using hI.lenC, fun x hx => hpa x (hI.listPushed x hx), ?_, ?_⟩
  · have : (resume s.ws i).length = s.ws.length := by
      unfold resume; split <;> simp
    rw [← hI.lenW]; exact this
  · intro m v hv
    by_cases him : i = m
    · subst him
      unfold resume at hv
      split at hv
      · next w0 hw0 =>
        simp [lt_of_getElem? hw0] at hv
        subst hv
        have hV := hI.wi i w0 hw0
        have h1 : 1 ≤ capCount i s.cs := by omega
        have cov := hV.capCov h1
        have pc3 : 3 ≤ w0.pc := by
          rcases Nat.lt_or_ge w0.pc 3 with h | h
          · have := (hV.early (by omega)).2.2.2
            simp only [occ] at this; omega
          · exact h
        have hpu : w0.pushed = true := by
          cases hp : w0.pushed with
          | true => rfl
          | false =>
            have := (hV.lateInline pc3 hp).1
            simp only [occ] at this; omega
        have lp := hV.latePushed pc3 hpu
        simp only [occ] at lp
        refine ⟨hV.pcle, ?_, ?_, ?_, ?_, fun _ => cov, fun _ => cov, ?_, ?_⟩
        · intro h; dsimp only at h; omega
        · intro _ _; simp only [occ]; omega
        · intro _ h; dsimp only at h; rw [hpu] at h; cases h
        · intro hm; have := hV.inList hm; rw [cov] at this; cases this
        · intro h; dsimp only at h; omega
        · intro h; dsimp only at h; omega
      · next hnone => rw [hnone] at hv; cases hv
    · have hv' : s.ws[m]? = some v := by
        unfold resume at hv
        split at hv
        · simpa [him] using hv
        · exact hv
      exact (hI.wi m v hv').frame (hcne m (fun h => him h.symm)) hpa
  · intro m d hd
    simp only [List.getElem?_set] at hd
    by_cases hjm : j = m
    · subst hjm
      simp [lt_of_getElem? hj] at hd
      subst hd
      exact ⟨(hI.ci j c hj).pcle, fun h => absurd hpc h⟩
    · simp [hjm] at hd
      exact hI.ci m d hd

/-- the CAS of reset() -/
theorem inv_reset {cfg : Config} {s : St} {j : Nat} {c : Ct} (hI : Inv cfg s)
    (hj : s.cs[j]? = some c) (hpc : c.pc = 3) :
    Inv cfg { s with word := (if s.word = .set then .list [] else s.word),
                     cs := s.cs.set j { c with pc := 4 } } := by
  have hcap : c.cap = [] := (hI.ci j c hj).capEmpty (by omega)
  have hC : CInv { c with pc := 4 } := ⟨by simp, fun _ => hcap⟩
  by_cases hw : s.word = .set
  · rw [if_pos hw]
    have hloc := inv_c_local (c' := { c with pc := 4 }) hI hj rfl hC
    have hl : s.word.lst = [] := by rw [hw]; rfl
    refine ⟨hloc.lenW, hloc.lenC, ?_, ?_, hloc.ci⟩
    · intro x hx; simp at hx
    · intro i v hv
      have hV := hloc.wi i v hv
      have hocc : occ (.list []) (s.cs.set j { c with pc := 4 }) i =
          occ s.word (s.cs.set j { c with pc := 4 }) i := by
        simp only [occ, Word.lst_list, hl]
      refine ⟨hV.pcle, by rw [hocc]; exact hV.early, by rw [hocc]; exact hV.latePushed,
        by rw [hocc]; exact hV.lateInline, ?_, hV.resCov, hV.capCov, ?_, hV.seenPushed⟩
      · intro h; simp at h
      · intro _ hq
        cases hs : v.seen with
        | set => simp [hs, ptrEq] at hq
        | list a =>
          cases a with
          | nil => rfl
          | cons x xs => simp [hs, ptrEq] at hq
  · rw [if_neg hw]
    exact inv_c_local hI hj rfl hC

theorem capCount_init (i : Nat) : ∀ (l : List (List COp)), capCount i (l.map (fun _ => Ct.init)) = 0
  | [] => rfl
  | _ :: r => by
    have ih := capCount_init i r
    simp only [capCount, List.map_cons, List.sum_cons] at ih ⊢
    rw [ih]; simp [Ct.init]

theorem inv_init (cfg : Config) : Inv cfg (init cfg) := by
  refine ⟨by simp [init], by simp [init], ?_, ?_, ?_⟩
  · intro x hx
    simp only [init] at hx
    split at hx <;> simp at hx
  · intro i w hw
    simp only [init, List.getElem?_replicate] at hw
    split at hw
    · cases hw
      have hoc : occ (if cfg.startSet then Word.set else Word.list []) (cfg.scripts.map (fun _ => Ct.init)) i = 0 := by
        simp only [occ, capCount_init]
        split <;> simp
      refine ⟨by simp [Wt.init], fun _ => ⟨rfl, rfl, rfl, hoc⟩, ?_, ?_, ?_, ?_, ?_, ?_, ?_⟩
      · intro h; simp [Wt.init] at h
      · intro h; simp [Wt.init] at h
      · intro _; rfl
      · intro h; simp [Wt.init] at h
      · intro h; simp only [init, capCount_init] at h; omega
      · intro h; simp [Wt.init] at h
      · intro h; simp [Wt.init] at h
    · cases hw
  · intro j c hc
    simp only [init, List.getElem?_map, Option.map_eq_some_iff] at hc
    obtain ⟨_, _, rfl⟩ := hc
    exact ⟨by simp [Ct.init], fun _ => rfl⟩

theorem inv_step {cfg : Config} {s s' : St} {l : Lbl} (hI : Inv cfg s)
    (h : (l, s') ∈ (sys cfg).next s) : Inv cfg s' := by
  rcases mem_next.mp h with ⟨k, _, hk⟩ | ⟨j, _, hj⟩
  · unfold stepW at hk
    split at hk
    · cases hk
    · next w hw =>
      have hW := hI.wi k w hw
      split at hk
      · -- wait.begin
        next hpc =>
        simp only [Option.some.injEq, Prod.mk.injEq] at hk
        obtain ⟨_, rfl⟩ := hk
        obtain ⟨e1, e2, e3, e4⟩ := hW.early (by omega)
        refine inv_w_local hI hw (fun h => h) ⟨by simp, fun _ => ⟨e1, e2, e3, e4⟩, ?_, ?_, hW.inList, hW.resCov, hW.capCov, ?_, ?_⟩
        · intro h; dsimp only at h; omega
        · intro h; dsimp only at h; omega
        · intro h; dsimp only at h; omega
        · intro h; dsimp only at h; omega
      · -- load
        next hpc =>
        simp only [Option.some.injEq, Prod.mk.injEq] at hk
        obtain ⟨_, rfl⟩ := hk
        obtain ⟨e1, e2, e3, e4⟩ := hW.early (by omega)
        refine inv_w_local hI hw (fun h => h) ⟨by simp, fun _ => ⟨e1, e2, e3, e4⟩, ?_, ?_, hW.inList, hW.resCov, hW.capCov, fun _ _ => rfl, ?_⟩
        · intro h; dsimp only at h; omega
        · intro h; dsimp only at h; omega
        · intro _ x hx
          exact pushedAt_set hw (w' := _) (by intro h; exact h) (hI.listPushed x hx)
      · next hpc =>
        obtain ⟨e1, e2, e3, e4⟩ := hW.early (by omega)
        split at hk
        · -- inline completion
          simp only [Option.some.injEq, Prod.mk.injEq] at hk
          obtain ⟨_, rfl⟩ := hk
          refine inv_w_local hI hw (fun h => h) ⟨by simp, ?_, ?_, ?_, ?_, fun _ => rfl, fun _ => rfl, ?_, ?_⟩
          · intro h; dsimp only at h; omega
          · intro _ h; dsimp only at h; rw [e1] at h; cases h
          · intro _ _; exact ⟨e4, by simp [e2], rfl⟩
          · intro hm
            exfalso
            simp only [occ] at e4
            have := List.count_pos_iff.mpr hm
            omega
          · intro h; dsimp only at h; omega
          · intro h; dsimp only at h; omega
        · split at hk
          · -- CAS succeeds
            next hpe =>
            simp only [Option.some.injEq, Prod.mk.injEq] at hk
            obtain ⟨_, rfl⟩ := hk
            exact inv_cas hI hw hpc hpe
          · -- CAS fails, reload
            simp only [Option.some.injEq, Prod.mk.injEq] at hk
            obtain ⟨_, rfl⟩ := hk
            refine inv_w_local hI hw (fun h => h) ⟨hW.pcle, fun _ => ⟨e1, e2, e3, e4⟩, ?_, ?_, hW.inList, hW.resCov, hW.capCov, fun _ _ => rfl, ?_⟩
            · intro h; dsimp only at h; omega
            · intro h; dsimp only at h; omega
            · intro _ x hx
              exact pushedAt_set hw (w' := _) (by intro h; exact h) (hI.listPushed x hx)
      · -- wait.end
        next hpc =>
        simp only [Option.some.injEq, Prod.mk.injEq] at hk
        obtain ⟨_, rfl⟩ := hk
        refine inv_w_local hI hw (fun h => h) ⟨by simp, ?_, ?_, ?_, hW.inList, hW.resCov, hW.capCov, ?_, ?_⟩
        · intro h; dsimp only at h; omega
        · intro _ h; exact hW.latePushed (by omega) h
        · intro _ h; exact hW.lateInline (by omega) h
        · intro h; dsimp only at h; omega
        · intro h; dsimp only at h; omega
      · cases hk
  · unfold stepC at hj
    dsimp only at hj
    split at hj
    · cases hj
    · next c hc =>
      have hC := hI.ci j c hc
      split at hj
      · next hpc =>
        have hcap : c.cap = [] := hC.capEmpty (by omega)
        split at hj
        · cases hj
        all_goals
          simp only [Option.some.injEq, Prod.mk.injEq] at hj
          obtain ⟨_, rfl⟩ := hj
          exact inv_c_local hI hc rfl ⟨by simp, fun _ => hcap⟩
      · next hpc =>
        simp only [Option.some.injEq, Prod.mk.injEq] at hj
        obtain ⟨_, rfl⟩ := hj
        exact inv_exchange hI hc hpc
      · next hpc =>
        split at hj
        · next hcap =>
          simp only [Option.some.injEq, Prod.mk.injEq] at hj
          obtain ⟨_, rfl⟩ := hj
          exact inv_c_local hI hc rfl ⟨by simp, fun _ => hcap⟩
        · next i rest hcap =>
          simp only [Option.some.injEq, Prod.mk.injEq] at hj
          obtain ⟨_, rfl⟩ := hj
          exact inv_resume hI hc hpc hcap
      · next hpc =>
        simp only [Option.some.injEq, Prod.mk.injEq] at hj
        obtain ⟨_, rfl⟩ := hj
        exact inv_reset hI hc hpc
      all_goals
        next hpc =>
        have hcap : c.cap = [] := hC.capEmpty (by omega)
        first
        | (cases hj; done)
        | (simp only [Option.some.injEq, Prod.mk.injEq] at hj
           obtain ⟨_, rfl⟩ := hj
           exact inv_c_local hI hc rfl ⟨by simp, fun _ => hcap⟩)

theorem inv_reach {cfg : Config} {s : St} (h : Reach (sys cfg) s) : Inv cfg s :=
  invariant (Inv cfg) (inv_init cfg) (fun _ _ _ hI hm => inv_step hI hm) h

/-! ### consequences used by Props/C16 -/

theorem stepW_isSome {s : St} {k : Nat} {w : Wt} (hw : s.ws[k]? = some w) (h : w.pc < 4) :
    (stepW s k).isSome = true := by
  have : w.pc = 0 ∨ w.pc = 1 ∨ w.pc = 2 ∨ w.pc = 3 := by omega
  rcases this with h | h | h | h
  · simp [stepW, hw, h]
  · simp [stepW, hw, h]
  · simp only [stepW, hw, h]
    split
    · rfl
    · split <;> rfl
  · simp [stepW, hw, h]

theorem stepC_isSome {cfg : Config} {s : St} {j : Nat} {c : Ct} (hc : s.cs[j]? = some c)
    (hle : c.pc ≤ 6) (h : c.pc ≠ 0 ∨ c.ip < (cfg.scripts.getD j []).length) :
    (stepC cfg s j).isSome = true := by
  have : c.pc = 0 ∨ c.pc = 1 ∨ c.pc = 2 ∨ c.pc = 3 ∨ c.pc = 4 ∨ c.pc = 5 ∨ c.pc = 6 := by omega
  rcases this with h0 | h0 | h0 | h0 | h0 | h0 | h0
  · have hip : c.ip < (cfg.scripts.getD j []).length := by
      rcases h with h | h
      · exact absurd h0 h
      · exact h
    simp only [stepC, hc, h0]
    rw [List.getElem?_eq_getElem hip]
    split <;> first | rfl | simp_all
  · simp [stepC, hc, h0]
  · simp only [stepC, hc, h0]
    split <;> rfl
  · simp [stepC, hc, h0]
  · simp [stepC, hc, h0]
  · simp [stepC, hc, h0]
  · simp [stepC, hc, h0]

theorem no_deadlock_of_inv {cfg : Config} {s : St} (hI : Inv cfg s)
    (hd : ((sys cfg).next s).isEmpty = true) : final cfg s = true := by
  have hnil : (sys cfg).next s = [] := by simpa using hd
  have hnone : ∀ l s', ¬ (l, s') ∈ (sys cfg).next s := by
    intro l s' h; rw [hnil] at h; cases h
  simp only [final, Bool.and_eq_true, List.all_eq_true, List.mem_range]
  refine ⟨?_, ?_⟩
  · intro w hw
    obtain ⟨k, hk, rfl⟩ := List.mem_iff_getElem.mp hw
    have hw' : s.ws[k]? = some s.ws[k] := List.getElem?_eq_getElem hk
    have hW := hI.wi k _ hw'
    rcases Nat.lt_or_ge (s.ws[k]).pc 4 with h | h
    · exfalso
      have hs := stepW_isSome hw' h
      cases hst : stepW s k with
      | none => rw [hst] at hs; cases hs
      | some p => exact hnone p.1 p.2 (mem_next.mpr (Or.inl ⟨k, hk, hst⟩))
    · have := hW.pcle
      simp; omega
  · intro j hj
    have hc' : s.cs[j]? = some s.cs[j] := List.getElem?_eq_getElem hj
    have hC := hI.ci j _ hc'
    simp only [ctDone, hc', Bool.and_eq_true, beq_iff_eq, decide_eq_true_eq]
    by_cases hfin : (s.cs[j]).pc = 0 ∧ (cfg.scripts.getD j []).length ≤ (s.cs[j]).ip
    · exact hfin
    · exfalso
      have hs := stepC_isSome (cfg := cfg) hc' hC.pcle (by omega)
      cases hst : stepC cfg s j with
      | none => rw [hst] at hs; cases hs
      | some p => exact hnone p.1 p.2 (mem_next.mpr (Or.inr ⟨j, hj, hst⟩))

theorem capCount_zero_of_caps_empty (i : Nat) : ∀ (cs : List Ct),
    (∀ c ∈ cs, c.cap = []) → capCount i cs = 0
  | [], _ => rfl
  | d :: ds, h => by
    have ih := capCount_zero_of_caps_empty i ds (fun c hc => h c (List.mem_cons_of_mem _ hc))
    simp only [capCount, List.map_cons, List.sum_cons] at ih ⊢
    rw [ih, h d (List.mem_cons_self ..)]; rfl

theorem capCount_zero_of_final {cfg : Config} {s : St} (hI : Inv cfg s) (hf : final cfg s = true)
    (i : Nat) : capCount i s.cs = 0 := by
  apply capCount_zero_of_caps_empty
  intro c hc
  obtain ⟨j, hj, rfl⟩ := List.mem_iff_getElem.mp hc
  have hc' : s.cs[j]? = some s.cs[j] := List.getElem?_eq_getElem hj
  simp only [final, Bool.and_eq_true, List.all_eq_true, List.mem_range] at hf
  have := hf.2 j hj
  simp only [ctDone, hc', Bool.and_eq_true, beq_iff_eq] at this
  exact (hI.ci j _ hc').capEmpty (by omega)

/-- at most once, and never without a covering set() -/
theorem resumed_le_one_of_inv {word : Word} {cs : List Ct} {ws : List Wt} {i : Nat} {w : Wt}
    (hW : WInv word cs ws i w) : w.resumed ≤ 1 := by
  rcases Nat.lt_or_ge w.pc 3 with h | h
  · have := (hW.early (by omega)).2.1; omega
  · cases hp : w.pushed with
    | true => have := hW.latePushed h hp; omega
    | false => have := (hW.lateInline h hp).2.1; omega

/-- a covered operation has been resumed or sits in the captured stack of a running set() -/
theorem covered_resumed_or_pending {word : Word} {cs : List Ct} {ws : List Wt} {i : Nat} {w : Wt}
    (hW : WInv word cs ws i w) (hc : w.covered = true) : w.resumed = 1 ∨ 1 ≤ capCount i cs := by
  rcases Nat.lt_or_ge w.pc 3 with h | h
  · have := (hW.early (by omega)).2.2.1; rw [hc] at this; cases this
  · cases hp : w.pushed with
    | false => exact Or.inl (hW.lateInline h hp).2.1
    | true =>
      have h1 := hW.latePushed h hp
      have h2 : word.lst.count i = 0 := by
        rcases Nat.eq_zero_or_pos (word.lst.count i) with h0 | h0
        · exact h0
        · have := hW.inList (List.count_pos_iff.mp h0); rw [hc] at this; cases this
      simp only [occ] at h1
      omega

end Unifex.Proto.EventV1
