/-
  Lemmas/RemoteQueueProofs2.lean — layers C, D, E of the RemoteQueue invariant and the assembled
  theorem `inv_reach` (all configurations, all schedules).
-/
import UnifexModel.Lemmas.RemoteQueueProofs

namespace Unifex.Proto.RemoteQueue
open Unifex.Core

/-! ### Layer C -/

macro "rq_caseC" hs:ident : tactic => `(tactic| (
  simp only [Option.some.injEq, Prod.mk.injEq] at $hs:ident
  obtain ⟨-, rfl⟩ := $hs:ident
  simp only [setP, enqueue, signal, List.mem_append, List.mem_singleton] at *
  repeat' apply And.intro
  all_goals grind))

theorem invC_prod (cfg : Config) (s s' : St) (l : Lbl) (p : Nat)
    (h : InvC cfg s) (hs : stepProd cfg s p = some (l, s')) : InvC cfg s' := by
  unfold InvC at h ⊢
  unfold stepProd at hs
  simp only at hs
  split at hs
  · split at hs
    · rq_caseC hs
    · simp at hs
  · rq_caseC hs
  · rq_caseC hs
  · rq_caseC hs
  · simp at hs

theorem invC_stopper (cfg : Config) (s s' : St) (l : Lbl)
    (h : InvC cfg s) (hs : stepStopper cfg s = some (l, s')) : InvC cfg s' := by
  unfold InvC at h ⊢
  unfold stepStopper at hs
  simp only at hs
  split at hs
  · split at hs
    · rq_caseC hs
    · simp at hs
  · rq_caseC hs
  · rq_caseC hs
  · rq_caseC hs
  · rq_caseC hs
  · simp at hs

set_option maxHeartbeats 4000000 in
theorem invC_loop (cfg : Config) (s s' : St) (l : Lbl)
    (h : InvC cfg s) (hs : stepLoop cfg s = some (l, s')) : InvC cfg s' := by
  unfold InvC at h ⊢
  unfold stepLoop at hs
  simp only at hs
  split at hs
  · rq_caseC hs          -- 0
  · split at hs <;> rq_caseC hs   -- 1
  · rq_caseC hs          -- 2
  · rq_caseC hs          -- 3
  · rq_caseC hs          -- 4
  · split at hs         -- 5
    · rq_caseC hs
    · split at hs <;> rq_caseC hs
  · split at hs         -- 6
    · rq_caseC hs
    · split at hs <;> rq_caseC hs
  · split at hs <;> rq_caseC hs   -- 7
  · split at hs <;> rq_caseC hs   -- 8
  · rq_caseC hs          -- 9
  · split at hs         -- 10
    · rq_caseC hs
    · split at hs
      · rq_caseC hs
      · simp at hs
  · rq_caseC hs          -- 11
  · rq_caseC hs          -- 12
  · simp at hs

/-! ### Layer D (uses A for the program counters and C for "the stop operation is enqueued once") -/

macro "rq_caseD" hs:ident : tactic => `(tactic| (
  simp only [Option.some.injEq, Prod.mk.injEq] at $hs:ident
  obtain ⟨-, rfl⟩ := $hs:ident
  try simp only [getP_setP, getP_enqueue, getP_signal, len_enqueue, len_signal]
  simp only [getP, setP, enqueue, signal, cnt, List.mem_append, List.mem_singleton, List.nodup_append,
    List.nodup_cons, List.nodup_nil, List.not_mem_nil, stopItem] at *
  repeat' apply And.intro
  all_goals grind))

theorem invD_prod (cfg : Config) (s s' : St) (l : Lbl) (p : Nat) (hp : p < s.prods.length)
    (ha : InvA cfg s) (h : InvD cfg s) (hs : stepProd cfg s p = some (l, s')) : InvD cfg s' := by
  have hpn : p < nprod cfg := ha.1 ▸ hp
  have hlen := ha.1
  clear ha
  unfold InvD at h ⊢
  have hi2 := h.2.2.1 p hpn
  have hi3 := h.2.2.2.2 p hpn
  unfold stepProd at hs
  simp only at hs
  split at hs
  · split at hs
    · rq_caseD hs
    · simp at hs
  · rq_caseD hs
  · rq_caseD hs
  · rq_caseD hs
  · simp at hs

theorem invD_stopper (cfg : Config) (s s' : St) (l : Lbl)
    (hc : InvC cfg s) (h : InvD cfg s) (hs : stepStopper cfg s = some (l, s')) : InvD cfg s' := by
  have hc1 := hc.1
  clear hc
  unfold InvD at h ⊢
  unfold stepStopper at hs
  simp only at hs
  split at hs
  · split at hs
    · rq_caseD hs
    · simp at hs
  · rq_caseD hs
  · rq_caseD hs
  · rq_caseD hs
  · rq_caseD hs
  · simp at hs

set_option maxHeartbeats 4000000 in
theorem invD_loop (cfg : Config) (s s' : St) (l : Lbl)
    (hc : InvC cfg s) (h : InvD cfg s) (hs : stepLoop cfg s = some (l, s')) : InvD cfg s' := by
  have hc2 := hc.2.1
  clear hc
  unfold InvD at h ⊢
  unfold stepLoop at hs
  simp only at hs
  split at hs
  · rq_caseD hs          -- 0
  · split at hs <;> rq_caseD hs   -- 1
  · rq_caseD hs          -- 2
  · rq_caseD hs          -- 3
  · rq_caseD hs          -- 4
  · split at hs         -- 5
    · rq_caseD hs
    · split at hs <;> rq_caseD hs
  · split at hs         -- 6
    · rq_caseD hs
    · split at hs <;> rq_caseD hs
  · split at hs <;> rq_caseD hs   -- 7
  · split at hs <;> rq_caseD hs   -- 8
  · rq_caseD hs          -- 9
  · split at hs         -- 10
    · rq_caseD hs
    · split at hs
      · rq_caseD hs
      · simp at hs
  · rq_caseD hs          -- 11
  · rq_caseD hs          -- 12
  · simp at hs

/-! ### Layer E (uses C) -/

theorem allProdsDone_of {cfg : Config} {s : St} (h : allProdsDone cfg s = true) {p : Nat} (hp : p < s.prods.length) :
    (getP s p).pc = 0 ∧ (getP s p).k = quotaOf cfg p := by
  unfold allProdsDone at h
  have := List.all_eq_true.mp h p (List.mem_range.mpr hp)
  simpa [prodDone] using this

theorem allProdsDone_congr {cfg : Config} {s s' : St} (h : s'.prods = s.prods) :
    allProdsDone cfg s' = allProdsDone cfg s := by
  simp [allProdsDone, prodDone, getP, h]

theorem stepProd_done {cfg : Config} {s : St} {p : Nat} (h : (getP s p).pc = 0 ∧ (getP s p).k = quotaOf cfg p) :
    stepProd cfg s p = none := by
  unfold stepProd
  simp [h.1, h.2]

theorem invE_prod (cfg : Config) (s s' : St) (l : Lbl) (p : Nat) (hp : p < s.prods.length)
    (hc : InvC cfg s) (h : InvE cfg s) (hs : stepProd cfg s p = some (l, s')) : InvE cfg s' := by
  intro he
  obtain ⟨h1, h2⟩ := h he
  have hspc : s.spc = 0 := by
    by_cases h0 : s.spc ≥ 1
    · have := stepProd_done (allProdsDone_of (h1 h0) hp)
      rw [this] at hs; cases hs
    · omega
  have hne : s.stopEnq = false := by
    have h4 := hc.2.2.2.1
    have h10 := hc.2.2.2.2.2.2.2.2.2.1
    cases hse : s.stopEnq with
    | false => rfl
    | true => have := h4.mp (h10 hse); omega
  -- the producer's step changes neither spc nor stopEnq
  have key : s'.spc = s.spc ∧ s'.stopEnq = s.stopEnq := by
    unfold stepProd at hs
    simp only at hs
    split at hs
    · split at hs
      · simp only [Option.some.injEq, Prod.mk.injEq] at hs; obtain ⟨-, rfl⟩ := hs; simp [setP]
      · simp at hs
    · simp only [Option.some.injEq, Prod.mk.injEq] at hs; obtain ⟨-, rfl⟩ := hs; simp [setP, enqueue]
    · simp only [Option.some.injEq, Prod.mk.injEq] at hs; obtain ⟨-, rfl⟩ := hs; simp [setP, signal]
    · simp only [Option.some.injEq, Prod.mk.injEq] at hs; obtain ⟨-, rfl⟩ := hs; simp [setP]
    · simp at hs
  refine ⟨fun h => ?_, fun h => ?_⟩
  · rw [key.1, hspc] at h; omega
  · rw [key.2, hne] at h; cases h

macro "rq_caseE" hs:ident : tactic => `(tactic| (
  simp only [Option.some.injEq, Prod.mk.injEq] at $hs:ident
  obtain ⟨-, rfl⟩ := $hs:ident
  simp only [enqueue, signal] at *
  repeat' apply And.intro
  all_goals grind))

theorem invE_stopper (cfg : Config) (s s' : St) (l : Lbl)
    (hc : InvC cfg s) (h : InvE cfg s) (hs : stepStopper cfg s = some (l, s')) : InvE cfg s' := by
  intro he
  obtain ⟨h1, h2⟩ := h he
  have hpr : s'.prods = s.prods := by
    unfold stepStopper at hs
    simp only at hs
    split at hs
    · split at hs
      · simp only [Option.some.injEq, Prod.mk.injEq] at hs; obtain ⟨-, rfl⟩ := hs; rfl
      · simp at hs
    all_goals first
      | (simp only [Option.some.injEq, Prod.mk.injEq] at hs; obtain ⟨-, rfl⟩ := hs; rfl)
      | simp at hs
  rw [allProdsDone_congr hpr]
  have hc1 := hc.1
  have hc4 := hc.2.2.2.1
  have hc10 := hc.2.2.2.2.2.2.2.2.2.1
  clear hc hpr
  unfold stepStopper at hs
  simp only at hs
  split at hs
  · split at hs
    · rename_i hg
      simp only [he, Bool.false_or] at hg
      simp only [Option.some.injEq, Prod.mk.injEq] at hs
      obtain ⟨-, rfl⟩ := hs
      exact ⟨fun _ => hg, h2⟩
    · simp at hs
  · rq_caseE hs
  · simp only [Option.some.injEq, Prod.mk.injEq] at hs
    obtain ⟨-, rfl⟩ := hs
    simp only [enqueue]
    refine ⟨fun _ => h1 (by omega), fun _ => by simp⟩
  · rq_caseE hs
  · rq_caseE hs
  · simp at hs

/-- the loop's steps change neither the producers, nor the stopper's pc; `enq`/`stopEnq` change only
    in step 2, which appends the stop operation -/
theorem loop_frame (cfg : Config) (s s' : St) (l : Lbl) (hs : stepLoop cfg s = some (l, s')) :
    s'.prods = s.prods ∧ s'.spc = s.spc ∧
    ((s'.enq = s.enq ∧ s'.stopEnq = s.stopEnq) ∨ (s'.enq = s.enq ++ [stopItem cfg] ∧ s'.stopEnq = true)) := by
  unfold stepLoop at hs
  simp only at hs
  split at hs
  · simp only [Option.some.injEq, Prod.mk.injEq] at hs; obtain ⟨-, rfl⟩ := hs; simp
  · split at hs <;> (simp only [Option.some.injEq, Prod.mk.injEq] at hs; obtain ⟨-, rfl⟩ := hs; simp)
  · simp only [Option.some.injEq, Prod.mk.injEq] at hs; obtain ⟨-, rfl⟩ := hs; simp [enqueue]
  · simp only [Option.some.injEq, Prod.mk.injEq] at hs; obtain ⟨-, rfl⟩ := hs; simp [signal]
  · simp only [Option.some.injEq, Prod.mk.injEq] at hs; obtain ⟨-, rfl⟩ := hs; simp
  · split at hs
    · simp only [Option.some.injEq, Prod.mk.injEq] at hs; obtain ⟨-, rfl⟩ := hs; simp
    · split at hs <;> (simp only [Option.some.injEq, Prod.mk.injEq] at hs; obtain ⟨-, rfl⟩ := hs; simp)
  · split at hs
    · simp only [Option.some.injEq, Prod.mk.injEq] at hs; obtain ⟨-, rfl⟩ := hs; simp
    · split at hs <;> (simp only [Option.some.injEq, Prod.mk.injEq] at hs; obtain ⟨-, rfl⟩ := hs; simp)
  · split at hs <;> (simp only [Option.some.injEq, Prod.mk.injEq] at hs; obtain ⟨-, rfl⟩ := hs; simp)
  · split at hs <;> (simp only [Option.some.injEq, Prod.mk.injEq] at hs; obtain ⟨-, rfl⟩ := hs; simp)
  · simp only [Option.some.injEq, Prod.mk.injEq] at hs; obtain ⟨-, rfl⟩ := hs; simp
  · split at hs
    · simp only [Option.some.injEq, Prod.mk.injEq] at hs; obtain ⟨-, rfl⟩ := hs; simp
    · split at hs
      · simp only [Option.some.injEq, Prod.mk.injEq] at hs; obtain ⟨-, rfl⟩ := hs; simp
      · simp at hs
  · simp only [Option.some.injEq, Prod.mk.injEq] at hs; obtain ⟨-, rfl⟩ := hs; simp
  · simp only [Option.some.injEq, Prod.mk.injEq] at hs; obtain ⟨-, rfl⟩ := hs; simp
  · simp at hs

theorem invE_loop (cfg : Config) (s s' : St) (l : Lbl)
    (h : InvE cfg s) (hs : stepLoop cfg s = some (l, s')) : InvE cfg s' := by
  intro he
  obtain ⟨h1, h2⟩ := h he
  obtain ⟨hpr, hspc, hq⟩ := loop_frame cfg s s' l hs
  rw [allProdsDone_congr hpr, hspc]
  refine ⟨h1, ?_⟩
  rcases hq with ⟨hq1, hq2⟩ | ⟨hq1, hq2⟩
  · rw [hq1, hq2]; exact h2
  · intro _; rw [hq1]; simp

end Unifex.Proto.RemoteQueue
