/-
  Lemmas/EventLoop.lean — the inductive invariant of the manual_event_loop model, for EVERY
  configuration (any number of producers, items, stop() callers) and every schedule.
-/
import UnifexModel.Proto.EventLoop

namespace Unifex.Proto.EventLoop
open Unifex.Core

structure Inv (s : St) : Prop where
  /-- FIFO + nothing duplicated or dropped: accepted = completed ++ in execution ++ pending -/
  fifo : s.enq = s.ran ++ cur s.phase ++ s.queue
  /-- no lost wake-up: asleep without a pending notification ⇒ nothing to do -/
  wake : s.phase = .waiting → s.sig = false → s.queue = [] ∧ s.stop = false
  /-- run() returns only after stop(), and after everything accepted before the stop ran -/
  ret : s.phase = .retd ∨ s.phase = .exited → s.stop = true ∧ s.accAtStop ≤ s.ran.length
  acc : s.stop = true → s.accAtStop ≤ s.enq.length
  tokE : s.tokEnded = true → s.tok = true
  bad0 : s.bad = 0

theorem inv_init (cfg : Config) : Inv (init cfg) := by
  constructor <;> simp [init, cur]

theorem inv_setThr {s : St} (h : Inv s) (t : Nat) (x : Thr) : Inv (setThr s t x) :=
  ⟨h.fifo, h.wake, h.ret, h.acc, h.tokE, h.bad0⟩

theorem inv_critEnq {s : St} (h : Inv s) (i : Nat) : Inv (critEnq i s) := by
  obtain ⟨h1, h2, h3, h4, h5, h6⟩ := h
  refine ⟨?_, ?_, ?_, ?_, h5, h6⟩
  · show s.enq ++ [i] = s.ran ++ cur s.phase ++ (s.queue ++ [i])
    rw [h1]; simp [List.append_assoc]
  · intro hp hs
    simp only [critEnq] at hp hs
    -- the worker is waiting and (after the enqueue) still not notified: then the queue was
    -- non-empty before, contradiction with the invariant unless it was notified already
    have : s.sig = false := by
      cases hsg : s.sig with
      | false => rfl
      | true => simp [hsg] at hs
    have hq := (h2 hp this).1
    simp [hq, hp] at hs
  · intro hp
    have := h3 hp
    exact ⟨this.1, this.2⟩
  · intro hs
    have := h4 hs
    show s.accAtStop ≤ (s.enq ++ [i]).length
    simp; omega

theorem inv_critStop {s : St} (h : Inv s) : Inv (critStop s) := by
  obtain ⟨h1, h2, h3, h4, h5, h6⟩ := h
  refine ⟨h1, ?_, ?_, ?_, h5, h6⟩
  · intro hp hs
    simp only [critStop] at hp hs
    simp [hp] at hs
  · intro hp
    have := h3 hp
    refine ⟨rfl, ?_⟩
    show (if s.stop then s.accAtStop else s.enq.length) ≤ s.ran.length
    simp [this.1]; exact this.2
  · intro _
    show (if s.stop then s.accAtStop else s.enq.length) ≤ s.enq.length
    cases hs : s.stop with
    | true => simp; exact h4 hs
    | false => simp

theorem inv_critTok {s : St} (h : Inv s) : Inv (critTok s) :=
  ⟨h.fifo, h.wake, h.ret, h.acc, fun _ => rfl, h.bad0⟩

theorem inv_endTok {s : St} (h : Inv s) (ht : s.tok = true) : Inv (endTok s) :=
  ⟨h.fifo, h.wake, h.ret, h.acc, fun _ => ht, h.bad0⟩

theorem critRun_cons {s : St} {i : Nat} {rest : List Nat} (h : s.queue = i :: rest) :
    critRun s = { s with queue := rest, phase := .exec1 i } := by
  unfold critRun; rw [h]

theorem critRun_stop {s : St} (h : s.queue = []) (hs : s.stop = true) :
    critRun s = { s with phase := .retd } := by
  unfold critRun; rw [h]; simp [hs]

theorem critRun_wait {s : St} (h : s.queue = []) (hs : s.stop = false) :
    critRun s = { s with phase := .waiting, sig := false } := by
  unfold critRun; rw [h]; simp [hs]

theorem inv_critRun {s : St} (h : Inv s) (hp : s.phase = .ready) : Inv (critRun s) := by
  obtain ⟨h1, h2, h3, h4, h5, h6⟩ := h
  cases hq : s.queue with
  | cons i rest =>
    rw [critRun_cons hq]
    refine ⟨?_, ?_, ?_, h4, h5, h6⟩
    · show s.enq = s.ran ++ [i] ++ rest
      rw [h1, hp, hq]; simp [cur]
    · intro hp'; simp at hp'
    · intro hp'; simp at hp'
  | nil =>
    cases hs : s.stop with
    | true =>
      rw [critRun_stop hq hs]
      refine ⟨?_, ?_, ?_, h4, h5, h6⟩
      · show s.enq = s.ran ++ cur .retd ++ s.queue
        rw [h1, hp]; simp [cur]
      · intro hp'; simp at hp'
      · intro _
        refine ⟨hs, ?_⟩
        have := h4 hs
        rw [h1, hp, hq] at this
        simpa [cur] using this
    | false =>
      rw [critRun_wait hq hs]
      refine ⟨?_, ?_, ?_, h4, h5, h6⟩
      · show s.enq = s.ran ++ cur .waiting ++ s.queue
        rw [h1, hp]; simp [cur]
      · intro _ _; exact ⟨hq, hs⟩
      · intro hp'; simp at hp'

theorem inv_wake {s : St} (h : Inv s) (hp : s.phase = .waiting) :
    Inv { s with phase := .ready, sig := false } := by
  obtain ⟨h1, h2, h3, h4, h5, h6⟩ := h
  refine ⟨?_, ?_, ?_, h4, h5, h6⟩
  · show s.enq = s.ran ++ cur .ready ++ s.queue
    rw [h1, hp]; simp [cur]
  · intro hp'; simp at hp'
  · intro hp'; simp at hp'

theorem inv_readTok {s : St} (h : Inv s) (i : Nat) (hp : s.phase = .exec1 i) : Inv (readTok i s) := by
  obtain ⟨h1, h2, h3, h4, h5, h6⟩ := h
  refine ⟨?_, ?_, ?_, h4, h5, ?_⟩
  · show s.enq = s.ran ++ cur (.exec2 i s.tok) ++ s.queue
    rw [h1, hp]; simp [cur]
  · intro hp'; simp [readTok] at hp'
  · intro hp'; simp [readTok] at hp'
  · show (if s.tokEnded && !s.tok && s.bad = 0 then 2 else s.bad) = 0
    cases hte : s.tokEnded with
    | false => simp [h6]
    | true => simp [h5 hte, h6]

theorem inv_complete {s : St} (h : Inv s) (i : Nat) (d : Bool) (hp : s.phase = .exec2 i d) :
    Inv (complete i s) := by
  obtain ⟨h1, h2, h3, h4, h5, h6⟩ := h
  refine ⟨?_, ?_, ?_, h4, h5, h6⟩
  · show s.enq = (s.ran ++ [i]) ++ cur .ready ++ s.queue
    rw [h1, hp]; simp [cur]
  · intro hp'; simp [complete] at hp'
  · intro hp'; simp [complete] at hp'

theorem inv_exit {s : St} (h : Inv s) (hp : s.phase = .retd) : Inv { s with phase := .exited } := by
  obtain ⟨h1, h2, h3, h4, h5, h6⟩ := h
  refine ⟨?_, ?_, ?_, h4, h5, h6⟩
  · show s.enq = s.ran ++ cur .exited ++ s.queue
    rw [h1, hp]; simp [cur]
  · intro hp'; simp at hp'
  · intro _; exact h3 (Or.inl hp)

theorem inv_workerStep (cfg : Config) {s s' : St} {l : Lbl} (h : Inv s)
    (hs : workerStep cfg s = some (l, s')) : Inv s' := by
  unfold workerStep at hs
  cases hp : s.phase with
  | ready =>
    simp only [hp, Option.some.injEq, Prod.mk.injEq] at hs
    exact hs.2 ▸ inv_critRun h hp
  | waiting =>
    simp only [hp] at hs
    split at hs
    · simp only [Option.some.injEq, Prod.mk.injEq] at hs
      exact hs.2 ▸ inv_wake h hp
    · simp at hs
  | exec1 i =>
    simp only [hp, Option.some.injEq, Prod.mk.injEq] at hs
    exact hs.2 ▸ inv_readTok h i hp
  | exec2 i d =>
    simp only [hp, Option.some.injEq, Prod.mk.injEq] at hs
    exact hs.2 ▸ inv_complete h i d hp
  | retd =>
    simp only [hp, Option.some.injEq, Prod.mk.injEq] at hs
    exact hs.2 ▸ inv_exit h hp
  | exited => simp [hp] at hs

/-! ### thread-local fact needed for `tokEnded → tok`: a client that is past the critical section
    of `tokStop` has set the flag -/

def TokPc (cfg : Config) (s : St) : Prop :=
  ∀ t, (cfg.scripts.getD t [])[(getThr s t).ip]? = some .tokStop → 2 ≤ (getThr s t).pc → s.tok = true

theorem getThr_setThr (s : St) (t u : Nat) (x : Thr) :
    getThr (setThr s t x) u = if u = t ∧ t < s.thrs.length then x else getThr s u := by
  unfold getThr setThr
  simp only [List.getD_eq_getElem?_getD, List.getElem?_set]
  by_cases h : t = u
  · subst h
    by_cases h2 : t < s.thrs.length
    · simp [h2]
    · simp [h2]
  · have : ¬ (u = t) := fun e => h e.symm
    simp [h, this]

theorem tokPc_of_eq {cfg : Config} {s s' : St} (h : TokPc cfg s) (ht : s'.thrs = s.thrs)
    (hk : s.tok = true → s'.tok = true) : TokPc cfg s' := by
  intro t h1 h2
  have e : getThr s' t = getThr s t := by unfold getThr; rw [ht]
  rw [e] at h1 h2
  exact hk (h t h1 h2)

theorem tokPc_setThr {cfg : Config} {s : St} {t : Nat} {x : Thr} (h : TokPc cfg s)
    (hx : (cfg.scripts.getD t [])[x.ip]? = some .tokStop → 2 ≤ x.pc → s.tok = true) :
    TokPc cfg (setThr s t x) := by
  intro u h1 h2
  rw [getThr_setThr] at h1 h2
  show s.tok = true
  by_cases hc : u = t ∧ t < s.thrs.length
  · rw [if_pos hc] at h1 h2
    rw [hc.1] at h1
    exact hx h1 h2
  · rw [if_neg hc] at h1 h2
    exact h u h1 h2

structure Inv2 (cfg : Config) (s : St) : Prop where
  sh : Inv s
  tk : TokPc cfg s

theorem inv2_init (cfg : Config) : Inv2 cfg (init cfg) := by
  refine ⟨inv_init cfg, ?_⟩
  intro t _ h2
  have : (getThr (init cfg) t).pc = 0 := by
    unfold getThr init
    simp only [List.getD_eq_getElem?_getD, List.getElem?_map]
    cases (cfg.scripts)[t]? <;> simp
  omega

theorem critRun_thrs (s : St) : (critRun s).thrs = s.thrs ∧ (critRun s).tok = s.tok := by
  unfold critRun
  split
  · exact ⟨rfl, rfl⟩
  · split <;> exact ⟨rfl, rfl⟩

theorem inv2_workerStep (cfg : Config) {s s' : St} {l : Lbl} (h : Inv2 cfg s)
    (hs : workerStep cfg s = some (l, s')) : Inv2 cfg s' := by
  refine ⟨inv_workerStep cfg h.sh hs, ?_⟩
  unfold workerStep at hs
  cases hp : s.phase with
  | ready =>
    simp only [hp, Option.some.injEq, Prod.mk.injEq] at hs
    exact hs.2 ▸ tokPc_of_eq h.tk (critRun_thrs s).1 (fun e => (critRun_thrs s).2 ▸ e)
  | waiting =>
    simp only [hp] at hs
    split at hs
    · simp only [Option.some.injEq, Prod.mk.injEq] at hs
      exact hs.2 ▸ tokPc_of_eq h.tk rfl (fun e => e)
    · simp at hs
  | exec1 i =>
    simp only [hp, Option.some.injEq, Prod.mk.injEq] at hs
    exact hs.2 ▸ tokPc_of_eq h.tk rfl (fun e => e)
  | exec2 i d =>
    simp only [hp, Option.some.injEq, Prod.mk.injEq] at hs
    exact hs.2 ▸ tokPc_of_eq h.tk rfl (fun e => e)
  | retd =>
    simp only [hp, Option.some.injEq, Prod.mk.injEq] at hs
    exact hs.2 ▸ tokPc_of_eq h.tk rfl (fun e => e)
  | exited => simp [hp] at hs

theorem inv2_clientStep (cfg : Config) {s s' : St} {l : Lbl} {t : Nat} (h : Inv2 cfg s)
    (hs : clientStep cfg s t = some (l, s')) : Inv2 cfg s' := by
  obtain ⟨hi, hk⟩ := h
  unfold clientStep at hs
  simp only at hs
  split at hs
  · simp at hs
  · split at hs
    -- enq
    · rename_i hpc hop
      simp only [Option.some.injEq, Prod.mk.injEq] at hs
      exact hs.2 ▸ ⟨inv_setThr hi _ _, tokPc_setThr hk (by intro _ h2; simp at h2)⟩
    · rename_i hpc hop
      simp only [Option.some.injEq, Prod.mk.injEq] at hs
      exact hs.2 ▸ ⟨inv_setThr (inv_critEnq hi _) _ _,
        tokPc_setThr (tokPc_of_eq hk rfl (fun e => e)) (by intro h1; exact absurd (hop.symm.trans h1) (by simp))⟩
    · simp only [Option.some.injEq, Prod.mk.injEq] at hs
      exact hs.2 ▸ ⟨inv_setThr hi _ _, tokPc_setThr hk (by intro _ h2; simp at h2)⟩
    -- stop
    · simp only [Option.some.injEq, Prod.mk.injEq] at hs
      exact hs.2 ▸ ⟨inv_setThr hi _ _, tokPc_setThr hk (by intro _ h2; simp at h2)⟩
    · rename_i hpc hop
      simp only [Option.some.injEq, Prod.mk.injEq] at hs
      exact hs.2 ▸ ⟨inv_setThr (inv_critStop hi) _ _,
        tokPc_setThr (tokPc_of_eq hk rfl (fun e => e)) (by intro h1; exact absurd (hop.symm.trans h1) (by simp))⟩
    · simp only [Option.some.injEq, Prod.mk.injEq] at hs
      exact hs.2 ▸ ⟨inv_setThr hi _ _, tokPc_setThr hk (by intro _ h2; simp at h2)⟩
    -- tokStop
    · simp only [Option.some.injEq, Prod.mk.injEq] at hs
      exact hs.2 ▸ ⟨inv_setThr hi _ _, tokPc_setThr hk (by intro _ h2; simp at h2)⟩
    · simp only [Option.some.injEq, Prod.mk.injEq] at hs
      exact hs.2 ▸ ⟨inv_setThr (inv_critTok hi) _ _,
        tokPc_setThr (tokPc_of_eq hk rfl (fun _ => rfl)) (by intro _ _; rfl)⟩
    · rename_i hop h0 h1
      simp only [Option.some.injEq, Prod.mk.injEq] at hs
      have htok : s.tok = true := hk t hop (by
        have a : (getThr s t).pc ≠ 0 := h0
        have b : (getThr s t).pc ≠ 1 := h1
        omega)
      exact hs.2 ▸ ⟨inv_setThr (inv_endTok hi htok) _ _,
        tokPc_setThr (tokPc_of_eq hk rfl (fun e => e)) (by intro _ h2; simp at h2)⟩
    -- waitAll
    · split at hs
      · simp only [Option.some.injEq, Prod.mk.injEq] at hs
        exact hs.2 ▸ ⟨inv_setThr hi _ _, tokPc_setThr hk (by intro _ h2; simp at h2)⟩
      · simp at hs
    -- waitRan
    · split at hs
      · simp only [Option.some.injEq, Prod.mk.injEq] at hs
        exact hs.2 ▸ ⟨inv_setThr hi _ _, tokPc_setThr hk (by intro _ h2; simp at h2)⟩
      · simp at hs
    -- dtor
    · simp only [Option.some.injEq, Prod.mk.injEq] at hs
      exact hs.2 ▸ ⟨inv_setThr hi _ _, tokPc_setThr hk (by intro _ h2; simp at h2)⟩
    · rename_i hpc hop
      simp only [Option.some.injEq, Prod.mk.injEq] at hs
      exact hs.2 ▸ ⟨inv_setThr (inv_critStop hi) _ _,
        tokPc_setThr (tokPc_of_eq hk rfl (fun e => e)) (by intro h1; exact absurd (hop.symm.trans h1) (by simp))⟩
    · split at hs
      · simp only [Option.some.injEq, Prod.mk.injEq] at hs
        exact hs.2 ▸ ⟨inv_setThr hi _ _, tokPc_setThr hk (by intro _ h2; simp at h2)⟩
      · simp at hs

/-- The invariant holds in every reachable state of every configuration. -/
theorem inv_reach (cfg : Config) {s : St} (h : Reach (sys cfg) s) : Inv2 cfg s := by
  refine invariant (Inv2 cfg) (inv2_init cfg) ?_ h
  intro s l s' hi hm
  simp only [sys, List.mem_filterMap, List.mem_range] at hm
  obtain ⟨t, _, hst⟩ := hm
  unfold stepThr at hst
  split at hst
  · exact inv2_workerStep cfg hi hst
  · exact inv2_clientStep cfg hi hst

/-- `ran` only grows by appending (used for the "at most once, in order" reading). -/
theorem worker_enabled_of_work (cfg : Config) {s : St} (h : Inv s)
    (hw : s.stop = true ∨ s.queue ≠ []) (hne : s.phase ≠ .exited) : (workerStep cfg s).isSome = true := by
  unfold workerStep
  cases hp : s.phase with
  | ready => simp
  | waiting =>
    cases hsg : s.sig with
    | true => simp
    | false =>
      have := h.wake hp hsg
      rcases hw with hw | hw
      · rw [this.2] at hw; simp at hw
      · exact absurd this.1 hw
  | exec1 i => simp
  | exec2 i d => simp
  | retd => simp
  | exited => exact absurd hp hne

end Unifex.Proto.EventLoop
