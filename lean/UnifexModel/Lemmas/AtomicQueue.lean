/-
  Lemmas/AtomicQueue.lean — inductive invariant of the atomic_intrusive_queue protocol model, for
  EVERY configuration (any number of producers and items, both consumer loops, initially active
  or inactive) and every schedule.
-/
import UnifexModel.Proto.AtomicQueue

namespace Unifex.Proto.AtomicQueue
open Unifex.Core

/-- number of producers that have been told "you woke the queue up" and have not signalled yet -/
def nTold (l : List Thr) : Nat := l.countP (·.told)

/-- inactive periods begun so far -/
def periods (cfg : Config) (s : St) : Nat := s.inact + b2n cfg.initInactive

/-- the part of the invariant that does not mention the producers' local state -/
structure ShInv (cfg : Config) (s : St) : Prop where
  cons : s.enqd = s.deq ++ s.batch ++ s.head.items.reverse
  told1 : s.told + b2n (s.head == .inactive) = periods cfg s
  wk : s.sigs = s.woke + s.wake
  phase : if s.cpc = 3 ∨ s.cpc = 5 then s.woke + 1 = periods cfg s else s.woke = periods cfg s
  inact : s.head = .inactive → s.cpc = 3 ∨ s.cpc = 5
  xch : s.cpc = 4 → ∃ k l, s.head = .list (k :: l)
  bat : s.cpc ≠ 6 → s.batch = []
  bad0 : s.bad = 0

structure ThInv (s : St) : Prop where
  sg : s.sigs + nTold s.thrs = s.told
  loc : ∀ th ∈ s.thrs, th.pc ≤ 4 ∧ (th.told = true → th.pc = 3 ∨ th.pc = 4) ∧ (th.pc = 4 → th.told = true)

structure InvQ (cfg : Config) (s : St) : Prop where
  sh : ShInv cfg s
  th : ThInv s

/-! ### list facts -/

theorem getThr_eq (s : St) (t : Nat) (ht : t < s.thrs.length) : getThr s t = s.thrs[t] := by
  unfold getThr
  simp [List.getD_eq_getElem?_getD, ht]

theorem getThr_mem (s : St) (t : Nat) (ht : t < s.thrs.length) : getThr s t ∈ s.thrs := by
  rw [getThr_eq s t ht]; exact List.getElem_mem ht

theorem nTold_set (l : List Thr) (t : Nat) (x : Thr) (ht : t < l.length) :
    nTold (l.set t x) + b2n l[t].told = nTold l + b2n x.told := by
  unfold nTold
  rw [List.countP_set ht]
  cases hb : l[t].told with
  | false => simp [b2n]
  | true =>
    have : 0 < List.countP (·.told) l := List.countP_pos_iff.mpr ⟨l[t], List.getElem_mem ht, hb⟩
    simp [b2n]
    omega

theorem thInv_setThr {s sh : St} (h : ThInv s) {t : Nat} (ht : t < s.thrs.length)
    (hthr : sh.thrs = s.thrs) (x : Thr)
    (hx : x.pc ≤ 4 ∧ (x.told = true → x.pc = 3 ∨ x.pc = 4) ∧ (x.pc = 4 → x.told = true))
    (hc : sh.sigs + b2n x.told + s.told = sh.told + b2n (getThr s t).told + s.sigs) :
    ThInv (setThr sh t x) := by
  constructor
  · show sh.sigs + nTold (sh.thrs.set t x) = sh.told
    rw [hthr]
    have := nTold_set s.thrs t x ht
    rw [getThr_eq s t ht] at hc
    have := h.sg
    omega
  · intro th hm
    have hm' : th ∈ (sh.thrs.set t x) := hm
    rw [hthr] at hm'
    rcases List.mem_or_eq_of_mem_set hm' with hm' | hm'
    · exact h.loc th hm'
    · rw [hm']; exact hx

theorem shInv_setThr {cfg : Config} {s : St} (h : ShInv cfg s) (t : Nat) (x : Thr) :
    ShInv cfg (setThr s t x) :=
  ⟨h.cons, h.told1, h.wk, h.phase, h.inact, h.xch, h.bat, h.bad0⟩

/-! ### the shared-state transformers -/

theorem top_list_ne_one (l : List Nat) : (Head.list l).top ≠ 1 := by
  cases l with
  | nil => simp [Head.top]
  | cons k r => simp [Head.top]

theorem top_eq_one {h : Head} : h.top = 1 ↔ h = .inactive := by
  cases h with
  | inactive => simp [Head.top]
  | list l => simp [top_list_ne_one]

theorem shInv_pushEnq {cfg : Config} {s : St} (h : ShInv cfg s) (i : Nat) : ShInv cfg (pushEnq i s) := by
  obtain ⟨h1, h2, h3, h4, h5, h6, h7, h8⟩ := h
  unfold pushEnq
  cases hh : s.head with
  | inactive =>
    have hc := h5 hh
    refine ⟨?_, ?_, h3, h4, ?_, ?_, h7, h8⟩
    · show s.enqd ++ [i] = s.deq ++ s.batch ++ [i].reverse
      rw [h1, hh]; simp [Head.items]
    · show s.told + 1 + b2n (Head.list [i] == .inactive) = periods cfg s
      rw [hh] at h2; simpa [b2n] using h2
    · intro hx; cases hx
    · intro hx; have hx' : s.cpc = 4 := hx; rcases hc with hc | hc <;> omega
  | list l =>
    refine ⟨?_, ?_, h3, h4, ?_, ?_, h7, h8⟩
    · show s.enqd ++ [i] = s.deq ++ s.batch ++ (i :: l).reverse
      rw [h1, hh]; simp [Head.items]
    · show s.told + b2n (Head.list (i :: l) == .inactive) = periods cfg s
      rw [hh] at h2; simpa [b2n] using h2
    · intro hx; cases hx
    · intro _; exact ⟨i, l, rfl⟩

theorem shInv_pushEoma {cfg : Config} {s : St} (h : ShInv cfg s) (i : Nat) : ShInv cfg (pushEoma i s) := by
  obtain ⟨h1, h2, h3, h4, h5, h6, h7, h8⟩ := h
  unfold pushEoma
  cases hh : s.head with
  | inactive =>
    have hc := h5 hh
    refine ⟨?_, ?_, h3, h4, ?_, ?_, h7, h8⟩
    · show s.enqd = s.deq ++ s.batch ++ ([] : List Nat).reverse
      rw [h1, hh]; simp [Head.items]
    · show s.told + 1 + b2n (Head.list [] == .inactive) = periods cfg s
      rw [hh] at h2; simpa [b2n] using h2
    · intro hx; cases hx
    · intro hx; have hx' : s.cpc = 4 := hx; rcases hc with hc | hc <;> omega
  | list l =>
    refine ⟨?_, ?_, h3, h4, ?_, ?_, h7, h8⟩
    · show s.enqd ++ [i] = s.deq ++ s.batch ++ (i :: l).reverse
      rw [h1, hh]; simp [Head.items]
    · show s.told + b2n (Head.list (i :: l) == .inactive) = periods cfg s
      rw [hh] at h2; simpa [b2n] using h2
    · intro hx; cases hx
    · intro _; exact ⟨i, l, rfl⟩

theorem shInv_signal {cfg : Config} {s : St} (h : ShInv cfg s) : ShInv cfg (signal s) := by
  obtain ⟨h1, h2, h3, h4, h5, h6, h7, h8⟩ := h
  refine ⟨h1, h2, ?_, h4, h5, h6, h7, h8⟩
  show s.sigs + 1 = s.woke + (s.wake + 1)
  omega

/-- counters changed by a successful push -/
theorem pushEnq_counts (i : Nat) (s : St) :
    (pushEnq i s).thrs = s.thrs ∧ (pushEnq i s).sigs = s.sigs ∧
    (pushEnq i s).told = s.told + b2n (decide (s.head.top = 1)) := by
  unfold pushEnq
  cases hh : s.head with
  | inactive => simp [Head.top, b2n]
  | list l => simp [top_list_ne_one, b2n]

theorem pushEoma_counts (i : Nat) (s : St) :
    (pushEoma i s).thrs = s.thrs ∧ (pushEoma i s).sigs = s.sigs ∧
    (pushEoma i s).told = s.told + b2n (decide (s.head.top = 1)) := by
  unfold pushEoma
  cases hh : s.head with
  | inactive => simp [Head.top, b2n]
  | list l => simp [top_list_ne_one, b2n]

theorem inv_init (cfg : Config) : InvQ cfg (init cfg) := by
  refine ⟨?_, ?_⟩
  · cases hi : cfg.initInactive with
    | true =>
      refine ⟨?_, ?_, ?_, ?_, ?_, ?_, ?_, ?_⟩ <;> simp [init, hi, periods, b2n, Head.items, cSleep, cLoop]
    | false =>
      refine ⟨?_, ?_, ?_, ?_, ?_, ?_, ?_, ?_⟩ <;> simp [init, hi, periods, b2n, Head.items, cSleep, cLoop]
  · refine ⟨?_, ?_⟩
    · simp [init, nTold, List.countP_map, List.countP_eq_zero]
    · intro th hm
      simp only [init, List.mem_map] at hm
      obtain ⟨_, _, rfl⟩ := hm
      simp

/-! ### producer steps -/

macro "cnt" : tactic =>
  `(tactic| first | omega | (simp only [*, b2n, signal]; omega) | (simp [*, b2n, signal]; omega) | simp [*, b2n, signal])


theorem inv_producerStep (cfg : Config) {s s' : St} {l : Lbl} {t : Nat} (h : InvQ cfg s)
    (ht : t < s.thrs.length) (hs : producerStep cfg s t = some (l, s')) : InvQ cfg s' := by
  obtain ⟨hsh, hth⟩ := h
  have hloc := hth.loc _ (getThr_mem s t ht)
  unfold producerStep at hs
  simp only at hs
  split at hs
  · simp at hs
  · -- the told flag of a thread at pc 0,1,2 is false
    have hf : (getThr s t).pc ≤ 2 → (getThr s t).told = false := by
      intro hp
      cases hb : (getThr s t).told with
      | false => rfl
      | true => have := hloc.2.1 hb; omega
    split at hs
    -- enq
    · rename_i hpc hop
      simp only [Option.some.injEq, Prod.mk.injEq] at hs
      have := hf (by omega)
      exact hs.2 ▸ ⟨shInv_setThr hsh _ _, thInv_setThr hth ht rfl _ (by simp [this]) (by cnt)⟩
    · rename_i hpc hop
      simp only [Option.some.injEq, Prod.mk.injEq] at hs
      have := hf (by omega)
      exact hs.2 ▸ ⟨shInv_setThr hsh _ _, thInv_setThr hth ht rfl _ (by simp [this]) (by cnt)⟩
    · rename_i hpc hop
      have := hf (by omega)
      split at hs
      · rename_i hcas
        simp only [Option.some.injEq, Prod.mk.injEq] at hs
        have hcn := pushEnq_counts ‹Nat› s
        refine hs.2 ▸ ⟨shInv_setThr (shInv_pushEnq hsh _) _ _, thInv_setThr hth ht hcn.1 _ (by simp) ?_⟩
        rw [hcn.2.1, hcn.2.2, this, ← hcas]
        cnt
      · simp only [Option.some.injEq, Prod.mk.injEq] at hs
        exact hs.2 ▸ ⟨shInv_setThr hsh _ _, thInv_setThr hth ht rfl _ (by simp [this]; omega) (by cnt)⟩
    · rename_i hpc hop
      simp only [Option.some.injEq, Prod.mk.injEq] at hs
      cases hb : (getThr s t).told with
      | true =>
        simp only [hb, if_true] at hs
        exact hs.2 ▸ ⟨shInv_setThr hsh _ _, thInv_setThr hth ht rfl _ (by simp [hb]) (by cnt)⟩
      | false =>
        simp only [hb, Bool.false_eq_true, if_false] at hs
        exact hs.2 ▸ ⟨shInv_setThr hsh _ _, thInv_setThr hth ht rfl _ (by simp) (by cnt)⟩
    · rename_i hop h0 h1 h2 h3
      simp only [Option.some.injEq, Prod.mk.injEq] at hs
      have hp4 : (getThr s t).pc = 4 := by
        have a : (getThr s t).pc ≠ 0 := h0
        have b : (getThr s t).pc ≠ 1 := h1
        have c : (getThr s t).pc ≠ 2 := h2
        have d : (getThr s t).pc ≠ 3 := h3
        have := hloc.1
        omega
      have hb := hloc.2.2 hp4
      exact hs.2 ▸ ⟨shInv_setThr (shInv_signal hsh) _ _, thInv_setThr (sh := signal s) hth ht rfl _ (by simp) (by cnt)⟩
    -- eoma
    · rename_i hpc hop
      simp only [Option.some.injEq, Prod.mk.injEq] at hs
      have := hf (by omega)
      exact hs.2 ▸ ⟨shInv_setThr hsh _ _, thInv_setThr hth ht rfl _ (by simp [this]) (by cnt)⟩
    · rename_i hpc hop
      simp only [Option.some.injEq, Prod.mk.injEq] at hs
      have := hf (by omega)
      exact hs.2 ▸ ⟨shInv_setThr hsh _ _, thInv_setThr hth ht rfl _ (by simp [this]) (by cnt)⟩
    · rename_i hpc hop
      have := hf (by omega)
      split at hs
      · rename_i hcas
        simp only [Option.some.injEq, Prod.mk.injEq] at hs
        have hcn := pushEoma_counts ‹Nat› s
        refine hs.2 ▸ ⟨shInv_setThr (shInv_pushEoma hsh _) _ _, thInv_setThr hth ht hcn.1 _ (by simp) ?_⟩
        rw [hcn.2.1, hcn.2.2, this, ← hcas]
        cnt
      · simp only [Option.some.injEq, Prod.mk.injEq] at hs
        exact hs.2 ▸ ⟨shInv_setThr hsh _ _, thInv_setThr hth ht rfl _ (by simp [this]; omega) (by cnt)⟩
    · rename_i hpc hop
      simp only [Option.some.injEq, Prod.mk.injEq] at hs
      cases hb : (getThr s t).told with
      | true =>
        simp only [hb, if_true] at hs
        exact hs.2 ▸ ⟨shInv_setThr hsh _ _, thInv_setThr hth ht rfl _ (by simp [hb]) (by cnt)⟩
      | false =>
        simp only [hb, Bool.false_eq_true, if_false] at hs
        exact hs.2 ▸ ⟨shInv_setThr hsh _ _, thInv_setThr hth ht rfl _ (by simp) (by cnt)⟩
    · rename_i hop h0 h1 h2 h3
      simp only [Option.some.injEq, Prod.mk.injEq] at hs
      have hp4 : (getThr s t).pc = 4 := by
        have a : (getThr s t).pc ≠ 0 := h0
        have b : (getThr s t).pc ≠ 1 := h1
        have c : (getThr s t).pc ≠ 2 := h2
        have d : (getThr s t).pc ≠ 3 := h3
        have := hloc.1
        omega
      have hb := hloc.2.2 hp4
      exact hs.2 ▸ ⟨shInv_setThr (shInv_signal hsh) _ _, thInv_setThr (sh := signal s) hth ht rfl _ (by simp) (by cnt)⟩

/-! ### consumer steps -/

theorem thInv_of_eq {s s' : St} (h : ThInv s) (h1 : s'.thrs = s.thrs) (h2 : s'.sigs = s.sigs)
    (h3 : s'.told = s.told) : ThInv s' := by
  refine ⟨?_, ?_⟩
  · rw [h1, h2, h3]; exact h.sg
  · rw [h1]; exact h.loc

theorem nonempty_of_top {h : Head} (h0 : h.top ≠ 0) (h1 : h ≠ .inactive) : ∃ k l, h = .list (k :: l) := by
  cases h with
  | inactive => exact absurd rfl h1
  | list l =>
    cases l with
    | nil => simp [Head.top] at h0
    | cons k r => exact ⟨k, r, rfl⟩

theorem shInv_cpc {cfg : Config} {s : St} (h : ShInv cfg s) (pc : Nat)
    (hph : (s.cpc = 3 ∨ s.cpc = 5) ↔ (pc = 3 ∨ pc = 5))
    (hin : s.head = .inactive → pc = 3 ∨ pc = 5)
    (hx : pc = 4 → ∃ k l, s.head = .list (k :: l))
    (hb : pc ≠ 6 → s.batch = []) : ShInv cfg { s with cpc := pc } := by
  obtain ⟨h1, h2, h3, h4, h5, h6, h7, h8⟩ := h
  refine ⟨h1, h2, h3, ?_, hin, hx, hb, h8⟩
  show if pc = 3 ∨ pc = 5 then s.woke + 1 = periods cfg s else s.woke = periods cfg s
  by_cases hc : pc = 3 ∨ pc = 5
  · rw [if_pos hc]; rw [if_pos (hph.mpr hc)] at h4; exact h4
  · rw [if_neg hc]; rw [if_neg (fun e => hc (hph.mp e))] at h4; exact h4

theorem inv_consumerStep (cfg : Config) {s s' : St} {l : Lbl} (h : InvQ cfg s)
    (hs : consumerStep cfg s = some (l, s')) : InvQ cfg s' := by
  obtain ⟨hsh, hth⟩ := h
  have hni : ∀ {n : Nat}, s.cpc = n → n ≠ 3 → n ≠ 5 → s.head ≠ .inactive := by
    intro n hn h3 h5 hi
    have := hsh.inact hi
    omega
  unfold consumerStep at hs
  simp only at hs
  split at hs
  · -- 0: loop head
    rename_i hc
    split at hs
    · simp only [Option.some.injEq, Prod.mk.injEq] at hs
      refine hs.2 ▸ ⟨shInv_cpc hsh _ (by simp [hc, cDone]) (fun hi => absurd hi (hni hc (by omega) (by omega)))
        (by simp [cDone]) (fun _ => hsh.bat (by omega)), thInv_of_eq hth rfl rfl rfl⟩
    · simp only [Option.some.injEq, Prod.mk.injEq] at hs
      refine hs.2 ▸ ⟨shInv_cpc hsh _ (by split <;> simp [hc, cTmiLoad, cDqLoad]) (fun hi => absurd hi (hni hc (by omega) (by omega)))
        (by split <;> simp [cTmiLoad, cDqLoad]) (fun _ => hsh.bat (by omega)), thInv_of_eq hth rfl rfl rfl⟩
  · -- 1: try_mark_inactive load
    rename_i hc
    have hne := hni hc (by omega) (by omega)
    split at hs
    · simp only [Option.some.injEq, Prod.mk.injEq] at hs
      refine hs.2 ▸ ⟨shInv_cpc hsh _ (by simp [hc, cTmiCas]) (fun hi => absurd hi hne)
        (by simp [cTmiCas]) (fun _ => hsh.bat (by omega)), thInv_of_eq hth rfl rfl rfl⟩
    · rename_i htop
      split at hs
      · simp only [Option.some.injEq, Prod.mk.injEq] at hs
        refine hs.2 ▸ ⟨shInv_cpc hsh _ (by simp [hc, cXchg]) (fun hi => absurd hi hne)
          (fun _ => nonempty_of_top htop hne) (fun _ => hsh.bat (by omega)), thInv_of_eq hth rfl rfl rfl⟩
      · simp only [Option.some.injEq, Prod.mk.injEq] at hs
        refine hs.2 ▸ ⟨shInv_cpc hsh _ (by simp [hc, cLoop]) (fun hi => absurd hi hne)
          (by simp [cLoop]) (fun _ => hsh.bat (by omega)), thInv_of_eq hth rfl rfl rfl⟩
  · -- 2: CAS nullptr → inactive
    rename_i hc
    have hne := hni hc (by omega) (by omega)
    split at hs
    · rename_i htop
      simp only [Option.some.injEq, Prod.mk.injEq] at hs
      obtain ⟨h1, h2, h3, h4, h5, h6, h7, h8⟩ := hsh
      have hl : s.head = .list [] := by
        cases hh : s.head with
        | inactive => exact absurd hh hne
        | list l =>
          cases l with
          | nil => rfl
          | cons k r => rw [hh] at htop; simp [Head.top] at htop
      refine hs.2 ▸ ⟨⟨?_, ?_, h3, ?_, ?_, ?_, ?_, h8⟩, thInv_of_eq hth rfl rfl rfl⟩
      · show s.enqd = s.deq ++ s.batch ++ (Head.inactive).items.reverse
        rw [h1, hl]; simp [Head.items]
      · show s.told + b2n (Head.inactive == .inactive) = s.inact + 1 + b2n cfg.initInactive
        rw [hl] at h2; simp [b2n, periods] at h2 ⊢; omega
      · show if cSleepObs = 3 ∨ cSleepObs = 5 then s.woke + 1 = s.inact + 1 + b2n cfg.initInactive else _
        have : ¬ (s.cpc = 3 ∨ s.cpc = 5) := by omega
        rw [if_neg this] at h4
        simp [cSleepObs, periods] at h4 ⊢; omega
      · intro _; simp [cSleepObs]
      · intro hx; simp [cSleepObs] at hx
      · intro _; exact h7 (by omega)
    · rename_i htop
      split at hs
      · simp only [Option.some.injEq, Prod.mk.injEq] at hs
        refine hs.2 ▸ ⟨shInv_cpc hsh _ (by simp [hc, cXchg]) (fun hi => absurd hi hne)
          (fun _ => nonempty_of_top htop hne) (fun _ => hsh.bat (by omega)), thInv_of_eq hth rfl rfl rfl⟩
      · simp only [Option.some.injEq, Prod.mk.injEq] at hs
        refine hs.2 ▸ ⟨shInv_cpc hsh _ (by simp [hc, cLoop]) (fun hi => absurd hi hne)
          (by simp [cLoop]) (fun _ => hsh.bat (by omega)), thInv_of_eq hth rfl rfl rfl⟩
  · -- 3: "c.sleep"
    rename_i hc
    simp only [Option.some.injEq, Prod.mk.injEq] at hs
    refine hs.2 ▸ ⟨shInv_cpc hsh _ (by simp [hc, cSleep]) (by simp [cSleep])
      (by simp [cSleep]) (fun _ => hsh.bat (by omega)), thInv_of_eq hth rfl rfl rfl⟩
  · -- 4: exchange(nullptr)
    rename_i hc
    simp only [Option.some.injEq, Prod.mk.injEq] at hs
    obtain ⟨k, r, hl⟩ := hsh.xch hc
    have hb := hsh.bat (by omega)
    have hx : xchg s = { s with head := .list [], batch := (k :: r).reverse } := by
      unfold xchg; rw [hl]
    rw [hx] at hs
    obtain ⟨h1, h2, h3, h4, h5, h6, h7, h8⟩ := hsh
    refine hs.2 ▸ ⟨⟨?_, ?_, h3, ?_, ?_, ?_, ?_, h8⟩, thInv_of_eq hth rfl rfl rfl⟩
    · show s.enqd = s.deq ++ (k :: r).reverse ++ (Head.list []).items.reverse
      rw [h1, hb, hl]; simp [Head.items]
    · show s.told + b2n (Head.list [] == .inactive) = periods cfg s
      rw [hl] at h2; simpa [b2n] using h2
    · show if cGotObs = 3 ∨ cGotObs = 5 then _ else s.woke = periods cfg s
      have : ¬ (s.cpc = 3 ∨ s.cpc = 5) := by omega
      rw [if_neg this] at h4
      simpa [cGotObs] using h4
    · intro hi; cases hi
    · intro hx; simp [cGotObs] at hx
    · intro hx; simp [cGotObs] at hx
  · -- 5: asleep; woken when wake > 0
    rename_i hc
    split at hs
    · rename_i hw
      simp only [Option.some.injEq, Prod.mk.injEq] at hs
      obtain ⟨h1, h2, h3, h4, h5, h6, h7, h8⟩ := hsh
      have hph : s.woke + 1 = periods cfg s := by
        rw [if_pos (Or.inr hc)] at h4; exact h4
      have hne : s.head ≠ .inactive := by
        intro hi
        rw [hi] at h2
        have := hth.sg
        simp [b2n] at h2
        omega
      refine hs.2 ▸ ⟨⟨h1, h2, ?_, ?_, ?_, ?_, ?_, h8⟩, thInv_of_eq hth rfl rfl rfl⟩
      · show s.sigs = s.woke + 1 + (s.wake - 1)
        omega
      · show if cWokenObs = 3 ∨ cWokenObs = 5 then _ else s.woke + 1 = periods cfg s
        simpa [cWokenObs] using hph
      · intro hi; exact absurd hi hne
      · intro hx; simp [cWokenObs] at hx
      · intro _; exact h7 (by omega)
    · simp at hs
  · -- 6: "c.got …"
    rename_i hc
    simp only [Option.some.injEq, Prod.mk.injEq] at hs
    have hne := hni hc (by omega) (by omega)
    obtain ⟨h1, h2, h3, h4, h5, h6, h7, h8⟩ := hsh
    refine hs.2 ▸ ⟨⟨?_, h2, h3, ?_, ?_, ?_, ?_, h8⟩, thInv_of_eq hth rfl rfl rfl⟩
    · show s.enqd = (s.deq ++ s.batch) ++ [] ++ s.head.items.reverse
      rw [h1]; simp
    · show if cLoop = 3 ∨ cLoop = 5 then _ else s.woke = periods cfg s
      have : ¬ (s.cpc = 3 ∨ s.cpc = 5) := by omega
      rw [if_neg this] at h4
      simpa [cLoop] using h4
    · intro hi; exact absurd hi hne
    · intro hx; simp [cLoop] at hx
    · intro _; rfl
  · -- 7: "c.woken"
    rename_i hc
    simp only [Option.some.injEq, Prod.mk.injEq] at hs
    refine hs.2 ▸ ⟨shInv_cpc hsh _ (by simp [hc, cLoop]) (fun hi => absurd hi (hni hc (by omega) (by omega)))
      (by simp [cLoop]) (fun _ => hsh.bat (by omega)), thInv_of_eq hth rfl rfl rfl⟩
  · -- 9: dequeue_all load
    rename_i hc
    have hne := hni hc (by omega) (by omega)
    split at hs
    · simp only [Option.some.injEq, Prod.mk.injEq] at hs
      refine hs.2 ▸ ⟨shInv_cpc hsh _ (by simp [hc, cTmiLoad]) (fun hi => absurd hi hne)
        (by simp [cTmiLoad]) (fun _ => hsh.bat (by omega)), thInv_of_eq hth rfl rfl rfl⟩
    · rename_i htop
      simp only [Option.some.injEq, Prod.mk.injEq] at hs
      refine hs.2 ▸ ⟨shInv_cpc hsh _ (by simp [hc, cXchg]) (fun hi => absurd hi hne)
        (fun _ => nonempty_of_top htop hne) (fun _ => hsh.bat (by omega)), thInv_of_eq hth rfl rfl rfl⟩
  · simp at hs

/-- The invariant holds in every reachable state of every configuration. -/
theorem inv_reach (cfg : Config) {s : St} (h : Reach (sys cfg) s) : InvQ cfg s := by
  refine invariant (InvQ cfg) (inv_init cfg) ?_ h
  intro s l s' hi hm
  simp only [sys, List.mem_filterMap, List.mem_range] at hm
  obtain ⟨t, ht, hst⟩ := hm
  unfold stepThr at hst
  split at hst
  · exact inv_consumerStep cfg hi hst
  · exact inv_producerStep cfg hi ht hst

end Unifex.Proto.AtomicQueue
