/-
  Lemmas/Witness.lean — turning an explicit schedule (list of choices) into a reachability witness;
  used by the non-vacuity examples of the atomic-level property files.
-/
import UnifexModel.Core.Sched

namespace Unifex.Core
variable {σ lbl : Type}

/-- the state reached by the schedule `cs` satisfies `p` (false if the schedule is not executable) -/
def runSat (sys : LSys σ lbl) (cs : List Nat) (p : σ → Bool) : Bool :=
  match runChoices sys sys.init cs with
  | some (_, s) => p s
  | none => false

theorem reach_of_runSat (sys : LSys σ lbl) (cs : List Nat) (p : σ → Bool) (h : runSat sys cs p = true) :
    ∃ s, Reach sys s ∧ p s = true := by
  unfold runSat at h
  cases hr : runChoices sys sys.init cs with
  | none => simp [hr] at h
  | some q =>
    obtain ⟨ls, s⟩ := q
    simp only [hr] at h
    exact ⟨s, runChoices_reach _ _ _ _ _ Reach.init hr, h⟩

end Unifex.Core
