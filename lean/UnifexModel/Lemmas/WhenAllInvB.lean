/-
  Lemmas/WhenAllInvB.lean — layer B of the when_all invariants: the stop callback registered on the
  receiver's token (registered / running / destructed) in relation to delivery, and the nesting of leaf
  completions inside the stop callback.
-/
import UnifexModel.Lemmas.WhenAllInv
set_option linter.unusedSimpArgs false
namespace Unifex.Proto.WhenAll
open Unifex.Core

/-- `cancel_operation` is executing -/
def SPh.inCb : SPh → Bool
  | .cbEnter | .preOwnStop | .notifying | .preDec | .dlv1 | .dlv2 | .dlv3 | .cbRet => true
  | _ => false

/-- the callback is executing and has not yet destructed its own registration -/
def SPh.needsReg : SPh → Bool
  | .cbEnter | .preOwnStop | .notifying | .preDec | .dlv1 => true
  | _ => false

@[simp, grind =] theorem inCb_idle : SPh.inCb .idle = false := rfl
@[simp, grind =] theorem needsReg_idle : SPh.needsReg .idle = false := rfl
@[simp, grind =] theorem inCb_begun : SPh.inCb .begun = false := rfl
@[simp, grind =] theorem needsReg_begun : SPh.needsReg .begun = false := rfl
@[simp, grind =] theorem inCb_cbEnter : SPh.inCb .cbEnter = true := rfl
@[simp, grind =] theorem needsReg_cbEnter : SPh.needsReg .cbEnter = true := rfl
@[simp, grind =] theorem inCb_preOwnStop : SPh.inCb .preOwnStop = true := rfl
@[simp, grind =] theorem needsReg_preOwnStop : SPh.needsReg .preOwnStop = true := rfl
@[simp, grind =] theorem inCb_notifying : SPh.inCb .notifying = true := rfl
@[simp, grind =] theorem needsReg_notifying : SPh.needsReg .notifying = true := rfl
@[simp, grind =] theorem inCb_preDec : SPh.inCb .preDec = true := rfl
@[simp, grind =] theorem needsReg_preDec : SPh.needsReg .preDec = true := rfl
@[simp, grind =] theorem inCb_dlv1 : SPh.inCb .dlv1 = true := rfl
@[simp, grind =] theorem needsReg_dlv1 : SPh.needsReg .dlv1 = true := rfl
@[simp, grind =] theorem inCb_dlv2 : SPh.inCb .dlv2 = true := rfl
@[simp, grind =] theorem needsReg_dlv2 : SPh.needsReg .dlv2 = false := rfl
@[simp, grind =] theorem inCb_cbRet : SPh.inCb .cbRet = true := rfl
@[simp, grind =] theorem needsReg_cbRet : SPh.needsReg .cbRet = false := rfl
@[simp, grind =] theorem inCb_ret : SPh.inCb .ret = false := rfl
@[simp, grind =] theorem needsReg_ret : SPh.needsReg .ret = false := rfl
@[simp, grind =] theorem inCb_fin : SPh.inCb .fin = false := rfl
@[simp, grind =] theorem inCb_dlv3 : SPh.inCb .dlv3 = true := rfl
@[simp, grind =] theorem needsReg_dlv3 : SPh.needsReg .dlv3 = false := rfl
@[simp, grind =] theorem needsReg_fin : SPh.needsReg .fin = false := rfl

attribute [grind =] hold_idle sd_idle early_idle hold_begun sd_begun early_begun hold_cbEnter sd_cbEnter early_cbEnter hold_preOwnStop sd_preOwnStop early_preOwnStop hold_notifying sd_notifying early_notifying hold_preDec sd_preDec early_preDec hold_dlv1 sd_dlv1 early_dlv1 hold_dlv2 sd_dlv2 early_dlv2 hold_cbRet sd_cbRet early_cbRet hold_ret sd_ret early_ret hold_fin sd_fin early_fin hold_dlv3 sd_dlv3 early_dlv3

theorem needsReg_inCb (sp : SPh) (h : sp.needsReg = true) : sp.inCb = true := by
  cases sp <;> simp_all

structure InvB (cfg : Config) (s : St) : Prop where
  cbr : s.cbRunning = s.stopPh.inCb
  ce : s.stopPh.needsReg = true → s.cbReg = true
  c2 : ∀ c ∈ s.ch, (c.ph = .dlv2 ∨ c.ph = .dlv3) → s.cbReg = false ∧ s.cbRunning = false
  sd2 : (s.stopPh = .dlv2 ∨ s.stopPh = .dlv3) → s.cbReg = false
  nd : 1 ≤ s.delivered → s.cbReg = false
  dr : 1 ≤ s.delivered → s.cbRunning = true → s.dlvBy = stopTid cfg
  run0 : ∀ c ∈ s.ch, c.ph = .run → c.exec = 0
  nest : ∀ j c, s.ch[j]? = some c → c.exec = stopTid cfg → c.ph ≠ .fin →
    (s.cur = some j ∧ c.cbst = 2 ∧ s.stopPh = .notifying)
  rz : s.cbReg = false → s.zeroed = true

theorem get_set_cases {ch : List Child} {k j : Nat} {c c' : Child} (h : (ch.set k c')[j]? = some c) :
    (j = k ∧ c = c') ∨ (j ≠ k ∧ ch[j]? = some c) := by
  rw [List.getElem?_set] at h
  by_cases hk : k = j
  · subst hk
    simp only [if_true] at h
    split at h
    · exact .inl ⟨rfl, (Option.some.inj h).symm⟩
    · cases h
  · simp only [hk, if_false] at h
    exact .inr ⟨fun e => hk e.symm, h⟩

theorem mem_set_cases {ch : List Child} {k : Nat} {c c' : Child} (h : c ∈ ch.set k c') :
    c ∈ ch ∨ c = c' := List.mem_or_eq_of_mem_set h

theorem mem_of_get {ch : List Child} {j : Nat} {c : Child} (h : ch[j]? = some c) : c ∈ ch :=
  List.mem_of_getElem? h



syntax "invb_simp" : tactic
macro_rules
  | `(tactic| invb_simp) => `(tactic|
      simp only [setCh, signalSt, touch_refCount, touch_zeroed, touch_delivered, touch_stopPh, touch_ch,
        touch_cbReg, touch_cbRunning, touch_cur, touch_dlvBy, touch_ownStop, touch_recvAtDlv])

syntax "invb_mem" : tactic
macro_rules
  | `(tactic| invb_mem) => `(tactic| (
      invb_simp
      first
      | assumption
      | (intro x hx hph; rcases mem_set_cases hx with h | h <;> grind [stopTid])
      | grind [stopTid]))

syntax "invb_idx" : tactic
macro_rules
  | `(tactic| invb_idx) => `(tactic| (
      invb_simp
      first
      | assumption
      | (intro i x hx; rcases get_set_cases hx with ⟨h1, h2⟩ | ⟨h1, h2⟩ <;> grind [stopTid])
      | grind [stopTid]))

syntax "invb_plain" : tactic
macro_rules
  | `(tactic| invb_plain) => `(tactic| (
      invb_simp
      first
      | assumption
      | grind [stopTid]))

syntax "invb_fin" : tactic
macro_rules
  | `(tactic| invb_fin) => `(tactic| (
      refine ⟨?_, ?_, ?_, ?_, ?_, ?_, ?_, ?_, ?_⟩
      · invb_plain
      · invb_plain
      · invb_mem
      · invb_plain
      · invb_plain
      · invb_plain
      · invb_mem
      · invb_idx
      · invb_plain))

theorem invB_step {cfg : Config} {s s' : St} (ha : InvA cfg.n s) (hb : InvB cfg s) (hs : Step cfg s s') :
    InvB cfg s' := by
  obtain ⟨hlen, hrc, hz, hone⟩ := ha
  obtain ⟨cbr, ce, c2, sd2, nd, dr, run0, nest, rz⟩ := hb
  cases hs with
  | cClaim j c o hc hp ho =>
    have hm := mem_of_get hc
    have hj := (get_of_some hc).1
    have hpp := cntP_pos hc
    have hdd := cntD_pos hc
    simp only [hp, pend_run, pend_claimed, pend_preX, pend_preStop, pend_notifying, pend_preDec, pend_dlv1, pend_dlv2, pend_dlv3, pend_fin, dlv_run, dlv_claimed, dlv_preX, dlv_preStop, dlv_notifying, dlv_preDec, dlv_dlv1, dlv_dlv2, dlv_dlv3, dlv_fin, forall_const, Bool.false_eq_true, false_implies] at hpp hdd
    invb_fin
  | cDereg j c hc hp hcb =>
    have hm := mem_of_get hc
    have hj := (get_of_some hc).1
    have hpp := cntP_pos hc
    have hdd := cntD_pos hc
    simp only [hp, pend_run, pend_claimed, pend_preX, pend_preStop, pend_notifying, pend_preDec, pend_dlv1, pend_dlv2, pend_dlv3, pend_fin, dlv_run, dlv_claimed, dlv_preX, dlv_preStop, dlv_notifying, dlv_preDec, dlv_dlv1, dlv_dlv2, dlv_dlv3, dlv_fin, forall_const, Bool.false_eq_true, false_implies] at hpp hdd
    invb_fin
  | cNoX j c hc hp hv =>
    have hm := mem_of_get hc
    have hj := (get_of_some hc).1
    have hpp := cntP_pos hc
    have hdd := cntD_pos hc
    simp only [hp, pend_run, pend_claimed, pend_preX, pend_preStop, pend_notifying, pend_preDec, pend_dlv1, pend_dlv2, pend_dlv3, pend_fin, dlv_run, dlv_claimed, dlv_preX, dlv_preStop, dlv_notifying, dlv_preDec, dlv_dlv1, dlv_dlv2, dlv_dlv3, dlv_fin, forall_const, Bool.false_eq_true, false_implies] at hpp hdd
    invb_fin
  | cXwin j c hc hp hv hd =>
    have hm := mem_of_get hc
    have hj := (get_of_some hc).1
    have hpp := cntP_pos hc
    have hdd := cntD_pos hc
    simp only [hp, pend_run, pend_claimed, pend_preX, pend_preStop, pend_notifying, pend_preDec, pend_dlv1, pend_dlv2, pend_dlv3, pend_fin, dlv_run, dlv_claimed, dlv_preX, dlv_preStop, dlv_notifying, dlv_preDec, dlv_dlv1, dlv_dlv2, dlv_dlv3, dlv_fin, forall_const, Bool.false_eq_true, false_implies] at hpp hdd
    invb_fin
  | cStopAlready j c hc hp ho =>
    have hm := mem_of_get hc
    have hj := (get_of_some hc).1
    have hpp := cntP_pos hc
    have hdd := cntD_pos hc
    simp only [hp, pend_run, pend_claimed, pend_preX, pend_preStop, pend_notifying, pend_preDec, pend_dlv1, pend_dlv2, pend_dlv3, pend_fin, dlv_run, dlv_claimed, dlv_preX, dlv_preStop, dlv_notifying, dlv_preDec, dlv_dlv1, dlv_dlv2, dlv_dlv3, dlv_fin, forall_const, Bool.false_eq_true, false_implies] at hpp hdd
    invb_fin
  | cStopFirst j c hc hp ho =>
    have hm := mem_of_get hc
    have hj := (get_of_some hc).1
    have hpp := cntP_pos hc
    have hdd := cntD_pos hc
    simp only [hp, pend_run, pend_claimed, pend_preX, pend_preStop, pend_notifying, pend_preDec, pend_dlv1, pend_dlv2, pend_dlv3, pend_fin, dlv_run, dlv_claimed, dlv_preX, dlv_preStop, dlv_notifying, dlv_preDec, dlv_dlv1, dlv_dlv2, dlv_dlv3, dlv_fin, forall_const, Bool.false_eq_true, false_implies] at hpp hdd
    invb_fin
  | cExit j c hc hp hcur hg =>
    have hm := mem_of_get hc
    have hj := (get_of_some hc).1
    have hpp := cntP_pos hc
    have hdd := cntD_pos hc
    simp only [hp, pend_run, pend_claimed, pend_preX, pend_preStop, pend_notifying, pend_preDec, pend_dlv1, pend_dlv2, pend_dlv3, pend_fin, dlv_run, dlv_claimed, dlv_preX, dlv_preStop, dlv_notifying, dlv_preDec, dlv_dlv1, dlv_dlv2, dlv_dlv3, dlv_fin, forall_const, Bool.false_eq_true, false_implies] at hpp hdd
    invb_fin
  | cDecLast j c hc hp hr =>
    have hm := mem_of_get hc
    have hj := (get_of_some hc).1
    have hpp := cntP_pos hc
    have hdd := cntD_pos hc
    simp only [hp, pend_run, pend_claimed, pend_preX, pend_preStop, pend_notifying, pend_preDec, pend_dlv1, pend_dlv2, pend_dlv3, pend_fin, dlv_run, dlv_claimed, dlv_preX, dlv_preStop, dlv_notifying, dlv_preDec, dlv_dlv1, dlv_dlv2, dlv_dlv3, dlv_fin, forall_const, Bool.false_eq_true, false_implies] at hpp hdd
    invb_fin
  | cDec j c hc hp hr =>
    have hm := mem_of_get hc
    have hj := (get_of_some hc).1
    have hpp := cntP_pos hc
    have hdd := cntD_pos hc
    simp only [hp, pend_run, pend_claimed, pend_preX, pend_preStop, pend_notifying, pend_preDec, pend_dlv1, pend_dlv2, pend_dlv3, pend_fin, dlv_run, dlv_claimed, dlv_preX, dlv_preStop, dlv_notifying, dlv_preDec, dlv_dlv1, dlv_dlv2, dlv_dlv3, dlv_fin, forall_const, Bool.false_eq_true, false_implies] at hpp hdd
    invb_fin
  | cDestruct j c hc hp hb =>
    have hne : c.exec ≠ stopTid cfg := by
      intro e
      have h1 := (nest j c hc e (by simp [hp])).2.2
      have h2 := cntD_pos hc (by simp [hp])
      cases hzz : s.zeroed <;> simp [hzz, h1] at hz hone hrc <;> omega
    have hni := needsReg_inCb s.stopPh
    have hm := mem_of_get hc
    have hj := (get_of_some hc).1
    have hpp := cntP_pos hc
    have hdd := cntD_pos hc
    simp only [hp, pend_run, pend_claimed, pend_preX, pend_preStop, pend_notifying, pend_preDec, pend_dlv1, pend_dlv2, pend_dlv3, pend_fin, dlv_run, dlv_claimed, dlv_preX, dlv_preStop, dlv_notifying, dlv_preDec, dlv_dlv1, dlv_dlv2, dlv_dlv3, dlv_fin, forall_const, Bool.false_eq_true, false_implies] at hpp hdd
    invb_fin
  | cSigStop j c hc hp hk hr =>
    have hm := mem_of_get hc
    have hj := (get_of_some hc).1
    have hpp := cntP_pos hc
    have hdd := cntD_pos hc
    simp only [hp, pend_run, pend_claimed, pend_preX, pend_preStop, pend_notifying, pend_preDec, pend_dlv1, pend_dlv2, pend_dlv3, pend_fin, dlv_run, dlv_claimed, dlv_preX, dlv_preStop, dlv_notifying, dlv_preDec, dlv_dlv1, dlv_dlv2, dlv_dlv3, dlv_fin, forall_const, Bool.false_eq_true, false_implies] at hpp hdd
    invb_fin
  | cNoStop j c hc hp hk hr =>
    have hm := mem_of_get hc
    have hj := (get_of_some hc).1
    have hpp := cntP_pos hc
    have hdd := cntD_pos hc
    simp only [hp, pend_run, pend_claimed, pend_preX, pend_preStop, pend_notifying, pend_preDec, pend_dlv1, pend_dlv2, pend_dlv3, pend_fin, dlv_run, dlv_claimed, dlv_preX, dlv_preStop, dlv_notifying, dlv_preDec, dlv_dlv1, dlv_dlv2, dlv_dlv3, dlv_fin, forall_const, Bool.false_eq_true, false_implies] at hpp hdd
    invb_fin
  | cSignalR j c hc hp hk =>
    have hm := mem_of_get hc
    have hj := (get_of_some hc).1
    have hpp := cntP_pos hc
    have hdd := cntD_pos hc
    simp only [hp, pend_run, pend_claimed, pend_preX, pend_preStop, pend_notifying, pend_preDec, pend_dlv1, pend_dlv2, pend_dlv3, pend_fin, dlv_run, dlv_claimed, dlv_preX, dlv_preStop, dlv_notifying, dlv_preDec, dlv_dlv1, dlv_dlv2, dlv_dlv3, dlv_fin, forall_const, Bool.false_eq_true, false_implies] at hpp hdd
    invb_fin
  | cSignal j c hc hp =>
    have hm := mem_of_get hc
    have hj := (get_of_some hc).1
    have hpp := cntP_pos hc
    have hdd := cntD_pos hc
    simp only [hp, pend_run, pend_claimed, pend_preX, pend_preStop, pend_notifying, pend_preDec, pend_dlv1, pend_dlv2, pend_dlv3, pend_fin, dlv_run, dlv_claimed, dlv_preX, dlv_preStop, dlv_notifying, dlv_preDec, dlv_dlv1, dlv_dlv2, dlv_dlv3, dlv_fin, forall_const, Bool.false_eq_true, false_implies] at hpp hdd
    invb_fin
  | nTake t k ck hn hcur hk h0 =>
    have hm := mem_of_get hk
    have hj := (get_of_some hk).1
    invb_fin
  | nClaim t k ck hn hcur hk h1 hr =>
    have hnS : t = stopTid cfg → s.stopPh = .notifying := by
      intro e
      rcases hn with ⟨i, ci, g1, g2, g3⟩ | ⟨g1, _⟩
      · exact (nest i ci g1 (g3.trans e) (by simp [g2])).2.2
      · exact g1
    have hm := mem_of_get hk
    have hj := (get_of_some hk).1
    invb_fin
  | nRet t k ck hn hcur hk h1 =>
    have hm := mem_of_get hk
    have hj := (get_of_some hk).1
    invb_fin
  | nRetNested t k ck hn hcur hk h1 hf =>
    have hm := mem_of_get hk
    have hj := (get_of_some hk).1
    invb_fin
  | sBegin hp => invb_fin
  | sCasCb hp hr => invb_fin
  | sCasNo hp hr => invb_fin
  | sAddLate hp hr => invb_fin
  | sAdd hp hr => invb_fin
  | sStopAlready hp ho => invb_fin
  | sStopFirst hp ho => invb_fin
  | sExit hp hcur hg => invb_fin
  | sDecLast hp hr => invb_fin
  | sDec hp hr => invb_fin
  | sDestruct hp => invb_fin
  | sSigStop hp hk hr => invb_fin
  | sNoStop hp hk hr => invb_fin
  | sSignalR hp hk => invb_fin
  | sSignal hp => invb_fin
  | sCbRet hp => invb_fin
  | sRet hp => invb_fin

theorem mem_replicate_init {n : Nat} {c : Child} (h : c ∈ List.replicate n Child.init) : c = Child.init :=
  (List.mem_replicate.mp h).2

theorem invB_init (cfg : Config) : InvB cfg (init cfg) := by
  refine ⟨rfl, by simp [init], ?_, by simp [init], by simp [init], by simp [init], ?_, ?_, by simp [init]⟩
  · intro c hc hp
    rw [mem_replicate_init hc] at hp
    simp [Child.init] at hp
  · intro c hc _
    rw [mem_replicate_init hc]
    rfl
  · intro j c hc he
    have := mem_replicate_init (mem_of_get hc)
    subst this
    simp [Child.init, stopTid] at he

theorem invAB {cfg : Config} (hn : 0 < cfg.n) {s : St} (h : Reach (sys cfg) s) :
    InvA cfg.n s ∧ InvB cfg s :=
  invariant (fun s => InvA cfg.n s ∧ InvB cfg s) ⟨invA_init cfg hn, invB_init cfg⟩
    (fun _ _ _ hi hm =>
      ⟨invA_step hi.1 (step_of_mem_next hm), invB_step hi.1 hi.2 (step_of_mem_next hm)⟩) h

end Unifex.Proto.WhenAll
