/-
  Lemmas/BulkLoop.lean — helper lemmas for Props/C17.lean: normal forms of the GENERATED loop pieces
  (Generated/BulkLoop.lean) and the loops of Proto/Bulk.lean in closed form.
  Only the `*_nf` lemmas look at the generated text; a harmless rewrite of the C++ arithmetic
  regenerates different text and (only) these have to re-prove.
  (Kept out of Proto/Bulk.lean so that the driver, which imports the model only, still builds when a
  change of the C++ makes these lemmas false.)
-/
import UnifexModel.Proto.Bulk

namespace Unifex.Proto.Bulk
open Unifex.Generated.BulkLoop

/-! ### normal forms of the generated pieces
    Everything the theorems need to know about the generated text is in these lemmas; a harmless
    rewrite of the C++ arithmetic regenerates different text and (only) these have to re-prove. -/

/-- unfold the generated pieces, turn Bool equalities into iff, and leave linear arithmetic (with `min`,
    `if`, the chunk-size constant as an atom) to omega -/
macro "bulk_nf" : tactic => `(tactic|
  (simp only [outer_init, outer_cond, outer_step, chunk_end,
      inner_u_init, inner_u_cond, inner_u_step, inner_u_arg, inner_s_init, inner_s_cond, inner_s_step, inner_s_arg,
      plain_u_init, plain_u_cond, plain_u_step, plain_u_arg, plain_s_init, plain_s_cond, plain_s_step, plain_s_arg,
      if_true, if_false, Bool.false_eq_true, reduceCtorEq]
   <;> (repeat' split) <;> first | omega | (refine decide_eq_decide.mpr ?_; omega)))

theorem chunk_pos : 0 < bulk_cancellation_chunk_size := by decide

theorem outer_init_nf (n : Nat) : outer_init n = 0 := by bulk_nf
theorem outer_cond_nf (n cs : Nat) : outer_cond n cs = decide (cs < n) := by bulk_nf
theorem outer_step_nf (n cs : Nat) : outer_step n cs = cs + bulk_cancellation_chunk_size := by bulk_nf
theorem chunk_end_nf (n cs : Nat) : chunk_end n cs = min (cs + bulk_cancellation_chunk_size) n := by bulk_nf
theorem innerInit_nf (u : Bool) (n cs : Nat) : innerInit u n cs = cs := by
  cases u <;> unfold innerInit <;> bulk_nf
theorem innerCond_nf (u : Bool) (n cs i : Nat) :
    innerCond u n cs i = decide (i < min (cs + bulk_cancellation_chunk_size) n) := by
  cases u <;> unfold innerCond <;> bulk_nf
theorem innerStep_nf (u : Bool) (n cs i : Nat) : innerStep u n cs i = i + 1 := by
  cases u <;> unfold innerStep <;> bulk_nf
theorem innerArg_nf (u : Bool) (n cs i : Nat) : innerArg u n cs i = i := by
  cases u <;> unfold innerArg <;> bulk_nf
theorem plainInit_nf (u : Bool) (n : Nat) : plainInit u n = 0 := by
  cases u <;> unfold plainInit <;> bulk_nf
theorem plainCond_nf (u : Bool) (n i : Nat) : plainCond u n i = decide (i < n) := by
  cases u <;> unfold plainCond <;> bulk_nf
theorem plainStep_nf (u : Bool) (n i : Nat) : plainStep u n i = i + 1 := by
  cases u <;> unfold plainStep <;> bulk_nf
theorem plainArg_nf (u : Bool) (n i : Nat) : plainArg u n i = i := by
  cases u <;> unfold plainArg <;> bulk_nf

/-! ### the loops in closed form -/

/-- events `next lo, next (lo+1), …` (`len` of them) -/
def nexts (lo len : Nat) : List Ev := (List.range' lo len).map Ev.next

theorem nexts_zero (lo : Nat) : nexts lo 0 = [] := by simp [nexts]
theorem nexts_succ (lo len : Nat) : nexts lo (len + 1) = Ev.next lo :: nexts (lo + 1) len := by
  simp [nexts, List.range'_succ]
theorem nexts_length (lo len : Nat) : (nexts lo len).length = len := by simp [nexts]
theorem nexts_append (lo a b : Nat) : nexts lo a ++ nexts (lo + a) b = nexts lo (a + b) := by
  simp [nexts, ← List.map_append, List.range'_append_1]

theorem innerLoop_closed (u : Bool) (n cs hi : Nat) (hhi : hi = min (cs + bulk_cancellation_chunk_size) n) :
    ∀ (f i : Nat), hi - i < f → innerLoop u n cs f i = nexts i (hi - i) := by
  intro f
  induction f with
  | zero => intro i h; omega
  | succ f ih =>
    intro i h
    unfold innerLoop
    rw [innerCond_nf, innerStep_nf, innerArg_nf, ← hhi]
    by_cases hlt : i < hi
    · have e : hi - i = (hi - (i + 1)) + 1 := by omega
      rw [if_pos (by simpa using hlt), ih (i + 1) (by omega), e, nexts_succ]
    · have e : hi - i = 0 := by omega
      rw [if_neg (by simpa using hlt), e, nexts_zero]

theorem plainLoop_closed (u : Bool) (n : Nat) :
    ∀ (f i : Nat), n - i < f → plainLoop u n f i = nexts i (n - i) := by
  intro f
  induction f with
  | zero => intro i h; omega
  | succ f ih =>
    intro i h
    unfold plainLoop
    rw [plainCond_nf, plainStep_nf, plainArg_nf]
    by_cases hlt : i < n
    · have e : n - i = (n - (i + 1)) + 1 := by omega
      rw [if_pos (by simpa using hlt), ih (i + 1) (by omega), e, nexts_succ]
    · have e : n - i = 0 := by omega
      rw [if_neg (by simpa using hlt), e, nexts_zero]

/-- closed form of what the chunk loop emits from a chunk boundary `cs` on -/
def outerSpec (stopAt : Option Nat) (n cs : Nat) : List Ev :=
  match stopAt with
  | none => nexts cs (n - cs) ++ [Ev.value]
  | some t =>
    if boundaryAfter t < n then nexts cs (boundaryAfter t - cs) ++ [Ev.done]
    else nexts cs (n - cs) ++ [Ev.value]

theorem boundaryAfter_spec (t : Nat) :
    t ≤ boundaryAfter t ∧ boundaryAfter t < t + bulk_cancellation_chunk_size ∧
    boundaryAfter t % bulk_cancellation_chunk_size = 0 := by
  have hc := chunk_pos
  unfold boundaryAfter
  generalize bulk_cancellation_chunk_size = c at *
  have h1 := Nat.div_add_mod (t + c - 1) c
  have h2 := Nat.mod_lt (t + c - 1) hc
  have h3 : (t + c - 1) / c * c = c * ((t + c - 1) / c) := Nat.mul_comm _ _
  refine ⟨by omega, by omega, ?_⟩
  rw [h3]; exact Nat.mul_mod_right _ _

theorem add_le_of_lt_of_mod (c a b : Nat) (ha : a % c = 0) (hb : b % c = 0) (h : a < b) :
    a + c ≤ b := by
  have h1 := Nat.div_add_mod a c
  have h2 := Nat.div_add_mod b c
  rw [ha] at h1
  rw [hb] at h2
  have hq : a / c < b / c := by
    apply Nat.lt_of_mul_lt_mul_left (a := c)
    omega
  have h3 : c * (a / c + 1) ≤ c * (b / c) := Nat.mul_le_mul_left c hq
  rw [Nat.mul_add] at h3
  omega

theorem outerLoop_closed (u : Bool) (stopAt : Option Nat) (n ifuel : Nat)
    (hif : bulk_cancellation_chunk_size < ifuel) :
    ∀ (f cs visited : Nat), n - cs < f → cs % bulk_cancellation_chunk_size = 0 →
      (cs < n → visited = cs) →
      (∀ t, stopAt = some t → cs ≤ boundaryAfter t) →
      outerLoop u stopAt n ifuel f cs visited = outerSpec stopAt n cs := by
  have hc := chunk_pos
  intro f
  induction f with
  | zero => intro cs v h; omega
  | succ f ih =>
    intro cs v hf hmod hv hb
    unfold outerLoop
    rw [outer_cond_nf, outer_step_nf, innerInit_nf]
    by_cases hlt : cs < n
    · rw [if_pos (by simpa using hlt)]
      have hvis := hv hlt
      rw [hvis]
      -- the chunk body
      have hbody : innerLoop u n cs ifuel cs
          = nexts cs (min (cs + bulk_cancellation_chunk_size) n - cs) :=
        innerLoop_closed u n cs _ rfl ifuel cs (by omega)
      cases stopAt with
      | none =>
        simp only [stopSeen_none, Bool.false_eq_true, if_false]
        rw [hbody, nexts_length]
        rw [ih (cs + bulk_cancellation_chunk_size) _ (by omega)
              (by rw [Nat.add_mod, hmod]; simp) (by intro h; omega) (by intro t h; cases h)]
        simp only [outerSpec]
        rw [← List.append_assoc]
        congr 1
        by_cases hfull : cs + bulk_cancellation_chunk_size ≤ n
        · rw [Nat.min_eq_left hfull]
          have : cs + bulk_cancellation_chunk_size - cs = bulk_cancellation_chunk_size := by omega
          rw [this, nexts_append]
          congr 1; omega
        · rw [Nat.min_eq_right (by omega)]
          have : n - (cs + bulk_cancellation_chunk_size) = 0 := by omega
          rw [this, nexts_zero, List.append_nil]
      | some t =>
        have hbt := hb t rfl
        obtain ⟨b1, b2, b3⟩ := boundaryAfter_spec t
        simp only [stopSeen_some, decide_eq_true_eq]
        by_cases hst : t ≤ cs
        · -- stop seen at this boundary: cs is the first boundary at or after t
          rw [if_pos hst]
          have hbeq : boundaryAfter t = cs := by
            by_cases hne : cs < boundaryAfter t
            · have := add_le_of_lt_of_mod _ _ _ hmod b3 hne
              omega
            · omega
          simp only [outerSpec, hbeq]
          rw [if_pos hlt, Nat.sub_self, nexts_zero, List.nil_append]
        · rw [if_neg hst, hbody, nexts_length]
          -- the next boundary is still ≤ boundaryAfter t
          have hnext : cs + bulk_cancellation_chunk_size ≤ boundaryAfter t :=
            add_le_of_lt_of_mod _ _ _ hmod b3 (by omega)
          rw [ih (cs + bulk_cancellation_chunk_size) _ (by omega)
                (by rw [Nat.add_mod, hmod]; simp) (by intro h; omega)
                (by intro t' h; cases h; exact hnext)]
          simp only [outerSpec]
          by_cases hcut : boundaryAfter t < n
          · rw [if_pos hcut, if_pos hcut, ← List.append_assoc]
            congr 1
            rw [Nat.min_eq_left (by omega)]
            have : cs + bulk_cancellation_chunk_size - cs = bulk_cancellation_chunk_size := by omega
            rw [this, nexts_append]
            congr 1; omega
          · rw [if_neg hcut, if_neg hcut, ← List.append_assoc]
            congr 1
            by_cases hfull : cs + bulk_cancellation_chunk_size ≤ n
            · rw [Nat.min_eq_left hfull]
              have : cs + bulk_cancellation_chunk_size - cs = bulk_cancellation_chunk_size := by omega
              rw [this, nexts_append]
              congr 1; omega
            · rw [Nat.min_eq_right (by omega)]
              have : n - (cs + bulk_cancellation_chunk_size) = 0 := by omega
              rw [this, nexts_zero, List.append_nil]
    · rw [if_neg (by simpa using hlt)]
      have e : n - cs = 0 := by omega
      cases stopAt with
      | none => simp [outerSpec, e, nexts_zero]
      | some t =>
        have hbt := hb t rfl
        simp only [outerSpec]
        rw [if_neg (by omega), e, nexts_zero, List.nil_append]

/-- `run` in closed form -/
theorem run_closed (u stoppable : Bool) (stopAt : Option Nat) (n : Nat) :
    run u stoppable stopAt n
      = if stoppable then outerSpec stopAt n 0 else nexts 0 n ++ [Ev.value] := by
  unfold run
  cases stoppable with
  | true =>
    simp only [if_true]
    rw [outer_init_nf]
    exact outerLoop_closed u stopAt n _ (by omega) (n + 2) 0 0 (by omega) (by simp) (by intro; rfl)
      (by intro t _; exact Nat.zero_le _)
  | false =>
    simp only [Bool.false_eq_true, if_false]
    rw [plainInit_nf, plainLoop_closed u n (n + 2) 0 (by omega)]
    simp

theorem indices_nexts (lo len : Nat) : indices (nexts lo len) = List.range' lo len := by
  induction len generalizing lo with
  | zero => simp [nexts, indices]
  | succ k ih => rw [nexts_succ, indices, ih, List.range'_succ]

theorem indices_append_single (l : List Ev) (e : Ev) (h : ∀ i, e ≠ Ev.next i) :
    indices (l ++ [e]) = indices l := by
  induction l with
  | nil => cases e <;> simp_all [indices]
  | cons a r ih => cases a <;> simp [indices, ih]

end Unifex.Proto.Bulk
