/-
  Lemmas/ClockArith.lean — vocabulary and the proof tactic for the theorems about the GENERATED
  clock arithmetic (Generated/Clock.lean, regenerated from monotonic_clock.hpp on every check).

  `value`      the number of nanoseconds a time_point denotes
  `Canonical`  the normal form `time_point::normalize()` establishes AS THE CODE DEFINES IT:
               |nanoseconds_| < 10^9 and nanoseconds_ has the sign of seconds_ (or seconds_ = 0) —
               a sign-magnitude form, i.e. (seconds_, nanoseconds_) = (v tdiv 10^9, v tmod 10^9);
               NOT `0 ≤ nanoseconds_ < 10^9`.
  `clock_arith` unfolds the generated definitions, turns C++ truncating division into floor
               division with an explicit correction term, splits every `if`, and calls `omega`.
               It does not depend on the shape of the generated text beyond "linear integer
               arithmetic with division by literals".
-/
import UnifexModel.Generated.Clock

namespace Unifex.Lemmas.ClockArith
open Unifex.Generated.Clock

def value (t : TimePoint) : Int := t.seconds_ * 1000000000 + t.nanoseconds_

def Canonical (t : TimePoint) : Prop :=
  -1000000000 < t.nanoseconds_ ∧ t.nanoseconds_ < 1000000000 ∧
  (0 < t.seconds_ → 0 ≤ t.nanoseconds_) ∧ (t.seconds_ < 0 → t.nanoseconds_ ≤ 0)

theorem sign_lit_a : Int.sign 1000000000 = 1 := by decide
theorem sign_lit_b : Int.sign 10000000 = 1 := by decide
theorem sign_lit_c : Int.sign 100 = 1 := by decide
theorem natAbs_lit_a : Int.natAbs 1000000000 = 1000000000 := by decide
theorem natAbs_lit_b : Int.natAbs 10000000 = 10000000 := by decide
theorem natAbs_lit_c : Int.natAbs 100 = 100 := by decide

theorem tp_ext {a b : TimePoint} (h1 : a.seconds_ = b.seconds_) (h2 : a.nanoseconds_ = b.nanoseconds_) : a = b := by
  cases a; cases b; simp_all

theorem bite_eq_true (c : Prop) [Decidable c] (x y : Bool) :
    ((if c then x else y) = true) ↔ ((c ∧ x = true) ∨ (¬ c ∧ y = true)) := by
  by_cases h : c <;> simp [h]
theorem bite_eq_false (c : Prop) [Decidable c] (x y : Bool) :
    ((if c then x else y) = false) ↔ ((c ∧ x = false) ∨ (¬ c ∧ y = false)) := by
  by_cases h : c <;> simp [h]

/-- unfold everything generated -/
macro "clock_unfold" : tactic => `(tactic|
  simp only [normalize, fromSecondsAndNanoseconds, addAssign, subAssign, add, sub, diff,
    Unifex.Generated.Clock.eq, Unifex.Generated.Clock.ne, Unifex.Generated.Clock.lt, Unifex.Generated.Clock.gt,
    Unifex.Generated.Clock.le, Unifex.Generated.Clock.ge, value, Canonical,
    Int.tdiv_eq_ediv, Int.tmod_eq_emod, sign_lit_a, sign_lit_b, sign_lit_c, natAbs_lit_a, natAbs_lit_b, natAbs_lit_c,
    Bool.and_eq_true, Bool.not_eq_true', decide_eq_true_eq, decide_eq_false_iff_not, Bool.not_eq_eq_eq_not,
    Bool.not_true, Bool.not_false, bite_eq_true, bite_eq_false,
    apply_ite TimePoint.seconds_, apply_ite TimePoint.nanoseconds_] at *)

/-- the decision procedure for statements about the generated clock functions -/
macro "clock_arith" : tactic => `(tactic|
  (clock_unfold <;>
   (try simp only [true_and, and_true, not_true_eq_false, not_false_eq_true, false_and, and_false,
      or_false, false_or, or_true, true_or, and_self, Int.lt_irrefl] at *) <;>
   first
   | omega
   | (repeat' split
      all_goals (try simp only [Bool.and_eq_true, Bool.not_eq_true', decide_eq_true_eq, decide_eq_false_iff_not] at *)
      all_goals omega)))

end Unifex.Lemmas.ClockArith
