/-
  Lemmas/RemoteQueueProofs.lean — preservation of the invariant layers of
  Lemmas/RemoteQueueInv.lean by every step of Proto/RemoteQueue.lean (all configurations).
-/
import UnifexModel.Lemmas.RemoteQueueInv

namespace Unifex.Proto.RemoteQueue
open Unifex.Core

theorem getP_setP (s : St) (p q : Nat) (x : Prod) :
    getP (setP s p x) q = if q = p ∧ p < s.prods.length then x else getP s q := by
  by_cases hq : q = p
  · subst hq
    by_cases h : q < s.prods.length
    · simp [getP, setP, List.getD_eq_getElem?_getD, h]
    · simp [getP, setP, List.getD_eq_getElem?_getD, h]
  · simp [getP, setP, List.getD_eq_getElem?_getD, hq, Ne.symm hq]

theorem getP_enqueue (s : St) (t : Nat) (it : Item) (q : Nat) : getP (enqueue s t it) q = getP s q := rfl
theorem getP_signal (s : St) (q : Nat) : getP (signal s) q = getP s q := rfl
theorem len_enqueue (s : St) (t : Nat) (it : Item) : (enqueue s t it).prods.length = s.prods.length := rfl
theorem len_signal (s : St) : (signal s).prods.length = s.prods.length := rfl

theorem next_cases {cfg : Config} {s s' : St} {l : Lbl} (h : (l, s') ∈ (sys cfg).next s) :
    stepStopper cfg s = some (l, s') ∨ stepLoop cfg s = some (l, s') ∨
    ∃ p, p < s.prods.length ∧ stepProd cfg s p = some (l, s') := by
  simp only [sys, List.mem_append, Option.mem_toList, List.mem_filterMap, List.mem_range] at h
  rcases h with (h | h) | h
  · exact Or.inl h
  · exact Or.inr (Or.inl h)
  · exact Or.inr (Or.inr h)

/-! ### Layer A -/

/-- close one step case: `hs : lbl = l ∧ newState = s'` -/
macro "rq_case" hs:ident : tactic => `(tactic| (
  simp only [Option.some.injEq, Prod.mk.injEq] at $hs:ident
  obtain ⟨-, rfl⟩ := $hs:ident
  try simp only [getP_setP, getP_enqueue, getP_signal, len_enqueue, len_signal]
  simp only [getP, setP, enqueue, signal] at *
  repeat' apply And.intro
  all_goals grind))

theorem invA_prod (cfg : Config) (s s' : St) (l : Lbl) (p : Nat) (hp : p < s.prods.length)
    (h : InvA cfg s) (hs : stepProd cfg s p = some (l, s')) : InvA cfg s' := by
  have hpn : p < nprod cfg := h.1 ▸ hp
  unfold InvA at h ⊢
  have hi1 := h.2.1 p hpn
  have hi2 := h.2.2.2.2.2.2.2.2.2.2.2.1 p hpn
  unfold stepProd at hs
  simp only at hs
  split at hs
  · split at hs
    · rq_case hs
    · simp at hs
  · rq_case hs
  · rq_case hs
  · rq_case hs
  · simp at hs

theorem invA_stopper (cfg : Config) (s s' : St) (l : Lbl)
    (h : InvA cfg s) (hs : stepStopper cfg s = some (l, s')) : InvA cfg s' := by
  unfold InvA at h ⊢
  unfold stepStopper at hs
  simp only at hs
  split at hs
  · split at hs
    · rq_case hs
    · simp at hs
  · rq_case hs
  · rq_case hs
  · rq_case hs
  · rq_case hs
  · simp at hs

set_option maxHeartbeats 4000000 in
theorem invA_loop (cfg : Config) (s s' : St) (l : Lbl)
    (h : InvA cfg s) (hs : stepLoop cfg s = some (l, s')) : InvA cfg s' := by
  unfold InvA at h ⊢
  unfold stepLoop at hs
  simp only at hs
  split at hs
  · rq_case hs          -- 0
  · split at hs <;> rq_case hs   -- 1
  · rq_case hs          -- 2
  · rq_case hs          -- 3
  · rq_case hs          -- 4
  · split at hs         -- 5
    · rq_case hs
    · split at hs <;> rq_case hs
  · split at hs         -- 6
    · rq_case hs
    · split at hs <;> rq_case hs
  · split at hs <;> rq_case hs   -- 7
  · split at hs <;> rq_case hs   -- 8
  · rq_case hs          -- 9
  · split at hs         -- 10
    · rq_case hs
    · split at hs
      · rq_case hs
      · simp at hs
  · rq_case hs          -- 11
  · rq_case hs          -- 12
  · simp at hs

/-! ### Layer B (uses A: the batch is empty when a new one is taken) -/

macro "rq_caseB" hs:ident h:ident : tactic => `(tactic| (
  simp only [Option.some.injEq, Prod.mk.injEq] at $hs:ident
  obtain ⟨-, rfl⟩ := $hs:ident
  simp only [InvB, pending, setP, enqueue, signal, List.reverse_cons, List.append_assoc, List.append_nil,
    List.nil_append, List.reverse_nil, List.cons_append] at *
  first
    | exact $h:ident
    | (rw [← $h:ident]; simp only [List.append_assoc, List.cons_append, List.nil_append, List.append_nil]; done)
    | (simp_all [List.append_assoc]; done)))

theorem invB_prod (cfg : Config) (s s' : St) (l : Lbl) (p : Nat)
    (h : InvB s) (hs : stepProd cfg s p = some (l, s')) : InvB s' := by
  unfold stepProd at hs
  simp only at hs
  split at hs
  · split at hs
    · rq_caseB hs h
    · simp at hs
  · rq_caseB hs h
  · rq_caseB hs h
  · rq_caseB hs h
  · simp at hs

theorem invB_stopper (cfg : Config) (s s' : St) (l : Lbl)
    (h : InvB s) (hs : stepStopper cfg s = some (l, s')) : InvB s' := by
  unfold stepStopper at hs
  simp only at hs
  split at hs
  · split at hs
    · rq_caseB hs h
    · simp at hs
  · rq_caseB hs h
  · rq_caseB hs h
  · rq_caseB hs h
  · rq_caseB hs h
  · simp at hs

theorem invB_loop (cfg : Config) (s s' : St) (l : Lbl) (ha : InvA cfg s)
    (h : InvB s) (hs : stepLoop cfg s = some (l, s')) : InvB s' := by
  have hb : s.batch ≠ [] → s.lpc = 5 := ha.2.2.1
  unfold stepLoop at hs
  simp only at hs
  split at hs
  · rq_caseB hs h          -- 0
  · split at hs <;> rq_caseB hs h   -- 1
  · rq_caseB hs h          -- 2
  · rq_caseB hs h          -- 3
  · -- 4
    have : s.batch = [] := by
      by_cases hbe : s.batch = []
      · exact hbe
      · have := hb hbe; omega
    rq_caseB hs h
  · split at hs         -- 5
    · rq_caseB hs h
    · split at hs <;> rq_caseB hs h
  · split at hs         -- 6
    · rq_caseB hs h
    · split at hs <;> rq_caseB hs h
  · split at hs <;> rq_caseB hs h   -- 7
  · split at hs <;> rq_caseB hs h   -- 8
  · rq_caseB hs h          -- 9
  · split at hs         -- 10
    · rq_caseB hs h
    · split at hs
      · rq_caseB hs h
      · simp at hs
  · rq_caseB hs h          -- 11
  · rq_caseB hs h          -- 12
  · simp at hs

end Unifex.Proto.RemoteQueue
