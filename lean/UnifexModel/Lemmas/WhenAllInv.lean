/-
  Lemmas/WhenAllInv.lean — inductive invariants of the when_all completion protocol
  (Proto/WhenAll.lean), parametric in the number of children, the configuration and the schedule.
-/
import UnifexModel.Proto.WhenAll

namespace Unifex.Proto.WhenAll
open Unifex.Core

/-! ### counting -/

/-- the child still owns a unit of `refCount_` -/
def CPh.pend : CPh → Bool
  | .run | .claimed | .preX | .preStop | .notifying | .preDec => true
  | _ => false

/-- the child was elected and is inside `deliver_result()` -/
def CPh.dlv : CPh → Bool
  | .dlv1 | .dlv2 => true
  | _ => false

/-- the stop callback owns a unit of `refCount_` (between its fetch_add and its fetch_sub) -/
def SPh.hold : SPh → Nat
  | .preOwnStop | .notifying | .preDec => 1
  | _ => 0

def SPh.sd : SPh → Nat
  | .dlv1 | .dlv2 => 1
  | _ => 0

def cntP (ch : List Child) : Nat := ch.countP (fun c => c.ph.pend)
def cntD (ch : List Child) : Nat := ch.countP (fun c => c.ph.dlv)

theorem get_of_some {ch : List Child} {j : Nat} {c : Child} (h : ch[j]? = some c) :
    ∃ hj : j < ch.length, ch[j] = c := List.getElem?_eq_some_iff.mp h

theorem cntP_set {ch : List Child} {j : Nat} {c c' : Child} (h : ch[j]? = some c) :
    cntP (ch.set j c') = cntP ch - (if c.ph.pend then 1 else 0) + (if c'.ph.pend then 1 else 0) := by
  obtain ⟨hj, he⟩ := get_of_some h
  unfold cntP
  rw [List.countP_set hj, he]

theorem cntD_set {ch : List Child} {j : Nat} {c c' : Child} (h : ch[j]? = some c) :
    cntD (ch.set j c') = cntD ch - (if c.ph.dlv then 1 else 0) + (if c'.ph.dlv then 1 else 0) := by
  obtain ⟨hj, he⟩ := get_of_some h
  unfold cntD
  rw [List.countP_set hj, he]

theorem cntP_pos {ch : List Child} {j : Nat} {c : Child} (h : ch[j]? = some c) (hp : c.ph.pend = true) :
    1 ≤ cntP ch := by
  obtain ⟨hj, he⟩ := get_of_some h
  unfold cntP
  exact List.countP_pos_iff.mpr ⟨ch[j], List.getElem_mem hj, by rw [he]; exact hp⟩

theorem cntD_pos {ch : List Child} {j : Nat} {c : Child} (h : ch[j]? = some c) (hp : c.ph.dlv = true) :
    1 ≤ cntD ch := by
  obtain ⟨hj, he⟩ := get_of_some h
  unfold cntD
  exact List.countP_pos_iff.mpr ⟨ch[j], List.getElem_mem hj, by rw [he]; exact hp⟩

/-! ### projections of `touch` -/

section touch
variable (s : St)
@[simp] theorem touch_refCount : (touch s).refCount = s.refCount := by unfold touch; split <;> rfl
@[simp] theorem touch_doe : (touch s).doe = s.doe := by unfold touch; split <;> rfl
@[simp] theorem touch_err : (touch s).err = s.err := by unfold touch; split <;> rfl
@[simp] theorem touch_ownStop : (touch s).ownStop = s.ownStop := by unfold touch; split <;> rfl
@[simp] theorem touch_cur : (touch s).cur = s.cur := by unfold touch; split <;> rfl
@[simp] theorem touch_notifyDone : (touch s).notifyDone = s.notifyDone := by unfold touch; split <;> rfl
@[simp] theorem touch_cbReg : (touch s).cbReg = s.cbReg := by unfold touch; split <;> rfl
@[simp] theorem touch_cbRunning : (touch s).cbRunning = s.cbRunning := by unfold touch; split <;> rfl
@[simp] theorem touch_recvStop : (touch s).recvStop = s.recvStop := by unfold touch; split <;> rfl
@[simp] theorem touch_stopPh : (touch s).stopPh = s.stopPh := by unfold touch; split <;> rfl
@[simp] theorem touch_ch : (touch s).ch = s.ch := by unfold touch; split <;> rfl
@[simp] theorem touch_zeroed : (touch s).zeroed = s.zeroed := by unfold touch; split <;> rfl
@[simp] theorem touch_delivered : (touch s).delivered = s.delivered := by unfold touch; split <;> rfl
@[simp] theorem touch_result : (touch s).result = s.result := by unfold touch; split <;> rfl
@[simp] theorem touch_dlvBy : (touch s).dlvBy = s.dlvBy := by unfold touch; split <;> rfl
@[simp] theorem touch_recvAtDlv : (touch s).recvAtDlv = s.recvAtDlv := by unfold touch; split <;> rfl
@[simp] theorem touch_firstFail : (touch s).firstFail = s.firstFail := by unfold touch; split <;> rfl
theorem touch_bad_of_undelivered (h : s.delivered = 0) : (touch s).bad = s.bad := by
  unfold touch; simp [h]
end touch

/-! ### layer A: the arithmetic of `refCount_` -/

structure InvA (n : Nat) (s : St) : Prop where
  len : s.ch.length = n
  rc : s.zeroed = false → s.refCount = cntP s.ch + s.stopPh.hold ∧ 1 ≤ s.refCount
  z : s.zeroed = true → cntP s.ch = 0 ∧ s.stopPh.hold = 0 ∧ s.refCount ≤ 1
  one : cntD s.ch + s.stopPh.sd + s.delivered = (if s.zeroed then 1 else 0)

theorem cntP_replicate_init (n : Nat) : cntP (List.replicate n Child.init) = n := by
  unfold cntP
  rw [List.countP_replicate]
  simp [Child.init, CPh.pend]

theorem cntD_replicate_init (n : Nat) : cntD (List.replicate n Child.init) = 0 := by
  unfold cntD
  rw [List.countP_replicate]
  simp [Child.init, CPh.dlv]

theorem invA_init (cfg : Config) (hn : 0 < cfg.n) : InvA cfg.n (init cfg) := by
  refine ⟨by simp [init], ?_, by simp [init], ?_⟩
  · intro _
    simp only [init, cntP_replicate_init, SPh.hold]
    omega
  · simp [init, cntD_replicate_init, SPh.sd]

end Unifex.Proto.WhenAll
