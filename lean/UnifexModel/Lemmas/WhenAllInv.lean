/-
  Lemmas/WhenAllInv.lean — inductive invariants of the when_all completion protocol
  (Proto/WhenAll.lean), parametric in the number of children, the configuration and the schedule.
-/
import UnifexModel.Proto.WhenAll

namespace Unifex.Proto.WhenAll
open Unifex.Core

/-! ### counting -/

/-- the child still owns a unit of `refCount_` -/
def CPh.pend : CPh → Bool
  | .run | .claimed | .preX | .preStop | .notifying | .preDec => true
  | _ => false

/-- the child was elected and is inside `deliver_result()` -/
def CPh.dlv : CPh → Bool
  | .dlv1 | .dlv2 | .dlv3 => true
  | _ => false

/-- the stop callback owns a unit of `refCount_` (between its fetch_add and its fetch_sub) -/
def SPh.hold : SPh → Nat
  | .preOwnStop | .notifying | .preDec => 1
  | _ => 0

/-- the stop callback has not yet done its `fetch_add` -/
def SPh.early : SPh → Bool
  | .idle | .begun | .cbEnter => true
  | _ => false

def SPh.sd : SPh → Nat
  | .dlv1 | .dlv2 | .dlv3 => 1
  | _ => 0

/-! ### evaluation lemmas for the phase classifiers (so that `simp` never unfolds them on a variable) -/

@[simp] theorem pend_run : CPh.pend .run = true := rfl
@[simp] theorem dlv_run : CPh.dlv .run = false := rfl
@[simp] theorem pend_claimed : CPh.pend .claimed = true := rfl
@[simp] theorem dlv_claimed : CPh.dlv .claimed = false := rfl
@[simp] theorem pend_preX : CPh.pend .preX = true := rfl
@[simp] theorem dlv_preX : CPh.dlv .preX = false := rfl
@[simp] theorem pend_preStop : CPh.pend .preStop = true := rfl
@[simp] theorem dlv_preStop : CPh.dlv .preStop = false := rfl
@[simp] theorem pend_notifying : CPh.pend .notifying = true := rfl
@[simp] theorem dlv_notifying : CPh.dlv .notifying = false := rfl
@[simp] theorem pend_preDec : CPh.pend .preDec = true := rfl
@[simp] theorem dlv_preDec : CPh.dlv .preDec = false := rfl
@[simp] theorem pend_dlv1 : CPh.pend .dlv1 = false := rfl
@[simp] theorem dlv_dlv1 : CPh.dlv .dlv1 = true := rfl
@[simp] theorem pend_dlv2 : CPh.pend .dlv2 = false := rfl
@[simp] theorem dlv_dlv2 : CPh.dlv .dlv2 = true := rfl
@[simp] theorem pend_fin : CPh.pend .fin = false := rfl
@[simp] theorem pend_dlv3 : CPh.pend .dlv3 = false := rfl
@[simp] theorem dlv_dlv3 : CPh.dlv .dlv3 = true := rfl
@[simp] theorem dlv_fin : CPh.dlv .fin = false := rfl
@[simp] theorem hold_idle : SPh.hold .idle = 0 := rfl
@[simp] theorem sd_idle : SPh.sd .idle = 0 := rfl
@[simp] theorem hold_begun : SPh.hold .begun = 0 := rfl
@[simp] theorem sd_begun : SPh.sd .begun = 0 := rfl
@[simp] theorem hold_cbEnter : SPh.hold .cbEnter = 0 := rfl
@[simp] theorem sd_cbEnter : SPh.sd .cbEnter = 0 := rfl
@[simp] theorem hold_preOwnStop : SPh.hold .preOwnStop = 1 := rfl
@[simp] theorem sd_preOwnStop : SPh.sd .preOwnStop = 0 := rfl
@[simp] theorem hold_notifying : SPh.hold .notifying = 1 := rfl
@[simp] theorem sd_notifying : SPh.sd .notifying = 0 := rfl
@[simp] theorem hold_preDec : SPh.hold .preDec = 1 := rfl
@[simp] theorem sd_preDec : SPh.sd .preDec = 0 := rfl
@[simp] theorem hold_dlv1 : SPh.hold .dlv1 = 0 := rfl
@[simp] theorem sd_dlv1 : SPh.sd .dlv1 = 1 := rfl
@[simp] theorem hold_dlv2 : SPh.hold .dlv2 = 0 := rfl
@[simp] theorem sd_dlv2 : SPh.sd .dlv2 = 1 := rfl
@[simp] theorem hold_cbRet : SPh.hold .cbRet = 0 := rfl
@[simp] theorem sd_cbRet : SPh.sd .cbRet = 0 := rfl
@[simp] theorem hold_ret : SPh.hold .ret = 0 := rfl
@[simp] theorem sd_ret : SPh.sd .ret = 0 := rfl
@[simp] theorem hold_fin : SPh.hold .fin = 0 := rfl
@[simp] theorem hold_dlv3 : SPh.hold .dlv3 = 0 := rfl
@[simp] theorem sd_dlv3 : SPh.sd .dlv3 = 1 := rfl
@[simp] theorem early_dlv3 : SPh.early .dlv3 = false := rfl
@[simp] theorem sd_fin : SPh.sd .fin = 0 := rfl

@[simp] theorem early_idle : SPh.early .idle = true := rfl
@[simp] theorem early_begun : SPh.early .begun = true := rfl
@[simp] theorem early_cbEnter : SPh.early .cbEnter = true := rfl
@[simp] theorem early_preOwnStop : SPh.early .preOwnStop = false := rfl
@[simp] theorem early_notifying : SPh.early .notifying = false := rfl
@[simp] theorem early_preDec : SPh.early .preDec = false := rfl
@[simp] theorem early_dlv1 : SPh.early .dlv1 = false := rfl
@[simp] theorem early_dlv2 : SPh.early .dlv2 = false := rfl
@[simp] theorem early_cbRet : SPh.early .cbRet = false := rfl
@[simp] theorem early_ret : SPh.early .ret = false := rfl
@[simp] theorem early_fin : SPh.early .fin = false := rfl

def cntP (ch : List Child) : Nat := ch.countP (fun c => c.ph.pend)
def cntD (ch : List Child) : Nat := ch.countP (fun c => c.ph.dlv)

theorem get_of_some {ch : List Child} {j : Nat} {c : Child} (h : ch[j]? = some c) :
    ∃ hj : j < ch.length, ch[j] = c := List.getElem?_eq_some_iff.mp h

theorem cntP_set {ch : List Child} {j : Nat} {c c' : Child} (h : ch[j]? = some c) :
    cntP (ch.set j c') = cntP ch - (if c.ph.pend then 1 else 0) + (if c'.ph.pend then 1 else 0) := by
  obtain ⟨hj, he⟩ := get_of_some h
  unfold cntP
  rw [List.countP_set hj, he]

theorem cntD_set {ch : List Child} {j : Nat} {c c' : Child} (h : ch[j]? = some c) :
    cntD (ch.set j c') = cntD ch - (if c.ph.dlv then 1 else 0) + (if c'.ph.dlv then 1 else 0) := by
  obtain ⟨hj, he⟩ := get_of_some h
  unfold cntD
  rw [List.countP_set hj, he]

theorem cntP_pos {ch : List Child} {j : Nat} {c : Child} (h : ch[j]? = some c) (hp : c.ph.pend = true) :
    1 ≤ cntP ch := by
  obtain ⟨hj, he⟩ := get_of_some h
  unfold cntP
  exact List.countP_pos_iff.mpr ⟨ch[j], List.getElem_mem hj, by rw [he]; exact hp⟩

theorem cntD_pos {ch : List Child} {j : Nat} {c : Child} (h : ch[j]? = some c) (hp : c.ph.dlv = true) :
    1 ≤ cntD ch := by
  obtain ⟨hj, he⟩ := get_of_some h
  unfold cntD
  exact List.countP_pos_iff.mpr ⟨ch[j], List.getElem_mem hj, by rw [he]; exact hp⟩

theorem cntP_set_same {ch : List Child} {j : Nat} {c c' : Child} (h : ch[j]? = some c)
    (hp : c'.ph = c.ph) : cntP (ch.set j c') = cntP ch := by
  rw [cntP_set h, hp]
  cases hq : c.ph.pend
  · simp
  · have := cntP_pos h hq
    simp only [if_true]
    omega

theorem cntD_set_same {ch : List Child} {j : Nat} {c c' : Child} (h : ch[j]? = some c)
    (hp : c'.ph = c.ph) : cntD (ch.set j c') = cntD ch := by
  rw [cntD_set h, hp]
  cases hq : c.ph.dlv
  · simp
  · have := cntD_pos h hq
    simp only [if_true]
    omega

/-! ### projections of `touch` -/

section touch
variable (s : St)
@[simp] theorem touch_refCount : (touch s).refCount = s.refCount := by unfold touch; split <;> rfl
@[simp] theorem touch_doe : (touch s).doe = s.doe := by unfold touch; split <;> rfl
@[simp] theorem touch_err : (touch s).err = s.err := by unfold touch; split <;> rfl
@[simp] theorem touch_ownStop : (touch s).ownStop = s.ownStop := by unfold touch; split <;> rfl
@[simp] theorem touch_cur : (touch s).cur = s.cur := by unfold touch; split <;> rfl
@[simp] theorem touch_notifyDone : (touch s).notifyDone = s.notifyDone := by unfold touch; split <;> rfl
@[simp] theorem touch_cbReg : (touch s).cbReg = s.cbReg := by unfold touch; split <;> rfl
@[simp] theorem touch_cbRunning : (touch s).cbRunning = s.cbRunning := by unfold touch; split <;> rfl
@[simp] theorem touch_recvStop : (touch s).recvStop = s.recvStop := by unfold touch; split <;> rfl
@[simp] theorem touch_stopPh : (touch s).stopPh = s.stopPh := by unfold touch; split <;> rfl
@[simp] theorem touch_ch : (touch s).ch = s.ch := by unfold touch; split <;> rfl
@[simp] theorem touch_zeroed : (touch s).zeroed = s.zeroed := by unfold touch; split <;> rfl
@[simp] theorem touch_delivered : (touch s).delivered = s.delivered := by unfold touch; split <;> rfl
@[simp] theorem touch_result : (touch s).result = s.result := by unfold touch; split <;> rfl
@[simp] theorem touch_dlvBy : (touch s).dlvBy = s.dlvBy := by unfold touch; split <;> rfl
@[simp] theorem touch_recvAtDlv : (touch s).recvAtDlv = s.recvAtDlv := by unfold touch; split <;> rfl
@[simp] theorem touch_firstFail : (touch s).firstFail = s.firstFail := by unfold touch; split <;> rfl
theorem touch_bad_of_undelivered (h : s.delivered = 0) : (touch s).bad = s.bad := by
  unfold touch; simp [h]
end touch

/-! ### layer A: the arithmetic of `refCount_` -/

structure InvA (n : Nat) (s : St) : Prop where
  len : s.ch.length = n
  rc : s.zeroed = false → s.refCount = cntP s.ch + s.stopPh.hold ∧ 1 ≤ s.refCount
  z : s.zeroed = true → cntP s.ch = 0 ∧ s.stopPh.hold = 0 ∧ s.refCount ≤ 1 ∧
    (s.stopPh.early = true → s.refCount = 0)
  one : cntD s.ch + s.stopPh.sd + s.delivered = (if s.zeroed then 1 else 0)

theorem cntP_replicate_init (n : Nat) : cntP (List.replicate n Child.init) = n := by
  unfold cntP
  rw [List.countP_replicate]
  simp [Child.init, CPh.pend]

theorem cntD_replicate_init (n : Nat) : cntD (List.replicate n Child.init) = 0 := by
  unfold cntD
  rw [List.countP_replicate]
  simp [Child.init, CPh.dlv]

theorem invA_init (cfg : Config) (hn : 0 < cfg.n) : InvA cfg.n (init cfg) := by
  refine ⟨by simp [init], ?_, by simp [init], ?_⟩
  · intro _
    simp only [init, cntP_replicate_init, SPh.hold]
    omega
  · simp [init, cntD_replicate_init, SPh.sd]

/-! ### shape of the steps -/

theorem mem_next {cfg : Config} {s s' : St} {l : Lbl} (h : (l, s') ∈ (sys cfg).next s) :
    (∃ j, j < s.ch.length ∧ (l, s') ∈ stepChild cfg s j) ∨ (l, s') ∈ stepStop cfg s := by
  simp only [sys, List.mem_append, List.mem_flatMap, List.mem_range] at h
  rcases h with ⟨j, hj, h⟩ | h
  · exact .inl ⟨j, hj, h⟩
  · exact .inr h

theorem mem_takeSteps {s s' : St} {t : Nat} {l : Lbl} (h : (l, s') ∈ takeSteps s t) :
    ∃ k c, s.ch[k]? = some c ∧ c.cbst = 0 ∧
      s' = { setCh s k { c with cbst := 1, notified := true } with cur := some k } := by
  simp only [takeSteps, List.mem_filterMap, List.mem_range] at h
  obtain ⟨k, _, h⟩ := h
  cases hc : s.ch[k]? with
  | none => simp [hc] at h
  | some c =>
    simp only [hc] at h
    by_cases h0 : c.cbst = 0
    · simp only [h0, if_true, Option.some.injEq, Prod.mk.injEq] at h
      exact ⟨k, c, hc, h0, h.2.symm⟩
    · simp [h0] at h

/-- the three things the body of a leaf's stop callback can do -/
inductive CbBody (cfg : Config) (s : St) (t k : Nat) (s' : St) : Prop
  | claim (c : Child) (hc : s.ch[k]? = some c) (h1 : c.cbst = 1) (hr : c.ph = .run)
      (e : s' = setCh s k { c with ph := .preX, exec := t, out := .done, cbst := 2 })
  | ret (c : Child) (hc : s.ch[k]? = some c) (h1 : c.cbst = 1)
      (e : s' = { setCh s k { c with cbst := 2 } with cur := none })
  | retNested (c : Child) (hc : s.ch[k]? = some c) (h1 : c.cbst ≠ 1) (hf : c.ph = .fin)
      (e : s' = { s with cur := none })

theorem mem_cbBodySteps {cfg : Config} {s s' : St} {t k : Nat} {l : Lbl}
    (h : (l, s') ∈ cbBodySteps cfg s t k) : CbBody cfg s t k s' := by
  unfold cbBodySteps at h
  cases hc : s.ch[k]? with
  | none => simp [hc] at h
  | some c =>
    simp only [hc] at h
    by_cases h1 : c.cbst = 1
    · simp only [h1, if_true] at h
      by_cases h2 : cfg.inl.getD k false = true ∧ c.ph = .run
      · simp only [h2, and_self, if_true, List.mem_singleton, Prod.mk.injEq] at h
        exact .claim c hc h1 h2.2 h.2
      · rw [if_neg h2] at h; simp only [List.mem_singleton, Prod.mk.injEq] at h
        exact .ret c hc h1 h.2
    · rw [if_neg h1] at h
      by_cases h3 : c.ph = .fin
      · rw [if_pos h3] at h; simp only [List.mem_singleton, Prod.mk.injEq] at h
        exact .retNested c hc h1 h3 h.2
      · simp [h3] at h

/-- thread `t` is inside `stopSource_.request_stop()` as the first requester -/
def Notifier (cfg : Config) (s : St) (t : Nat) : Prop :=
  (∃ (j : Nat) (c : Child), s.ch[j]? = some c ∧ c.ph = CPh.notifying ∧ c.exec = t) ∨
    (s.stopPh = SPh.notifying ∧ t = stopTid cfg)

/-- every transition of the model in explicit form (`step_of_mem_next` shows the list is complete) -/
inductive Step (cfg : Config) (s : St) : St → Prop
  -- completion of child j
  | cClaim (j : Nat) (c : Child) (o : Out) (hc : s.ch[j]? = some c) (hp : c.ph = .run)
      (ho : cfg.outs.getD j none = some o) :
      Step cfg s (setCh s j { c with ph := .claimed, exec := j + 1, out := o })
  | cDereg (j : Nat) (c : Child) (hc : s.ch[j]? = some c) (hp : c.ph = .claimed) (hcb : c.cbst ≠ 1) :
      Step cfg s (setCh s j { c with ph := .preX, cbst := 2 })
  | cNoX (j : Nat) (c : Child) (hc : s.ch[j]? = some c) (hp : c.ph = .preX)
      (hv : c.out = .value ∨ s.doe = true) :
      Step cfg s (setCh (touch s) j { c with ph := .preDec })
  | cXwin (j : Nat) (c : Child) (hc : s.ch[j]? = some c) (hp : c.ph = .preX)
      (hv : c.out ≠ .value) (hd : s.doe = false) :
      Step cfg s (setCh { touch s with doe := true, err := if c.out = .error then some j else none,
                                       firstFail := some j } j { c with ph := .preStop })
  | cStopAlready (j : Nat) (c : Child) (hc : s.ch[j]? = some c) (hp : c.ph = .preStop)
      (ho : s.ownStop = true) :
      Step cfg s (setCh (touch s) j { c with ph := .preDec })
  | cStopFirst (j : Nat) (c : Child) (hc : s.ch[j]? = some c) (hp : c.ph = .preStop)
      (ho : s.ownStop = false) :
      Step cfg s (setCh { touch s with ownStop := true } j { c with ph := .notifying })
  | cExit (j : Nat) (c : Child) (hc : s.ch[j]? = some c) (hp : c.ph = .notifying)
      (hcur : s.cur = none) (hg : allGone s = true) :
      Step cfg s (setCh { touch s with notifyDone := true } j { c with ph := .preDec })
  | cDecLast (j : Nat) (c : Child) (hc : s.ch[j]? = some c) (hp : c.ph = .preDec)
      (hr : s.refCount = 1) :
      Step cfg s (setCh { touch s with refCount := 0, zeroed := true } j { c with ph := .dlv1 })
  | cDec (j : Nat) (c : Child) (hc : s.ch[j]? = some c) (hp : c.ph = .preDec)
      (hr : s.refCount ≠ 1) :
      Step cfg s (setCh { touch s with refCount := s.refCount - 1 } j { c with ph := .fin })
  | cDestruct (j : Nat) (c : Child) (hc : s.ch[j]? = some c) (hp : c.ph = .dlv1)
      (hb : ¬(s.cbRunning = true ∧ c.exec ≠ stopTid cfg)) :
      Step cfg s (setCh { touch s with cbReg := false } j { c with ph := .dlv2 })
  | cSigStop (j : Nat) (c : Child) (hc : s.ch[j]? = some c) (hp : c.ph = .dlv2)
      (hk : cfg.checksRecv = true) (hr : s.recvStop = true) :
      Step cfg s (setCh { signalSt s c.exec .done with recvAtDlv := true } j { c with ph := .fin })
  | cNoStop (j : Nat) (c : Child) (hc : s.ch[j]? = some c) (hp : c.ph = .dlv2)
      (hk : cfg.checksRecv = true) (hr : s.recvStop = false) :
      Step cfg s (setCh (touch s) j { c with ph := .dlv3 })
  | cSignalR (j : Nat) (c : Child) (hc : s.ch[j]? = some c) (hp : c.ph = .dlv2)
      (hk : cfg.checksRecv = false) :
      Step cfg s (setCh (signalSt s c.exec (resByDoe s)) j { c with ph := .fin })
  | cSignal (j : Nat) (c : Child) (hc : s.ch[j]? = some c) (hp : c.ph = .dlv3) :
      Step cfg s (setCh (signalSt s c.exec (resByDoe s)) j { c with ph := .fin })
  -- the first requester of the operation's own stop source (a child or the stop callback)
  | nTake (t k : Nat) (ck : Child) (hn : Notifier cfg s t) (hcur : s.cur = none)
      (hk : s.ch[k]? = some ck) (h0 : ck.cbst = 0) :
      Step cfg s { setCh s k { ck with cbst := 1, notified := true } with cur := some k }
  | nClaim (t k : Nat) (ck : Child) (hn : Notifier cfg s t) (hcur : s.cur = some k)
      (hk : s.ch[k]? = some ck) (h1 : ck.cbst = 1) (hr : ck.ph = .run) :
      Step cfg s (setCh s k { ck with ph := .preX, exec := t, out := .done, cbst := 2 })
  | nRet (t k : Nat) (ck : Child) (hn : Notifier cfg s t) (hcur : s.cur = some k)
      (hk : s.ch[k]? = some ck) (h1 : ck.cbst = 1) :
      Step cfg s { setCh s k { ck with cbst := 2 } with cur := none }
  | nRetNested (t k : Nat) (ck : Child) (hn : Notifier cfg s t) (hcur : s.cur = some k)
      (hk : s.ch[k]? = some ck) (h1 : ck.cbst ≠ 1) (hf : ck.ph = .fin) :
      Step cfg s { s with cur := none }
  -- the external stop thread
  | sBegin (hp : s.stopPh = .idle) : Step cfg s { s with stopPh := .begun }
  | sCasCb (hp : s.stopPh = .begun) (hr : s.cbReg = true) :
      Step cfg s { s with recvStop := true, cbRunning := true, stopPh := .cbEnter }
  | sCasNo (hp : s.stopPh = .begun) (hr : s.cbReg = false) :
      Step cfg s { s with recvStop := true, stopPh := .ret }
  | sAddLate (hp : s.stopPh = .cbEnter) (hr : s.refCount = 0) :
      Step cfg s { touch s with refCount := 1, stopPh := .cbRet }
  | sAdd (hp : s.stopPh = .cbEnter) (hr : s.refCount ≠ 0) :
      Step cfg s { touch s with refCount := s.refCount + 1, stopPh := .preOwnStop }
  | sStopAlready (hp : s.stopPh = .preOwnStop) (ho : s.ownStop = true) :
      Step cfg s { touch s with stopPh := .preDec }
  | sStopFirst (hp : s.stopPh = .preOwnStop) (ho : s.ownStop = false) :
      Step cfg s { touch s with ownStop := true, stopPh := .notifying }
  | sExit (hp : s.stopPh = .notifying) (hcur : s.cur = none) (hg : allGone s = true) :
      Step cfg s { touch s with notifyDone := true, stopPh := .preDec }
  | sDecLast (hp : s.stopPh = .preDec) (hr : s.refCount = 1) :
      Step cfg s { touch s with refCount := 0, zeroed := true, stopPh := .dlv1 }
  | sDec (hp : s.stopPh = .preDec) (hr : s.refCount ≠ 1) :
      Step cfg s { touch s with refCount := s.refCount - 1, stopPh := .cbRet }
  | sDestruct (hp : s.stopPh = .dlv1) : Step cfg s { touch s with cbReg := false, stopPh := .dlv2 }
  | sSigStop (hp : s.stopPh = .dlv2) (hk : cfg.checksRecv = true) (hr : s.recvStop = true) :
      Step cfg s { signalSt s (stopTid cfg) .done with recvAtDlv := true, stopPh := .cbRet }
  | sNoStop (hp : s.stopPh = .dlv2) (hk : cfg.checksRecv = true) (hr : s.recvStop = false) :
      Step cfg s { touch s with stopPh := .dlv3 }
  | sSignalR (hp : s.stopPh = .dlv2) (hk : cfg.checksRecv = false) :
      Step cfg s { signalSt s (stopTid cfg) (resByDoe s) with stopPh := .cbRet }
  | sSignal (hp : s.stopPh = .dlv3) :
      Step cfg s { signalSt s (stopTid cfg) (resByDoe s) with stopPh := .cbRet }
  | sCbRet (hp : s.stopPh = .cbRet) : Step cfg s { s with cbRunning := false, stopPh := .ret }
  | sRet (hp : s.stopPh = .ret) : Step cfg s { s with stopPh := .fin }

theorem step_of_cbBody {cfg : Config} {s s' : St} {t k : Nat} (hn : Notifier cfg s t)
    (hcur : s.cur = some k) (h : CbBody cfg s t k s') : Step cfg s s' := by
  cases h with
  | claim c hc h1 hr e => exact e ▸ .nClaim t k c hn hcur hc h1 hr
  | ret c hc h1 e => exact e ▸ .nRet t k c hn hcur hc h1
  | retNested c hc h1 hf e => exact e ▸ .nRetNested t k c hn hcur hc h1 hf

theorem step_of_stepChild {cfg : Config} {s s' : St} {l : Lbl} {j : Nat}
    (h : (l, s') ∈ stepChild cfg s j) : Step cfg s s' := by
  unfold stepChild at h
  cases hc : s.ch[j]? with
  | none => simp [hc] at h
  | some c =>
    simp only [hc] at h
    cases hp : c.ph <;> simp only [hp] at h
    case run =>
      split at h
      · simp at h
      · rename_i o ho
        simp only [List.mem_singleton, Prod.mk.injEq] at h
        exact h.2 ▸ .cClaim j c o hc hp (by rw [List.getD_eq_getElem?_getD]; exact ho)
    case claimed =>
      by_cases h1 : c.cbst = 1
      · simp [h1] at h
      · rw [if_neg h1] at h; simp only [List.mem_singleton, Prod.mk.injEq] at h
        exact h.2 ▸ .cDereg j c hc hp h1
    case preX =>
      by_cases hv : c.out = .value
      · rw [if_pos hv] at h; simp only [List.mem_singleton, Prod.mk.injEq] at h
        exact h.2 ▸ .cNoX j c hc hp (.inl hv)
      · rw [if_neg hv] at h
        by_cases hd : s.doe = true
        · rw [if_pos hd] at h; simp only [List.mem_singleton, Prod.mk.injEq] at h
          exact h.2 ▸ .cNoX j c hc hp (.inr hd)
        · rw [if_neg hd] at h; simp only [List.mem_singleton, Prod.mk.injEq] at h
          exact h.2 ▸ .cXwin j c hc hp hv (by simpa using hd)
    case preStop =>
      by_cases ho : s.ownStop = true
      · rw [if_pos ho] at h; simp only [List.mem_singleton, Prod.mk.injEq] at h
        exact h.2 ▸ .cStopAlready j c hc hp ho
      · rw [if_neg ho] at h; simp only [List.mem_singleton, Prod.mk.injEq] at h
        exact h.2 ▸ .cStopFirst j c hc hp (by simpa using ho)
    case notifying =>
      have hn : Notifier cfg s c.exec := by unfold Notifier; exact Or.inl ⟨j, c, hc, hp, rfl⟩
      cases hcur : s.cur with
      | some k =>
        simp only [hcur] at h
        exact step_of_cbBody hn hcur (mem_cbBodySteps h)
      | none =>
        simp only [hcur] at h
        by_cases hg : allGone s = true
        · rw [if_pos hg] at h; simp only [List.mem_singleton, Prod.mk.injEq] at h
          exact h.2 ▸ .cExit j c hc hp hcur hg
        · rw [if_neg hg] at h
          obtain ⟨k, ck, hk, h0, e⟩ := mem_takeSteps h
          exact e ▸ .nTake c.exec k ck hn hcur hk h0
    case preDec =>
      by_cases hr : s.refCount = 1
      · rw [if_pos hr] at h; simp only [List.mem_singleton, Prod.mk.injEq] at h
        have := Step.cDecLast (cfg := cfg) j c hc hp hr
        exact h.2 ▸ this
      · rw [if_neg hr] at h; simp only [List.mem_singleton, Prod.mk.injEq] at h
        exact h.2 ▸ .cDec j c hc hp hr
    case dlv1 =>
      by_cases hb : s.cbRunning = true ∧ c.exec ≠ stopTid cfg
      · simp [hb] at h
      · rw [if_neg hb] at h; simp only [List.mem_singleton, Prod.mk.injEq] at h
        exact h.2 ▸ .cDestruct j c hc hp hb
    case dlv2 =>
      by_cases hk : cfg.checksRecv = true
      · rw [if_pos hk] at h
        by_cases hr : s.recvStop = true
        · rw [if_pos hr] at h; simp only [List.mem_singleton, Prod.mk.injEq] at h
          exact h.2 ▸ .cSigStop j c hc hp hk hr
        · rw [if_neg hr] at h; simp only [List.mem_singleton, Prod.mk.injEq] at h
          exact h.2 ▸ .cNoStop j c hc hp hk (by simpa using hr)
      · rw [if_neg hk] at h; simp only [List.mem_singleton, Prod.mk.injEq] at h
        exact h.2 ▸ .cSignalR j c hc hp (by simpa using hk)
    case dlv3 =>
      simp only [List.mem_singleton, Prod.mk.injEq] at h
      exact h.2 ▸ .cSignal j c hc hp
    case fin => simp at h

theorem step_of_stepStop {cfg : Config} {s s' : St} {l : Lbl}
    (h : (l, s') ∈ stepStop cfg s) : Step cfg s s' := by
  unfold stepStop at h
  cases hp : s.stopPh <;> simp only [hp] at h
  case idle =>
    by_cases he : cfg.extStop = true
    · rw [if_pos he] at h; simp only [List.mem_singleton, Prod.mk.injEq] at h
      exact h.2 ▸ .sBegin hp
    · simp [he] at h
  case begun =>
    by_cases hr : s.cbReg = true
    · rw [if_pos hr] at h; simp only [List.mem_singleton, Prod.mk.injEq] at h
      exact h.2 ▸ .sCasCb hp hr
    · rw [if_neg hr] at h; simp only [List.mem_singleton, Prod.mk.injEq] at h
      exact h.2 ▸ .sCasNo hp (by simpa using hr)
  case cbEnter =>
    by_cases hr : s.refCount = 0
    · rw [if_pos hr] at h; simp only [List.mem_singleton, Prod.mk.injEq] at h
      have := Step.sAddLate (cfg := cfg) hp hr
      exact h.2 ▸ this
    · rw [if_neg hr] at h; simp only [List.mem_singleton, Prod.mk.injEq] at h
      exact h.2 ▸ .sAdd hp hr
  case preOwnStop =>
    by_cases ho : s.ownStop = true
    · rw [if_pos ho] at h; simp only [List.mem_singleton, Prod.mk.injEq] at h
      exact h.2 ▸ .sStopAlready hp ho
    · rw [if_neg ho] at h; simp only [List.mem_singleton, Prod.mk.injEq] at h
      exact h.2 ▸ .sStopFirst hp (by simpa using ho)
  case notifying =>
    have hn : Notifier cfg s (stopTid cfg) := by unfold Notifier; exact Or.inr ⟨hp, rfl⟩
    cases hcur : s.cur with
    | some k =>
      simp only [hcur] at h
      exact step_of_cbBody hn hcur (mem_cbBodySteps h)
    | none =>
      simp only [hcur] at h
      by_cases hg : allGone s = true
      · rw [if_pos hg] at h; simp only [List.mem_singleton, Prod.mk.injEq] at h
        exact h.2 ▸ .sExit hp hcur hg
      · rw [if_neg hg] at h
        obtain ⟨k, ck, hk, h0, e⟩ := mem_takeSteps h
        exact e ▸ .nTake (stopTid cfg) k ck hn hcur hk h0
  case preDec =>
    by_cases hr : s.refCount = 1
    · rw [if_pos hr] at h; simp only [List.mem_singleton, Prod.mk.injEq] at h
      have := Step.sDecLast (cfg := cfg) hp hr
      exact h.2 ▸ this
    · rw [if_neg hr] at h; simp only [List.mem_singleton, Prod.mk.injEq] at h
      exact h.2 ▸ .sDec hp hr
  case dlv1 =>
    simp only [List.mem_singleton, Prod.mk.injEq] at h
    exact h.2 ▸ .sDestruct hp
  case dlv2 =>
    by_cases hk : cfg.checksRecv = true
    · rw [if_pos hk] at h
      by_cases hr : s.recvStop = true
      · rw [if_pos hr] at h; simp only [List.mem_singleton, Prod.mk.injEq] at h
        exact h.2 ▸ .sSigStop hp hk hr
      · rw [if_neg hr] at h; simp only [List.mem_singleton, Prod.mk.injEq] at h
        exact h.2 ▸ .sNoStop hp hk (by simpa using hr)
    · rw [if_neg hk] at h; simp only [List.mem_singleton, Prod.mk.injEq] at h
      exact h.2 ▸ .sSignalR hp (by simpa using hk)
  case dlv3 =>
    simp only [List.mem_singleton, Prod.mk.injEq] at h
    exact h.2 ▸ .sSignal hp
  case cbRet =>
    simp only [List.mem_singleton, Prod.mk.injEq] at h
    exact h.2 ▸ .sCbRet hp
  case ret =>
    simp only [List.mem_singleton, Prod.mk.injEq] at h
    exact h.2 ▸ .sRet hp
  case fin => simp at h

theorem step_of_mem_next {cfg : Config} {s s' : St} {l : Lbl} (h : (l, s') ∈ (sys cfg).next s) :
    Step cfg s s' := by
  rcases mem_next h with ⟨j, _, h⟩ | h
  · exact step_of_stepChild h
  · exact step_of_stepStop h

set_option linter.unusedSimpArgs false

/-- closes the arithmetic of one case of `invA_step` -/
syntax "inva_fin" (term)? : tactic
macro_rules
  | `(tactic| inva_fin $hc) => `(tactic| (
      refine ⟨?_, ?_, ?_, ?_⟩ <;>
      simp only [setCh, signalSt, List.length_set, touch_refCount, touch_zeroed, touch_delivered, touch_stopPh,
        touch_ch, cntP_set $hc, cntD_set $hc,
        pend_run, pend_claimed, pend_preX, pend_preStop, pend_notifying, pend_preDec, pend_dlv1, pend_dlv2, pend_dlv3, pend_fin,
        dlv_run, dlv_claimed, dlv_preX, dlv_preStop, dlv_notifying, dlv_preDec, dlv_dlv1, dlv_dlv2, dlv_dlv3, dlv_fin,
        hold_idle, hold_begun, hold_cbEnter, hold_preOwnStop, hold_notifying, hold_preDec, hold_dlv1, hold_dlv2, hold_dlv3, hold_cbRet, hold_ret, hold_fin,
        early_idle, early_begun, early_cbEnter, early_preOwnStop, early_notifying, early_preDec, early_dlv1, early_dlv2, early_dlv3, early_cbRet, early_ret, early_fin,
        sd_idle, sd_begun, sd_cbEnter, sd_preOwnStop, sd_notifying, sd_preDec, sd_dlv1, sd_dlv2, sd_dlv3, sd_cbRet, sd_ret, sd_fin,
        if_true, if_false, Bool.false_eq_true, false_implies, true_implies, forall_const, reduceCtorEq, and_self, and_true, true_and, false_and, and_false, Nat.le_refl, Nat.zero_le, *] at * <;>
      omega))
  | `(tactic| inva_fin) => `(tactic| (
      refine ⟨?_, ?_, ?_, ?_⟩ <;>
      simp only [setCh, List.length_set, signalSt, touch_refCount, touch_zeroed, touch_delivered, touch_stopPh, touch_ch,
        hold_idle, hold_begun, hold_cbEnter, hold_preOwnStop, hold_notifying, hold_preDec, hold_dlv1, hold_dlv2, hold_dlv3, hold_cbRet, hold_ret, hold_fin,
        early_idle, early_begun, early_cbEnter, early_preOwnStop, early_notifying, early_preDec, early_dlv1, early_dlv2, early_dlv3, early_cbRet, early_ret, early_fin,
        sd_idle, sd_begun, sd_cbEnter, sd_preOwnStop, sd_notifying, sd_preDec, sd_dlv1, sd_dlv2, sd_dlv3, sd_cbRet, sd_ret, sd_fin,
        if_true, if_false, Bool.false_eq_true, false_implies, true_implies, forall_const, reduceCtorEq, and_self, and_true, true_and, false_and, and_false, Nat.le_refl, Nat.zero_le, *] at * <;>
      omega))

theorem invA_step {cfg : Config} {s s' : St} (hi : InvA cfg.n s) (hs : Step cfg s s') :
    InvA cfg.n s' := by
  obtain ⟨hlen, hrc, hz, hone⟩ := hi
  cases hs with
  | cClaim j c o hc hp ho =>
    have h3 := cntP_pos hc (by simp [hp])
    cases hzz : s.zeroed <;> cases he : s.stopPh.early <;> inva_fin hc
  | cDereg j c hc hp hcb =>
    have h3 := cntP_pos hc (by simp [hp])
    cases hzz : s.zeroed <;> cases he : s.stopPh.early <;> inva_fin hc
  | cNoX j c hc hp hv =>
    have h3 := cntP_pos hc (by simp [hp])
    cases hzz : s.zeroed <;> cases he : s.stopPh.early <;> inva_fin hc
  | cXwin j c hc hp hv hd =>
    have h3 := cntP_pos hc (by simp [hp])
    cases hzz : s.zeroed <;> cases he : s.stopPh.early <;> inva_fin hc
  | cStopAlready j c hc hp ho =>
    have h3 := cntP_pos hc (by simp [hp])
    cases hzz : s.zeroed <;> cases he : s.stopPh.early <;> inva_fin hc
  | cStopFirst j c hc hp ho =>
    have h3 := cntP_pos hc (by simp [hp])
    cases hzz : s.zeroed <;> cases he : s.stopPh.early <;> inva_fin hc
  | cExit j c hc hp hcur hg =>
    have h3 := cntP_pos hc (by simp [hp])
    cases hzz : s.zeroed <;> cases he : s.stopPh.early <;> inva_fin hc
  | cDecLast j c hc hp hr =>
    have h3 := cntP_pos hc (by simp [hp])
    cases hzz : s.zeroed <;> cases he : s.stopPh.early <;> inva_fin hc
  | cDec j c hc hp hr =>
    have h3 := cntP_pos hc (by simp [hp])
    cases hzz : s.zeroed <;> cases he : s.stopPh.early <;> inva_fin hc
  | cDestruct j c hc hp hb =>
    have h3 := cntD_pos hc (by simp [hp])
    cases hzz : s.zeroed <;> cases he : s.stopPh.early <;> inva_fin hc
  | cSigStop j c hc hp hk hr =>
    have h3 := cntD_pos hc (by simp [hp])
    cases hzz : s.zeroed <;> cases he : s.stopPh.early <;> inva_fin hc
  | cNoStop j c hc hp hk hr =>
    have h3 := cntD_pos hc (by simp [hp])
    cases hzz : s.zeroed <;> cases he : s.stopPh.early <;> inva_fin hc
  | cSignalR j c hc hp hk =>
    have h3 := cntD_pos hc (by simp [hp])
    cases hzz : s.zeroed <;> cases he : s.stopPh.early <;> inva_fin hc
  | cSignal j c hc hp =>
    have h3 := cntD_pos hc (by simp [hp])
    cases hzz : s.zeroed <;> cases he : s.stopPh.early <;> inva_fin hc
  | nTake t k ck hn hcur hk h0 =>
    have e1 := cntP_set_same (c' := { ck with cbst := 1, notified := true }) hk rfl
    have e2 := cntD_set_same (c' := { ck with cbst := 1, notified := true }) hk rfl
    cases hzz : s.zeroed <;> cases he : s.stopPh.early <;> inva_fin
  | nClaim t k ck hn hcur hk h1 hr =>
    have h3 := cntP_pos hk (by simp [hr])
    cases hzz : s.zeroed <;> cases he : s.stopPh.early <;> inva_fin hk
  | nRet t k ck hn hcur hk h1 =>
    have e1 := cntP_set_same (c' := { ck with cbst := 2 }) hk rfl
    have e2 := cntD_set_same (c' := { ck with cbst := 2 }) hk rfl
    cases hzz : s.zeroed <;> cases he : s.stopPh.early <;> inva_fin
  | nRetNested t k ck hn hcur hk h1 hf => cases hzz : s.zeroed <;> cases he : s.stopPh.early <;> inva_fin
  | sBegin hp => cases hzz : s.zeroed <;> cases he : s.stopPh.early <;> inva_fin
  | sCasCb hp hr => cases hzz : s.zeroed <;> cases he : s.stopPh.early <;> inva_fin
  | sCasNo hp hr => cases hzz : s.zeroed <;> cases he : s.stopPh.early <;> inva_fin
  | sAddLate hp hr => cases hzz : s.zeroed <;> cases he : s.stopPh.early <;> inva_fin
  | sAdd hp hr => cases hzz : s.zeroed <;> cases he : s.stopPh.early <;> inva_fin
  | sStopAlready hp ho => cases hzz : s.zeroed <;> cases he : s.stopPh.early <;> inva_fin
  | sStopFirst hp ho => cases hzz : s.zeroed <;> cases he : s.stopPh.early <;> inva_fin
  | sExit hp hcur hg => cases hzz : s.zeroed <;> cases he : s.stopPh.early <;> inva_fin
  | sDecLast hp hr => cases hzz : s.zeroed <;> cases he : s.stopPh.early <;> inva_fin
  | sDec hp hr => cases hzz : s.zeroed <;> cases he : s.stopPh.early <;> inva_fin
  | sDestruct hp => cases hzz : s.zeroed <;> cases he : s.stopPh.early <;> inva_fin
  | sSigStop hp hk hr => cases hzz : s.zeroed <;> cases he : s.stopPh.early <;> inva_fin
  | sNoStop hp hk hr => cases hzz : s.zeroed <;> cases he : s.stopPh.early <;> inva_fin
  | sSignalR hp hk => cases hzz : s.zeroed <;> cases he : s.stopPh.early <;> inva_fin
  | sSignal hp => cases hzz : s.zeroed <;> cases he : s.stopPh.early <;> inva_fin
  | sCbRet hp => cases hzz : s.zeroed <;> cases he : s.stopPh.early <;> inva_fin
  | sRet hp => cases hzz : s.zeroed <;> cases he : s.stopPh.early <;> inva_fin

theorem invA {cfg : Config} (hn : 0 < cfg.n) {s : St} (h : Reach (sys cfg) s) : InvA cfg.n s :=
  invariant (InvA cfg.n) (invA_init cfg hn) (fun _ _ _ hi hm => invA_step hi (step_of_mem_next hm)) h

end Unifex.Proto.WhenAll
