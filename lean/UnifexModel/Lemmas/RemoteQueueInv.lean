/-
  Lemmas/RemoteQueueInv.lean — the inductive invariant of Proto/RemoteQueue.lean, for EVERY
  configuration (any number of producers, any quotas), proved by cases on the step.
  The property theorems derived from it are in Props/C14.lean.
-/
import UnifexModel.Proto.RemoteQueue

namespace Unifex.Proto.RemoteQueue
open Unifex.Core

/-- items of a producer whose enqueue CAS has happened -/
def cnt (x : Prod) : Nat := if x.pc = 2 ∨ x.pc = 3 then x.k + 1 else x.k

/-- Layer A: the wake-up protocol (queue word, eventfd counter, remoteQueueReadSubmitted_). -/
def InvA (cfg : Config) (s : St) : Prop :=
  s.prods.length = nprod cfg ∧
  (∀ p, p < nprod cfg → (getP s p).pc ≤ 3) ∧
  (s.batch ≠ [] → s.lpc = 5) ∧
  (s.lpc = 10 → s.rs = true) ∧
  ((s.lpc = 7 ∨ s.lpc = 8 ∨ s.lpc = 9) → s.rs = false) ∧
  (s.lpc = 9 → s.rq ≠ []) ∧
  (s.lpc = 11 → s.efd ≥ 1 ∧ s.rs = true) ∧
  (s.inactive = true → s.rq = [] ∧ s.rs = true ∧ s.efd = 0 ∧ s.sigBy = 0 ∧ s.lpc ≠ 7 ∧ s.lpc ≠ 8 ∧ s.lpc ≠ 9 ∧ s.lpc ≠ 11) ∧
  (s.inactive = false → s.rs = true → s.efd + (if s.sigBy = 0 then 0 else 1) = 1) ∧
  (s.rs = false → s.efd = 0 ∧ s.sigBy = 0 ∧ s.inactive = false) ∧
  s.sigBy ≤ nprod cfg + 2 ∧
  (∀ p, p < nprod cfg → ((getP s p).pc = 2 ↔ s.sigBy = p + 3)) ∧
  (s.spc = 3 ↔ s.sigBy = 1) ∧
  (s.lpc = 3 ↔ s.sigBy = 2) ∧
  s.marks = s.writes + (if s.sigBy = 0 then 0 else 1) + (if s.inactive = true then 1 else 0) ∧
  s.writes = s.reads + s.efd

/-- Layer B: conservation and order. -/
def InvB (s : St) : Prop := s.ran ++ pending s = s.enq

/-- Layer C: the stop request. -/
def InvC (cfg : Config) (s : St) : Prop :=
  (s.spc = 2 → s.cbReg = true ∧ s.stopEnq = false) ∧
  (s.lpc = 2 → s.cbReg = false ∧ s.stopEnq = false ∧ s.stopReq = true) ∧
  (s.cbReg = true → s.lpc ≥ 4) ∧
  (s.stopReq = true ↔ s.spc ≥ 2) ∧
  (s.spc ≥ 3 → s.stopEnq = true ∨ (s.cbReg = false ∧ s.lpc ≤ 2)) ∧
  (s.lpc ≥ 3 → s.cbReg = true ∨ s.stopEnq = true) ∧
  (s.stopFlag = true ↔ stopItem cfg ∈ s.ran) ∧
  (s.stopFlag = true → s.lpc = 5 ∨ s.lpc = 6 ∨ s.lpc = 12 ∨ s.lpc = 13) ∧
  (s.lpc ≥ 12 → s.stopFlag = true) ∧
  (s.stopEnq = true → s.stopReq = true) ∧
  (s.stopEnq = true → s.cbReg = true ∨ s.lpc ≥ 3) ∧
  s.spc ≤ 5 ∧ s.lpc ≤ 13

/-- Layer D: which items are in the enqueue history. -/
def InvD (cfg : Config) (s : St) : Prop :=
  s.enq.Nodup ∧
  (∀ it, it ∈ s.enq → (it.1 < nprod cfg ∧ it.2 < cnt (getP s it.1)) ∨ (it = stopItem cfg ∧ s.stopEnq = true)) ∧
  (∀ p, p < nprod cfg → ∀ j, j < cnt (getP s p) → (p, j) ∈ s.enq) ∧
  (s.stopEnq = true → stopItem cfg ∈ s.enq) ∧
  (∀ p, p < nprod cfg → (getP s p).k + (if (getP s p).pc = 0 then 0 else 1) ≤ quotaOf cfg p)

/-- Layer E: when stop is requested only after the producers returned, the stop operation is the
    last item ever enqueued. -/
def InvE (cfg : Config) (s : St) : Prop :=
  cfg.early = false →
    (s.spc ≥ 1 → allProdsDone cfg s = true) ∧
    (s.stopEnq = true → s.enq.getLast? = some (stopItem cfg))

instance (cfg : Config) (s : St) : Decidable (InvA cfg s) := by unfold InvA; exact inferInstance
instance (s : St) : Decidable (InvB s) := by unfold InvB; exact inferInstance
instance (cfg : Config) (s : St) : Decidable (InvC cfg s) := by unfold InvC; exact inferInstance
instance (cfg : Config) (s : St) : Decidable (InvD cfg s) := by unfold InvD; exact inferInstance
instance (cfg : Config) (s : St) : Decidable (InvE cfg s) := by unfold InvE; exact inferInstance

end Unifex.Proto.RemoteQueue
