/-
  Lemmas/WhenAllInvC.lean — layers C and D of the when_all invariants: no access to the operation state
  after the receiver was signalled (`bad = 0`), and propagation of stop requests to the children.
-/
import UnifexModel.Lemmas.WhenAllInvB
set_option linter.unusedSimpArgs false
namespace Unifex.Proto.WhenAll
open Unifex.Core

/-! ### layer C: nothing touches the operation state after the completion signal -/

theorem undelivered_of_pend {n : Nat} {s : St} (ha : InvA n s) {j : Nat} {c : Child}
    (hc : s.ch[j]? = some c) (hp : c.ph.pend = true) : s.delivered = 0 := by
  obtain ⟨_, hrc, hz, hone⟩ := ha
  have := cntP_pos hc hp
  cases hzz : s.zeroed <;> simp [hzz] at hz hone <;> omega

theorem undelivered_of_dlv {n : Nat} {s : St} (ha : InvA n s) {j : Nat} {c : Child}
    (hc : s.ch[j]? = some c) (hp : c.ph.dlv = true) : s.delivered = 0 := by
  obtain ⟨_, hrc, hz, hone⟩ := ha
  have := cntD_pos hc hp
  cases hzz : s.zeroed <;> simp [hzz] at hz hone <;> omega

theorem undelivered_of_hold {n : Nat} {s : St} (ha : InvA n s) (hp : s.stopPh.hold = 1) : s.delivered = 0 := by
  obtain ⟨_, hrc, hz, hone⟩ := ha
  cases hzz : s.zeroed <;> simp [hzz] at hz hone <;> omega

theorem undelivered_of_sd {n : Nat} {s : St} (ha : InvA n s) (hp : s.stopPh.sd = 1) : s.delivered = 0 := by
  obtain ⟨_, hrc, hz, hone⟩ := ha
  cases hzz : s.zeroed <;> simp [hzz] at hz hone <;> omega

theorem undelivered_of_needsReg {cfg : Config} {s : St} (hb : InvB cfg s) (hp : s.stopPh.needsReg = true) :
    s.delivered = 0 := by
  have h1 := hb.ce hp
  have h2 := hb.nd
  cases hd : s.delivered with
  | zero => rfl
  | succ k => simp [hd, h1] at h2

theorem bad_step {cfg : Config} {s s' : St} (ha : InvA cfg.n s) (hb : InvB cfg s) (h0 : s.bad = 0)
    (hs : Step cfg s s') : s'.bad = 0 := by
  cases hs with
  | cClaim j c o hc hp ho => exact h0
  | cDereg j c hc hp hcb => exact h0
  | cNoX j c hc hp hv =>
    simp only [setCh]; rw [touch_bad_of_undelivered _ (undelivered_of_pend ha hc (by simp [hp]))]; exact h0
  | cXwin j c hc hp hv hd =>
    simp only [setCh]; rw [touch_bad_of_undelivered _ (undelivered_of_pend ha hc (by simp [hp]))]; exact h0
  | cStopAlready j c hc hp ho =>
    simp only [setCh]; rw [touch_bad_of_undelivered _ (undelivered_of_pend ha hc (by simp [hp]))]; exact h0
  | cStopFirst j c hc hp ho =>
    simp only [setCh]; rw [touch_bad_of_undelivered _ (undelivered_of_pend ha hc (by simp [hp]))]; exact h0
  | cExit j c hc hp hcur hg =>
    simp only [setCh]; rw [touch_bad_of_undelivered _ (undelivered_of_pend ha hc (by simp [hp]))]; exact h0
  | cDecLast j c hc hp hr =>
    simp only [setCh]; rw [touch_bad_of_undelivered _ (undelivered_of_pend ha hc (by simp [hp]))]; exact h0
  | cDec j c hc hp hr =>
    simp only [setCh]; rw [touch_bad_of_undelivered _ (undelivered_of_pend ha hc (by simp [hp]))]; exact h0
  | cDestruct j c hc hp hb' =>
    simp only [setCh]; rw [touch_bad_of_undelivered _ (undelivered_of_dlv ha hc (by simp [hp]))]; exact h0
  | cSigStop j c hc hp hk hr =>
    simp only [setCh, signalSt]; rw [touch_bad_of_undelivered _ (undelivered_of_dlv ha hc (by simp [hp]))]; exact h0
  | cNoStop j c hc hp hk hr =>
    simp only [setCh]; rw [touch_bad_of_undelivered _ (undelivered_of_dlv ha hc (by simp [hp]))]; exact h0
  | cSignalR j c hc hp hk =>
    simp only [setCh, signalSt]; rw [touch_bad_of_undelivered _ (undelivered_of_dlv ha hc (by simp [hp]))]; exact h0
  | cSignal j c hc hp =>
    simp only [setCh, signalSt]; rw [touch_bad_of_undelivered _ (undelivered_of_dlv ha hc (by simp [hp]))]; exact h0
  | nTake t k ck hn hcur hk h0' => exact h0
  | nClaim t k ck hn hcur hk h1 hr => exact h0
  | nRet t k ck hn hcur hk h1 => exact h0
  | nRetNested t k ck hn hcur hk h1 hf => exact h0
  | sBegin hp => exact h0
  | sCasCb hp hr => exact h0
  | sCasNo hp hr => exact h0
  | sAddLate hp hr =>
    show (touch s).bad = 0
    rw [touch_bad_of_undelivered _ (undelivered_of_needsReg hb (by simp [hp]))]; exact h0
  | sAdd hp hr =>
    show (touch s).bad = 0
    rw [touch_bad_of_undelivered _ (undelivered_of_needsReg hb (by simp [hp]))]; exact h0
  | sStopAlready hp ho =>
    show (touch s).bad = 0
    rw [touch_bad_of_undelivered _ (undelivered_of_hold ha (by simp [hp]))]; exact h0
  | sStopFirst hp ho =>
    show (touch s).bad = 0
    rw [touch_bad_of_undelivered _ (undelivered_of_hold ha (by simp [hp]))]; exact h0
  | sExit hp hcur hg =>
    show (touch s).bad = 0
    rw [touch_bad_of_undelivered _ (undelivered_of_hold ha (by simp [hp]))]; exact h0
  | sDecLast hp hr =>
    show (touch s).bad = 0
    rw [touch_bad_of_undelivered _ (undelivered_of_hold ha (by simp [hp]))]; exact h0
  | sDec hp hr =>
    show (touch s).bad = 0
    rw [touch_bad_of_undelivered _ (undelivered_of_hold ha (by simp [hp]))]; exact h0
  | sDestruct hp =>
    show (touch s).bad = 0
    rw [touch_bad_of_undelivered _ (undelivered_of_sd ha (by simp [hp]))]; exact h0
  | sSigStop hp hk hr =>
    show (touch s).bad = 0
    rw [touch_bad_of_undelivered _ (undelivered_of_sd ha (by simp [hp]))]; exact h0
  | sNoStop hp hk hr =>
    show (touch s).bad = 0
    rw [touch_bad_of_undelivered _ (undelivered_of_sd ha (by simp [hp]))]; exact h0
  | sSignalR hp hk =>
    show (touch s).bad = 0
    rw [touch_bad_of_undelivered _ (undelivered_of_sd ha (by simp [hp]))]; exact h0
  | sSignal hp =>
    show (touch s).bad = 0
    rw [touch_bad_of_undelivered _ (undelivered_of_sd ha (by simp [hp]))]; exact h0
  | sCbRet hp => exact h0
  | sRet hp => exact h0

/-! ### layer D: stop requests reach the children -/

/-- the stop callback is past its call of `stopSource_.request_stop()` -/
def SPh.pastOwn : SPh → Bool
  | .notifying | .preDec | .dlv1 | .dlv2 | .dlv3 => true
  | _ => false

/-- the stop callback has returned (or was never invoked because it was no longer registered) -/
def SPh.after : SPh → Bool
  | .cbRet | .ret | .fin => true
  | _ => false

@[simp, grind =] theorem pastOwn_idle : SPh.pastOwn .idle = false := rfl
@[simp, grind =] theorem pastOwn_begun : SPh.pastOwn .begun = false := rfl
@[simp, grind =] theorem pastOwn_cbEnter : SPh.pastOwn .cbEnter = false := rfl
@[simp, grind =] theorem pastOwn_preOwnStop : SPh.pastOwn .preOwnStop = false := rfl
@[simp, grind =] theorem pastOwn_notifying : SPh.pastOwn .notifying = true := rfl
@[simp, grind =] theorem pastOwn_preDec : SPh.pastOwn .preDec = true := rfl
@[simp, grind =] theorem pastOwn_dlv1 : SPh.pastOwn .dlv1 = true := rfl
@[simp, grind =] theorem pastOwn_dlv2 : SPh.pastOwn .dlv2 = true := rfl
@[simp, grind =] theorem pastOwn_cbRet : SPh.pastOwn .cbRet = false := rfl
@[simp, grind =] theorem pastOwn_ret : SPh.pastOwn .ret = false := rfl
@[simp, grind =] theorem pastOwn_fin : SPh.pastOwn .fin = false := rfl
@[simp, grind =] theorem pastOwn_dlv3 : SPh.pastOwn .dlv3 = true := rfl
@[simp, grind =] theorem after_dlv3 : SPh.after .dlv3 = false := rfl
@[simp, grind =] theorem after_idle : SPh.after .idle = false := rfl
@[simp, grind =] theorem after_begun : SPh.after .begun = false := rfl
@[simp, grind =] theorem after_cbEnter : SPh.after .cbEnter = false := rfl
@[simp, grind =] theorem after_preOwnStop : SPh.after .preOwnStop = false := rfl
@[simp, grind =] theorem after_notifying : SPh.after .notifying = false := rfl
@[simp, grind =] theorem after_preDec : SPh.after .preDec = false := rfl
@[simp, grind =] theorem after_dlv1 : SPh.after .dlv1 = false := rfl
@[simp, grind =] theorem after_dlv2 : SPh.after .dlv2 = false := rfl
@[simp, grind =] theorem after_cbRet : SPh.after .cbRet = true := rfl
@[simp, grind =] theorem after_ret : SPh.after .ret = true := rfl
@[simp, grind =] theorem after_fin : SPh.after .fin = true := rfl

@[simp, grind =] theorem pastStop_run : CPh.pastStop .run = false := rfl
@[simp, grind =] theorem pastStop_claimed : CPh.pastStop .claimed = false := rfl
@[simp, grind =] theorem pastStop_preX : CPh.pastStop .preX = false := rfl
@[simp, grind =] theorem pastStop_preStop : CPh.pastStop .preStop = false := rfl
@[simp, grind =] theorem pastStop_notifying : CPh.pastStop .notifying = false := rfl
@[simp, grind =] theorem pastStop_preDec : CPh.pastStop .preDec = true := rfl
@[simp, grind =] theorem pastStop_dlv1 : CPh.pastStop .dlv1 = true := rfl
@[simp, grind =] theorem pastStop_dlv2 : CPh.pastStop .dlv2 = true := rfl
@[simp, grind =] theorem pastStop_fin : CPh.pastStop .fin = true := rfl
@[simp, grind =] theorem pastStop_dlv3 : CPh.pastStop .dlv3 = true := rfl

/-- the child has done its exchange on `doneOrError_` (or did not need one) -/
def CPh.pastX : CPh → Bool
  | .run | .claimed | .preX => false
  | _ => true

@[simp, grind =] theorem pastX_run : CPh.pastX .run = false := rfl
@[simp, grind =] theorem pastX_claimed : CPh.pastX .claimed = false := rfl
@[simp, grind =] theorem pastX_preX : CPh.pastX .preX = false := rfl
@[simp, grind =] theorem pastX_preStop : CPh.pastX .preStop = true := rfl
@[simp, grind =] theorem pastX_notifying : CPh.pastX .notifying = true := rfl
@[simp, grind =] theorem pastX_preDec : CPh.pastX .preDec = true := rfl
@[simp, grind =] theorem pastX_dlv1 : CPh.pastX .dlv1 = true := rfl
@[simp, grind =] theorem pastX_dlv2 : CPh.pastX .dlv2 = true := rfl
@[simp, grind =] theorem pastX_fin : CPh.pastX .fin = true := rfl
@[simp, grind =] theorem pastX_dlv3 : CPh.pastX .dlv3 = true := rfl

structure InvD (cfg : Config) (s : St) : Prop where
  /-- the winner of the `doneOrError_` exchange failed, and once it is past its
      `stopSource_.request_stop()` call the operation's stop source has been requested -/
  ff : ∀ k c, s.firstFail = some k → s.ch[k]? = some c →
    c.out ≠ .value ∧ c.ph.pastX = true ∧ (c.ph.pastStop = true → s.ownStop = true)
  ffk : ∀ k, s.firstFail = some k → k < s.ch.length
  doeff : s.doe = false → s.firstFail = none
  winner : s.doe = true → s.firstFail ≠ none
  osn : ∀ c ∈ s.ch, c.ph = .notifying → s.ownStop = true
  nd2 : s.notifyDone = true → (∀ c ∈ s.ch, c.cbst ≠ 0) ∧ s.ownStop = true
  gone : ∀ c ∈ s.ch, c.cbst ≠ 0 → c.ph = .run → c.notified = true
  es1 : s.stopPh.pastOwn = true → s.ownStop = true
  es2 : s.stopPh.after = true → s.ownStop = true ∨ s.zeroed = true

theorem allGone_spec {s : St} (h : allGone s = true) : ∀ c ∈ s.ch, c.cbst ≠ 0 := by
  intro c hc
  have := List.all_eq_true.mp h c hc
  simpa using this

syntax "invd_simp" : tactic
macro_rules
  | `(tactic| invd_simp) => `(tactic|
      simp only [setCh, signalSt, touch_refCount, touch_zeroed, touch_delivered, touch_stopPh, touch_ch,
        touch_cbReg, touch_cbRunning, touch_cur, touch_dlvBy, touch_ownStop, touch_firstFail, touch_doe,
        touch_notifyDone, List.length_set])

syntax "invd_mem" : tactic
macro_rules
  | `(tactic| invd_mem) => `(tactic| (
      invd_simp
      first
      | assumption
      | (intro x hx; rcases mem_set_cases hx with h | h <;> grind)
      | grind))

syntax "invd_idx" : tactic
macro_rules
  | `(tactic| invd_idx) => `(tactic| (
      invd_simp
      first
      | assumption
      | (intro i x hff hx; rcases get_set_cases hx with ⟨h1, h2⟩ | ⟨h1, h2⟩ <;> grind)
      | grind))

syntax "invd_nd2" : tactic
macro_rules
  | `(tactic| invd_nd2) => `(tactic| (
      invd_simp
      first
      | assumption
      | (intro hnd; refine ⟨?_, ?_⟩
         · intro x hx; rcases mem_set_cases hx with h | h <;> grind
         · grind)
      | grind))

syntax "invd_plain" : tactic
macro_rules
  | `(tactic| invd_plain) => `(tactic| (
      invd_simp
      first
      | assumption
      | grind))

syntax "invd_fin" : tactic
macro_rules
  | `(tactic| invd_fin) => `(tactic| (
      refine ⟨?_, ?_, ?_, ?_, ?_, ?_, ?_, ?_, ?_⟩
      · invd_idx
      · invd_plain
      · invd_plain
      · invd_plain
      · invd_mem
      · invd_nd2
      · invd_mem
      · invd_plain
      · invd_plain))

theorem invD_step {cfg : Config} {s s' : St} (ha : InvA cfg.n s) (hb : InvB cfg s) (hd : InvD cfg s)
    (hs : Step cfg s s') : InvD cfg s' := by
  have hrz := hb.rz
  obtain ⟨hlen, hrc, hz, hone⟩ := ha
  obtain ⟨ff, ffk, doeff, winner, osn, nd2, gone, es1, es2⟩ := hd
  cases hs with
  | cClaim j c o hc hp ho =>
    have hm := mem_of_get hc
    have hj := (get_of_some hc).1
    invd_fin
  | cDereg j c hc hp hcb =>
    have hm := mem_of_get hc
    have hj := (get_of_some hc).1
    invd_fin
  | cNoX j c hc hp hv =>
    have hm := mem_of_get hc
    have hj := (get_of_some hc).1
    invd_fin
  | cXwin j c hc hp hv hd =>
    have hm := mem_of_get hc
    have hj := (get_of_some hc).1
    invd_fin
  | cStopAlready j c hc hp ho =>
    have hm := mem_of_get hc
    have hj := (get_of_some hc).1
    invd_fin
  | cStopFirst j c hc hp ho =>
    have hm := mem_of_get hc
    have hj := (get_of_some hc).1
    invd_fin
  | cExit j c hc hp hcur hg =>
    have hm := mem_of_get hc
    have hj := (get_of_some hc).1
    have hag := allGone_spec hg
    invd_fin
  | cDecLast j c hc hp hr =>
    have hm := mem_of_get hc
    have hj := (get_of_some hc).1
    invd_fin
  | cDec j c hc hp hr =>
    have hm := mem_of_get hc
    have hj := (get_of_some hc).1
    invd_fin
  | cDestruct j c hc hp hb =>
    have hm := mem_of_get hc
    have hj := (get_of_some hc).1
    invd_fin
  | cSigStop j c hc hp hk hr =>
    have hm := mem_of_get hc
    have hj := (get_of_some hc).1
    invd_fin
  | cNoStop j c hc hp hk hr =>
    have hm := mem_of_get hc
    have hj := (get_of_some hc).1
    invd_fin
  | cSignalR j c hc hp hk =>
    have hm := mem_of_get hc
    have hj := (get_of_some hc).1
    invd_fin
  | cSignal j c hc hp =>
    have hm := mem_of_get hc
    have hj := (get_of_some hc).1
    invd_fin
  | nTake t k ck hn hcur hk h0 =>
    have hm := mem_of_get hk
    have hj := (get_of_some hk).1
    invd_fin
  | nClaim t k ck hn hcur hk h1 hr =>
    have hm := mem_of_get hk
    have hj := (get_of_some hk).1
    invd_fin
  | nRet t k ck hn hcur hk h1 =>
    have hm := mem_of_get hk
    have hj := (get_of_some hk).1
    invd_fin
  | nRetNested t k ck hn hcur hk h1 hf => invd_fin
  | sBegin hp => invd_fin
  | sCasCb hp hr => invd_fin
  | sCasNo hp hr => invd_fin
  | sAddLate hp hr => invd_fin
  | sAdd hp hr => invd_fin
  | sStopAlready hp ho => invd_fin
  | sStopFirst hp ho => invd_fin
  | sExit hp hcur hg =>
    have hag := allGone_spec hg
    invd_fin
  | sDecLast hp hr => invd_fin
  | sDec hp hr => invd_fin
  | sDestruct hp => invd_fin
  | sSigStop hp hk hr => invd_fin
  | sNoStop hp hk hr => invd_fin
  | sSignalR hp hk => invd_fin
  | sSignal hp => invd_fin
  | sCbRet hp => invd_fin
  | sRet hp => invd_fin


theorem invD_init (cfg : Config) : InvD cfg (init cfg) := by
  refine ⟨by simp [init], by simp [init], by simp [init], by simp [init], ?_, by simp [init], ?_, by simp [init],
    by simp [init]⟩
  · intro c hc hp
    rw [mem_replicate_init hc] at hp
    simp [Child.init] at hp
  · intro c hc h0
    rw [mem_replicate_init hc] at h0
    simp [Child.init] at h0

/-- all layers together -/
structure Inv (cfg : Config) (s : St) : Prop where
  a : InvA cfg.n s
  b : InvB cfg s
  c : s.bad = 0
  d : InvD cfg s

theorem inv_reach {cfg : Config} (hn : 0 < cfg.n) {s : St} (h : Reach (sys cfg) s) : Inv cfg s :=
  invariant (Inv cfg) ⟨invA_init cfg hn, invB_init cfg, rfl, invD_init cfg⟩
    (fun _ _ _ hi hm =>
      have hs := step_of_mem_next hm
      ⟨invA_step hi.a hs, invB_step hi.a hi.b hs, bad_step hi.a hi.b hi.c hs, invD_step hi.a hi.b hi.d hs⟩) h

/-! ### consequences used by the property theorems -/

theorem fin_of_not_pend_dlv {c : Child} (h1 : c.ph.pend = false) (h2 : c.ph.dlv = false) : c.ph = .fin := by
  cases hp : c.ph <;> simp_all

theorem all_fin_of_delivered {cfg : Config} {s : St} (hi : Inv cfg s) (hd : s.delivered = 1) :
    ∀ c ∈ s.ch, c.ph = .fin := by
  obtain ⟨_, hrc, hz, hone⟩ := hi.a
  intro c hc
  cases hzz : s.zeroed
  · simp [hzz] at hone; omega
  · simp only [hzz, if_true] at hone
    have hP := (hz hzz).1
    have hD : cntD s.ch = 0 := by omega
    have h1 := (List.countP_eq_zero.mp hP) c hc
    have h2 := (List.countP_eq_zero.mp hD) c hc
    exact fin_of_not_pend_dlv (by simpa using h1) (by simpa using h2)

theorem cntP_zero_of_all_fin {ch : List Child} (h : ∀ c ∈ ch, c.ph = .fin) : cntP ch = 0 := by
  unfold cntP
  rw [List.countP_eq_zero]
  intro c hc
  simp [h c hc]

theorem cntD_zero_of_all_fin {ch : List Child} (h : ∀ c ∈ ch, c.ph = .fin) : cntD ch = 0 := by
  unfold cntD
  rw [List.countP_eq_zero]
  intro c hc
  simp [h c hc]

theorem delivered_of_all_fin {cfg : Config} {s : St} (hi : Inv cfg s) (h : ∀ c ∈ s.ch, c.ph = .fin)
    (hh : s.stopPh.hold = 0) (hs : s.stopPh.sd = 0) : s.delivered = 1 := by
  obtain ⟨_, hrc, hz, hone⟩ := hi.a
  have hP := cntP_zero_of_all_fin h
  have hD := cntD_zero_of_all_fin h
  cases hzz : s.zeroed
  · have := hrc hzz
    omega
  · simp only [hzz, if_true] at hone
    omega

theorem not_run_of_zeroed {cfg : Config} {s : St} (hi : Inv cfg s) (hz : s.zeroed = true) :
    ∀ c ∈ s.ch, c.ph ≠ .run := by
  intro c hc hr
  have hP := (hi.a.z hz).1
  have h1 := (List.countP_eq_zero.mp hP) c hc
  simp [hr] at h1

end Unifex.Proto.WhenAll
